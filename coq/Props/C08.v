(* C08 — no input crashes the tool (partial). Pinned statements only.
   Each `Panic site` constructor of the model stands for an unreachable!()/unwrap()/index expression of the source.
   Proved: the invariants that guard the modelled sites. NOT proved: absence of panics in the unmodelled code (the nom
   parser as a whole, libyaml, serde, clap, the console reporters), stack depth and termination in general - these are
   searched for by fuzzing (tools/gv/props/c08.py) and watched by the panic-site inventory. *)
From GV.Model Require Import SEval Check Strat.
From GV.Proofs Require Import NoPanicProps ValueInv.

Theorem C08_match_value_no_panic : forall cmpf l r site,
  (forall s, cmpf l r <> Panic s) -> match_value cmpf l r <> Panic site.
Proof. exact match_value_no_panic. Qed.
Print Assumptions C08_match_value_no_panic.

Theorem C08_ordering_kernels_total : forall f a b,
  (exists x, cmp_with f a b = Done x) \/ cmp_with f a b = Err ENotComparable.
Proof. exact cmp_with_total. Qed.
Print Assumptions C08_ordering_kernels_total.

(* `Status::SKIP => unreachable!()` in the all/some aggregation: per-value statuses are PASS or FAIL *)
Theorem C08_no_skip_among_values : forall c custom l,
  has_status SKIP (map (fun t : clause_check * qres * status => let '(cc, v, st) := t in (v, st))
                       (flat_map (report_binary c custom) l)) = false.
Proof. exact no_skip_among_values. Qed.
Print Assumptions C08_no_skip_among_values.

Theorem C08_unary_operator_has_operation : forall o, is_unary o = true -> exists base, unary_base o = Some base.
Proof. exact unary_operator_has_operation. Qed.
Print Assumptions C08_unary_operator_has_operation.

(* negating an `in` result: the ListIn arm always finds a list *)
Theorem C08_contained_in_wf : forall re l r e, contained_in re l r = Done e -> wf_result e.
Proof. exact contained_in_wf. Qed.
Print Assumptions C08_contained_in_wf.

Theorem C08_negate_result_no_panic : forall re o n m e,
  wf_result e -> (forall l1 l2 s, not_contained re l1 l2 <> Panic s) ->
  forall site, negate_result re o n m e <> Panic site.
Proof. exact negate_result_no_panic. Qed.
Print Assumptions C08_negate_result_no_panic.

(* built-in functions: with the arity the parser enforces, no modelled function panics (argument indexing and
   substring slicing were panics at the pinned commit; fixed in /repo) *)
Theorem C08_modelled_functions_never_panic : forall name args s,
  List.length args = fn_arity name -> call_fn name args <> Panic s.
Proof. exact modelled_functions_never_panic. Qed.
Print Assumptions C08_modelled_functions_never_panic.

Theorem C08_abs_index_total : forall i, exists n, abs_index i = Done n.
Proof. exact abs_index_total. Qed.
Print Assumptions C08_abs_index_total.

(* NOT guarded (recorded findings): reference cycles need unbounded fuel - the implementation overflows its stack *)
Theorem C08_reference_cycles_diverge_witness :
  Forall (fun fuel => eval_file (fun _ _ => ReUnknownPair) (fun _ _ => None) cyc_rule fuel tiny_doc = OutOfFuel
                   /\ eval_file (fun _ _ => ReUnknownPair) (fun _ _ => None) cyc_vars fuel tiny_doc = OutOfFuel)
         [1; 2; 3; 10; 50; 200]%nat.
Proof. exact reference_cycles_diverge_witness. Qed.
Print Assumptions C08_reference_cycles_diverge_witness.
(* ---- termination (TermProps.v): the recursion of the evaluator is bounded by the program, never by the document.
   A program is stratified by potentials (wv for variable names, wr for rule names) when every definition weighs less
   than the name it defines; then every query, clause, rule, variable and function call evaluated with fuel >= its
   weight + the height of the scope stack answers something other than OutOfFuel, for every document and oracle. *)
From GV.Model Require Import Strat.
From GV.Proofs Require Import TermProps RefineExample.
Theorem C08_every_entry_point_terminates : forall wv wr re conv prog, stratified wv wr prog = true ->
  forall n, Good wv wr (evalN re conv prog (S n)) n.
Proof. exact evalN_good. Qed.
Print Assumptions C08_every_entry_point_terminates.
Theorem C08_stratified_programs_terminate : forall wv wr re conv prog, stratified wv wr prog = true ->
  forall fuel doc, (file_weight wv wr prog <= fuel)%nat ->
  eval_file re conv prog fuel doc <> OutOfFuel /\
  forall m, (fuel <= m)%nat -> eval_file re conv prog m doc = eval_file re conv prog fuel doc.
Proof. exact eval_file_total. Qed.
Print Assumptions C08_stratified_programs_terminate.
(* the executable test evaluated on every generated program of the correspondence run is sound *)
Theorem C08_terminates_within_sound : forall re conv prog rounds w doc fuel,
  terminates_within prog rounds = Some w -> (w <= fuel)%nat ->
  eval_file re conv prog fuel doc <> OutOfFuel /\
  forall m, (fuel <= m)%nat -> eval_file re conv prog m doc = eval_file re conv prog fuel doc.
Proof. exact terminates_within_sound. Qed.
Print Assumptions C08_terminates_within_sound.
(* the value layer (comparisons, operators.rs, built-in functions) has no recursion on fuel at all *)
Theorem C08_value_layer_is_total : forall re c lhs rhs name args,
  cmp_compare re c lhs rhs <> OutOfFuel /\ call_fn name args <> OutOfFuel.
Proof. exact value_layer_total. Qed.
Print Assumptions C08_value_layer_is_total.
(* not vacuous: the example program of RefineExample (variables, a filter, when, a rule reference) is certified, the
   cyclic programs of the recorded finding are not *)
Theorem C08_termination_instance :
  terminates_within ex_prog 5 = Some 314%nat /\ terminates_within cyc_rule 5 = None /\ terminates_within cyc_vars 8 = None.
Proof. exact termination_instance. Qed.
Print Assumptions C08_termination_instance.
(* ---- no panic site is reached (PanicProps.v): for a parser-shaped program (Strat.pwf_prog: no query starts with a filter,
   the query of a clause is not empty, a `keys` filter compares with a binary operator, every function call has the arity of
   its function - evaluated on every AST the implementation parses by the correspondence run), every document, every oracle
   and every fuel, the evaluation of the file answers no `Panic p`, the site guarded by an invariant of the value excepted. *)
From GV.Proofs Require Import PanicPure PanicProps.
From GV.Model Require Import ValueParse FullParse.
From GV.Proofs Require Import FullParseProps.
Theorem C08_no_panic_site_is_reached : forall re conv prog, pwf_prog prog = true ->
  forall fuel doc p, eval_file re conv prog fuel doc = Panic p -> p = P_map_key_missing.
Proof. exact eval_file_no_panic. Qed.
Print Assumptions C08_no_panic_site_is_reached.
Theorem C08_every_entry_point_is_panic_free : forall re conv prog, pwf_prog prog = true ->
  forall n, NP (evalN re conv prog n).
Proof. exact evalN_np. Qed.
Print Assumptions C08_every_entry_point_is_panic_free.
(* the operator layer as a whole: the negation never meets a ListIn result without a list *)
Theorem C08_operator_layer_never_panics : forall re c lhs rhs p, cmp_compare re c lhs rhs <> Panic p.
Proof. exact np_cmp_compare. Qed.
Print Assumptions C08_operator_layer_never_panics.
Theorem C08_no_panic_instance : pwf_prog ex_prog = true.
Proof. exact ex_prog_pwf. Qed.
Print Assumptions C08_no_panic_instance.
(* the site PanicProps leaves open is guarded by an invariant of the loader: a document built from a plain value is
   key-consistent (Strat.wfv; evaluated on every document the implementation loads by the correspondence run) *)
Theorem C08_loaded_documents_are_key_consistent : forall v p, wfv (annotate p v) = true.
Proof. exact annotate_wfv. Qed.
Print Assumptions C08_loaded_documents_are_key_consistent.

(* ---- no panic site at all ---- *)

(* the site left open above is unreachable when the document and the literals of the rules file are key-consistent (ValueInv.v:
   every value held by a scope, a memo, a binding or a query result is key-consistent; a `keys` filter keeps only members of the key
   list of the struct it walks) *)
Theorem C08_keys_filter_lookup_is_safe : forall re conv prog, vwf_prog prog = true ->
  forall fuel doc, wfv doc = true -> eval_file re conv prog fuel doc <> Panic P_map_key_missing.
Proof. exact eval_file_key_lookup_safe. Qed.
Print Assumptions C08_keys_filter_lookup_is_safe.

(* for a parser-shaped rules file whose literals are key-consistent and a key-consistent document, the modelled evaluator reaches
   NO panic site, whatever the fuel and the oracles *)
Theorem C08_evaluation_never_panics : forall re conv prog fuel doc p,
  pwf_prog prog = true -> vwf_prog prog = true -> wfv doc = true -> eval_file re conv prog fuel doc <> Panic p.
Proof. exact eval_file_never_panics. Qed.
Print Assumptions C08_evaluation_never_panics.

(* the value invariant holds at every entry point of the interpreter, at every fuel *)
Theorem C08_values_stay_key_consistent : forall re conv prog, vwf_prog prog = true -> forall n, ev_safe (evalN re conv prog n).
Proof. exact evalN_safe. Qed.
Print Assumptions C08_values_stay_key_consistent.

(* ---- the whole-grammar parser (Model/FullParse.v = parser.rs rules_file, tied on whole files) ---- *)

(* a rules file is accepted only when it was consumed to the last byte: a part that does not conform to the grammar, anywhere in the
   file, makes the whole file a parse error *)
Theorem C08_accepted_file_is_consumed_entirely : forall rv name s t, rules_file rv name s = FOk t ->
  exists es n, exprs_loop rv n n [] (skip_ws_comments s) = POk es EmptyString.
Proof. exact accepted_file_is_consumed_entirely. Qed.
Print Assumptions C08_accepted_file_is_consumed_entirely.
