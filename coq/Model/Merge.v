(* Merge.v — PathAwareValue::merge (path_value.rs 889-919), the -i fold of validate.rs 317-350 and the
   per-data-file merge (validate.rs 718-722; structured.rs 51-65 since fix 273e441). No proofs here. *)
From GV.Model Require Export Value.

Definition key_in (k : string) (vals : list (string * pv)) : bool :=
  match assoc k vals with Some _ => true | None => false end.

(* the map arm: insert every entry of `other` in order; a key already present is an error
   (entries inserted before the clash are lost with the Err) *)
Fixpoint merge_entries (keys : list pv) (vals : list (string * pv)) (opath : path)
         (other : list (string * pv)) : outcome (list pv * list (string * pv)) :=
  match other with
  | [] => Done (keys, vals)
  | (k, v) :: rest =>
      if key_in k vals then Err EMultipleValues
      else merge_entries (keys ++ [PString (path_extend opath k) k]) (vals ++ [(k, v)]) opath rest
  end.

Definition merge (a b : pv) : outcome pv :=
  match a, b with
  | PList p l, PList _ l2 => Done (PList p (l ++ l2))
  | PMap p keys vals, PMap p2 _ other =>
      match merge_entries keys vals p2 other with
      | Done (k, v) => Done (PMap p k v)
      | Err e => Err e
      | Panic s => Panic s
      | OutOfFuel => OutOfFuel
      | Unknown => Unknown
      end
  | _, _ => Err EIncompatible
  end.

(* validate.rs 317-350: the parameter files are merged left to right *)
Fixpoint merge_params (acc : option pv) (files : list pv) : outcome (option pv) :=
  match files with
  | [] => Done acc
  | f :: rest =>
      match acc with
      | None => merge_params (Some f) rest
      | Some cur =>
          match merge cur f with
          | Done m => merge_params (Some m) rest
          | Err e => Err e
          | Panic s => Panic s
          | OutOfFuel => OutOfFuel
          | Unknown => Unknown
          end
      end
  end.

(* what one data file is evaluated against *)
Definition merged_input (params : list pv) (data : pv) : outcome pv :=
  match merge_params None params with
  | Done None => Done data
  | Done (Some p) => merge p data
  | Err e => Err e
  | Panic s => Panic s
  | OutOfFuel => OutOfFuel
  | Unknown => Unknown
  end.

Definition top_entries (v : pv) : list (string * value) :=
  match v with
  | PMap _ _ vals => map (fun kv => (fst kv, strip (snd kv))) vals
  | _ => []
  end.
Definition top_keys (v : pv) : list string := map fst (top_entries v).

(* keys vector and values map stay aligned *)
Definition aligned (v : pv) : bool :=
  match v with
  | PMap _ keys vals =>
      Nat.eqb (List.length keys) (List.length vals) &&
      forallb (fun p => match fst p with PString _ s => String.eqb s (fst (snd p)) | _ => false end)
              (combine keys vals)
  | _ => true
  end.

(* observation comparator for the correspondence: the hook's merge result vs the model's *)
Inductive merge_obs := MOk (v : pv) | MErrMultiple | MErrIncompatible | MErrOther.
Definition merge_agrees (a b : pv) (o : merge_obs) : bool :=
  match merge a b, o with
  | Done v, MOk w => pv_eqb v w
  | Err EMultipleValues, MErrMultiple => true
  | Err EIncompatible, MErrIncompatible => true
  | _, _ => false
  end.
