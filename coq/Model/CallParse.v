(* CallParse.v — function calls: `let_value` / `call_expr` / `function_expr` of rules/parser.rs (1074-1134): a value literal, else a
   call `name(arg, ...)` whose arguments are again such values (blanks and line breaks - not comments - around each argument, commas
   directly between them), accepted when the name is one of the built-in functions and the number of arguments is the one it
   expects (eval_context.rs 1205-1292), else a query.  With calls: the access clause (right-hand side) and the assignment.
   The table of function names and arities is written here by hand and tied by the correspondence runs.  No proofs here. *)
From GV.Model Require Import Ast.
From GV.Model Require Import ValueParse QueryParse OpParse ClauseParse CnfParse FilterParse ClauseFParse LetParse.
Local Open Scope string_scope.

Inductive pvalue := PVLit (l : lit) | PVQuery (q : fquery) | PVCall (f : fn_name) (args : list pvalue).

Definition fn_table : list (string * (fn_name * nat)) :=
  [("count", (FCount, 1)); ("join", (FJoin, 2)); ("json_parse", (FJsonParse, 1)); ("now", (FNow, 0)); ("parse_boolean", (FParseBoolean, 1));
   ("parse_char", (FParseChar, 1)); ("parse_epoch", (FParseEpoch, 1)); ("parse_float", (FParseFloat, 1)); ("parse_int", (FParseInt, 1));
   ("parse_string", (FParseString, 1)); ("regex_replace", (FRegexReplace, 3)); ("substring", (FSubstring, 3)); ("to_lower", (FToLower, 1));
   ("to_upper", (FToUpper, 1)); ("url_decode", (FUrlDecode, 1))]%nat.

Definition skip_ws_only (s : string) : string := snd (span_while is_ws s).     (* multispace0 *)

Section WithRegex.
Variable regex_valid : string -> bool.

(* call_expr / function_expr over a given parser for the arguments *)
Definition function_expr_with (lv : string -> pres pvalue) (n : nat) (t : string) : pres pvalue :=
  let arg (u : string) : pres pvalue :=
    match lv (skip_ws_only u) with
    | POk v r => POk v (skip_ws_only r)
    | other => other
    end in
  match var_name t with
  | POk name r =>
      match expect "(" r with
      | None => PErr
      | Some r1 =>
          match sep_list0 (expect ",") arg n r1 with
          | POk args r2 =>
              match expect ")" r2 with
              | None => PErr
              | Some r3 =>
                  match assoc name fn_table with
                  | Some (f, k) => if Nat.eqb (List.length args) k then POk (PVCall f args) r3 else PErr
                  | None => PErr
                  end
              end
          | PErr => PErr
          | PFail => PFail
          | PUnk => PUnk
          | POof => POof
          end
      end
  | PErr => PErr
  | PFail => PFail
  | PUnk => PUnk
  | POof => POof
  end.

(* let_value: a value literal, else a call, else a query *)
Fixpoint let_value (fuel : nat) (s : string) : pres pvalue :=
  match fuel with
  | O => POof
  | S n =>
      let t := skip_ws_comments s in
      match parse_value regex_valid n t with
      | POk l r => POk (PVLit l) r
      | PErr =>
          match function_expr_with (let_value n) n t with
          | PErr => pmap PVQuery (access_f regex_valid n t)
          | other => other
          end
      | PFail => PFail
      | PUnk => PUnk
      | POof => POof
      end
  end.

Definition function_expr (fuel : nat) (t : string) : pres pvalue :=
  match fuel with O => POof | S n => function_expr_with (let_value n) n t end.

(* the assignment with calls: a value; else a call - any error of which falls back to a query - else a query (cut) *)
Record plet_c := mkPLC { plc_var : string; plc_value : pvalue }.
Definition assignment_c (fuel : nat) (s : string) : pres plet_c :=
  match alt_tags kw_let_keyword s with
  | None => PErr
  | Some s1 =>
      if starts_layout s1 then
        match var_name (skip_ws_comments s1) with
        | POk name s2 =>
            match alt_tags kw_assign (skip_ws_comments s2) with
            | None => PFail
            | Some s3 =>
                match parse_value regex_valid fuel s3 with
                | POk l r => POk (mkPLC name (PVLit l)) r
                | PErr =>
                    let t := skip_ws_comments s3 in
                    let query : pres plet_c :=
                      match access_f regex_valid fuel t with
                      | POk q r => POk (mkPLC name (PVQuery q)) r
                      | PErr => PFail
                      | PFail => PFail
                      | PUnk => PUnk
                      | POof => POof
                      end in
                    match function_expr fuel t with
                    | POk v r => POk (mkPLC name v) r
                    | PErr => query
                    | PFail => query
                    | PUnk => PUnk
                    | POof => POof
                    end
                | PFail => PFail
                | PUnk => PUnk
                | POof => POof
                end
            end
        | PErr => PErr
        | PFail => PFail
        | PUnk => PUnk
        | POof => POof
        end
      else PErr
  end.
Definition assignment_c_top (s : string) : pres plet_c := assignment_c (S (S (S (S (S (String.length s)))))) s.

(* the access clause with calls on the right-hand side *)
Record cclause_c := mkCCC { cc_neg : bool; cc_query : fquery; cc_cmp : cmp_op * bool; cc_rhs : option pvalue; cc_msg : option string }.

Definition clause_c (fuel : nat) (s : string) : pres cclause_c :=
  let s0 := skip_ws_comments s in
  let '(neg, s1) := match not_kw s0 with Some r => (true, r) | None => (false, s0) end in
  match access_f regex_valid fuel s1 with
  | POk q r1 =>
      match value_cmp (skip_ws_comments r1) with
      | POk c r2 =>
          if is_unary (fst c) then pmap (fun m => mkCCC neg q c None m) (opt_message r2)
          else
            match let_value fuel r2 with
            | POk w r3 => pmap (fun m => mkCCC neg q c (Some w) m) (opt_message r3)
            | PErr => PFail                                  (* cut *)
            | PFail => PFail
            | PUnk => PUnk
            | POof => POof
            end
      | PErr => PErr
      | PFail => PFail
      | PUnk => PUnk
      | POof => POof
      end
  | PErr => PErr
  | PFail => PFail
  | PUnk => PUnk
  | POof => POof
  end.
Definition clause_c_top (s : string) : pres cclause_c := clause_c (S (S (S (S (S (String.length s)))))) s.

End WithRegex.

(* ---------------------------------------------------------------- the tie *)
Inductive impl_value := IVLit (l : lit) | IVQuery (parts : list impl_fpart) (all : bool) | IVCall (f : fn_name) (args : list impl_value) | IVOther.

Definition fn_eqb (a b : fn_name) : bool :=
  match a, b with
  | FCount, FCount | FJoin, FJoin | FJsonParse, FJsonParse | FNow, FNow | FParseBoolean, FParseBoolean | FParseChar, FParseChar
  | FParseEpoch, FParseEpoch | FParseFloat, FParseFloat | FParseInt, FParseInt | FParseString, FParseString
  | FRegexReplace, FRegexReplace | FSubstring, FSubstring | FToLower, FToLower | FToUpper, FToUpper | FUrlDecode, FUrlDecode => true
  | _, _ => false
  end.

Fixpoint value_agree (m : pvalue) (i : impl_value) {struct m} : bool :=
  match m, i with
  | PVLit a, IVLit b => lit_eqb a b
  | PVQuery q, IVQuery parts all => fquery_agree q parts all
  | PVCall f args, IVCall g args' =>
      fn_eqb f g &&
      (fix go (xs : list pvalue) (ys : list impl_value) : bool :=
         match xs, ys with
         | [], [] => true
         | x :: xs', y :: ys' => value_agree x y && go xs' ys'
         | _, _ => false
         end) args args'
  | _, _ => false
  end.

Inductive impl_cclause :=
| ICCOk (neg : bool) (parts : list impl_fpart) (all : bool) (o : cmp_op) (n : bool) (w : option impl_value) (msg : option string) (offset : N)
| ICCError | ICCFailure | ICCOther.

Definition clause_c_obs (regex_valid : string -> bool) (text : string) (i : impl_cclause) : pcl_verdict :=
  match clause_c_top regex_valid text, i with
  | PUnk, _ => PLNotModelled
  | POk c r, ICCOk neg parts all o n w msg off =>
      if Bool.eqb (cc_neg c) neg && fquery_agree (cc_query c) parts all && cmp_op_eqb (fst (cc_cmp c)) o && Bool.eqb (snd (cc_cmp c)) n
         && match cc_rhs c, w with None, None => true | Some a, Some b => value_agree a b | _, _ => false end
         && ostr_eqb (cc_msg c) msg && N.eqb (N.of_nat (String.length text - String.length r)) off
      then PLAgree else PLDisagree
  | PErr, ICCError => PLAgreeReject
  | PFail, ICCFailure => PLAgreeReject
  | _, _ => PLDisagree
  end.

Inductive impl_let_c := ILCOk (name : string) (w : impl_value) (offset : N) | ILCError | ILCFailure | ILCOther.
Definition let_c_obs (regex_valid : string -> bool) (text : string) (i : impl_let_c) : pcl_verdict :=
  match assignment_c_top regex_valid text, i with
  | PUnk, _ => PLNotModelled
  | POk a r, ILCOk name w off =>
      if String.eqb (plc_var a) name && value_agree (plc_value a) w && N.eqb (N.of_nat (String.length text - String.length r)) off
      then PLAgree else PLDisagree
  | PErr, ILCError => PLAgreeReject
  | PFail, ILCFailure => PLAgreeReject
  | _, _ => PLDisagree
  end.
