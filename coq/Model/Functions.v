(* Functions.v — built-in functions (functions/*.rs, eval_context.rs 1286-1470).
   Library-dependent parts answer Unknown (never a made-up value). *)
From GV.Model Require Export Operators.

Definition qres_path (q : qres) : path :=
  match q with
  | QLiteral v | QResolved v => self_path v
  | QUnResolved u => self_path (ur_traversed_to u)
  end.

Definition is_resolved_or_literal (q : qres) : bool :=
  match q with QUnResolved _ => false | _ => true end.

(* collections.rs count *)
Definition fn_count (args : list qres) : pv :=
  match args with
  | [] => PInt root_path 0
  | a :: _ => PInt (qres_path a) (Z.of_nat (List.length (filter is_resolved_or_literal args)))
  end.

(* strings.rs join: every element must be a resolved string; delimiter between elements *)
Fixpoint join_strings (args : list qres) : outcome (list string) :=
  match args with
  | [] => Done []
  | (QResolved (PString _ s) | QLiteral (PString _ s)) :: r =>
      rest <-- join_strings r ;; Done (s :: rest)
  | _ => Err EIncompatible
  end.
Definition fn_join (args : list qres) (delim : string) : outcome pv :=
  l <-- join_strings args ;;
  Done (PString (match args with [] => root_path | a :: _ => qres_path a end) (str_join delim l)).

Definition is_ascii_str (s : string) : bool :=
  (fix go (s : string) : bool :=
     match s with
     | EmptyString => true
     | String a r => N.ltb (N_of_ascii a) 128 && go r
     end) s.

Definition ascii_upper (a : ascii) : ascii :=
  let n := N_of_ascii a in if N.leb 97 n && N.leb n 122 then ascii_of_N (n - 32) else a.
Definition ascii_lower (a : ascii) : ascii :=
  let n := N_of_ascii a in if N.leb 65 n && N.leb n 90 then ascii_of_N (n + 32) else a.
Fixpoint str_map (f : ascii -> ascii) (s : string) : string :=
  match s with EmptyString => EmptyString | String a r => String (f a) (str_map f r) end.

(* element-wise over strings; other values are skipped (None) *)
Definition map_strings (f : path -> string -> outcome (option pv)) (args : list qres)
  : outcome (list (option pv)) :=
  omapM (fun q => match q with
                  | QLiteral (PString p s) | QResolved (PString p s) => f p s
                  | _ => Done None
                  end) args.

Definition fn_to_upper := map_strings (fun p s =>
  if is_ascii_str s then Done (Some (PString p (str_map ascii_upper s))) else Unknown).
Definition fn_to_lower := map_strings (fun p s =>
  if is_ascii_str s then Done (Some (PString p (str_map ascii_lower s))) else Unknown).

(* substring: byte offsets; both ends must be char boundaries *)
Fixpoint str_skip (n : nat) (s : string) : string :=
  match n, s with
  | O, _ => s
  | S k, String _ r => str_skip k r
  | S _, EmptyString => EmptyString
  end.
Fixpoint str_take (n : nat) (s : string) : string :=
  match n, s with
  | O, _ => EmptyString
  | S k, String a r => String a (str_take k r)
  | S _, EmptyString => EmptyString
  end.
Definition is_char_boundary (s : string) (i : nat) : bool :=
  match str_skip i s with
  | EmptyString => Nat.leb i (String.length s) (* index == len is a boundary *)
  | String a _ => let n := N_of_ascii a in negb (N.leb 128 n && N.ltb n 192)
  end.
Definition fn_substring (args : list qres) (from to : nat) : outcome (list (option pv)) :=
  map_strings (fun p s =>
    let len := String.length s in
    if negb (str_is_empty s) && Nat.ltb from to && Nat.leb from len && Nat.leb to len then
      if is_char_boundary s from && is_char_boundary s to then
        Done (Some (PString p (str_take (to - from) (str_skip from s))))
      else Done None       (* offsets inside a multi-byte character: skipped (fix b4895d1) *)
    else Done None) args.

(* `*n as u16` on i64: wraps modulo 2^16 *)
Definition i64_as_u16 (z : Z) : nat := Z.to_nat (z mod 65536).

Definition first_arg_value (l : list qres) : outcome (option pv) :=
  match l with
  | [] => Done None        (* args[n].first() == None: the "requires the ... argument" error arm (fix a4140bd) *)
  | (QResolved v | QLiteral v) :: _ => Done (Some v)
  | QUnResolved _ :: _ => Done None
  end.

Definition parse_int_one (q : qres) : outcome (option pv) :=
  match q with
  | QLiteral v | QResolved v =>
      match v with
      | PString p s => match parse_i64 s with Some i => Done (Some (PInt p i)) | None => Err EParse end
      | PInt p i => Done (Some (PInt p i))
      | PChar p c => if N.leb 48 c && N.leb c 57 then Done (Some (PInt p (Z.of_N (c - 48)))) else Err EParse
      | PFloat _ _ => Unknown
      | _ => Done None
      end
  | _ => Done None
  end.

Definition parse_bool_one (q : qres) : outcome (option pv) :=
  match q with
  | QLiteral v | QResolved v =>
      match v with
      | PBool p b => Done (Some (PBool p b))
      | PString p s =>
          if is_ascii_str s then
            let l := str_map ascii_lower s in
            if String.eqb l "true" then Done (Some (PBool p true))
            else if String.eqb l "false" then Done (Some (PBool p false))
            else Err EParse
          else Unknown
      | _ => Done None
      end
  | _ => Done None
  end.

Definition parse_str_one (q : qres) : outcome (option pv) :=
  match q with
  | QLiteral v | QResolved v =>
      match v with
      | PInt p i => Done (Some (PString p (Z_to_string i)))
      | PBool p b => Done (Some (PString p (if b then "true" else "false")))
      | PString p s => Done (Some (PString p s))
      | PFloat _ _ => Unknown
      | PChar p c => if N.ltb c 128 then Done (Some (PString p (String (ascii_of_N c) ""))) else Unknown
      | _ => Done None
      end
  | _ => Done None
  end.

(* impl Callable for FunctionName (argument indexing included) *)
Definition call_fn (name : fn_name) (args : list (list qres)) : outcome (list (option pv)) :=
  let arg n := nth_error args n in
  match name with
  | FCount => match arg 0%nat with Some a => Done [Some (fn_count a)] | None => Panic P_fn_arg_index end
  | FJoin =>
      match arg 0%nat, arg 1%nat with
      | Some a0, Some a1 =>
          d <-- first_arg_value a1 ;;
          match d with
          | Some (PString _ s) => r <-- fn_join a0 s ;; Done [Some r]
          | Some (PChar _ c) =>
              if N.ltb c 128 then (r <-- fn_join a0 (String (ascii_of_N c) "") ;; Done [Some r]) else Unknown
          | _ => Err EParse
          end
      | _, _ => Panic P_fn_arg_index
      end
  | FSubstring =>
      match arg 0%nat, arg 1%nat, arg 2%nat with
      | Some a0, Some a1, Some a2 =>
          f <-- first_arg_value a1 ;;
          match f with
          | Some (PInt _ n1) =>
              t <-- first_arg_value a2 ;;
              match t with
              | Some (PInt _ n2) => fn_substring a0 (i64_as_u16 n1) (i64_as_u16 n2)
              | Some (PFloat _ _) => Unknown
              | _ => Err EParse
              end
          | Some (PFloat _ _) => Unknown
          | _ => Err EParse
          end
      | _, _, _ => Panic P_fn_arg_index
      end
  | FToUpper => match arg 0%nat with Some a => fn_to_upper a | None => Panic P_fn_arg_index end
  | FToLower => match arg 0%nat with Some a => fn_to_lower a | None => Panic P_fn_arg_index end
  | FParseInt => match arg 0%nat with Some a => omapM parse_int_one a | None => Panic P_fn_arg_index end
  | FParseBoolean => match arg 0%nat with Some a => omapM parse_bool_one a | None => Panic P_fn_arg_index end
  | FParseString => match arg 0%nat with Some a => omapM parse_str_one a | None => Panic P_fn_arg_index end
  | _ => Unknown
  end.
