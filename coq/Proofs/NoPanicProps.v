(* NoPanicProps.v — the panic sites of the modelled code (C08): each `Panic site` constructor of the model stands for an
   unreachable!()/unwrap()/index expression of the source; the lemmas below show, site by site, that the guarded
   invariants hold, so that the site is not reachable. *)
From Coq Require Import Lia.
From GV.Model Require Import SEval Check Strat.
From GV.Proofs Require Import EvalLaws.

Section N.
Variable re : re_oracle.

(* ordering kernels: a verdict or NotComparable, nothing else *)
Lemma cmp_with_total : forall f a b,
  (exists x, cmp_with f a b = Done x) \/ cmp_with f a b = Err ENotComparable.
Proof. intros. unfold cmp_with. destruct (compare_values a b); eauto. Qed.

(* operators.rs:205 (since the fix: no unreachable!() left): match_value never panics when the comparator does not *)
Theorem match_value_no_panic : forall cmpf l r site,
  (forall s, cmpf l r <> Panic s) -> match_value cmpf l r <> Panic site.
Proof.
  intros cmpf l r site H. unfold match_value. destruct (cmpf l r) as [[]|[]|s| |] eqn:E; try discriminate.
  exfalso. eapply H. eauto.
Qed.

(* eval.rs:1185 / 238 `Status::SKIP => unreachable!()`: the per-value statuses of a clause are PASS or FAIL *)
Theorem report_binary_pass_or_fail : forall c custom e x,
  In x (report_binary c custom e) -> snd x = PASS \/ snd x = FAIL.
Proof.
  intros c custom e x H. unfold report_binary in H.
  destruct e as [u|[k|k|l r|u l]]; cbn in H;
    repeat match goal with
           | H : _ \/ _ |- _ => destruct H as [H|H]
           | H : False |- _ => destruct H
           | H : In _ (map _ _) |- _ => apply in_map_iff in H as (? & H & _)
           | H : (_, _, _) = x |- _ => subst x; cbn; auto
           | H : (_, _) = x |- _ => subst x; cbn; auto
           end;
    try (destruct k; cbn in H;
         repeat match goal with
                | H : _ \/ _ |- _ => destruct H as [H|H]
                | H : False |- _ => destruct H
                | H : In _ (map _ _) |- _ => apply in_map_iff in H as (? & H & _)
                | H : (_, _, _) = x |- _ => subst x; cbn; auto
                end).
Qed.

Theorem no_skip_among_values : forall c custom l,
  has_status SKIP (map (fun t : clause_check * qres * status => let '(cc, v, st) := t in (v, st))
                       (flat_map (report_binary c custom) l)) = false.
Proof.
  intros c custom l. unfold has_status. apply Bool.not_true_is_false. intros H.
  apply existsb_exists in H as (x & Hin & Hx). apply in_map_iff in Hin as ([[cc v] st] & <- & Hin).
  apply in_flat_map in Hin as (e & _ & Hin). apply report_binary_pass_or_fail in Hin. cbn in *.
  destruct Hin as [-> | ->]; discriminate.
Qed.

(* eval.rs:390 `_ => unreachable!()`: every unary operator has its operation *)
Theorem unary_operator_has_operation : forall o, is_unary o = true -> exists base, unary_base o = Some base.
Proof. intros []; cbn; intros H; try discriminate; eauto. Qed.

(* a `ListIn` comparison always carries a list on the left: negating it never reaches the impossible arm *)
Definition wf_result (e : value_eval_result) : Prop :=
  match e with
  | VComparison (CRSuccess (CListIn _ l _)) | VComparison (CRFail (CListIn _ l _)) => is_list l = true
  | _ => True
  end.

Lemma match_value_wf : forall f a b e, match_value f a b = Done e -> wf_result e.
Proof.
  intros f a b e H. unfold match_value in H. destruct (f a b) as [[]|[]| | |]; inversion H; subst; exact I.
Qed.

Lemma contained_in_wf : forall l r e, contained_in re l r = Done e -> wf_result e.
Proof.
  intros l r e H. unfold contained_in in H.
  destruct l as [| | | | | | |pl ll| | | |];
    try (destruct r as [| | | | | | |pr rl| | | |];
         try (eapply match_value_wf; exact H);
         destruct (contains_pv re rl _) as [[]| | | |]; cbn in H; try discriminate; inversion H; subst; exact I).
  destruct r as [| | | | | | |pr rl| | | |]; try (inversion H; subst; exact I).
  destruct (match rl with [] => false | x :: _ => is_list x end).
  - destruct (contains_pv re rl (PList pl ll)) as [[]| | | |]; cbn in H; try discriminate; inversion H; subst; exact I.
  - destruct (not_contained re ll rl) as [[|d ds]| | | |]; cbn in H; try discriminate; inversion H; subst; reflexivity.
Qed.

Theorem negate_result_no_panic : forall o n m e,
  wf_result e -> (forall l1 l2 s, not_contained re l1 l2 <> Panic s) ->
  forall site, negate_result re o n m e <> Panic site.
Proof.
  intros o n m e Hwf Hnc site. unfold negate_result, reverse_diff.
  destruct e as [u|[k|k|a b|u a]]; try discriminate.
  - (* success *)
    destruct k as [a b|d ql qr|d a b|a b]; try discriminate.
    destruct a; cbn in Hwf; discriminate.
  - (* fail *)
    destruct k as [a b|d ql qr|d a b|a b]; try discriminate.
    + destruct (Nat.leb n m && cmp_op_eqb o OEq)%bool.
      * destruct (not_contained re qr d) as [[|x xs]| | | |] eqn:E; cbn; try discriminate. exfalso. eapply Hnc. eauto.
      * destruct (not_contained re ql d) as [[|x xs]| | | |] eqn:E; cbn; try discriminate. exfalso. eapply Hnc. eauto.
    + destruct a as [| | | | | | |pa la| | | |]; cbn in Hwf; try discriminate.
      destruct (not_contained re la d) as [[|x xs]| | | |] eqn:E; cbn; try discriminate. exfalso. eapply Hnc. eauto.
Qed.

(* functions: argument indexing (args[n][0], fixed in /repo) and element-wise conversion never panic *)
Lemma omapM_no_panic : forall A B (f : A -> outcome B) l,
  (forall x s, f x <> Panic s) -> forall s, omapM f l <> Panic s.
Proof.
  induction l as [|x l IH]; intros H s; cbn; [discriminate|].
  destruct (f x) eqn:E; cbn; try discriminate.
  - destruct (omapM f l) eqn:El; cbn; try discriminate. exfalso. eapply IH; eauto.
  - exfalso. eapply H. eauto.
Qed.

Lemma obind_no_panic : forall A B (m : outcome A) (f : A -> outcome B) s,
  m <> Panic s -> (forall a, f a <> Panic s) -> obind m f <> Panic s.
Proof. intros A B m f s Hm Hf. destruct m; cbn; try discriminate; auto. intros E. apply Hm. inversion E. reflexivity. Qed.

Lemma join_strings_no_panic : forall l s, join_strings l <> Panic s.
Proof.
  induction l as [|x l IH]; intros s; cbn; [discriminate|].
  destruct x as [v|v|u]; try discriminate; destruct v; try discriminate;
    (apply obind_no_panic; [apply IH|discriminate]).
Qed.

Lemma fn_join_no_panic : forall l d s, fn_join l d <> Panic s.
Proof. intros. unfold fn_join. apply obind_no_panic; [apply join_strings_no_panic|discriminate]. Qed.

Ltac np :=
  repeat (first [ discriminate
                | match goal with
                  | |- (match ?x with _ => _ end) <> _ => destruct x
                  | |- (if ?c then _ else _) <> _ => destruct c
                  end ]).

Theorem modelled_functions_never_panic : forall name args s,
  List.length args = fn_arity name -> call_fn name args <> Panic s.
Proof.
  intros name args s Hlen.
  destruct name; cbn in Hlen;
    repeat (destruct args as [|?a args]; cbn in Hlen; try discriminate; try lia); cbn; try discriminate.
  - (* join *)
    apply obind_no_panic.
    + destruct a0 as [|[v|v|u] ?]; discriminate.
    + intros [v|]; [|discriminate]. destruct v; try discriminate.
      * apply obind_no_panic; [apply fn_join_no_panic|discriminate].
      * destruct (N.ltb c 128); [|discriminate]. apply obind_no_panic; [apply fn_join_no_panic|discriminate].
  - apply omapM_no_panic. intros x s'; unfold parse_bool_one; np.
  - apply omapM_no_panic. intros x s'; unfold parse_int_one; np.
  - apply omapM_no_panic. intros x s'; unfold parse_str_one; np.
  - (* substring *)
    apply obind_no_panic; [destruct a0 as [|[v|v|u] ?]; discriminate|].
    intros [v|]; [|discriminate]. destruct v; try discriminate.
    apply obind_no_panic; [destruct a1 as [|[w|w|u'] ?]; discriminate|].
    intros [w|]; [|discriminate]. destruct w; try discriminate.
    unfold fn_substring, map_strings. apply omapM_no_panic. intros x s'; np.
  - unfold fn_to_lower, map_strings. apply omapM_no_panic. intros x s'; np.
  - unfold fn_to_upper, map_strings. apply omapM_no_panic. intros x s'; np.
Qed.

(* negative list indices: total since the fix *)
Theorem abs_index_total : forall i, exists n, abs_index i = Done n.
Proof. intros. eexists. reflexivity. Qed.

End N.

(* ---- what is NOT guarded: recorded findings, with executable witnesses ---- *)
Definition cyc_rule : rules_file :=
  mkRulesFile [] [mkRule "r" None [] [[RClause (GNamedRule (GuardNamedRuleClause "r" false None))]]] [].
Definition cyc_vars : rules_file :=
  mkRulesFile [("a", LAccess (AccessQuery [QKey "%b"] true)); ("b", LAccess (AccessQuery [QKey "%a"] true))]
              [mkRule "r" None [] [[RClause (GClause (GuardAccessClause (AccessQuery [QKey "%a"] true) (OExists, false) None None false))]]] [].
Definition tiny_doc : pv := PMap root_path [] [].

(* a rule that refers to itself, and two variables that refer to each other: the evaluation needs more fuel than
   any of these bounds - the implementation overflows its stack *)
Theorem reference_cycles_diverge_witness :
  Forall (fun fuel => eval_file (fun _ _ => ReUnknownPair) (fun _ _ => None) cyc_rule fuel tiny_doc = OutOfFuel
                   /\ eval_file (fun _ _ => ReUnknownPair) (fun _ _ => None) cyc_vars fuel tiny_doc = OutOfFuel)
         [1; 2; 3; 10; 50; 200]%nat.
Proof. repeat constructor; vm_compute; reflexivity. Qed.
