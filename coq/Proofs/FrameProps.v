(* FrameProps.v — scope discipline of the evaluator model.
   Part 1: generic "the state afterwards is related to the state before" combinator lemmas.
   Part 2: every evaluation, of any program, hands back the scope stack it was given:
           the same frames with the same roots and definitions; only the variable memos
           and the rule-status cache may have grown.  (by induction on the fuel) *)
From GV.Model Require Import SEval.
From GV.Proofs Require Import EvalLaws.

Section Keeps.
(* I s s' : what a computation started in s may have done to the state when it ends in s' *)
Variable I : state -> state -> Prop.
Hypothesis I_refl : forall s, I s s.
Hypothesis I_trans : forall a b c, I a b -> I b c -> I a c.
Hypothesis I_push : forall f s s',
  I (mkState (f :: frames s) (statuses s)) s' -> I s (mkState (tl (frames s')) (statuses s')).
Hypothesis I_parent : forall f rest st s',
  I (mkState rest st) s' -> I (mkState (f :: rest) st) (mkState (f :: frames s') (statuses s')).
Hypothesis I_root : forall s k s',
  I (mkState (skipn k (frames s)) (statuses s)) s' ->
  I s (mkState (firstn k (frames s) ++ frames s') (statuses s')).

Definition keeps {A} (m : M A) : Prop :=
  forall s a recs s', m s = Done (a, recs, s') -> I s s'.

Lemma keeps_ret {A} (a : A) : keeps (ret a).
Proof. intros s b recs s' H. apply ret_inv in H as (_ & _ & ->). apply I_refl. Qed.

Lemma keeps_failM {A} e : keeps (@failM A e).
Proof. intros s a recs s' H. discriminate. Qed.
Lemma keeps_panicM {A} p : keeps (@panicM A p).
Proof. intros s a recs s' H. discriminate. Qed.
Lemma keeps_unknownM {A} : keeps (@unknownM A).
Proof. intros s a recs s' H. discriminate. Qed.
Lemma keeps_oofM {A} : keeps (@oofM A).
Proof. intros s a recs s' H. discriminate. Qed.

Lemma keeps_lift {A} (o : outcome A) : keeps (lift o).
Proof. intros s a recs s' H. destruct o; try discriminate. inversion H; subst. apply I_refl. Qed.

Lemma keeps_bind {A B} (m : M A) (f : A -> M B) :
  keeps m -> (forall a, keeps (f a)) -> keeps (bind m f).
Proof.
  intros Hm Hf s b recs s' H. apply bind_inv in H as (a & r1 & s1 & r2 & H1 & H2 & _).
  eapply I_trans; [eapply Hm; exact H1|eapply Hf; exact H2].
Qed.

Lemma keeps_mapM {A B} (f : A -> M B) l : (forall x, keeps (f x)) -> keeps (mapM f l).
Proof.
  intros Hf. induction l as [|x l IH]; cbn [mapM]; [apply keeps_ret|].
  apply keeps_bind; [apply Hf|]. intros y. apply keeps_bind; [exact IH|]. intros ys. apply keeps_ret.
Qed.

Lemma keeps_concatMapM {A B} (f : A -> M (list B)) l : (forall x, keeps (f x)) -> keeps (concatMapM f l).
Proof.
  intros Hf. unfold concatMapM. apply keeps_bind; [apply keeps_mapM; exact Hf|]. intros r. apply keeps_ret.
Qed.

Lemma keeps_node {A} (m : M A) mk : keeps m -> keeps (node m mk).
Proof. intros Hm s a recs s' H. apply node_inv in H as (ch & H & _). eapply Hm; exact H. Qed.

Lemma keeps_leaf c : keeps (leaf c).
Proof. unfold leaf. apply keeps_node. apply keeps_ret. Qed.

Lemma keeps_with_frame {A} f (m : M A) : keeps m -> keeps (with_frame f m).
Proof.
  intros Hm s a recs s' H. unfold with_frame in H.
  destruct (m (mkState (f :: frames s) (statuses s))) as [[[a' r'] s1]| | | |] eqn:E; try discriminate.
  inversion H; subst. apply I_push with (f := f). eapply Hm; exact E.
Qed.

Lemma keeps_with_parent {A} (m : M A) : keeps m -> keeps (with_parent m).
Proof.
  intros Hm s a recs s' H. unfold with_parent in H. destruct s as [fs st]. cbn in H.
  destruct fs as [|f rest]; [discriminate|].
  destruct (m (mkState rest st)) as [[[a' r'] s1]| | | |] eqn:E; try discriminate.
  inversion H; subst. apply I_parent. eapply Hm; exact E.
Qed.

Lemma keeps_at_root {A} (m : M A) : keeps m -> keeps (at_root m).
Proof.
  intros Hm s a recs s' H. unfold at_root in H.
  destruct (List.length (frames s)) as [|k]; [discriminate|].
  destruct (m (mkState (skipn k (frames s)) (statuses s))) as [[[a' r'] s1]| | | |] eqn:E; try discriminate.
  inversion H; subst. apply I_root. eapply Hm; exact E.
Qed.

Lemma keeps_ctx_root : keeps ctx_root.
Proof.
  intros s a recs s' H. unfold ctx_root in H. destruct (root_of (frames s)); [|discriminate].
  inversion H; subst. apply I_refl.
Qed.

Lemma keeps_disj_body {T} (f : T -> M status) l failed : (forall x, keeps (f x)) -> keeps (disj_body f l failed).
Proof.
  intros Hf. revert failed. induction l as [|x l IH]; intros failed; cbn [disj_body]; [apply keeps_ret|].
  apply keeps_bind; [apply Hf|]. intros st. destruct st; [apply keeps_ret|apply IH|apply IH].
Qed.

Lemma keeps_line_body {T} (f : T -> M status) line : (forall x, keeps (f x)) -> keeps (line_body f line).
Proof.
  intros Hf. unfold line_body. destruct line as [|x [|y l]]; try (apply keeps_disj_body; exact Hf).
  apply keeps_node. apply keeps_disj_body; exact Hf.
Qed.

Lemma keeps_cnf_body {T} (f : T -> M status) cnf : (forall x, keeps (f x)) -> keeps (cnf_body f cnf).
Proof.
  intros Hf. unfold cnf_body. apply keeps_bind; [apply keeps_mapM; intros l; apply keeps_line_body; exact Hf|].
  intros sts. apply keeps_ret.
Qed.

(* relativised versions: the clause evaluator need only be well-behaved on the clauses that occur *)
Lemma keeps_mapM_in {A B} (f : A -> M B) l : (forall x, In x l -> keeps (f x)) -> keeps (mapM f l).
Proof.
  induction l as [|x l IH]; intros Hf; cbn [mapM]; [apply keeps_ret|].
  apply keeps_bind; [apply Hf; left; reflexivity|]. intros y.
  apply keeps_bind; [apply IH; intros z Hz; apply Hf; right; exact Hz|]. intros ys. apply keeps_ret.
Qed.

Lemma keeps_concatMapM_in {A B} (f : A -> M (list B)) l : (forall x, In x l -> keeps (f x)) -> keeps (concatMapM f l).
Proof.
  intros Hf. unfold concatMapM. apply keeps_bind; [apply keeps_mapM_in; exact Hf|]. intros r. apply keeps_ret.
Qed.

Lemma keeps_disj_body_in {T} (f : T -> M status) l failed :
  (forall x, In x l -> keeps (f x)) -> keeps (disj_body f l failed).
Proof.
  revert failed. induction l as [|x l IH]; intros failed Hf; cbn [disj_body]; [apply keeps_ret|].
  apply keeps_bind; [apply Hf; left; reflexivity|]. intros st.
  assert (Hl : forall z, In z l -> keeps (f z)) by (intros z Hz; apply Hf; right; exact Hz).
  destruct st; [apply keeps_ret|apply IH; exact Hl|apply IH; exact Hl].
Qed.

Lemma keeps_line_body_in {T} (f : T -> M status) line :
  (forall x, In x line -> keeps (f x)) -> keeps (line_body f line).
Proof.
  intros Hf. unfold line_body. destruct line as [|x [|y l]]; try (apply keeps_disj_body_in; exact Hf).
  apply keeps_node. apply keeps_disj_body_in; exact Hf.
Qed.

Lemma keeps_cnf_body_in {T} (f : T -> M status) cnf :
  (forall line x, In line cnf -> In x line -> keeps (f x)) -> keeps (cnf_body f cnf).
Proof.
  intros Hf. unfold cnf_body. apply keeps_bind; [|intros sts; apply keeps_ret].
  apply keeps_mapM_in. intros l Hl. apply keeps_line_body_in. intros x Hx. eapply Hf; eassumption.
Qed.

End Keeps.

(* ------------------------------------------------------------------ *)
(* Part 2: the shape of the scope stack *)

Definition fshape (f : frame) : frame :=
  match f with
  | FRoot r l _ => FRoot r l []
  | FBlock r l _ => FBlock r l []
  | other => other
  end.
Definition shape (s : state) : list frame := map fshape (frames s).
Definition same_shape (s s' : state) : Prop := shape s' = shape s.

Lemma ss_refl s : same_shape s s.
Proof. reflexivity. Qed.
Lemma ss_trans a b c : same_shape a b -> same_shape b c -> same_shape a c.
Proof. unfold same_shape. congruence. Qed.
Lemma ss_push f s s' :
  same_shape (mkState (f :: frames s) (statuses s)) s' -> same_shape s (mkState (tl (frames s')) (statuses s')).
Proof.
  unfold same_shape, shape. cbn. destruct (frames s') as [|g fs]; cbn; [discriminate|]. intros H. now inversion H.
Qed.
Lemma ss_parent f rest st s' :
  same_shape (mkState rest st) s' -> same_shape (mkState (f :: rest) st) (mkState (f :: frames s') (statuses s')).
Proof. unfold same_shape, shape. cbn. intros ->. reflexivity. Qed.
Lemma ss_root s k s' :
  same_shape (mkState (skipn k (frames s)) (statuses s)) s' ->
  same_shape s (mkState (firstn k (frames s) ++ frames s') (statuses s')).
Proof.
  unfold same_shape, shape. cbn. intros H. rewrite map_app, H, <- map_app, firstn_skipn. reflexivity.
Qed.

Notation kshape := (keeps same_shape).

Local Ltac kgen L := apply L; first [exact ss_refl | exact ss_trans | exact ss_push | exact ss_parent | exact ss_root | idtac].

Lemma ks_set_top_memo name vals : kshape (set_top_memo name vals).
Proof.
  intros s a recs s' H. unfold set_top_memo in H. destruct s as [fs st]. cbn in H.
  destruct fs as [|[r l memo|r l memo|r|b c m] rest]; try discriminate; inversion H; subst; reflexivity.
Qed.

Lemma capture_in_shape name key fs fs' : capture_in name key fs = Some fs' -> map fshape fs' = map fshape fs.
Proof.
  revert fs'. induction fs as [|f fs IH]; intros fs' H; cbn in H; [discriminate|].
  destruct f as [r l memo|r l memo|r|b c m].
  - destruct fs as [|g fs].
    + inversion H; subst. reflexivity.
    + destruct (capture_in name key (g :: fs)) as [x|] eqn:E; [|discriminate].
      inversion H; subst. cbn [map]. f_equal. apply IH. reflexivity.
  - destruct (capture_in name key fs) as [x|] eqn:E; [|discriminate]. inversion H; subst. cbn [map]. f_equal. now apply IH.
  - destruct (capture_in name key fs) as [x|] eqn:E; [|discriminate]. inversion H; subst. cbn [map]. f_equal. now apply IH.
  - destruct (capture_in name key fs) as [x|] eqn:E; [|discriminate]. inversion H; subst. cbn [map]. f_equal. now apply IH.
Qed.

Lemma ks_add_capture name key : kshape (add_capture name key).
Proof.
  intros s a recs s' H. unfold add_capture in H.
  destruct (capture_in name key (frames s)) as [fs|] eqn:E; [|discriminate].
  inversion H; subst. unfold same_shape, shape. cbn. eapply capture_in_shape; exact E.
Qed.

Definition ev_kshape (r : ev) : Prop :=
  (forall qi q cur cv, kshape (ev_query r qi q cur cv)) /\
  (forall g, kshape (ev_clause r g)) /\
  (forall x, kshape (ev_rule r x)) /\
  (forall n, kshape (ev_resolve r n)) /\
  (forall f ps, kshape (ev_fn r f ps)).

Ltac ks_step :=
  first
  [ assumption
  | kgen (@keeps_ret) | kgen (@keeps_failM) | kgen (@keeps_panicM) | kgen (@keeps_unknownM) | kgen (@keeps_oofM)
  | kgen (@keeps_lift) | kgen (@keeps_leaf) | kgen (@keeps_ctx_root)
  | apply ks_set_top_memo | apply ks_add_capture
  | kgen (@keeps_cnf_body); intros ?
  | kgen (@keeps_bind); [|intros ?]
  | kgen (@keeps_mapM); intros ?
  | kgen (@keeps_concatMapM); intros ?
  | kgen (@keeps_node)
  | kgen (@keeps_with_frame)
  | kgen (@keeps_with_parent)
  | kgen (@keeps_at_root)
  | match goal with |- keeps _ (match ?x with _ => _ end) => destruct x end
  | match goal with |- keeps _ (if ?x then _ else _) => destruct x end
  | match goal with |- keeps _ (let (_, _) := ?x in _) => destruct x end ].
Ltac ks := repeat ks_step.

Section Bodies.
Variable re : re_oracle.
Variable conv : conv_oracle.
Variable prog : rules_file.
Variable r : ev.
Hypothesis Hr : ev_kshape r.

Let Hq := proj1 Hr.
Let Hc := proj1 (proj2 Hr).
Let Hrule := proj1 (proj2 (proj2 Hr)).
Let Hres := proj1 (proj2 (proj2 (proj2 Hr))).
Let Hfn := proj2 (proj2 (proj2 (proj2 Hr))).

Ltac kh := first [apply Hq | apply Hc | apply Hrule | apply Hres | apply Hfn].
Ltac kl := fail.
Ltac kss := repeat first [kl | kh | ks_step].

Lemma ks_ctx_query_fs fs q : kshape (ctx_query_fs r fs q).
Proof. induction fs as [|f fs IH]; cbn [ctx_query_fs]; [kss|]. destruct f; kss. Qed.

Lemma ks_ctx_query q : kshape (ctx_query r q).
Proof. intros s a recs s' H. unfold ctx_query in H. eapply ks_ctx_query_fs; exact H. Qed.
Ltac kl ::= first [apply ks_ctx_query].

Lemma ks_fn_body name params : kshape (fn_body r name params).
Proof. unfold fn_body. kss. Qed.

Lemma ks_resolve_scope is_root root lets memo name : kshape (resolve_scope r is_root root lets memo name).
Proof. unfold resolve_scope. kss. Qed.

Lemma ks_resolve_body name : kshape (resolve_body r name).
Proof.
  intros s a recs s' H. unfold resolve_body in H. destruct (frames s) as [|f fs] eqn:E; [discriminate|].
  destruct f as [root l memo|root l memo|root|b c m].
  - eapply ks_resolve_scope; exact H.
  - eapply ks_resolve_scope; exact H.
  - revert H. apply keeps_with_parent; [exact ss_parent|apply Hres].
  - destruct (assoc name b).
    + apply ret_inv in H as (_ & _ & ->). reflexivity.
    + revert H. apply keeps_with_parent; [exact ss_parent|apply Hres].
Qed.

Lemma ks_rq qi q cur cv : kshape (rq r qi q cur cv).
Proof. apply Hq. Qed.
Ltac kl ::= first [apply ks_ctx_query | apply ks_rq].

Lemma ks_map_resolved qr f : (forall v, kshape (f v)) -> kshape (map_resolved qr f).
Proof. intros Hf. unfold map_resolved. kss. apply Hf. Qed.

Lemma ks_accumulate parent qi q elements cv : kshape (accumulate r parent qi q elements cv).
Proof. unfold accumulate. kss. Qed.

Lemma ks_accumulate_map parent keys vals qi q cv func :
  (forall a b c d e, kshape (func a b c d e)) -> kshape (accumulate_map parent keys vals qi q cv func).
Proof. intros Hf. unfold accumulate_map. kss. apply Hf. Qed.

Lemma ks_eval_filter_cnf cnf : kshape (eval_filter_cnf r cnf).
Proof. unfold eval_filter_cnf. kss. Qed.
Ltac kl ::= first [apply ks_ctx_query | apply ks_rq | apply ks_accumulate | apply ks_eval_filter_cnf].

Lemma ks_check_and_delegate cnf name index q key value cv : kshape (check_and_delegate r cnf name index q key value cv).
Proof. unfold check_and_delegate. kss. Qed.

Lemma ks_lookup_key vals cur k qi q cv : kshape (lookup_key conv r vals cur k qi q cv).
Proof. unfold lookup_key. destruct (map_get k vals); [apply ks_rq|]. destruct cv as [c|]; kss. Qed.

Lemma ks_interpolate var vals cur qi q cv : kshape (interpolate r var vals cur qi q cv).
Proof. unfold interpolate. kss. Qed.

Lemma ks_old_report_value c x : kshape (old_report_value c x).
Proof. unfold old_report_value. kss. Qed.
Ltac kl ::= first [apply ks_ctx_query | apply ks_rq | apply ks_accumulate | apply ks_eval_filter_cnf
                  | apply ks_check_and_delegate | apply ks_lookup_key | apply ks_interpolate | apply ks_old_report_value].

Lemma ks_real_binary_operation lhs rhs c0 : kshape (real_binary_operation re lhs rhs c0).
Proof. unfold real_binary_operation. kss. Qed.
Ltac kl ::= first [apply ks_ctx_query | apply ks_rq | apply ks_accumulate | apply ks_eval_filter_cnf
                  | apply ks_check_and_delegate | apply ks_lookup_key | apply ks_interpolate | apply ks_old_report_value
                  | apply ks_real_binary_operation].

Lemma ks_map_key_filter c w keys vals cur qi q cv : kshape (map_key_filter re r c w keys vals cur qi q cv).
Proof. unfold map_key_filter. kss. Qed.
Ltac kl ::= first [apply ks_ctx_query | apply ks_rq | apply ks_accumulate | apply ks_eval_filter_cnf
                  | apply ks_check_and_delegate | apply ks_lookup_key | apply ks_interpolate | apply ks_old_report_value
                  | apply ks_real_binary_operation | apply ks_map_key_filter
                  | apply ks_accumulate_map; intros ? ? ? ? ? | apply ks_map_resolved; intros ?].

Lemma ks_query_body qi q cur cv : kshape (query_body re conv r qi q cur cv).
Proof. unfold query_body. kss. Qed.

Ltac kl2 := fail.
Ltac kss2 := repeat first [kl2 | kl | kh | ks_step].

Lemma ks_unary_operation lhs_query c inverse custom : kshape (unary_operation r lhs_query c inverse custom).
Proof. unfold unary_operation. kss2. Qed.

Lemma ks_binary_operation lhs_query rhs c custom : kshape (binary_operation re r lhs_query rhs c custom).
Proof. unfold binary_operation. kss2. Qed.
Ltac kl2 ::= first [apply ks_unary_operation | apply ks_binary_operation].

Lemma ks_access_clause_body g : kshape (access_clause_body re r g).
Proof. unfold access_clause_body. kss2. Qed.

Lemma ks_first_non_skip rules : kshape (first_non_skip r rules).
Proof. induction rules as [|x rest IH]; cbn [first_non_skip]; kss2. Qed.

Lemma ks_rule_status_body name : kshape (rule_status_body prog r name).
Proof.
  unfold rule_status_body. apply keeps_at_root; [exact ss_root|].
  intros s a recs s' H. destruct (assoc name (statuses s)).
  - apply ret_inv in H as (_ & _ & ->). reflexivity.
  - destruct (rules_named prog name) as [|x rest]; [discriminate|].
    apply bind_inv in H as (st & r1 & s1 & r2 & H1 & H2 & _).
    apply ks_first_non_skip in H1. inversion H2; subst. unfold same_shape, shape in *. cbn. exact H1.
Qed.
Ltac kl2 ::= first [apply ks_unary_operation | apply ks_binary_operation | apply ks_access_clause_body | apply ks_rule_status_body].

Lemma ks_named_clause_body n : kshape (named_clause_body prog r n).
Proof. unfold named_clause_body. kss2. Qed.

Lemma ks_gblock_body b : kshape (gblock_body r b).
Proof. unfold gblock_body. kss2. Qed.
Ltac kl2 ::= first [apply ks_unary_operation | apply ks_binary_operation | apply ks_access_clause_body | apply ks_rule_status_body
                   | apply ks_named_clause_body | apply ks_gblock_body].

Lemma ks_block_clause_body aq b ne : kshape (block_clause_body r aq b ne).
Proof. unfold block_clause_body. kss2. Qed.

Lemma ks_param_call_body params n : kshape (param_call_body prog r params n).
Proof. unfold param_call_body. kss2. Qed.
Ltac kl2 ::= first [apply ks_unary_operation | apply ks_binary_operation | apply ks_access_clause_body | apply ks_rule_status_body
                   | apply ks_named_clause_body | apply ks_gblock_body | apply ks_block_clause_body | apply ks_param_call_body].

Lemma ks_when_clause_body w : kshape (when_clause_body re prog r w).
Proof. unfold when_clause_body. kss2. Qed.
Ltac kl2 ::= first [apply ks_unary_operation | apply ks_binary_operation | apply ks_access_clause_body | apply ks_rule_status_body
                   | apply ks_named_clause_body | apply ks_gblock_body | apply ks_block_clause_body | apply ks_param_call_body
                   | apply ks_when_clause_body].

Lemma ks_when_block_body conds b : kshape (when_block_body re prog r conds b).
Proof. unfold when_block_body. kss2. Qed.
Ltac kl2 ::= first [apply ks_unary_operation | apply ks_binary_operation | apply ks_access_clause_body | apply ks_rule_status_body
                   | apply ks_named_clause_body | apply ks_gblock_body | apply ks_block_clause_body | apply ks_param_call_body
                   | apply ks_when_clause_body | apply ks_when_block_body].

Lemma ks_clause_body g : kshape (clause_body re prog r g).
Proof. unfold clause_body. kss2. Qed.

Lemma ks_type_block_body tn conds b q : kshape (type_block_body re prog r tn conds b q).
Proof. unfold type_block_body. kss2. Qed.

Lemma ks_rule_clause_body c : kshape (rule_clause_body re prog r c).
Proof. unfold rule_clause_body. kss2. Qed.

Lemma ks_rule_body x : kshape (rule_body re prog r x).
Proof. unfold rule_body. kss2; try apply ks_rule_clause_body. Qed.

End Bodies.

(* every entry point of the evaluator, at every fuel, for every program *)
Theorem evalN_keeps_shape re conv prog fuel : ev_kshape (evalN re conv prog fuel).
Proof.
  induction fuel as [|n IH].
  - repeat split; intros; intros s a recs s' H; discriminate.
  - cbn [evalN]. repeat split; cbn [ev_query ev_clause ev_rule ev_resolve ev_fn]; intros.
    + apply ks_query_body; exact IH.
    + apply ks_clause_body; exact IH.
    + apply ks_rule_body; exact IH.
    + apply ks_resolve_body; exact IH.
    + apply ks_fn_body; exact IH.
Qed.

(* a whole file: the scope stack after the evaluation is the root scope it started with *)
Theorem eval_file_keeps_shape re conv prog fuel doc st recs s' :
  eval_file re conv prog fuel doc = Done (st, recs, s') ->
  exists memo, frames s' = [FRoot doc (rf_lets prog) memo].
Proof.
  intros H. unfold eval_file, file_body in H. apply node_inv in H as (ch & H & _).
  assert (K : kshape (sts <- mapM (ev_rule (evalN re conv prog fuel)) (rf_rules prog) ;; ret (fold_fail_pass_skip sts))).
  { ks. apply (evalN_keeps_shape re conv prog fuel). }
  apply K in H. unfold same_shape, shape, init_state in H. cbn in H.
  destruct (frames s') as [|f [|g fs]]; try discriminate. cbn in H. inversion H as [E].
  destruct f; try discriminate. cbn in E. inversion E; subst. eexists. reflexivity.
Qed.
