#!/usr/bin/env python3
"""Regenerates /verif/MANIFEST.json from the table below (one entry per claimed property).
Properties without an entry are listed under not_applicable with the reason in NOT_CLAIMED."""
import json, os, sys

ALL = ['C%02d' % i for i in range(1, 20)]
TECH = 'machine-checked proof in Coq over a hand-written executable model + exhaustive/sampled correspondence with the Rust implementation'
BASE_NOTE = ('Trusted: Coq 8.16.1 kernel, vm_compute; no axioms (Print Assumptions: Closed under the global context for every '
             'property theorem). Modelled, not verified: the hand-written Gallina model; the tie is the correspondence run on every check. ')

CLAIMED = {
 'C13': dict(
  text="Coq theorems over the executable model of path_value.rs/operators.rs (Compare.v, Operators.v): trichotomy, <=/>= decomposition, numeric/lexicographic/dyadic order, the four range bracket forms, regex-through-eq, cross-type and unordered types never ordered, NotComparable stays FAIL under both polarities, in-list iff some element equal. The model's kernels are tied to the code by an exhaustive kernel-matrix correspondence (equality as functions on the universe) and by single-clause rules evaluated by the implementation and by the model (status and full record tree), plus the algebraic relations recomputed on the implementation's statuses.",
  note="tie = hook cmp/lit/eval + python glue; fancy_regex is an oracle (table per run); decimal->f64 conversion is the implementation's."),
 'C02': dict(
  text="Coq theorems over SEval's combinators (line_body, cnf_body, when_block_body, rule_body, named_clause_body, eval_file, node): an or-line is PASS iff an alternative passed / FAIL iff none passed and one failed / else SKIP, bodies by the FAIL>PASS>SKIP fold for CNFs of any shape, a when/rule condition that is not PASS gives SKIP with no body records, a named clause is PASS iff the rule is PASS (inverted under not), the file by the rule fold, every record node carries the computed status. Tie: the model's status AND whole record tree equal the implementation's on every CNF shape (exhaustive up to the tier's bound) at eleven call sites and on generated programs; monitor Wf.wf_tree (the statement, executable) is evaluated inside Coq on the implementation's record trees.",
  note="tie = hook eval_dump + python glue; `some` blocks are monitored by necessary conditions only (the record does not group lines by value)."),
 'C03': dict(
  text="Coq theorems over SEval/Operators: prefix not on a unary clause is simulated by the operator-level negation (same status, same state), on a binary clause it IS the operator-level negation (equal computations), double negation restores the clause, a single comparable value flips PASS<->FAIL, not > is <=, NotComparable stays FAIL under every polarity, not R is PASS iff R is not PASS. Tie: SEval vs implementation (status + record tree) on every generated clause group; relational monitor (c, not c, flip c, not flip c) on the implementation's statuses, exhaustive over operator x polarity x value-shape classes in the thorough tier. The pinned code violated the property for binary clauses (fix: 93b9493 in /repo); the model mirrors the repaired code.",
  note="tie = hook eval_dump + python glue; ordering operators have no operator-level negated spelling, for them the single-comparable inversion and SKIP preservation are monitored."),

 'C06': dict(
  text="Coq theorems over Cli.v, a model of the exit-code folds (validate: the plain loop, the JSON/YAML/SARIF reporter, the JUnit reporter with update_exit_code, main's Err -> exit(-1); test: plain and structured single-file handlers, get_exit_code): exit 0 iff every rules file parsed and no pair FAILed or erred; all parsed, no error, some FAIL => 19; a parse error and nothing FAILs => 5; any error => neither 0 nor 19; test: 0 iff everything parses and every stated expectation matches, 7 if all parse and some mismatch, non-zero otherwise — for any number of rules/data files. The status-code constants are regenerated from commands/mod.rs and main.rs on every run (translator) and the theorem C06_codes pins them. Tie: the real binary is run on scenario directories in plain/-o json/-v/--structured json|yaml|sarif|junit x files/stdin/--payload and `test` in single-file and directory form x plain/json/yaml/junit; its exit status is compared with the model fold evaluated by Coq on the scenario's outcome matrix, and the monitor c06_*_obs (the statement) is evaluated by Coq on the observed status.",
  note="tie = translator tools/gv/tables.py + CLI runs + hook eval_dump for the outcome matrix. The model mirrors fix e85c264 (test -o json exited 0 on an unparsable rules file). Directory-mode test folds are tied by correspondence only (no theorem yet)."),
 'C16': dict(
  text="Coq theorems over TestCmd.v (get_by_rules, get_status_result, the plain and structured classification of a test case, JUnit marks): an expectation is met iff some same-named definition has the expected non-SKIP status or all are SKIP when SKIP is expected (any number of definitions); a single definition is met iff its status equals the expectation; a mismatch lists every evaluated status; the statuses matched are those of the same-named RuleCheck records in definition order; rules without expectation are never failures; every rule lands in one of passed/failed/skipped; plain, structured and JUnit classifications coincide. Tie: get_status_result is compared exhaustively (every expectation x every status list up to the tier's length) through a hook; `test -o json` of the real binary is compared, case by case inside Coq, with the model's classification of the statuses recorded for the same rules and input. Monitor: the status `test` reports as evaluated equals what `validate --structured` reports for the same document; plain/JSON/YAML/JUnit renderings agree; exit 7 iff a failed rule.",
  note="tie = hooks test_status_result / eval_dump + CLI runs + python parsers of the four renderings. Inputs are JSON-compatible documents."),
 'C17': dict(
  text="Coq theorems over Merge.v (PathAwareValue::merge, the left-to-right fold over the -i files, the per-data-file merge): two maps without a common key merge to the union with nothing lost or changed; a key defined by both sources is Err(MultipleValues), never a silent choice; a successful merge preserves every entry of both sides and the alignment of the keys vector with the values map; for P1..Pn and D with pairwise distinct top-level keys the evaluated input is the document whose top-level entries are those of P1..Pn, D; permuting the parameter files only permutes the entries. Tie: PathAwareValue::merge is compared inside Coq with the model on every ordered pair of a document universe (value, keys vector, paths, error kind). Monitor on the real binary: documents split at random into 1..3 parameter files + data, every order of -i, plain and --structured, against the pre-merged document (rule statuses, file status, exit code); a key defined twice must give an error exit with a diagnostic in both modes.",
  note="tie = hook merge/doc_dump + CLI runs. The model mirrors fix 273e441 (structured mode unwrapped the merge error). Not proved: that evaluation depends on a document only through its stripped value (path-irrelevance of verdicts); that part is carried by the end-to-end comparison."),
 'C12': dict(
  text="Coq theorems over Batch.v/Cli.v: validating rules files rs against data files ds (rules-major as validate.rs, data-major as structured.rs) yields, at position (i,j), exactly eval_file of that pair from the fresh state init_state, i.e. the report of the pair validated alone; permuting the rules files or the data files only permutes the reports; the run has a FAIL iff some pair FAILs; the exit status is a function of (all parsed, some FAIL, some error) and hence independent of the order in which files are given or walked. That the code really builds a fresh root scope per pair and keeps no mutable process-wide state is NOT a theorem: it is certified on every run by two inventories regenerated from the source (every `root_scope(` construction site with its enclosing loops; every static / lazy_static / thread_local / OnceCell / Mutex item) against their reviewed classification. Monitor on the real binary: 1..3 rules files reusing rule, variable and capture names x 1..4 documents, every pair alone vs the batch in several orders of -r/-d, as directories with -a/-m, as --payload, in plain mode; the cases of one test file vs each case alone.",
  note="tie = tools/gv/inventory.py (pattern-based, /verif/inventory/*.json) + CLI runs. The pointwise theorem holds by construction of the model (eval_file has no other input); its link to the code is the inventory plus the SEval correspondence of C02. Excluded by statement: the plain-mode exit code when a parse error and a FAIL are mixed (C07)."),
 'C05': dict(
  text="PARTIAL. Proved in Coq: evaluation (SEval.eval_file) is a function of rules, document and oracles - the model has no hash-order, clock or history parameter; `test` reports list rules in the order of first appearance in the evaluation record; output blocks rendered from a hash container are the same up to permutation for any two iteration orders, and a reporter that sorts its keys prints the same sequence. Tied to the code by inventories regenerated from the source on every run (every function that iterates a HashMap/HashSet, every process-wide static) against a reviewed classification saying which sites feed structured output (none since the fixes), which only console output, which sort first. NOT proved: that serde_json/serde_yaml/quick_xml render a value to the same bytes each time, and the absence of other nondeterminism in library code - these are searched for by the repeated-run differential the property describes (5 fresh processes per (rules, data, mode) over 16 command/mode combinations incl. test, parse-tree, rulegen; run_checks 5 times in one process interleaved with other evaluations), which is testing, not proof.",
  note="tie = tools/gv/inventory.py vs /verif/inventory/{hash_iter,static}.json + repeated runs. Three genuine defects found by the search were repaired in /repo (0a447c0 test report order, aebbc50 rulegen order, the console by_resources fix) together with the error-text key order.",
  technique="machine-checked proof in Coq (ordering lemmas over the model) + source inventories tying the model's absence of hash-order parameters to the code + repeated-run differential as search"),
 'C09': dict(
  text="Coq theorems over Report.v, a model of simplified_json_from_root, report_all_failed_clauses_for_rules (all its match arms) and FileReport::combine: with distinct rule names every evaluated rule is in exactly one of compliant / not_applicable / not_compliant according to its status; the file status is FAIL iff not_compliant is non-empty, PASS iff it is empty and compliant is not, else SKIP (given the file record carries the fold of its rules, which is C02_file); combining the reports of several rules files is the union and its status again follows the FAIL>PASS>SKIP rule; every check listed under a rule is the image of a ClauseValueCheck record inside that rule's own subtree whose status is FAIL and carries its custom message; a FAIL rule is listed even with no displayable check; nothing is listed under a PASS or SKIP rule. Tie: the JSON the implementation prints (run_checks non-verbose) is compared inside Coq with Report.simplified applied to the record tree of the same evaluation (status, both name sets, the whole not_compliant tree with node kinds and custom messages). Monitor: the statement evaluated on the implementation's outputs alone, plus union-of-reports for 2..3 rules files through the CLI.",
  note="tie = hook eval_dump + run_checks JSON + CLI runs. Context strings and error-message wording are not modelled. The correspondence found that run_checks truncated reports over 8 KiB (fixed in /repo, recorded under C07)."),
 'C07': dict(
  text="PARTIAL. Proved in Coq over Report.v/Cli.v: the console summary table lists exactly the rules the structured report lists as compliant / not_compliant / not_applicable (distinct names); SARIF carries one result per reported failing check (message_count = leaves + empty-block entries of the report tree); when every rules file parses the exit status is the same in the plain, JSON/YAML/SARIF and JUnit code paths; and the mixed case (a parse error together with a FAIL) is genuinely mode- and order-dependent (19 / 5 / last-non-zero), stated as a theorem. Report.v and Cli.v are tied to the code by the C09 and C06 correspondences. NOT provable here: that the bytes serde_json / serde_yaml / quick_xml emit are well-formed and that JSON and YAML denote the same data - this is observed by parsing every output back. Monitor: the statement's cross product on generated (rules, data): console summary with -S all/pass/fail/skip/none, -v, -p, -o json, -o yaml, --structured json/yaml/sarif/junit, stdin, --payload and run_checks (verbose and not): PASS/FAIL/SKIP rule sets, file status and exit code extracted from every rendering must agree; SARIF result count and JUnit marks are checked against the structured report.",
  note="tie = C09 + C06 correspondences; python parsers of each rendering. Known finding (recorded, not repaired): validate with one unparsable and one failing rules file exits 19 (JSON/YAML/SARIF), 5 (JUnit) or the last non-zero code (plain) - the statement of C06 leaves this case at 'non-zero', C07's 'same exit code' does not hold there; repairing it means choosing a precedence, i.e. changing documented-by-behaviour exit codes. Fixed in /repo: run_checks truncation of reports over 8 KiB.",
  technique="machine-checked proof in Coq over the report/exit-code models + cross-format differential on the real binary (parsing every output back)"),
 'C04': dict(
  text="Coq theorems over SEval's combinators for bodies of ANY shape: for clauses that are state-transparent (one status in every state, state handed back unchanged) permuting the lines of a rule/block/filter body, permuting the alternatives of an or-line and repeating a line leave the status unchanged; the status combinators are permutation- and duplication-invariant for status lists of any length; the definitions found for a rule name do not depend on where other rules are written; the file status is a permutation-invariant fold; a cached rule status is exactly what every later reference receives. PARTIAL: the hypothesis `transparent` is not discharged for memoised variables and cached rule statuses (that is the SEval->PEval bridge of DESIGN.md 2.3, not finished). That part - the history dimension of the property - is carried by the monitor: every generated capture-free, acyclic program (forward references, shared variables, references to already evaluated rules on purpose) is evaluated by the implementation under every permutation (exhaustive up to 4 items, sampled beyond) of lines, alternatives and rules, with a repeated line and with a rule duplicated under a new name, and all rule and file statuses must agree unless an ordering errs. Tie: SEval vs implementation (status, error kind, record tree) on the same programs.",
  note="tie = hook eval_dump + python glue; programs with key captures are excluded (captures append to the root memo: recorded deviation)."),
 'C15': dict(
  text="Coq theorems over SEval's variable resolution: a variable bound to a literal resolves to exactly that literal in every state and leaves the state alone; the bare query %v returns what the variable resolves to, unchanged and in order (so a right-hand side %v and the literal itself are the same value list); a memoised variable is returned as stored - every reference sees the same value; an unused definition changes no lookup of any other name (an equality of computations, so it holds also when evaluating it would be an error: laziness); inner definitions shadow outer ones; an outer variable is looked up and evaluated in the scope that defines it; value scopes define nothing; inside f(args) a parameter is exactly the value list its argument evaluated to. PARTIAL: that memoisation is invisible in the verdicts of whole programs (the SEval->PEval bridge) is not proved; it is carried by the monitor: on the implementation every generated program is compared with its abstracted forms - right-hand literal/query bound to %v at block, rule and file level, left-hand query bound to a variable (except the documented emptiness test), unused variables (also erroring ones) added at every level, literal variables inlined, parameterised calls replaced by their body. Tie: SEval vs implementation on the same programs (status, error kind, record tree).",
  note="tie = hook eval_dump + python glue."),
 'C01': dict(
  text="PARTIAL. Spec.v is an independent, stateless reading of the documented semantics of the core language written in Gallina (no scope stack with memo, no rule-status cache, no records; a variable is re-derived at every use, a named rule at every reference; outside the fragment it answers 'not covered', never a verdict). The full refinement statement (the model of the implementation refines Spec on the core fragment) is kept visible as C01_full_statement and is NOT proved. Proved in Coq (the `_partial` theorems): for every comparison operator, both polarities and any right-hand side an unresolved left-hand value is reported as such and yields a FAIL check (negation never turns it into a success); an unresolved value is `empty` and `not exists` under both spellings of the negation; a comparison over an empty selection is skipped and a block over an empty selection is SKIP (FAIL when written !empty); `empty` on a number or null is an evaluation error; the all/some aggregation laws; and the same sentences hold of Spec. The refinement is checked on every run: Spec is evaluated by Coq (vm_compute) on the AST the implementation parsed and the value it loaded, and its verdict table - every rule, the file, or 'undefined' - must equal what the implementation reports, on generated programs of the core fragment x documents and on the enumeration of all single-clause programs over a fixed query/operator/literal/document universe (exhaustive in the thorough tier, a seeded sample in quick). Tie of the implementation model: SEval vs implementation (status, error kind, record tree) on the same programs.",
  note="tie = hook eval_dump + python glue + fancy_regex oracle table. The Spec differential found a genuine defect (list `not in` list-of-lists), repaired in /repo; the undocumented case-converter key fallback is a recorded finding (KNOWN-FINDING line on every run).",
  technique="machine-checked proof in Coq of the statement's sentences over the model + an independent executable semantics in Gallina evaluated by Coq against the implementation's verdicts (differential; not a proof of refinement)"),
}

NOT_CLAIMED = {}

def main():
    checks = []
    for pid in ALL:
        if pid not in CLAIMED:
            continue
        c = CLAIMED[pid]
        checks.append({
            'property_id': pid,
            'quick_cmd': './check %s quick' % pid,
            'thorough_cmd': './check %s thorough' % pid,
            'evidence_file': '/verif/evidence/%s.json' % pid,
            'replay_cmd_template': './check %s quick --replay {path}' % pid,
            'engine': 'coq-model+correspondence',
            'level_claimed': {'category': c.get('category', 'proof'), 'text': c['text'], 'design_ref': 'DESIGN.md §5 ' + pid},
            'level_note': BASE_NOTE + c['note'],
            'technique': c.get('technique', TECH),
        })
    na = [{'property_id': p, 'reason': NOT_CLAIMED.get(p, 'check under construction; not claimed yet (no technique switch: the Coq model does not cover it yet)')}
          for p in ALL if p not in CLAIMED]
    m = {
        'version': 1,
        'setup_cmd': './setup.sh',
        'hooks': {
            'guard': 'guard_verif',
            'enable': 'RUSTFLAGS="--cfg guard_verif" cargo +1.77.2 build --offline (harness crate /verif/harness depends on /repo/guard by path)',
            'baseline_off_cmd': '/verif/tools/baseline.sh /repo',
            'source_commits': HOOK_COMMITS,
            'add_only': True,
        },
        'engines': [{
            'name': 'coq-model+correspondence',
            'path': '/verif/coq, /verif/tools/gv, /verif/harness',
            'serves_properties': [c['property_id'] for c in checks],
            'kind_free_text': 'Coq 8.16.1 development (model, proofs, pinned property statements) + Rust hook harness + python glue running the correspondence and monitors',
        }],
        'checks': checks,
        'notes': 'See DESIGN.md. Known findings: known_findings.json. Regenerate with tools/mkmanifest.py.',
        'not_applicable': na,
    }
    path = os.path.join(os.path.dirname(os.path.abspath(__file__)), '..', 'MANIFEST.json')
    with open(path, 'w') as f:
        json.dump(m, f, indent=1)
        f.write('\n')
    try:
        import jsonschema
        jsonschema.validate(m, json.load(open('/root/.vp/MANIFEST.schema.json')))
        print('MANIFEST valid; claimed:', ' '.join(c['property_id'] for c in checks))
    except ImportError:
        print('written (jsonschema not available here; run with python3-vt to validate)')

HOOK_COMMITS = ['abeb198']

if __name__ == '__main__':
    main()
