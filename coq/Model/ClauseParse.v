(* ClauseParse.v — one access clause as rules/parser.rs reads it (`clause_with_map`, lines 954-1038, = `single_clause`): layout, an
   optional `not` / `NOT` / `!`, the query (QueryParse.access), layout, the operator (OpParse.value_cmp); for a unary operator an
   optional custom message; for a binary operator - under `cut` - a value literal (ValueParse.parse_value), or a function call
   (outside the model: PUnk), or a query, then an optional custom message `<< .. >>` (unclosed: Failure).
   The parts are the ones the evaluator model runs on; the literal stays a `lit` (positions are given by the loader). No proofs. *)
From GV.Model Require Import Ast.
From GV.Model Require Import ValueParse QueryParse OpParse.
Local Open Scope string_scope.

(* extract_message: up to the first ">>" *)
Fixpoint find_close (s : string) (acc : string) : option (string * string) :=
  match s with
  | EmptyString => None
  | String c r => if str_prefix ">>" s then Some (acc, drop 2 s) else find_close r (acc +++ String c EmptyString)
  end.
Definition custom_message (s : string) : pres string :=
  if str_prefix "<<" s then
    match find_close (drop 2 s) EmptyString with Some (m, r) => POk m r | None => PFail end
  else PErr.
(* preceded(zero_or_more_ws_or_comment, opt(custom_message)) *)
Definition opt_message (s : string) : pres (option string) :=
  match custom_message (skip_ws_comments s) with
  | POk m r => POk (Some m) r
  | PErr => POk None (skip_ws_comments s)
  | PFail => PFail
  | PUnk => PUnk
  | POof => POof
  end.

Inductive rhs := RLit (l : lit) | RQuery (q : access_query).
Record pclause := mkPC { pc_neg : bool; pc_query : access_query; pc_cmp : cmp_op * bool; pc_rhs : option rhs; pc_msg : option string }.

Definition no_clause : pclause := mkPC false (AccessQuery [] true) (OEq, false) None None.

(* call_expr starts with a name and an opening parenthesis: function calls are outside the model *)
Definition function_like (s : string) : pres unit :=
  match var_name s with
  | POk _ r => match r with String c _ => if Ascii.eqb c "(" then PUnk else PErr | EmptyString => PErr end
  | PErr => PErr
  | PFail => PFail
  | PUnk => PUnk
  | POof => POof
  end.

Section WithRegex.
Variable regex_valid : string -> bool.

Definition with_message (neg : bool) (q : access_query) (c : cmp_op * bool) (w : option rhs) (s : string) : pres pclause :=
  pmap (fun m => mkPC neg q c w m) (opt_message s).

Definition clause (fuel : nat) (s : string) : pres pclause :=
  let s0 := skip_ws_comments s in
  let '(neg, s1) := match not_kw s0 with Some r => (true, r) | None => (false, s0) end in
  match access fuel s1 with
  | POk q r1 =>
      match value_cmp (skip_ws_comments r1) with
      | POk c r2 =>
          if is_unary (fst c) then with_message neg q c None r2
          else
            match parse_value regex_valid fuel r2 with
            | POk l r3 => with_message neg q c (Some (RLit l)) r3
            | PErr =>
                let t := skip_ws_comments r2 in
                match function_like t with
                | PErr =>
                    match access fuel t with
                    | POk q2 r3 => with_message neg q c (Some (RQuery q2)) r3
                    | PErr => PFail                                       (* cut *)
                    | other => pmap (fun _ => no_clause) other
                    end
                | other => pmap (fun _ => no_clause) other
                end
            | other => pmap (fun _ => no_clause) other
            end
      | other => pmap (fun _ => no_clause) other
      end
  | other => pmap (fun _ => no_clause) other
  end.

Definition clause_top (s : string) : pres pclause := clause (S (String.length s)) s.
End WithRegex.

(* ---------------------------------------------------------------- the tie *)
Inductive impl_rhs := IRNone | IRLit (l : lit) | IRQuery (q : access_query) | IROther.
Inductive impl_clause :=
| ICLOk (neg : bool) (q : access_query) (o : cmp_op) (n : bool) (w : impl_rhs) (msg : option string) (offset : N)
| ICLError | ICLFailure | ICLOther.
Inductive pcl_verdict := PLAgree | PLAgreeReject | PLNotModelled | PLDisagree.

Definition rhs_agree (w : option rhs) (i : impl_rhs) : bool :=
  match w, i with
  | None, IRNone => true
  | Some (RLit a), IRLit b => lit_eqb a b
  | Some (RQuery a), IRQuery b => aq_eqb a b
  | _, _ => false
  end.

Definition clause_obs (regex_valid : string -> bool) (text : string) (i : impl_clause) : pcl_verdict :=
  match clause_top regex_valid text, i with
  | PUnk, _ => PLNotModelled
  | POk c r, ICLOk neg q o n w msg off =>
      if Bool.eqb (pc_neg c) neg && aq_eqb (pc_query c) q && cmp_op_eqb (fst (pc_cmp c)) o && Bool.eqb (snd (pc_cmp c)) n
         && rhs_agree (pc_rhs c) w && ostr_eqb (pc_msg c) msg && N.eqb (N.of_nat (String.length text - String.length r)) off
      then PLAgree else PLDisagree
  | PErr, ICLError => PLAgreeReject
  | PFail, ICLFailure => PLAgreeReject
  | _, _ => PLDisagree
  end.
