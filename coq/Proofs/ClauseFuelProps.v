(* ClauseFuelProps.v — the fuel of the clause parser is irrelevant once it exceeds the length of the text. *)
From Coq Require Import Lia.
From GV.Model Require Import Ast.
From GV.Model Require Import ValueParse QueryParse OpParse ClauseParse.
From GV.Proofs Require Import LexProps ValueParseProps ValueSpellProps QueryParseProps OpParseProps ClauseParseProps.
Local Open Scope string_scope.
Local Open Scope nat_scope.

Section Fuel.
Variable rv : string -> bool.

Theorem clause_fuel_irrelevant : forall n s, len s < n -> clause rv n s = clause_top rv s.
Proof.
  intros n s Hn. unfold clause_top, clause.
  pose proof (skip_len s false) as L0. fold (skip_ws_comments s) in L0.
  destruct (match not_kw (skip_ws_comments s) with Some r => (true, r) | None => (false, skip_ws_comments s) end) as [neg s1] eqn:E0.
  assert (L1 : len s1 <= len s).
  { destruct (not_kw (skip_ws_comments s)) as [r|] eqn:E; inversion E0; subst; [apply not_kw_le in E; lia|lia]. }
  rewrite (access_at n s1) by lia. rewrite (access_at (S (len s)) s1) by lia.
  destruct (access_top s1) as [q r1| | | |] eqn:Ea; try reflexivity.
  assert (L2 : len r1 < len s1) by (unfold access_top in Ea; now apply access_consumes in Ea).
  pose proof (skip_len r1 false) as L3. fold (skip_ws_comments r1) in L3.
  destruct (value_cmp (skip_ws_comments r1)) as [c r2| | | |] eqn:Ec; try reflexivity.
  apply value_cmp_consumes in Ec.
  destruct (is_unary (fst c)); [reflexivity|].
  rewrite (parse_value_fuel_irrelevant rv r2 n) by (unfold value_fuel; lia).
  rewrite (parse_value_fuel_irrelevant rv r2 (S (len s))) by (unfold value_fuel; lia).
  destruct (parse_value_top rv r2) as [l r3| | | |]; try reflexivity.
  destruct (function_like (skip_ws_comments r2)); try reflexivity.
  pose proof (skip_len r2 false) as L4. fold (skip_ws_comments r2) in L4.
  rewrite (access_at n (skip_ws_comments r2)) by lia. rewrite (access_at (S (len s)) (skip_ws_comments r2)) by lia. reflexivity.
Qed.

End Fuel.
