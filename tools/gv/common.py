import os, sys, json, subprocess, time, hashlib, shutil

VERIF = os.environ.get('VERIF_DIR', '/verif')
REPO = os.environ.get('REPO_DIR', '/repo')
CACHE = os.path.join(VERIF, '.cache')
WORK = os.path.join(VERIF, 'work')
COQDIR = os.path.join(VERIF, 'coq')
TOOLCHAIN = '+1.77.2'
NPROC = int(os.environ.get('VERIF_JOBS', '16'))

class ToolingError(Exception):
    """could not build / run the machinery: exit code 2, never a pass, never a violation"""

def sh(cmd, cwd=None, env=None, timeout=None, check=True, input=None):
    e = dict(os.environ)
    e['CARGO_NET_OFFLINE'] = 'true'
    if env:
        e.update(env)
    p = subprocess.run(cmd, cwd=cwd, env=e, timeout=timeout, input=input,
                       stdout=subprocess.PIPE, stderr=subprocess.PIPE, shell=isinstance(cmd, str))
    if check and p.returncode != 0:
        raise ToolingError('command failed (%d): %s\n%s\n%s' % (
            p.returncode, cmd, p.stdout.decode('utf-8', 'replace')[-3000:], p.stderr.decode('utf-8', 'replace')[-3000:]))
    return p

def workdir(name):
    d = os.path.join(WORK, name)
    shutil.rmtree(d, ignore_errors=True)
    os.makedirs(d, exist_ok=True)
    return d

def seed():
    try:
        return int(os.environ.get('VERIF_SEED', '1'))
    except ValueError:
        return 1
