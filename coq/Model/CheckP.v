(* CheckP.v — the memo-free evaluator against the implementation's verdict (used by the C15 case files). *)
From GV.Model Require Export Check PEval.

Inductive pverdict := PAgree | PDisStatus | PNotCaptureFree | PNotDone | POutOfFuel | PImplNotOk.

Definition check_peval (fuel : nat) (rt : re_table) (ct : conv_table) (prog : rules_file) (doc : pv)
           (impl : impl_result) : pverdict :=
  if negb (nc_prog prog) then PNotCaptureFree
  else
    match impl with
    | IOk st _ =>
        match eval_file' (re_of_table rt) (conv_of_table ct) prog fuel doc with
        | Done (st', _, _) => if status_eqb st st' then PAgree else PDisStatus
        | OutOfFuel => POutOfFuel
        | _ => PNotDone
        end
    | _ => PImplNotOk
    end.
