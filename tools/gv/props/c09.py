"""C09 — the structured report partitions the rules exactly as they were evaluated.

proof   : Props/C09.v over Model/Report.v (simplified_json_from_root, report_all_failed_clauses_for_rules, combine)
tie     : the JSON report the implementation produces (run_checks non-verbose, and validate --structured -o json) vs
          Report.simplified applied inside Coq to the record tree of the same evaluation (hook eval_dump): status,
          compliant / not_applicable sets, and the whole not_compliant tree (rule / disjunction / block / unary / binary
          nodes with their custom messages)
monitor : on the implementation's outputs alone: every rule of the record in exactly one list according to its status,
          file status rule, FAIL rule listed even without checks, nothing under PASS/SKIP rules; 1..3 rules files per
          run: the report of the run equals the union of the single-file reports
"""
import json, random, os, re
from .. import coqterm as ct
from .. import impl, model, gen, e2e, corr
from ..common import *

HEADER = 'From GV.Model Require Import Check Report.\n'
EXTRA = [
    # shapes that need care: FAIL rule with no displayable check, block clause on an empty selection, disjunctions,
    # named-rule clauses, custom messages on every clause kind, literal-valued variables
    ('rule r0 {\n  Resources.*[ Type == "Queue" ] !empty {\n    Properties exists\n  }\n}\n', {"Resources": {"a": {"Type": "Topic"}}}),
    ('rule r0 {\n  Resources.*[ Type == "Queue" ] !empty\n}\nrule r1 {\n  r0 <<depends>>\n}\nrule r2 {\n  not r1\n}\n', {"Resources": {"a": {"Type": "Topic"}}}),
    ('let v = 5\nrule r0 {\n  %v is_string <<lit>>\n  %v == 6 <<cmp>> or\n  %v in [1, 2] <<inlist>>\n}\n', {"a": 1}),
    ('rule r0 {\n  a.b.c == 1 <<missing>>\n  a {\n    b == 2 <<inner>>\n  }\n  zz !empty {\n    q exists\n  }\n}\n', {"a": {"b": 1}}),
    ('rule r0 {\n  some l[*] == 9 <<some>>\n  l[*] in [1, 2] <<all in>>\n}\nrule r1 when r0 {\n  a exists\n}\n', {"l": [1, 2, 3], "a": 1}),
    # files in which every rule is skipped / every rule passes / one of each
    ('rule s0 when zz exists {\n  a exists\n}\n', {"a": 1}),
    ('rule s0 when zz exists {\n  a exists\n}\nrule s1 {\n  zz[ k == 1 ].v == 2\n}\nrule s2 when s0 {\n  a exists\n}\n', {"a": 1}),
    ('rule p0 {\n  a exists\n}\nrule s0 when zz exists {\n  a exists\n}\n', {"a": 1}),
    # emptiness tests on a variable with several values of which some are empty, in both polarities and under a prefix not
    ('let tags = Resources.*.Tags\nrule e0 {\n  %tags !empty <<tags>>\n}\nrule e1 {\n  not %tags empty <<no tags>>\n}\nrule e2 {\n  %tags empty <<has tags>>\n}\nrule e3 {\n  not %tags !empty <<nn>>\n}\n'
     'rule e4 {\n  some %tags !empty <<some>>\n  not some %tags empty <<ns>>\n}\n', {"Resources": {"a": {"Tags": [1]}, "b": {"Tags": []}, "c": {"Tags": [2, 3]}, "d": {"Other": 1}}}),
    ('rule f0 {\n  not Resources.*[ Tags exists ] empty <<flt>>\n  Resources.*[ Tags !empty ].Tags !empty <<t>>\n  not Resources.*[ Other exists ].Tags !empty <<o>>\n}\n', {"Resources": {"a": {"Tags": [1]}, "b": {"Tags": []}, "d": {"Other": 1}}}),
    # a block whose selection is empty and already remembered (no records under the block: it is SKIPped) inside a rule that FAILs
    # for another reason, with the variable at file level / rule level, first used by an earlier rule / an earlier clause
    ("let buckets = Resources.*[ Type == 'Bucket' ]\nrule none {\n  %buckets empty <<no buckets>>\n}\nrule settings {\n  %buckets {\n    Properties.V == 'on' <<v>>\n  }\n  Mode == 'strict' <<mode>>\n}\n"
     "rule enc {\n  %buckets {\n    Properties.E exists <<e>>\n  }\n}\n", {"Mode": "lax", "Resources": {"q": {"Type": "Queue", "Properties": {}}}}),
    ("rule settings {\n  let b = Resources.*[ Type == 'Bucket' ]\n  %b empty <<no buckets>>\n  %b {\n    Properties.V == 'on' <<v>>\n  }\n  %b {\n    Properties.W exists\n  }\n  Mode == 'strict' <<mode>>\n}\n",
     {"Mode": "lax", "Resources": {"q": {"Type": "Queue", "Properties": {}}}}),
    ("let b = Resources.*[ Type == 'Bucket' ]\nrule first {\n  %b {\n    Properties.V == 'on'\n  }\n  Mode == 'strict' <<mode>>\n}\nrule second {\n  Mode == 'strict' or\n  %b {\n    Properties.V == 'on'\n  }\n}\n"
     "rule third {\n  when Mode exists {\n    %b {\n      Properties.V == 'on'\n    }\n    Mode == 'strict'\n  }\n}\n", {"Mode": "lax", "Resources": {"q": {"Type": "Queue", "Properties": {}}}}),
    # a filter behind an explicit [*] on a list of structs, one element rejected by the filter and the clause failing on a selected
    # one: the filter's own comparisons are not checks of the rule (written [*][ .. ], [ .. ] and .*[ .. ]; with a message, in a
    # block, under some, two filters in a row)
    ("rule tagged {\n  Resources.*.Properties.Tags[*][ Key == 'env' ].Value == 'prod' <<env-must-be-prod>>\n}\nrule has_resources {\n  Resources exists\n}\n",
     {"Resources": {"r1": {"Type": "Bucket", "Properties": {"Tags": [{"Key": "owner", "Value": "team-a"}, {"Key": "env", "Value": "dev"}]}}}}),
    ("rule tagged {\n  Resources.*.Properties.Tags[ Key == 'env' ].Value == 'prod' <<env-must-be-prod>>\n}\nrule tagged2 {\n  Resources.*[ Type == 'Bucket' ].Properties.Tags[*][ Key == 'env' ][ Value != 'x' ].Value == 'prod'\n}\n",
     {"Resources": {"r1": {"Type": "Bucket", "Properties": {"Tags": [{"Key": "owner", "Value": "team-a"}, {"Key": "env", "Value": "dev"}]}}, "r2": {"Type": "Queue", "Properties": {"Tags": []}}}}),
    ("rule blk {\n  Resources.*.Properties.Tags[*][ Key == 'env' ] {\n    Value == 'prod' <<inner>>\n    Key exists\n  }\n}\nrule sm {\n  some Resources.*.Properties.Tags[*][ Key == 'env' ].Value == 'prod' <<some>>\n}\n",
     {"Resources": {"r1": {"Properties": {"Tags": [{"Key": "owner", "Value": "team-a"}, {"Key": "env", "Value": "dev"}, {"Key": "env", "Value": "prod"}]}}}}),
    ("let tags = Resources.*.Properties.Tags[*]\nrule v {\n  %tags[ Key == 'env' ].Value == 'prod' <<via variable>>\n  l[*][ k == 1 ].v in [2, 3] <<list>>\n}\n",
     {"l": [{"k": 1, "v": 9}, {"k": 2, "v": 2}, {"k": 1, "v": 2}], "Resources": {"r1": {"Properties": {"Tags": [{"Key": "owner", "Value": "team-a"}, {"Key": "env", "Value": "dev"}]}}}}),
]


def skel(j):
    """JSON ClauseReport -> Coq skel term"""
    if 'Rule' in j:
        r = j['Rule']
        msg = r['messages'].get('custom_message')
        return '(SRule %s %s %s)' % (ct.cstr(r['name']), ('(Some %s)' % ct.cstr(msg)) if msg is not None else 'None',
                                     ct.clist([skel(x) for x in r['checks']]))
    if 'Disjunctions' in j:
        return '(SDisj %s)' % ct.clist([skel(x) for x in j['Disjunctions']['checks']])
    if 'Block' in j:
        return '(SBlock %s)' % ct.cstr(j['Block']['messages'].get('custom_message') or '')
    if 'Clause' in j:
        c = j['Clause']
        if 'Unary' in c:
            return '(SUnary %s)' % ct.cstr(c['Unary']['messages'].get('custom_message') or '')
        if 'Binary' in c:
            return '(SBinary %s)' % ct.cstr(c['Binary']['messages'].get('custom_message') or '')
    raise ct.TranslateError('unknown clause report %r' % (list(j.keys()),))


def names_nc(report):
    return [r['Rule']['name'] for r in report['not_compliant'] if 'Rule' in r]


def monitor(ctx, report, statuses, info):
    """the statement, on the implementation's outputs alone. statuses: [(name, status)] from the record"""
    comp, na, nc = list(report['compliant']), list(report['not_applicable']), names_nc(report)
    names = [n for n, _ in statuses]
    distinct = len(set(names)) == len(names)
    for n, st in statuses:
        inc, ina, innc = n in comp, n in na, n in nc
        want = {'PASS': (True, False, False), 'SKIP': (False, True, False), 'FAIL': (False, False, True)}[st]
        if distinct and (inc, ina, innc) != want:
            ctx.failing('rule %s evaluated to %s but is listed compliant=%s not_applicable=%s not_compliant=%s' % (n, st, inc, ina, innc),
                        dict(info, rule=n), found=True)
        if not distinct:
            if (st == 'PASS' and not inc) or (st == 'SKIP' and not ina) or (st == 'FAIL' and not innc):
                ctx.failing('rule %s (defined several times) evaluated to %s and is missing from its list' % (n, st), dict(info, rule=n), found=True)
    for n in comp + na + nc:
        if n not in names:
            ctx.failing('the report lists a rule %s that was not evaluated' % n, dict(info, rule=n), found=True)
    want = 'FAIL' if nc else ('PASS' if comp else 'SKIP')
    if report['status'] != want:
        ctx.failing('file status %s, the lists require %s' % (report['status'], want), info, found=True)
    for r in report['not_compliant']:
        if 'Rule' not in r:
            ctx.failing('a failing check is not attributed to any rule', info, found=True)


def run_pairs(ctx, n):
    rng = random.Random(ctx.seed * 97 + 9)
    pairs = [{'rules': r, 'data': json.dumps(d)} for r, d in EXTRA]
    svc = {'service': {'ports': [443, 8080, 22, 9090], 'name': 'api'}, 'approved': {'ports': [22, 443, 80]}, 'tls': {'min': 1}}
    for r in ('let allowed = approved.ports[*]\nrule ports_approved {\n  service.ports[*] in %allowed <<port not approved>>\n}\n',
              'let allowed = approved.ports\nrule ports_approved {\n  service.ports[*] in %allowed <<port not approved>>\n  some service.ports[*] in %allowed\n}\n',
              'rule ports_approved {\n  service.ports[*] in approved.ports[*] <<port not approved>>\n}\nrule none_approved {\n  service.ports[*] not in approved.ports[*] <<port approved>>\n}\n',
              'rule legacy_tls {\n  tls.min >= 2 <<tls too old>>\n}\nrule modern_endpoint {\n  service.name == "web" <<wrong name>>\n  !legacy_tls <<legacy must fail>>\n}\nrule modern_and_named {\n  service.name == "web" <<wrong name>>\n  !legacy_tls\n}\n',
              'rule audited {\n  tls.min >= 2 <<tls too old>>\n}\nrule listener {\n  when service.name exists {\n    audited <<not audited>>\n    service.ports[*] < 10000\n  }\n}\nrule listener2 {\n  audited <<not audited>>\n}\n'):
        pairs.append({'rules': r, 'data': json.dumps(svc)})
    for i in range(n):
        doc, prog = gen.gen_pair(rng, {'cycles': 0.0, 'star_filter': 0.5} if i % 3 == 2 else {'cycles': 0.0})   # every third program may write list[*][ filter ]
        pairs.append({'rules': gen.render_file(prog), 'data': json.dumps(doc)})
    ops = [{'op': 'eval', 'rules': p['rules'], 'data': p['data'], 'loader': 'lib', 'public': True} for p in pairs]
    res = impl.run_ops_parallel(ops, ctx.wd, 'c09eval')
    cases, info = [], {}
    stats = {}
    for i, (p, r) in enumerate(zip(pairs, res)):
        d = r.get('res')
        if not isinstance(d, dict) or d.get('ast', [None])[0] != 'Ok' or d.get('doc', [None])[0] != 'Ok' or d['result'][0] != 'Ok':
            stats['not_evaluated'] = stats.get('not_evaluated', 0) + 1
            continue
        plain = d.get('rc_plain')
        if not plain or 'ok' not in plain:
            if plain and 'panic' in plain:
                ctx.failing('run_checks(verbose=false) panicked although the evaluation succeeded: %s' % plain['panic'],
                            {'class': 'report-panic', 'rules': p['rules'], 'data': p['data']}, found=True)
            stats['no_report'] = stats.get('no_report', 0) + 1
            continue
        rep = plain['ok']
        statuses = e2e.rule_statuses(r)
        inf = {'class': 'report', 'rules': p['rules'], 'data': p['data'], 'report': rep, 'rule_statuses': statuses}
        monitor(ctx, rep, statuses, inf)
        try:
            term = 'report_agrees %s %s %s %s %s' % (
                ct.record(d['result'][2]), rep['status'], ct.clist([skel(x) for x in rep['not_compliant']]),
                ct.clist([ct.cstr(x) for x in rep['not_applicable']]), ct.clist([ct.cstr(x) for x in rep['compliant']]))
        except (ct.TranslateError, KeyError, AssertionError, TypeError) as e:
            stats['untranslatable'] = stats.get('untranslatable', 0) + 1
            continue
        cases.append((i, '', term))
        info[i] = inf
        stats[rep['status']] = stats.get(rep['status'], 0) + 1
    verdicts, errors = model.eval_cases(cases, ctx.wd, 'c09rep', header=HEADER, per_file=40)
    if errors:
        raise ToolingError('model evaluation failed: %r' % (errors[:1],))
    for i, _, _ in cases:
        v = verdicts.get(i, 'NoModelOutput')
        if v != 'RepAgree':
            ctx.failing('the printed report differs from the model report of the same evaluation record (%s)' % v, info[i], found=False)
    # the same printed report against the report of the MODEL's evaluation record (SEval on the parsed AST and loaded value):
    # a check that is listed although the clause did not FAIL for that value, or one that is listed under another rule
    # because its record was attached elsewhere, agrees with the implementation's own record but not with this one
    sub = [i for i, _, _ in cases]
    def expr(k, fuel, chk):
        i = sub[k]
        inf = info[i]
        rep = inf['report']
        args = '%s %s %s %s' % (rep['status'], ct.clist([skel(x) for x in rep['not_compliant']]),
                                ct.clist([ct.cstr(x) for x in rep['not_applicable']]), ct.clist([ct.cstr(x) for x in rep['compliant']]))
        return ('(%s, match eval_file (re_of_table rt%d) (conv_of_table ct%d) p%d %d d%d with Done (_, [rec], _) => Some (report_agrees rec %s) | _ => None end)'
                % (chk, k, k, k, fuel, k, args))
    out, errs = corr.run([pairs[i] for i in sub], ctx.wd, 'c09model', loader='lib', expr=expr, header=HEADER)
    if errs:
        raise ToolingError('model evaluation failed: %r' % (errs[:1],))
    nm = 0
    for k, o in enumerate(out):
        if o['kind'] != 'compared':
            continue
        v = o['verdict']
        nm += 1
        if 'Some RepAgree' in v or 'None' in v:
            if re.search(r'VDis|VModelOOF', v):
                ctx.failing('model and implementation disagree on a generated program (%s)' % v, dict(info[sub[k]], **{'class': 'eval-correspondence'}), found=False)
            continue
        ctx.failing('the printed report is not the report of what the rules evaluate to on this document: against the evaluation record of the model it differs (%s)' % v,
                    dict(info[sub[k]], **{'class': 'report-vs-model'}), found=True)
    ctx.coverage['report_vs_model_record'] = nm
    ctx.coverage['report_pairs'] = len(cases)
    ctx.coverage['report_distribution'] = stats
    ctx.coverage['evaluations'] += len(cases)
    if cases:
        ctx.sample({k: info[cases[0][0]][k] for k in ('rules', 'data', 'report')})
    return len(cases)


def run_messages(ctx):
    """directed: every listed entry carries ITS custom message - chains of parameterised calls (1..3 levels, with and without a
    message at each level), named-rule references, blocks and or-lines, against hand-computed (name, message) chains"""
    import itertools
    scen = []
    for depth in (1, 2, 3):
        for msgs in itertools.product([True, False], repeat=depth + 1):       # msgs[0]: the clause, msgs[1..]: the calls from the inside out
            names = ['lvl%d' % i for i in range(depth)]
            text = 'rule %s(p0) {\n  %%p0.a == 1%s\n}\n' % (names[0], ' <<clause message>>' if msgs[0] else '')
            for i in range(1, depth):
                text += 'rule %s(p%d) {\n  %s(%%p%d)%s\n}\n' % (names[i], i, names[i - 1], i, (' <<call %d message>>' % i) if msgs[i] else '')
            text += 'rule top {\n  %s(o)%s\n}\n' % (names[depth - 1], (' <<call %d message>>' % depth) if msgs[depth] else '')
            chain = [('top', None)]
            for i in range(depth, 0, -1):
                chain.append((names[i - 1], ('call %d message' % i) if msgs[i] else None))
            chain.append(('CLAUSE', 'clause message' if msgs[0] else None))
            scen.append((text, chain))
    jobs = []
    for k, (text, chain) in enumerate(scen):
        d = os.path.join(ctx.wd, 'msg%d' % k)
        e2e.write_files(d, {'r.guard': text, 'd.json': '{"o": {"a": 5}}'})
        jobs.append({'args': ['validate', '-r', 'r.guard', '-d', 'd.json', '--structured', '-o', 'json', '-S', 'none'], 'cwd': d})
    n = 0
    for (text, chain), (code, so, se) in zip(scen, e2e.run_many(jobs)):
        info = {'class': 'custom-message', 'rules': text, 'data': '{"o": {"a": 5}}', 'expected_chain': chain}
        try:
            rep = json.loads(so.decode())[0]
        except Exception:
            ctx.failing('no structured report for a chain of parameterised calls (status %s)' % code, info, found=True)
            continue
        got = []
        x = rep['not_compliant'][0] if rep['not_compliant'] else None
        while x is not None:
            if 'Rule' in x:
                got.append((x['Rule']['name'], x['Rule']['messages'].get('custom_message')))
                x = x['Rule']['checks'][0] if x['Rule']['checks'] else None
            elif 'Clause' in x:
                inner = list(x['Clause'].values())[0]
                got.append(('CLAUSE', inner['messages'].get('custom_message') or None))      # a clause without a message prints ""
                x = None
            else:
                got.append((list(x.keys())[0], None))
                x = None
        n += 1
        if got != chain:
            ctx.failing('the entries listed for a chain of calls carry %s, expected %s' % (got, chain), dict(info, observed_chain=got), found=True)
    ctx.coverage['message_chain_scenarios'] = n
    ctx.coverage['evaluations'] += n
    return n


def run_combine(ctx, n):
    rng = random.Random(ctx.seed * 97 + 10)
    jobs, meta, scen = [], [], []
    flags = ['--structured', '-o', 'json', '-S', 'none']
    import itertools
    simple = {'P': 'rule p%d { a exists }\nrule q%d { a == 1 }\n', 'S': 'rule s%d when zz exists { a exists }\n',
              'F': 'rule f%d { a == 999 <<must be 999>> }\nrule g%d { a exists }\n', 'M': 'rule m%d when zz exists { a exists }\nrule n%d { a exists }\n'}
    combos = [c for k in (1, 2, 3) for c in itertools.product('PSFM', repeat=k)]
    for k in range(n + len(combos)):
        nr = rng.choice([2, 2, 3])
        doc = gen.gen_doc(rng)
        rules = []
        if k < len(combos):
            # every combination of per-file statuses (PASS / SKIP / FAIL / mixed), in every order
            doc = {"a": 1}
            for i, c in enumerate(combos[k]):
                t = simple[c]
                rules.append(t % tuple([i] * t.count('%d')))
            nr = len(rules)
        for i in range(nr if k >= len(combos) else 0):
            prog = gen.ProgGen(rng, doc, {'cycles': 0.0, 'functions': False, 'types': False}).gen_file()
            for r in prog['rules']:
                r['name'] = 'f%d_%s' % (i, r['name'])      # distinct rule names across files
            text = gen.render_file(prog)
            rules.append(text)
        d = os.path.join(ctx.wd, 'u%d' % k)
        files = {'d.json': json.dumps(doc)}
        # where the rules files live: side by side, under the same base name in different directories, or in a directory
        # tree handed over as a whole
        layout = ['flat', 'same-basename', 'directory'][k % 3]
        names = ['r%d.guard' % i if layout == 'flat' else ('pol/d%d/rules.guard' % i) for i in range(nr)]
        for nme, r in zip(names, rules):
            files[nme] = r
        for nme in names:
            os.makedirs(os.path.join(d, os.path.dirname(nme)), exist_ok=True)
        e2e.write_files(d, files)
        scen.append({'rules': rules, 'doc': doc, 'layout': layout})
        for i in range(nr):
            jobs.append({'args': ['validate', '-r', names[i], '-d', 'd.json'] + flags, 'cwd': d})
            meta.append((k, i))
        args = ['validate', '-d', 'd.json'] + flags
        if layout == 'directory':
            args += ['-r', 'pol']
        else:
            for i in range(nr):
                args += ['-r', names[i]]
        jobs.append({'args': args, 'cwd': d})
        meta.append((k, 'all'))
    res = e2e.run_many(jobs)
    by = {}
    for m, r in zip(meta, res):
        by.setdefault(m[0], {})[m[1]] = r
    ok = 0
    for k, sc in enumerate(scen):
        info = {'class': 'combine', 'rules': sc['rules'], 'doc': sc['doc'], 'layout': sc['layout']}
        try:
            singles = []
            for i in range(len(sc['rules'])):
                c, so, se = by[k][i]
                if c not in (0, 19):
                    raise ValueError('single run error')
                singles.append(json.loads(so.decode())[0])
            c, so, se = by[k]['all']
            if c not in (0, 19):
                ctx.failing('the combined run exits %s although every single run succeeded' % c, info, found=True)
                continue
            allr = json.loads(so.decode())[0]
        except ValueError:
            continue
        ok += 1
        # rename-insensitive: rule names were made distinct, references inside files were not renamed, so some files may
        # have raised errors (skipped above)
        want_c = sorted(set(x for s in singles for x in s['compliant']))
        want_na = sorted(set(x for s in singles for x in s['not_applicable']))
        want_nc = [x for s in singles for x in s['not_compliant']]
        sts = [s['status'] for s in singles]
        want_st = 'FAIL' if 'FAIL' in sts else ('PASS' if 'PASS' in sts else 'SKIP')
        if sc['layout'] == 'directory':
            key = lambda x: json.dumps(x, sort_keys=True)
            same_nc = sorted(allr['not_compliant'], key=key) == sorted(want_nc, key=key)      # the walk order of a directory is the tool's
        else:
            same_nc = allr['not_compliant'] == want_nc
        if allr['compliant'] != want_c or allr['not_applicable'] != want_na or not same_nc or allr['status'] != want_st:
            ctx.failing('the report for %d rules files is not the union of the individual reports' % len(singles),
                        dict(info, combined={'status': allr['status'], 'compliant': allr['compliant'], 'not_applicable': allr['not_applicable'], 'nc': names_nc(allr)},
                             singles=[{'status': s['status'], 'compliant': s['compliant'], 'not_applicable': s['not_applicable'], 'nc': names_nc(s)} for s in singles]), found=True)
        # the statement itself, independent of the single runs: every rule of every file is in exactly one of the three lists
        defined = set(re.findall(r'^rule\s+([A-Za-z_][A-Za-z0-9_]*)\s*(?:when\b|\{)', '\n'.join(sc['rules']), re.M))
        listed = set(allr['compliant']) | set(allr['not_applicable']) | set(names_nc(allr))
        if defined != listed:
            ctx.failing('rules %s were evaluated but appear in none of compliant / not_applicable / not_compliant (listed and not defined: %s)'
                        % (sorted(defined - listed), sorted(listed - defined)), dict(info, combined={'compliant': allr['compliant'], 'not_applicable': allr['not_applicable'], 'nc': names_nc(allr)}), found=True)
        want = 'FAIL' if allr['not_compliant'] else ('PASS' if allr['compliant'] else 'SKIP')
        if allr['status'] != want:
            ctx.failing('combined file status %s, the lists require %s' % (allr['status'], want), info, found=True)
    ctx.coverage['combine_runs'] = ok
    ctx.coverage['evaluations'] += ok
    return ok


def run(ctx):
    ctx.build(cli=True)
    pr = ctx.proofs('C09')
    thorough = ctx.tier == 'thorough'
    n1 = run_pairs(ctx, 2500 if thorough else 400)
    n2 = run_combine(ctx, 200 if thorough else 40) + run_messages(ctx)
    ctx.coverage['distinct_nontrivial'] = n1 + n2
    ctx.coverage['rule'] = ('generated (rules, document) pairs from tools/gv/gen.py plus hand-written shapes (FAIL rule without displayable check, empty block '
                            'selection, disjunctions, named-rule clauses, custom messages, literal variables); counted when the evaluation succeeds and a report is '
                            'printed; combine: 2..3 generated rules files with distinct rule names against one document')
    ctx.coverage['trusted_base'] = [
        'Coq 8.16.1 kernel (coqc), vm_compute for case evaluation; no axioms',
        'hand-written model Report.v of eval_context.rs 1629-1640, 1965-2435 (modelled, not verified); context strings and message texts are not modelled',
        'hook eval_dump (record tree) + run_checks JSON + CLI runs; python translation of the JSON report into a skeleton',
    ]
    ctx.assumptions = ['a reported check is identified by its kind, its position in the tree and its custom message; error-message wording is not compared']
    if not pr['ok']:
        ctx.failing('proof obligations of Props/C09.v no longer check: %s' % (pr.get('problems') or pr.get('log', '')[-500:]),
                    {'class': 'proof', 'theorems': pr['theorems']}, found=False)


def replay(ctx, path):
    j = json.load(open(path))
    for v in j.get('violations', []):
        print(json.dumps(v, indent=1)[:3000])
    return 0
