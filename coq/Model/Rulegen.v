(* Rulegen.v — gen_rules / print_rules of commands/rulegen.rs (109-199, 211-275), with the insertion-ordered
   containers of fix aebbc50: resource type -> property -> set of rendered values. A resource without a string Type is
   skipped (fix). The rendering of a value (JSON text, strings trimmed and re-quoted) is a parameter. No proofs here. *)
From GV.Model Require Export Base.

Definition resource := (option string * list (string * string))%type.   (* Type, [(property, rendered value)] *)
Definition vset := list string.                                        (* IndexSet: insertion order, no duplicates *)
Definition propmap := list (string * vset).
Definition rulemap := list (string * propmap).

Definition set_add (v : string) (s : vset) : vset := if existsb (String.eqb v) s then s else s ++ [v].

Fixpoint prop_add (p v : string) (m : propmap) : propmap :=
  match m with
  | [] => [(p, [v])]
  | (q, s) :: r => if String.eqb q p then (q, set_add v s) :: r else (q, s) :: prop_add p v r
  end.

Fixpoint type_add (t p v : string) (m : rulemap) : rulemap :=
  match m with
  | [] => [(t, [(p, [v])])]
  | (u, pm) :: r => if String.eqb u t then (u, prop_add p v pm) :: r else (u, pm) :: type_add t p v r
  end.

Definition add_resource (m : rulemap) (r : resource) : rulemap :=
  match fst r with
  | None => m                                         (* no string Type: skipped *)
  | Some t => fold_left (fun acc pv => type_add t (fst pv) (snd pv) acc) (snd r) m
  end.

Definition gen_rules (rs : list resource) : rulemap := fold_left add_resource rs [].

(* print_rules: one rule per type; `==` for a single value, IN for several *)
Inductive gclause := GEq (prop value : string) | GIn (prop : string) (values : list string).
Definition clause_of (pv : string * vset) : gclause :=
  match snd pv with
  | [v] => GEq (fst pv) v
  | vs => GIn (fst pv) vs
  end.
Definition print_rules (m : rulemap) : list (string * list gclause) :=
  map (fun tp => (fst tp, map clause_of (snd tp))) m.

Definition values_of (m : rulemap) (t p : string) : vset :=
  match assoc t m with
  | Some pm => match assoc p pm with Some s => s | None => [] end
  | None => []
  end.

(* does the clause generated for (t, p) accept the rendered value v ? *)
Definition clause_accepts (c : gclause) (v : string) : bool :=
  match c with
  | GEq _ w => String.eqb v w
  | GIn _ ws => existsb (String.eqb v) ws
  end.

(* observation comparator: the rules the implementation printed, as (rule's type, [(property, is `==`?, number of values)]) *)
Definition observed_rules := list (string * list (string * (bool * nat))).
Definition clause_shape (c : gclause) : string * (bool * nat) :=
  match c with
  | GEq p _ => (p, (true, 1%nat))
  | GIn p vs => (p, (false, List.length vs))
  end.
Definition shape_eqb (a b : string * (bool * nat)) : bool :=
  String.eqb (fst a) (fst b) && Bool.eqb (fst (snd a)) (fst (snd b)) && Nat.eqb (snd (snd a)) (snd (snd b)).
Fixpoint shapes_eqb (a b : list (string * (bool * nat))) : bool :=
  match a, b with [], [] => true | x :: r, y :: r' => shape_eqb x y && shapes_eqb r r' | _, _ => false end.
Fixpoint rules_eqb (a : list (string * list gclause)) (b : observed_rules) : bool :=
  match a, b with
  | [], [] => true
  | (t, cs) :: r, (t', ss) :: r' => String.eqb t t' && shapes_eqb (map clause_shape cs) ss && rules_eqb r r'
  | _, _ => false
  end.
Definition rulegen_agrees (rs : list resource) (obs : observed_rules) : bool :=
  rules_eqb (print_rules (gen_rules rs)) obs.
