(* NegationProps.v — prefix negation of clauses (C03). *)
From GV.Model Require Import SEval.
From GV.Proofs Require Import StatusProps EvalLaws CompareProps.

(* what a computation returns and how it leaves the state, forgetting the records *)
Definition proj {A} (o : outcome (A * list record * state)) : outcome (A * state) :=
  match o with
  | Done (a, _, s) => Done (a, s)
  | Err e => Err e
  | Panic p => Panic p
  | OutOfFuel => OutOfFuel
  | Unknown => Unknown
  end.

Definition sim {A} (m1 m2 : M A) : Prop := forall s, proj (m1 s) = proj (m2 s).

Lemma sim_refl {A} (m : M A) : sim m m.
Proof. intros s. reflexivity. Qed.

Lemma sim_bind {A B} (m1 m2 : M A) (f1 f2 : A -> M B) :
  sim m1 m2 -> (forall a, sim (f1 a) (f2 a)) -> sim (bind m1 f1) (bind m2 f2).
Proof.
  intros Hm Hf s. unfold bind. specialize (Hm s).
  destruct (m1 s) as [[[a r1] s1]| | | |], (m2 s) as [[[a' r1'] s1']| | | |]; cbn in Hm; try congruence.
  inversion Hm; subst. specialize (Hf a' s1').
  destruct (f1 a' s1') as [[[b r2] s2]| | | |], (f2 a' s1') as [[[b' r2'] s2']| | | |]; cbn in Hf; try congruence.
  inversion Hf; subst. reflexivity.
Qed.

Lemma sim_mapM {A B} (f g : A -> M B) l : (forall x, sim (f x) (g x)) -> sim (mapM f l) (mapM g l).
Proof.
  intros H. induction l as [|x l IH]; cbn [mapM]; [apply sim_refl|].
  apply sim_bind; [apply H|]. intros y. apply sim_bind; [exact IH|]. intros ys. apply sim_refl.
Qed.

Lemma sim_node {A} (m1 m2 : M A) mk1 mk2 : sim m1 m2 -> sim (node m1 mk1) (node m2 mk2).
Proof.
  intros H s. unfold node. specialize (H s).
  destruct (m1 s) as [[[a r1] s1]| | | |], (m2 s) as [[[a' r1'] s1']| | | |]; cbn in *; congruence.
Qed.

Lemma sim_leaf c1 c2 : sim (leaf c1) (leaf c2).
Proof. intros s. reflexivity. Qed.

Section WithProg.
Variable re : re_oracle.
Variable prog : rules_file.
Variable r : ev.

(* ---------- unary operators: `not X op` is `X !op`, and `not X !op` is `X op` ---------- *)

Lemma unary_op_flip o n base v :
  unary_op (o, n) true base v = unary_op (o, negb n) false base v.
Proof.
  unfold unary_op. destruct (base v) as [b| | | |]; cbn; try reflexivity.
  destruct n, b; reflexivity.
Qed.

Lemma unary_operation_flip q o n custom :
  sim (unary_operation r q (o, n) true custom) (unary_operation r q (o, negb n) false custom).
Proof.
  unfold unary_operation. apply sim_bind; [apply sim_refl|]. intros lhs.
  destruct q as [|p0 q0]; [apply sim_refl|].
  set (lp := last (p0 :: q0) QThis).
  cbn [fst snd].
  destruct ((match lp with
             | QFilter _ _ | QMapKeyFilter _ _ _ => true
             | _ => part_is_variable lp && Nat.eqb (List.length (p0 :: q0)) 1
             end) && cmp_op_eqb o OEmpty)%bool.
  - destruct lhs as [|x lhs].
    + destruct n; cbn; (apply sim_bind; [apply sim_leaf|]); intros _; apply sim_refl.
    + apply sim_bind; [|intros; apply sim_refl].
      apply sim_mapM. intros each.
      destruct each as [v|v|u]; destruct n; cbn;
        try (destruct (is_null v); cbn); (apply sim_bind; [apply sim_leaf|]); intros _; apply sim_refl.
  - destruct lhs as [|x lhs]; [apply sim_refl|].
    destruct (unary_base o) as [base|]; [|apply sim_refl].
    apply sim_bind; [|intros; apply sim_refl].
    apply sim_mapM. intros each. rewrite unary_op_flip.
    apply sim_bind; [apply sim_refl|]. intros b.
    apply sim_bind; [destruct b; apply sim_leaf|]. intros _. apply sim_refl.
Qed.

Lemma sim_access_tail (all : bool) (m1 m2 : M evaluation_result) :
  sim m1 m2 ->
  sim (res <- m1 ;;
       match res with
       | EmptyQueryResult st => ret (st, all)
       | QueryValueResult l =>
           if has_status SKIP l then panicM P_skip_in_values
           else ret (if all then (if has_status FAIL l then FAIL else PASS)
                     else (if has_status PASS l then PASS else FAIL), negb all)
       end)
      (res <- m2 ;;
       match res with
       | EmptyQueryResult st => ret (st, all)
       | QueryValueResult l =>
           if has_status SKIP l then panicM P_skip_in_values
           else ret (if all then (if has_status FAIL l then FAIL else PASS)
                     else (if has_status PASS l then PASS else FAIL), negb all)
       end).
Proof. intros H. apply sim_bind; [exact H|]. intros res. apply sim_refl. Qed.

(* the clause `not X op` returns the same status and leaves the same state as `X !op`,
   for every unary operator, all/some, every query, in every state *)
Theorem prefix_not_unary aq o n custom :
  is_unary o = true ->
  sim (access_clause_body re r (GuardAccessClause aq (o, n) None custom true))
      (access_clause_body re r (GuardAccessClause aq (o, negb n) None custom false)).
Proof.
  intros Hu. unfold access_clause_body. cbn [fst]. rewrite Hu.
  apply sim_bind; [|intros; apply sim_refl].
  apply sim_node. apply sim_access_tail. apply unary_operation_flip.
Qed.

Corollary double_negation_unary aq o custom :
  is_unary o = true ->
  sim (access_clause_body re r (GuardAccessClause aq (o, true) None custom true))
      (access_clause_body re r (GuardAccessClause aq (o, false) None custom false)).
Proof. intros Hu. apply (prefix_not_unary aq o true custom Hu). Qed.

(* ---------- binary operators: `not X == v` IS `X != v` (same records too) ---------- *)
Theorem prefix_not_binary aq o n w custom :
  is_unary o = false ->
  access_clause_body re r (GuardAccessClause aq (o, n) w custom true)
  = access_clause_body re r (GuardAccessClause aq (o, negb n) w custom false).
Proof.
  intros Hu. unfold access_clause_body. cbn [fst snd]. rewrite Hu. reflexivity.
Qed.

Corollary double_negation_binary aq o w custom :
  is_unary o = false ->
  access_clause_body re r (GuardAccessClause aq (o, true) w custom true)
  = access_clause_body re r (GuardAccessClause aq (o, false) w custom false).
Proof. intros Hu. apply (prefix_not_binary aq o true w custom Hu). Qed.

End WithProg.

(* ---------- a single comparable value: the negated comparison flips ---------- *)

Definition ordering_op (o : cmp_op) : option (pv -> pv -> outcome bool) :=
  match o with
  | OGt => Some compare_gt | OGe => Some compare_ge | OLt => Some compare_lt | OLe => Some compare_le
  | _ => None
  end.

Theorem single_comparable_flips re o cmpf l rv b :
  ordering_op o = Some cmpf -> is_list l = false -> is_list rv = false ->
  cmpf l rv = Done b ->
  cmp_compare re (o, false) [QResolved l] [QLiteral rv]
    = Done (EResult [VComparison (if b then CRSuccess (CValue l rv) else CRFail (CValue l rv))]) /\
  cmp_compare re (o, true) [QResolved l] [QLiteral rv]
    = Done (EResult [VComparison (if b then CRFail (CValue l rv) else CRSuccess (CValue l rv))]).
Proof.
  intros Ho Hl Hr Hc.
  assert (Hfl : flatten_values [l] = [l]) by (destruct l; cbn in *; try reflexivity; discriminate).
  assert (Hfr : flatten_values [rv] = [rv]) by (destruct rv; cbn in *; try reflexivity; discriminate).
  destruct o; cbn in Ho; try discriminate; inversion Ho; subst cmpf;
    unfold cmp_compare, op_compare, common_compare; cbn [fst snd selected_values selected_unres];
    rewrite Hfl, Hfr; cbn [omapM obind map flat_map app];
    unfold match_value; rewrite Hc; destruct b; cbn; split; reflexivity.
Qed.

(* `not X > v` holds exactly when `X <= v` does, on ordered scalars *)
Theorem not_gt_is_le a b :
  ordered_pair a b ->
  exists g le, compare_gt a b = Done g /\ compare_le a b = Done le /\ le = negb g.
Proof.
  intros H. destruct (ordered_pair_comparable a b H) as [c Hc].
  unfold compare_gt, compare_le, cmp_with. rewrite Hc.
  exists (ord_gt c), (ord_le c). repeat split. destruct c; reflexivity.
Qed.

(* a value that is not comparable stays FAIL under the negated operator as well *)
Theorem not_comparable_stays_fail re o cmpf l rv :
  ordering_op o = Some cmpf -> is_list l = false -> is_list rv = false ->
  cmpf l rv = Err ENotComparable ->
  forall n, cmp_compare re (o, n) [QResolved l] [QLiteral rv]
            = Done (EResult [VComparison (CRNotComparable l rv)]).
Proof.
  intros Ho Hl Hr Hc n.
  assert (Hfl : flatten_values [l] = [l]) by (destruct l; cbn in *; try reflexivity; discriminate).
  assert (Hfr : flatten_values [rv] = [rv]) by (destruct rv; cbn in *; try reflexivity; discriminate).
  destruct o; cbn in Ho; try discriminate; inversion Ho; subst cmpf;
    unfold cmp_compare, op_compare, common_compare; cbn [fst snd selected_values selected_unres];
    rewrite Hfl, Hfr; cbn [omapM obind map flat_map app];
    unfold match_value; rewrite Hc; destruct n; reflexivity.
Qed.
