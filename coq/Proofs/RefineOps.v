(* RefineOps.v — the per-value comparison layer of the implementation model (Operators.v: EqOperation,
   InOperation, CommonOperator, result negation, binary_operation's reporting) refines the per-value checks of
   the documented semantics (Spec.v: check_value, check_literal, value_in, unary_value), for a literal right-hand
   side, every operator and both polarities.  Pure functions only; the evaluator is RefineProps.v. *)
From GV.Model Require Import SEval Spec.
From GV.Proofs Require Import EvalLaws.
From Coq Require Import Lia.
Local Open Scope nat_scope.

(* ------------------------------------------------------------------ *)
(* the relation between selected values *)

Definition rel_q (a : qres) (b : sval) : Prop :=
  match a, b with
  | QResolved v, SV false v' => v = v'
  | QLiteral v, SV true v' => v = v'
  | QUnResolved _, SMiss => True
  | _, _ => False
  end.

(* two lists of per-value outcomes that every aggregation (all / some, FAIL>PASS>SKIP, PASS>FAIL>SKIP) reads alike *)
Definition same_verdicts (l1 l2 : list status) : Prop :=
  (In FAIL l1 <-> In FAIL l2) /\ (In PASS l1 <-> In PASS l2) /\ (In SKIP l1 <-> In SKIP l2).

Lemma sv_refl l : same_verdicts l l.
Proof. repeat split; auto. Qed.
Lemma sv_sym a b : same_verdicts a b -> same_verdicts b a.
Proof. intros (A & B & C). repeat split; intros; (apply A || apply B || apply C); assumption. Qed.
Lemma sv_trans a b c : same_verdicts a b -> same_verdicts b c -> same_verdicts a c.
Proof. intros (A & B & C) (A' & B' & C'). repeat split; intros H; first [apply A', A, H | apply A, A', H | apply B', B, H | apply B, B', H | apply C', C, H | apply C, C', H]. Qed.
Lemma sv_app a b a' b' : same_verdicts a a' -> same_verdicts b b' -> same_verdicts (a ++ b) (a' ++ b').
Proof.
  intros (A & B & C) (A' & B' & C'). repeat split; intros H; apply in_app_or in H; apply in_or_app; destruct H as [H|H];
    first [left; (apply A || apply B || apply C); assumption | right; (apply A' || apply B' || apply C'); assumption].
Qed.
Lemma sv_perm_app a b : same_verdicts (a ++ b) (b ++ a).
Proof. repeat split; intros H; apply in_app_or in H; apply in_or_app; tauto. Qed.
Lemma sv_in_iff l1 l2 : (forall s, In s l1 <-> In s l2) -> same_verdicts l1 l2.
Proof. intros H. repeat split; apply H. Qed.
Lemma sv_all l1 l2 s : same_verdicts l1 l2 -> (In s l1 <-> In s l2).
Proof. intros (A & B & C). destruct s; assumption. Qed.

Lemma existsb_status s l : existsb (status_eqb s) l = true <-> In s l.
Proof.
  rewrite existsb_exists. split.
  - intros (x & Hx & E). destruct s, x; try discriminate; exact Hx.
  - intros H. exists s. split; [exact H|destruct s; reflexivity].
Qed.

Lemma existsb_same s l1 l2 : same_verdicts l1 l2 -> existsb (status_eqb s) l1 = existsb (status_eqb s) l2.
Proof.
  intros H. pose proof (sv_all l1 l2 s H) as I.
  destruct (existsb (status_eqb s) l1) eqn:E1, (existsb (status_eqb s) l2) eqn:E2; try reflexivity.
  - apply existsb_status in E1. apply I in E1. apply existsb_status in E1. congruence.
  - apply existsb_status in E2. apply I in E2. apply existsb_status in E2. congruence.
Qed.

Lemma aggregate_same all l1 l2 : same_verdicts l1 l2 -> aggregate all l1 = aggregate all l2.
Proof. intros H. unfold aggregate. now rewrite (existsb_same FAIL _ _ H), (existsb_same PASS _ _ H). Qed.
Lemma body_status_same l1 l2 : same_verdicts l1 l2 -> body_status l1 = body_status l2.
Proof. intros H. unfold body_status. now rewrite (existsb_same FAIL _ _ H), (existsb_same PASS _ _ H). Qed.
Lemma some_status_same l1 l2 : same_verdicts l1 l2 -> some_status l1 = some_status l2.
Proof. intros H. unfold some_status. now rewrite (existsb_same FAIL _ _ H), (existsb_same PASS _ _ H). Qed.

(* ------------------------------------------------------------------ *)
(* inversion of the two list monads *)

Lemma omapM_inv {A B} (f : A -> outcome B) l out : omapM f l = Done out -> Forall2 (fun x y => f x = Done y) l out.
Proof.
  revert out. induction l as [|a l IH]; intros out H; cbn in H.
  - inversion H. constructor.
  - destruct (f a) as [b| | | |] eqn:Ea; try discriminate. cbn in H.
    destruct (omapM f l) as [bs| | | |] eqn:El; try discriminate. cbn in H. inversion H; subst.
    constructor; [exact Ea|apply IH; reflexivity].
Qed.

Lemma smap_inv {A B} (f : A -> sres B) l out : smap f l = SOk out -> Forall2 (fun x y => f x = SOk y) l out.
Proof.
  revert out. induction l as [|a l IH]; intros out H; cbn in H.
  - inversion H. constructor.
  - destruct (f a) as [b| |] eqn:Ea; try discriminate. cbn in H.
    destruct (smap f l) as [bs| |] eqn:El; try discriminate. cbn in H. inversion H; subst.
    constructor; [exact Ea|apply IH; reflexivity].
Qed.

Lemma sflat_inv {A B} (f : A -> sres (list B)) l out :
  sflat f l = SOk out -> exists parts, Forall2 (fun x y => f x = SOk y) l parts /\ out = List.concat parts.
Proof.
  unfold sflat. intros H. destruct (smap f l) as [parts| |] eqn:E; try discriminate. cbn in H. inversion H; subst.
  exists parts. split; [apply smap_inv; exact E|reflexivity].
Qed.

Lemma sbind_inv {A B} (m : sres A) (f : A -> sres B) b : sbind m f = SOk b -> exists a, m = SOk a /\ f a = SOk b.
Proof. destruct m; cbn; intros H; try discriminate. eauto. Qed.

Lemma obind_inv' {A B} (m : outcome A) (f : A -> outcome B) b : obind m f = Done b -> exists a, m = Done a /\ f a = Done b.
Proof. destruct m; cbn; intros H; try discriminate. eauto. Qed.

(* ------------------------------------------------------------------ *)
Section Ops.
Variable re : re_oracle.

(* the status a reported result stands for; independent of the comparator and of the custom message *)
Definition est (e : value_eval_result) : list status :=
  match e with
  | VLhsUnresolved _ => [FAIL]
  | VComparison (CRRhsUnresolved _ _) => [FAIL]
  | VComparison (CRNotComparable _ _) => [FAIL]
  | VComparison (CRSuccess (CQueryIn _ ql _)) => map (fun _ => PASS) ql
  | VComparison (CRSuccess _) => [PASS]
  | VComparison (CRFail (CQueryIn diff _ _)) => map (fun _ => FAIL) diff
  | VComparison (CRFail _) => [FAIL]
  end.

Lemma report_est c custom e : map snd (report_binary c custom e) = est e.
Proof.
  destruct e as [u|[k|k|l r|u l]]; cbn; try reflexivity; destruct k; cbn; try reflexivity; rewrite map_map; reflexivity.
Qed.

Definition sts_of (c : cmp) (custom : option string) (l : list value_eval_result) : list status :=
  map snd (flat_map (report_binary c custom) l).

Lemma sts_of_est c custom l : sts_of c custom l = flat_map est l.
Proof.
  unfold sts_of. induction l as [|e l IH]; cbn; [reflexivity|]. rewrite map_app, report_est, IH. reflexivity.
Qed.

(* one comparison, possibly negated, as a status *)
Definition st_of (o : outcome bool) (neg : bool) : option status :=
  match o with
  | Done b => Some (if xorb b neg then PASS else FAIL)
  | Err _ => Some FAIL
  | _ => None
  end.

Definition neg_res (neg : bool) (op : cmp_op) (nl nr : nat) (e : value_eval_result) : outcome value_eval_result :=
  if neg then negate_result re op nl nr e else Done e.

Lemma match_value_st f l r e neg op nl nr e' :
  match_value f l r = Done e -> neg_res neg op nl nr e = Done e' ->
  exists st, st_of (f l r) neg = Some st /\ est e' = [st].
Proof.
  unfold match_value, neg_res. intros H H'.
  destruct (f l r) as [[|]|[]| | |] eqn:E; inversion H; subst; clear H; destruct neg; cbn in H'; inversion H'; subst; cbn; eauto.
Qed.

Lemma of_cmp_st o neg st : of_cmp o neg = SOk st -> st_of o neg = Some st.
Proof. unfold of_cmp, st_of. destruct o as [b|[]| | |]; intros H; inversion H; reflexivity. Qed.

(* ------------------------------------------------------------------ *)
(* list plumbing *)

Lemma omapM_app_inv {A B} (f : A -> outcome B) a b out :
  omapM f (a ++ b) = Done out -> exists oa ob, omapM f a = Done oa /\ omapM f b = Done ob /\ out = oa ++ ob.
Proof.
  revert out. induction a as [|x a IH]; intros out H; cbn in *.
  - exists [], out. auto.
  - destruct (f x) as [y| | | |]; try discriminate. cbn in *.
    destruct (omapM f (a ++ b)) as [r| | | |] eqn:E; try discriminate. cbn in H. inversion H; subst.
    destruct (IH r eq_refl) as (oa & ob & Ha & Hb & ->). exists (y :: oa), ob. rewrite Ha. cbn. auto.
Qed.

Lemma omapM_concat_inv {A B} (f : A -> outcome B) ls out :
  omapM f (List.concat ls) = Done out ->
  exists outs, Forall2 (fun l o => omapM f l = Done o) ls outs /\ out = List.concat outs.
Proof.
  revert out. induction ls as [|l ls IH]; intros out H; cbn in *.
  - inversion H. exists []. split; constructor.
  - apply omapM_app_inv in H as (oa & ob & Ha & Hb & ->). destruct (IH ob Hb) as (outs & Hf & ->).
    exists (oa :: outs). split; [constructor; assumption|reflexivity].
Qed.

Lemma Forall2_concat_inv {A B} (P : A -> B -> Prop) ls out :
  Forall2 P (List.concat ls) out -> exists outs, Forall2 (Forall2 P) ls outs /\ out = List.concat outs.
Proof.
  revert out. induction ls as [|l ls IH]; intros out H; cbn in *.
  - inversion H. exists []. split; constructor.
  - apply Forall2_app_inv_l in H as (oa & ob & Ha & Hb & ->). destruct (IH ob Hb) as (outs & Hf & ->).
    exists (oa :: outs). split; [constructor; assumption|reflexivity].
Qed.

Lemma flat_map_app {A B} (f : A -> list B) a b : flat_map f (a ++ b) = flat_map f a ++ flat_map f b.
Proof. induction a; cbn; [reflexivity|]. now rewrite IHa, app_assoc. Qed.

Lemma flat_map_concat' {A B} (f : A -> list B) ls : flat_map f (List.concat ls) = List.concat (map (flat_map f) ls).
Proof. induction ls as [|l ls IH]; cbn; [reflexivity|]. now rewrite flat_map_app, IH. Qed.

Lemma sv_swap a b c : same_verdicts (a ++ b ++ c) (b ++ a ++ c).
Proof. repeat split; intros H; rewrite !in_app_iff in *; tauto. Qed.

(* ------------------------------------------------------------------ *)
(* a comparison that answers per selected value: the implementation lists the unresolved values first *)

Section Assemble.
Variables (neg : bool) (op : cmp_op) (nl nr : nat).
Let ng := neg_res neg op nl nr.

Lemma ng_unres us : omapM ng (map VLhsUnresolved us) = Done (map VLhsUnresolved us).
Proof.
  induction us as [|u us IH]; cbn; [reflexivity|]. unfold ng at 1, neg_res. destruct neg; cbn; rewrite IH; reflexivity.
Qed.

Lemma est_unres us : flat_map est (map VLhsUnresolved us) = map (fun _ => FAIL) us.
Proof. induction us; cbn; [reflexivity|]. now rewrite IHus. Qed.

Lemma assemble (Pv : pv -> list value_eval_result -> Prop) (h : sval -> sres (list status)) lhs svals parts l' sts :
  Forall2 rel_q lhs svals ->
  Forall2 Pv (selected_values lhs) parts ->
  (forall v es, Pv v es -> forall es', omapM ng es = Done es' ->
                forall lit ss, h (SV lit v) = SOk ss -> same_verdicts (flat_map est es') ss) ->
  h SMiss = SOk [FAIL] ->
  omapM ng (map VLhsUnresolved (selected_unres lhs) ++ List.concat parts) = Done l' ->
  sflat h svals = SOk sts ->
  same_verdicts (flat_map est l') sts.
Proof.
  intros Hrel Hparts Hv Hmiss Hneg Hspec.
  apply omapM_app_inv in Hneg as (oa & ob & Ha & Hb & ->). rewrite ng_unres in Ha. inversion Ha; subst oa; clear Ha.
  rewrite flat_map_app, est_unres.
  apply sflat_inv in Hspec as (sparts & Hsp & ->).
  revert parts ob Hparts Hb sparts Hsp. induction Hrel as [|a b lhs svals Hab Hrel IH]; intros parts ob Hparts Hb sparts Hsp.
  - cbn in Hparts. inversion Hparts; subst. cbn in Hb. inversion Hb; subst. inversion Hsp; subst. cbn. apply sv_refl.
  - inversion Hsp as [|? sp ? sparts' Hb0 Hsp']; subst. cbn [List.concat].
    destruct a as [v|v|u], b as [lit v'|]; cbn in Hab; try contradiction.
    + destruct lit; [|contradiction]. subst v'. cbn [selected_values selected_unres] in *.
      inversion Hparts as [|? es ? parts' Hpv Hparts']; subst. cbn [List.concat] in Hb.
      apply omapM_app_inv in Hb as (oa & ob' & Ha & Hb' & ->). rewrite flat_map_app.
      eapply sv_trans; [apply sv_swap|]. apply sv_app.
      * eapply Hv; eassumption.
      * eapply IH; eassumption.
    + destruct lit; [contradiction|]. subst v'. cbn [selected_values selected_unres] in *.
      inversion Hparts as [|? es ? parts' Hpv Hparts']; subst. cbn [List.concat] in Hb.
      apply omapM_app_inv in Hb as (oa & ob' & Ha & Hb' & ->). rewrite flat_map_app.
      eapply sv_trans; [apply sv_swap|]. apply sv_app.
      * eapply Hv; eassumption.
      * eapply IH; eassumption.
    + cbn [selected_values selected_unres map] in *. rewrite Hmiss in Hb0. inversion Hb0; subst sp.
      cbn [app]. apply (sv_app [FAIL] _ [FAIL]); [apply sv_refl|]. eapply IH; eassumption.
Qed.

End Assemble.

(* ------------------------------------------------------------------ *)
(* per-value facts, operator by operator *)

Lemma omapM_Done_id {A} (l : list A) : omapM (fun x => Done x) l = Done l.
Proof. induction l; cbn; [reflexivity|]. now rewrite IHl. Qed.

Lemma concat_concat {A} (lss : list (list (list A))) : List.concat (List.concat lss) = List.concat (map (@List.concat A) lss).
Proof. induction lss as [|ls lss IH]; cbn; [reflexivity|]. now rewrite concat_app, IH. Qed.

Lemma flatten_values_concat l : flatten_values l = List.concat (map elements l).
Proof. unfold flatten_values. now rewrite flat_map_concat_map. Qed.

Lemma flatten_single r : flatten_values [r] = elements r.
Proof. unfold flatten_values. cbn. now rewrite app_nil_r. Qed.

Section PerValue.
Variables (neg : bool) (op : cmp_op) (nl nr : nat).
Let ng := neg_res neg op nl nr.

(* one row: a left value against every right value *)
Lemma row_ordering f l rs row row' ss :
  omapM (fun rr => match_value f l rr) rs = Done row -> omapM ng row = Done row' ->
  smap (fun rr => of_cmp (f l rr) neg) rs = SOk ss -> flat_map est row' = ss.
Proof.
  revert row row' ss. induction rs as [|rr rs IH]; intros row row' ss H H' Hs; cbn in *.
  - inversion H; subst. cbn in H'. inversion H'; subst. inversion Hs. reflexivity.
  - apply obind_inv' in H as (e & He & H). apply obind_inv' in H as (row0 & Hrow & H). inversion H; subst; clear H.
    cbn in H'. apply obind_inv' in H' as (e' & He' & H'). apply obind_inv' in H' as (row0' & Hrow' & H'). inversion H'; subst; clear H'.
    apply sbind_inv in Hs as (st & Hst & Hs). apply sbind_inv in Hs as (ss0 & Hss & Hs). inversion Hs; subst; clear Hs.
    destruct (match_value_st _ _ _ _ _ _ _ _ _ He He') as (st' & Hst' & Eest). apply of_cmp_st in Hst.
    assert (st' = st) by congruence. subst st'. cbn. rewrite Eest. cbn. f_equal. eapply IH; eassumption.
Qed.

Lemma rows_ordering f ls rs rows es' ss :
  Forall2 (fun l row => omapM (fun rr => match_value f l rr) rs = Done row) ls rows ->
  omapM ng (List.concat rows) = Done es' ->
  sflat (fun l => smap (fun rr => of_cmp (f l rr) neg) rs) ls = SOk ss ->
  flat_map est es' = ss.
Proof.
  intros HF Hn Hs. apply sflat_inv in Hs as (sparts & Hsp & ->).
  revert es' Hn sparts Hsp. induction HF as [|l row ls rows Hrow HF IH]; intros es' Hn sparts Hsp.
  - cbn in Hn. inversion Hn; subst. inversion Hsp. reflexivity.
  - inversion Hsp as [|? sp ? sparts' Hsp0 Hsp']; subst. cbn in Hn.
    apply omapM_app_inv in Hn as (oa & ob & Ha & Hb & ->). rewrite flat_map_app. cbn. f_equal.
    + eapply row_ordering; eassumption.
    + eapply IH; eassumption.
Qed.

(* a single comparison *)
Lemma one_cmp f l r e es' st :
  match_value f l r = Done e -> omapM ng [e] = Done es' -> of_cmp (f l r) neg = SOk st -> flat_map est es' = [st].
Proof.
  intros He Hn Hs. cbn in Hn. apply obind_inv' in Hn as (e' & He' & Hn). inversion Hn; subst; clear Hn.
  destruct (match_value_st _ _ _ _ _ _ _ _ _ He He') as (st' & Hst' & Eest). apply of_cmp_st in Hs.
  assert (st' = st) by congruence. subst. cbn. now rewrite Eest.
Qed.

(* a column: every element of a left list against one right value *)
Lemma col_eq f ls r col es' ss :
  omapM (fun e => match_value f e r) ls = Done col -> omapM ng col = Done es' ->
  smap (fun e => of_cmp (f e r) neg) ls = SOk ss -> flat_map est es' = ss.
Proof.
  revert col es' ss. induction ls as [|x ls IH]; intros col es' ss H H' Hs; cbn in *.
  - inversion H; subst. cbn in H'. inversion H'; subst. inversion Hs. reflexivity.
  - apply obind_inv' in H as (e & He & H). apply obind_inv' in H as (row0 & Hrow & H). inversion H; subst; clear H.
    cbn in H'. apply obind_inv' in H' as (e' & He' & H'). apply obind_inv' in H' as (row0' & Hrow' & H'). inversion H'; subst; clear H'.
    apply sbind_inv in Hs as (st & Hst & Hs). apply sbind_inv in Hs as (ss0 & Hss & Hs). inversion Hs; subst; clear Hs.
    destruct (match_value_st _ _ _ _ _ _ _ _ _ He He') as (st' & Hst' & Eest). apply of_cmp_st in Hst.
    assert (st' = st) by congruence. subst st'. cbn. rewrite Eest. cbn. f_equal. eapply IH; eassumption.
Qed.

(* membership *)
Lemma string_in_st l r es' st :
  omapM ng [string_in l r] = Done es' ->
  match str_in l r with Some b => SOk (if xorb b neg then PASS else FAIL) | None => SOk FAIL end = SOk st ->
  flat_map est es' = [st].
Proof.
  intros Hn Hs. cbn in Hn. apply obind_inv' in Hn as (e' & He' & Hn). inversion Hn; subst; clear Hn.
  unfold string_in, str_in in *. unfold ng, neg_res in He'.
  destruct l, r; try (destruct neg; cbn in He'; inversion He'; subst; inversion Hs; reflexivity).
  destruct (str_contains s0 s), neg; cbn in He'; inversion He'; subst; inversion Hs; reflexivity.
Qed.

Lemma string_in_col ls r es' ss :
  omapM ng (map (fun e => string_in e r) ls) = Done es' ->
  smap (fun e => match str_in e r with Some b => SOk (if xorb b neg then PASS else FAIL) | None => SOk FAIL end) ls = SOk ss ->
  flat_map est es' = ss.
Proof.
  revert es' ss. induction ls as [|x ls IH]; intros es' ss Hn Hs; cbn in *.
  - inversion Hn; subst. inversion Hs. reflexivity.
  - apply obind_inv' in Hn as (e' & He' & Hn). apply obind_inv' in Hn as (r0 & Hr0 & Hn). inversion Hn; subst; clear Hn.
    apply sbind_inv in Hs as (st & Hst & Hs). apply sbind_inv in Hs as (ss0 & Hss & Hs). inversion Hs; subst; clear Hs.
    assert (K : flat_map est [e'] = [st]).
    { eapply string_in_st; [|exact Hst]. cbn. rewrite He'. reflexivity. }
    cbn in K. rewrite app_nil_r in K. cbn. rewrite K. cbn. f_equal. eapply IH; eassumption.
Qed.

Lemma all_in_diff lhsl rhsl diff b :
  not_contained re lhsl rhsl = Done diff -> all_in re lhsl rhsl = SOk b -> (b = true <-> diff = []).
Proof.
  revert diff b. induction lhsl as [|x l IH]; intros diff b Hd Ha; cbn in *.
  - inversion Hd; inversion Ha; subst. tauto.
  - destruct (contains_pv re rhsl x) as [c| | | |] eqn:Ec; try discriminate. cbn in Hd.
    apply obind_inv' in Hd as (rest & Hrest & Hd). inversion Hd; subst; clear Hd.
    apply sbind_inv in Ha as (b0 & Hb0 & Ha). inversion Ha; subst; clear Ha.
    specialize (IH rest b0 Hrest Hb0). destruct c; cbn.
    + exact IH.
    + split; discriminate.
Qed.

Definition notin_coherent (lhsl rhsl : list pv) : Prop :=
  forall diff rd b, not_contained re lhsl rhsl = Done diff -> diff <> [] -> not_contained re lhsl diff = Done rd ->
                    none_in re lhsl rhsl = SOk b -> (rd = [] <-> b = true).

Definition nin_ok (v r : pv) : Prop :=
  match v, r with PList _ lhsl, PList _ rhsl => notin_coherent lhsl rhsl | _, _ => True end.

Lemma contained_value_in v r e es' st :
  nin_ok v r -> contained_in re v r = Done e -> omapM ng [e] = Done es' -> value_in re neg v r = SOk st ->
  flat_map est es' = [st].
Proof.
  intros Hok He Hn Hs.
  assert (Generic : forall x y, contained_in re v r = match_value (compare_eq re) x y -> value_in re neg v r = of_cmp (compare_eq re x y) neg ->
                                flat_map est es' = [st]).
  { intros x y E1 E2. rewrite E1 in He. rewrite E2 in Hs. eapply one_cmp; eassumption. }
  assert (Member : forall rhsl x (k : bool -> value_eval_result), (forall c, k c = if c then VComparison (CRSuccess (CValueIn x r)) else VComparison (CRFail (CValueIn x r))) ->
                     contained_in re v r = (c <-- contains_pv re rhsl x ;; Done (k c)) ->
                     value_in re neg v r = match contains_pv re rhsl x with Done c => SOk (if xorb c neg then PASS else FAIL) | _ => SOut end ->
                     flat_map est es' = [st]).
  { intros rhsl x k Hk E1 E2. rewrite E1 in He. rewrite E2 in Hs. destruct (contains_pv re rhsl x) as [c| | | |]; try discriminate.
    cbn in He. inversion He; subst e; clear He. rewrite Hk in Hn. inversion Hs; subst st; clear Hs.
    cbn in Hn. apply obind_inv' in Hn as (e' & He' & Hn). inversion Hn; subst; clear Hn.
    unfold ng, neg_res in He'. destruct c, neg; cbn in He'; inversion He'; subst; reflexivity. }
  destruct v as [p|p sv|p sv|p bv|p z|p f|p c|p lhsl|p ks vals|p lo hi i|p lo hi i|p lo hi i];
    try (destruct r as [q|q sr|q sr|q br|q zr|q fr|q cr|q rhsl|q ks' vals'|q lo' hi' i'|q lo' hi' i'|q lo' hi' i'];
         first [ eapply Generic; reflexivity
               | eapply (Member rhsl _ (fun c => if c then _ else _)); [intros []; reflexivity|reflexivity|reflexivity] ]).
  (* v is a list *)
  destruct r as [q|q sr|q sr|q br|q zr|q fr|q cr|q rhsl|q ks' vals'|q lo' hi' i'|q lo' hi' i'|q lo' hi' i'];
    try (cbn in He; inversion He; subst e; cbn in Hs; inversion Hs; subst st;
         cbn in Hn; apply obind_inv' in Hn as (e' & He' & Hn); inversion Hn; subst;
         unfold ng, neg_res in He'; destruct neg; cbn in He'; inversion He'; subst; reflexivity).
  cbn [contained_in value_in] in He, Hs.
  destruct (match rhsl with x :: _ => is_list x | [] => false end) eqn:Ehd.
  - (* one member of a list of lists *)
    destruct (contains_pv re rhsl (PList p lhsl)) as [c| | | |]; try discriminate.
    cbn in He. inversion He; subst e; clear He. inversion Hs; subst st; clear Hs.
    cbn in Hn. apply obind_inv' in Hn as (e' & He' & Hn). inversion Hn; subst; clear Hn.
    unfold ng, neg_res in He'. destruct c, neg; cbn in He'; inversion He'; subst; reflexivity.
  - apply obind_inv' in He as (diff & Hdiff & He). inversion He; subst e; clear He.
    cbn in Hn. apply obind_inv' in Hn as (e' & He' & Hn). inversion Hn; subst; clear Hn. cbn. rewrite app_nil_r.
    unfold ng, neg_res in He'. destruct neg.
    + (* not in *)
      apply sbind_inv in Hs as (a & Ha & Hs). pose proof (all_in_diff _ _ _ _ Hdiff Ha) as Iff.
      destruct diff as [|d0 diff'].
      * cbn in He'. inversion He'; subst e'. destruct a; [inversion Hs; reflexivity|]. exfalso. destruct Iff as [_ I]. specialize (I eq_refl). discriminate.
      * destruct a; [destruct Iff as [I _]; specialize (I eq_refl); discriminate|].
        apply sbind_inv in Hs as (b & Hb & Hs). inversion Hs; subst st; clear Hs.
        cbn in He'. apply obind_inv' in He' as (rd & Hrd & He'). inversion He'; subst e'; clear He'.
        cbn in Hok. specialize (Hok (d0 :: diff') rd b Hdiff ltac:(discriminate) Hrd Hb).
        destruct rd as [|x rd'].
        -- destruct Hok as [I _]. rewrite (I eq_refl). reflexivity.
        -- destruct b; [destruct Hok as [_ I]; specialize (I eq_refl); discriminate|]. reflexivity.
    + (* in *)
      inversion He'; subst e'; clear He'.
      apply sbind_inv in Hs as (b & Hb & Hs). inversion Hs; subst st; clear Hs.
      pose proof (all_in_diff _ _ _ _ Hdiff Hb) as Iff.
      destruct diff as [|d0 diff'].
      * destruct Iff as [_ I]. rewrite (I eq_refl). reflexivity.
      * destruct b; [destruct Iff as [I _]; specialize (I eq_refl); discriminate|]. reflexivity.
Qed.

End PerValue.

(* ------------------------------------------------------------------ *)
(* the binary operators against a literal *)

Definition spec_binary (o : cmp_op) (neg : bool) (svals : list sval) (r : pv) : sres (list status) :=
  match svals with
  | [SV true l] => check_literal re o neg l r
  | _ => sflat (fun x => check_value re o neg x r) svals
  end.

Lemma concat_singletons {A} (l : list A) : List.concat (map (fun e => [e]) l) = l.
Proof. induction l; cbn; [reflexivity|]. now rewrite IHl. Qed.

Lemma Forall2_map_r' {A B C} (P : A -> C -> Prop) (f : B -> C) l l' :
  Forall2 (fun x y => P x (f y)) l l' -> Forall2 P l (map f l').
Proof. induction 1; cbn; constructor; assumption. Qed.

Lemma Forall2_impl' {A B} (P Q : A -> B -> Prop) l l' : (forall x y, P x y -> Q x y) -> Forall2 P l l' -> Forall2 Q l l'.
Proof. intros H. induction 1; constructor; auto. Qed.

Lemma rel_literal lhs svals : Forall2 rel_q lhs svals ->
  match is_literal lhs with
  | Some l => lhs = [QLiteral l] /\ svals = [SV true l]
  | None => forall (A : Type) (a : pv -> A) (b : A), match svals with [SV true l] => a l | _ => b end = b
  end.
Proof.
  intros H. destruct H as [|x y lhs svals Hxy H]; [cbn; intros; reflexivity|].
  destruct H as [|x2 y2 lhs svals Hxy2 H].
  - destruct x as [v|v|u], y as [[|] v'|]; cbn in Hxy; try contradiction; subst; cbn; auto; intros; reflexivity.
  - destruct x as [v|v|u], y as [[|] v'|]; cbn in Hxy; try contradiction; subst; cbn; intros; reflexivity.
Qed.

Lemma check_value_miss o neg r : check_value re o neg SMiss r = SOk [FAIL].
Proof. reflexivity. Qed.

Lemma in_selected lhs svals v : Forall2 rel_q lhs svals -> In v (selected_values lhs) -> exists lit, In (SV lit v) svals.
Proof.
  induction 1 as [|x y lhs svals Hxy H IH]; cbn; [tauto|]. intros Hin.
  destruct x as [w|w|u], y as [[|] w'|]; cbn in Hxy; try contradiction; subst; cbn in Hin.
  - destruct Hin as [->|Hin]; [exists true; now left|]. destruct (IH Hin) as [lit Hl]. exists lit. now right.
  - destruct Hin as [->|Hin]; [exists false; now left|]. destruct (IH Hin) as [lit Hl]. exists lit. now right.
  - destruct (IH Hin) as [lit Hl]. exists lit. now right.
Qed.

Lemma Forall2_in_l {A B} (P : A -> B -> Prop) (Q : A -> Prop) l l' :
  Forall2 P l l' -> (forall x, In x l -> Q x) -> Forall2 (fun x y => P x y /\ Q x) l l'.
Proof. induction 1; intros HQ; constructor; [split; [assumption|apply HQ; now left]|]. apply IHForall2. intros; apply HQ; now right. Qed.

Lemma Forall2_map_l' {A B C} (P : B -> C -> Prop) (f : A -> B) l l' :
  Forall2 P (map f l) l' -> Forall2 (fun x y => P (f x) y) l l'.
Proof. revert l'. induction l as [|x l IH]; intros l' H; inversion H; subst; constructor; auto. Qed.

Lemma common_refines f o neg lhs svals r l0 l sts :
  (forall lit v, check_value re o neg (SV lit v) r = sflat (fun x => smap (fun rr => of_cmp (f x rr) neg) (elements r)) (elements v)) ->
  (forall v, check_literal re o neg v r = sflat (fun x => smap (fun rr => of_cmp (f x rr) neg) (elements r)) (elements v)) ->
  Forall2 rel_q lhs svals ->
  common_compare f lhs [QLiteral r] = Done l0 ->
  omapM (neg_res neg o (List.length lhs) 1) l0 = Done l ->
  spec_binary o neg svals r = SOk sts -> same_verdicts (flat_map est l) sts.
Proof.
  intros Hcv Hcl Hrel Hop Hn Hs.
  assert (Hs' : sflat (fun x => check_value re o neg x r) svals = SOk sts).
  { unfold spec_binary in Hs. pose proof (rel_literal lhs svals Hrel) as Hlit. destruct (is_literal lhs) as [lit|].
    - destruct Hlit as [-> ->]. rewrite Hcl in Hs. unfold sflat at 1. cbn [smap]. rewrite Hcv, Hs. cbn. now rewrite app_nil_r.
    - rewrite Hlit in Hs. exact Hs. }
  clear Hs. unfold common_compare in Hop. cbn [selected_values selected_unres flat_map app] in Hop.
  apply obind_inv' in Hop as (r3 & Hr3 & E). inversion E; subst l0; clear E.
  apply omapM_inv in Hr3. rewrite flatten_single, flatten_values_concat in Hr3.
  apply Forall2_concat_inv in Hr3 as (outs & Houts & ->). rewrite concat_concat in Hn.
  apply Forall2_map_l' in Houts.
  eapply (assemble neg o (List.length lhs) 1
            (fun v es => exists rows, Forall2 (fun x row => omapM (fun rr => match_value f x rr) (elements r) = Done row) (elements v) rows /\ es = List.concat rows)
            (fun x => check_value re o neg x r)); [exact Hrel| | |reflexivity|exact Hn|exact Hs'].
  - apply Forall2_map_r'. eapply Forall2_impl'; [|exact Houts]. intros v rows Hrows. exists rows. split; [exact Hrows|reflexivity].
  - intros v es (rows & Hrows & ->) es' Hes' lit ss Hss. rewrite Hcv in Hss.
    erewrite rows_ordering; [apply sv_refl|eassumption|eassumption|eassumption].
Qed.

Lemma string_in_success lit r : is_success (string_in lit r) = true <-> str_in lit r = Some true.
Proof. unfold string_in, str_in. destruct lit, r; cbn; try (split; discriminate). destruct (str_contains s0 s); cbn; split; congruence. Qed.

Local Opaque compare_eq of_cmp match_value contained_in value_in string_in str_in.

Theorem binary_refines o neg lhs svals r l custom sts :
  Forall2 rel_q lhs svals -> (forall v, In v (selected_values lhs) -> nin_ok v r) ->
  cmp_compare re (o, neg) lhs [QLiteral r] = Done (EResult l) ->
  spec_binary o neg svals r = SOk sts ->
  same_verdicts (sts_of (o, neg) custom l) sts.
Proof.
  intros Hrel Hok Hc Hs. rewrite sts_of_est.
  unfold cmp_compare in Hc. cbn [fst snd] in Hc. apply obind_inv' in Hc as (res & Hop & Hc).
  destruct res as [|l0]; [discriminate|].
  assert (Hn : omapM (neg_res neg o (List.length lhs) 1) l0 = Done l).
  { unfold neg_res. destruct neg.
    - apply obind_inv' in Hc as (l' & Hl' & Hc). inversion Hc; subst. exact Hl'.
    - inversion Hc; subst. apply omapM_Done_id. }
  clear Hc. unfold op_compare in Hop. destruct lhs as [|q0 lhs']; [discriminate|].
  set (lhs := q0 :: lhs') in *. clearbody lhs.
  pose proof (rel_literal lhs svals Hrel) as Hlit. unfold spec_binary in Hs.
  destruct o; try discriminate; apply obind_inv' in Hop as (l1 & Hop & E); inversion E; subst l1; clear E.
  - (* == *)
    unfold eq_compare in Hop. cbn [is_literal] in Hop. destruct (is_literal lhs) as [lit|].
    + destruct Hlit as [-> ->]. apply obind_inv' in Hop as (c & Hcmp & E). inversion E; subst l0; clear E.
      cbn in Hs. apply sbind_inv in Hs as (st & Hst & E). inversion E; subst sts; clear E.
      erewrite one_cmp; [apply sv_refl|eassumption|eassumption|eassumption].
    + rewrite Hlit in Hs. destruct r as [q|q sr|q sr|q br|q zr|q fr|q cr|q rhsl|q ks' vals'|q lo' hi' i'|q lo' hi' i'|q lo' hi' i'];
        try (apply obind_inv' in Hop as (r2 & Hr2 & E); inversion E; subst l0; clear E; apply omapM_inv in Hr2;
             match type of Hs with sflat ?h _ = _ =>
             eapply (assemble neg OEq (List.length lhs) 1 (fun v es => match v with
                                                   | PList _ ll => omapM (fun e => match_value (compare_eq re) e _) ll = Done es
                                                   | _ => exists c, match_value (compare_eq re) v _ = Done c /\ es = [c]
                                                   end) h) end;
             [exact Hrel
             |eapply Forall2_impl'; [|exact Hr2]; intros v y Hy; cbn beta in Hy; destruct v; try (apply obind_inv' in Hy as (xc & Hxc & E); inversion E; subst; eauto); exact Hy
             |intros v es Hpv es' Hes' lit ss Hss; destruct v; try (destruct Hpv as (xc & Hxc & ->); cbn in Hss; apply sbind_inv in Hss as (st & Hst & E); inversion E; subst ss;
                                                                      erewrite one_cmp; [apply sv_refl|eassumption|eassumption|eassumption]);
              cbn in Hss; erewrite col_eq; [apply sv_refl|eassumption|eassumption|eassumption]
             |reflexivity|exact Hn|exact Hs]).
      (* the right-hand side is a list: one comparison per value *)
      apply obind_inv' in Hop as (r2 & Hr2 & E). inversion E; subst l0; clear E. apply omapM_inv in Hr2.
      rewrite <- (concat_singletons r2) in Hn.
      eapply (assemble neg OEq (List.length lhs) 1 (fun v es => exists c, es = [c] /\
                match rhsl with
                | [single] => if is_scalar v then match_value (compare_eq re) v single else match_value (compare_eq re) v (PList q rhsl)
                | _ => match_value (compare_eq re) v (PList q rhsl)
                end = Done c) (fun x => check_value re OEq neg x (PList q rhsl))); [exact Hrel| | |reflexivity|exact Hn|exact Hs].
      * apply Forall2_map_r'. eapply Forall2_impl'; [|exact Hr2]. intros v c Hc. exists c. split; [reflexivity|exact Hc].
      * intros v es (c & -> & Hc) es' Hes' lit ss Hss. cbn in Hss.
        destruct rhsl as [|single [|y rest]].
        -- apply sbind_inv in Hss as (st & Hst & E). inversion E; subst ss. erewrite one_cmp; [apply sv_refl|eassumption|eassumption|eassumption].
        -- destruct (is_scalar v); apply sbind_inv in Hss as (st & Hst & E); inversion E; subst ss; (erewrite one_cmp; [apply sv_refl|eassumption|eassumption|eassumption]).
        -- apply sbind_inv in Hss as (st & Hst & E). inversion E; subst ss. erewrite one_cmp; [apply sv_refl|eassumption|eassumption|eassumption].
  - (* in *)
    unfold in_compare in Hop. cbn [is_literal] in Hop. destruct (is_literal lhs) as [lit|].
    + destruct Hlit as [-> ->]. cbn in Hs.
      pose proof (string_in_success lit r) as Hsucc.
      destruct (is_success (string_in lit r)) eqn:Esucc.
      * inversion Hop; subst l0; clear Hop. destruct Hsucc as [I _]. rewrite (I eq_refl) in Hs. inversion Hs; subst sts; clear Hs.
        erewrite string_in_st; [apply sv_refl|exact Hn|]. rewrite (I eq_refl). destruct neg; reflexivity.
      * apply obind_inv' in Hop as (c & Hcmp & E). inversion E; subst l0; clear E.
        assert (Hs' : (s <~ value_in re neg lit r ;; SOk [s]) = SOk sts).
        { destruct (str_in lit r) as [[|]|] eqn:Es; [destruct Hsucc as [_ I]; specialize (I eq_refl); discriminate|exact Hs|exact Hs]. }
        apply sbind_inv in Hs' as (st & Hst & E). inversion E; subst sts; clear E.
        erewrite contained_value_in; [apply sv_refl| |eassumption|eassumption|eassumption].
        apply Hok. cbn. now left.
    + rewrite Hlit in Hs. apply obind_inv' in Hop as (r2 & Hr2 & E). inversion E; subst l0; clear E. apply omapM_inv in Hr2.
      pose proof (Forall2_in_l _ (fun v => nin_ok v r) _ _ Hr2 Hok) as Hr2'.
      eapply (assemble neg OIn (List.length lhs) 1 (fun v es => nin_ok v r /\
                match r with
                | PString _ _ => es = map (fun e => string_in e r) (elements v)
                | _ => exists c, contained_in re v r = Done c /\ es = [c]
                end) (fun x => check_value re OIn neg x r)); [exact Hrel| | |reflexivity|exact Hn|exact Hs].
      * eapply Forall2_impl'; [|exact Hr2']. intros v y [Hy Hq]. split; [exact Hq|]. cbn beta in Hy.
        destruct r; try (apply obind_inv' in Hy as (xc & Hxc & E); inversion E; subst; eauto).
        destruct v; inversion Hy; subst; reflexivity.
      * intros v es [Hq Hpv] es' Hes' lit ss Hss. cbn in Hss.
        destruct r; try (destruct Hpv as (xc & Hxc & ->); apply sbind_inv in Hss as (st & Hst & E); inversion E; subst ss;
                         erewrite contained_value_in; [apply sv_refl|exact Hq|eassumption|eassumption|eassumption]).
        subst es. erewrite string_in_col; [apply sv_refl|eassumption|eassumption].
  - eapply common_refines; try eassumption; reflexivity.
  - eapply common_refines; try eassumption; reflexivity.
  - eapply common_refines; try eassumption; reflexivity.
  - eapply common_refines; try eassumption; reflexivity.
Qed.

(* ------------------------------------------------------------------ *)
(* no comparison against a literal raises an evaluation error (incomparable values are a FAIL, not an error) *)

Section PvInd.
Variable P : pv -> Prop.
Hypothesis Hnull : forall p, P (PNull p).
Hypothesis Hstr : forall p s, P (PString p s).
Hypothesis Hre : forall p s, P (PRegex p s).
Hypothesis Hbool : forall p b, P (PBool p b).
Hypothesis Hint : forall p z, P (PInt p z).
Hypothesis Hfloat : forall p f, P (PFloat p f).
Hypothesis Hchar : forall p c, P (PChar p c).
Hypothesis Hlist : forall p l, Forall P l -> P (PList p l).
Hypothesis Hmap : forall p ks vals, Forall P (map snd vals) -> P (PMap p ks vals).
Hypothesis Hri : forall p a b i, P (PRangeInt p a b i).
Hypothesis Hrf : forall p a b i, P (PRangeFloat p a b i).
Hypothesis Hrc : forall p a b i, P (PRangeChar p a b i).

Fixpoint pv_ind' (v : pv) : P v :=
  match v with
  | PNull p => Hnull p
  | PString p s => Hstr p s
  | PRegex p s => Hre p s
  | PBool p b => Hbool p b
  | PInt p z => Hint p z
  | PFloat p f => Hfloat p f
  | PChar p c => Hchar p c
  | PList p l => Hlist p l ((fix go (l : list pv) : Forall P l :=
                              match l with [] => Forall_nil P | x :: r => Forall_cons x (pv_ind' x) (go r) end) l)
  | PMap p ks vals => Hmap p ks vals ((fix go (l : list (string * pv)) : Forall P (map snd l) :=
                                         match l with [] => Forall_nil P | (k, x) :: r => Forall_cons x (pv_ind' x) (go r) end) vals)
  | PRangeInt p a b i => Hri p a b i
  | PRangeFloat p a b i => Hrf p a b i
  | PRangeChar p a b i => Hrc p a b i
  end.
End PvInd.

Local Transparent compare_eq of_cmp match_value contained_in value_in string_in str_in.

Lemma partial_eq_no_err a : forall b e, partial_eq re a b <> Err e.
Proof.
  induction a as [p|p s|p s|p b0|p z|p f|p c|p l IH|p ks vals IH|p lo hi i|p lo hi i|p lo hi i] using pv_ind'; intros b e;
    try solve [destruct b; cbn; try discriminate; unfold regex_partial_eq;
               repeat match goal with |- match ?x with _ => _ end <> _ => destruct x end; discriminate].
  - (* list *)
    destruct b; cbn; try discriminate. destruct (Nat.eqb _ _); [|discriminate].
    revert l0. induction IH as [|x l Hx IH IHl]; intros l0; [destruct l0; discriminate|].
    destruct l0 as [|y l0]; [discriminate|]. cbn.
    destruct (partial_eq re x y) as [[|]| | | |] eqn:E; cbn; try discriminate; [apply IHl|exfalso; eapply Hx; exact E].
  - (* struct *)
    destruct b; cbn; try discriminate. destruct (Nat.eqb _ _); [|discriminate].
    induction vals as [|[k v] vals IHv]; [discriminate|]. cbn in IH. inversion IH as [|? ? Hv Hrest]; subst. cbn.
    destruct (map_get k vals0) as [v2|]; [|discriminate].
    destruct (partial_eq re v v2) as [[|]| | | |] eqn:E; cbn; try discriminate; [apply IHv, Hrest|exfalso; eapply Hv; exact E].
Qed.

Lemma contains_no_err l x e : contains_pv re l x <> Err e.
Proof.
  induction l as [|y l IH]; cbn; [discriminate|].
  destruct (partial_eq re y x) as [[|]| | | |] eqn:E; cbn; try discriminate; [exact IH|exfalso; eapply partial_eq_no_err; exact E].
Qed.

Lemma not_contained_no_err l other e : not_contained re l other <> Err e.
Proof.
  revert e. induction l as [|x l IH]; intros e; cbn; [discriminate|].
  destruct (contains_pv re other x) as [c| | | |] eqn:E; cbn; try discriminate; [|exfalso; eapply contains_no_err; exact E].
  destruct (not_contained re l other) as [r| | | |] eqn:E2; cbn; try discriminate. exfalso; exact (IH _ eq_refl).
Qed.

Lemma match_value_no_err f l r e : match_value f l r <> Err e.
Proof. unfold match_value. destruct (f l r) as [[|]|[]| | |]; discriminate. Qed.

Lemma omapM_no_err {A B} (f : A -> outcome B) l e : (forall x e', f x <> Err e') -> omapM f l <> Err e.
Proof.
  intros H. revert e. induction l as [|x l IH]; intros e; cbn; [discriminate|].
  destruct (f x) as [y| | | |] eqn:E; cbn; try discriminate; [|exfalso; eapply H; exact E].
  destruct (omapM f l) as [r| | | |] eqn:E2; cbn; try discriminate. exfalso. exact (IH _ eq_refl).
Qed.

Ltac no_err_base :=
  match goal with
  | |- obind ?m _ <> Err _ => let E := fresh "E" in destruct m eqn:E; cbn [obind]; try discriminate
  | |- (if ?c then _ else _) <> Err _ => destruct c
  | |- match ?x with _ => _ end <> Err _ => destruct x
  | H : omapM _ _ = Err _ |- _ => exfalso; revert H; apply omapM_no_err; intros
  | H : match_value _ _ _ = Err _ |- _ => exfalso; revert H; apply match_value_no_err
  | H : not_contained _ _ _ = Err _ |- _ => exfalso; revert H; apply not_contained_no_err
  | H : contains_pv _ _ _ = Err _ |- _ => exfalso; revert H; apply contains_no_err
  | |- match_value _ _ _ <> Err _ => apply match_value_no_err
  | |- omapM _ _ <> Err _ => apply omapM_no_err; intros
  | |- Done _ <> Err _ => discriminate
  | |- Panic _ <> Err _ => discriminate
  | |- Unknown <> Err _ => discriminate
  | H : (if ?c then _ else _) = Err _ |- _ => destruct c
  end.

Lemma contained_in_no_err l r e : contained_in re l r <> Err e.
Proof. unfold contained_in. repeat no_err_base. Qed.

Ltac no_err_step :=
  first [ no_err_base
        | match goal with
          | H : contained_in _ _ _ = Err _ |- _ => exfalso; revert H; apply contained_in_no_err
          | |- contained_in _ _ _ <> Err _ => apply contained_in_no_err
          end ].

Lemma negate_no_err op nl nr x e : negate_result re op nl nr x <> Err e.
Proof. unfold negate_result, reverse_diff. repeat no_err_step. Qed.

Lemma inner_any_no_err x rv e :
  (fix any (rs : list pv) : outcome bool :=
     match rs with
     | [] => Done false
     | y :: rs' => c <-- contained_in re x y ;; if is_success c then Done true else any rs'
     end) rv <> Err e.
Proof. induction rv as [|y rv IH]; [discriminate|]. repeat no_err_step. exact IH. Qed.

Lemma eq_compare_no_err lhs rhs e : eq_compare re lhs rhs <> Err e.
Proof. unfold eq_compare. repeat no_err_step. Qed.

Lemma common_compare_no_err f lhs rhs e : common_compare f lhs rhs <> Err e.
Proof. unfold common_compare. repeat no_err_step. Qed.

Lemma in_compare_no_err lhs rhs e : in_compare re lhs rhs <> Err e.
Proof.
  unfold in_compare. destruct (is_literal lhs), (is_literal rhs); try solve [repeat no_err_step].
  match goal with |- obind ?m _ <> _ => assert (K : forall e0, m <> Err e0) end.
  { generalize (selected_values lhs). intros lv. induction lv as [|x lv IHlv]; intros e0; [discriminate|].
    match goal with |- obind ?m _ <> _ => destruct m eqn:E1; cbn [obind]; try discriminate end.
    - match goal with |- obind ?m _ <> _ => destruct m eqn:E2; cbn [obind]; try discriminate end.
      exfalso. exact (IHlv _ eq_refl).
    - exfalso. eapply inner_any_no_err. exact E1. }
  match goal with |- obind ?m _ <> _ => destruct m eqn:E; cbn [obind]; try discriminate end.
  exfalso. exact (K _ eq_refl).
Qed.

Theorem cmp_compare_no_err o neg lhs rhs e : is_unary o = false -> cmp_compare re (o, neg) lhs rhs <> Err e.
Proof.
  intros Hu. unfold cmp_compare. cbn [fst snd].
  assert (Hop : forall e', op_compare re o lhs rhs <> Err e').
  { intros e'. unfold op_compare. destruct lhs; [discriminate|]. destruct rhs; [discriminate|].
    destruct o; try discriminate Hu;
      match goal with |- obind ?m _ <> _ => destruct m eqn:E; cbn [obind]; try discriminate end; exfalso; revert E;
      first [apply eq_compare_no_err | apply in_compare_no_err | apply common_compare_no_err]. }
  destruct (op_compare re o lhs rhs) as [[|l]| | | |] eqn:E; cbn [obind]; try discriminate; [|exfalso; eapply Hop; reflexivity].
  destruct neg; [|discriminate]. repeat no_err_step. apply negate_no_err.
Qed.

Lemma cmp_compare_not_skip o neg lhs rhs : lhs <> [] -> rhs <> [] -> cmp_compare re (o, neg) lhs rhs <> Done ESkip.
Proof.
  intros Hl Hr. unfold cmp_compare, op_compare. cbn [fst snd]. destruct lhs; [contradiction|]. destruct rhs; [contradiction|].
  destruct o; cbn [obind]; try discriminate;
    match goal with |- obind (obind ?m _) _ <> _ => destruct m; cbn [obind]; try discriminate end;
    destruct neg; try discriminate; match goal with |- obind ?m _ <> _ => destruct m; cbn [obind]; discriminate end.
Qed.

(* the per-value checks of the documented semantics are never undefined: incomparable values FAIL *)
Lemma smap_not_undef {A B} (f : A -> sres B) l : (forall x, f x <> SUndef) -> smap f l <> SUndef.
Proof.
  intros H. induction l as [|x l IH]; cbn; [discriminate|].
  destruct (f x) eqn:E; cbn; try discriminate; [|exfalso; eapply H; exact E].
  destruct (smap f l); cbn; try discriminate. contradiction.
Qed.
Lemma sflat_not_undef {A B} (f : A -> sres (list B)) l : (forall x, f x <> SUndef) -> sflat f l <> SUndef.
Proof. intros H. unfold sflat. pose proof (smap_not_undef f l H). destruct (smap f l); cbn; try discriminate. contradiction. Qed.
Lemma of_cmp_not_undef o neg : of_cmp o neg <> SUndef.
Proof. destruct o as [b|[]| | |]; discriminate. Qed.

Ltac nu_step :=
  match goal with
  | |- of_cmp _ _ <> SUndef => apply of_cmp_not_undef
  | |- smap _ _ <> SUndef => apply smap_not_undef; intros
  | |- sflat _ _ <> SUndef => apply sflat_not_undef; intros
  | |- sbind ?m _ <> SUndef => let E := fresh "E" in destruct m eqn:E; cbn [sbind]; try discriminate
  | |- SOk _ <> SUndef => discriminate
  | |- SOut <> SUndef => discriminate
  | |- (if ?c then _ else _) <> SUndef => destruct c
  | |- match ?x with _ => _ end <> SUndef => destruct x
  | H : of_cmp _ _ = SUndef |- _ => exfalso; revert H; apply of_cmp_not_undef
  | H : smap _ _ = SUndef |- _ => exfalso; revert H; apply smap_not_undef; intros
  | H : sflat _ _ = SUndef |- _ => exfalso; revert H; apply sflat_not_undef; intros
  end.

Lemma all_in_not_undef xs ys : all_in re xs ys <> SUndef.
Proof. unfold all_in. induction xs as [|x xs IH]; cbn; [discriminate|]. destruct (contains_pv re ys x); try discriminate. match goal with |- sbind ?m _ <> _ => destruct m end; cbn; try discriminate. congruence. Qed.
Lemma none_in_not_undef xs ys : none_in re xs ys <> SUndef.
Proof. unfold none_in. induction xs as [|x xs IH]; cbn; [discriminate|]. destruct (contains_pv re ys x); try discriminate. match goal with |- sbind ?m _ <> _ => destruct m end; cbn; try discriminate. congruence. Qed.

Lemma value_in_not_undef neg l r : value_in re neg l r <> SUndef.
Proof.
  unfold value_in. destruct l; destruct r; try apply of_cmp_not_undef; try discriminate;
    try (destruct (contains_pv re _ _); discriminate).
  destruct (match l0 with x :: _ => is_list x | [] => false end); [destruct (contains_pv re _ _); discriminate|].
  destruct neg.
  - pose proof (all_in_not_undef l l0). destruct (all_in re l l0) as [[|]| |]; cbn; try discriminate; try contradiction.
    pose proof (none_in_not_undef l l0). destruct (none_in re l l0); cbn; try discriminate. contradiction.
  - pose proof (all_in_not_undef l l0). destruct (all_in re l l0); cbn; try discriminate. contradiction.
Qed.

Lemma check_value_not_undef o neg x r : check_value re o neg x r <> SUndef.
Proof.
  unfold check_value. destruct x as [lit v|]; [|discriminate].
  destruct o; cbn [ordering]; try discriminate; repeat nu_step;
    try (match goal with H : value_in _ _ _ _ = SUndef |- _ => exfalso; revert H; apply value_in_not_undef end).
Qed.

Lemma check_literal_not_undef o neg l r : check_literal re o neg l r <> SUndef.
Proof.
  unfold check_literal. destruct o; cbn [ordering]; try discriminate; repeat nu_step;
    try (match goal with H : value_in _ _ _ _ = SUndef |- _ => exfalso; revert H; apply value_in_not_undef end).
Qed.

Lemma spec_binary_not_undef o neg svals r : spec_binary o neg svals r <> SUndef.
Proof.
  unfold spec_binary. destruct svals as [|[[|] l|] [|y rest]]; try apply check_literal_not_undef;
    apply sflat_not_undef; intros; apply check_value_not_undef.
Qed.

(* ------------------------------------------------------------------ *)
(* `not in` between two lists is coherent when the members of the left list are plain scalars *)

Definition scalar_plain (v : pv) : bool :=
  match v with PNull _ | PString _ _ | PBool _ _ | PInt _ _ => true | _ => false end.

Lemma peq_refl_scalar x : scalar_plain x = true -> partial_eq re x x = Done true.
Proof.
  destruct x; try discriminate; intros _; cbn.
  - reflexivity.
  - assert (E : String.compare s s = Eq) by (pose proof (String.compare_antisym s s) as A; destruct (String.compare s s); cbn in A; try discriminate; reflexivity). rewrite E. reflexivity.
  - destruct b; reflexivity.
  - rewrite Z.compare_refl. reflexivity.
Qed.

Lemma peq_scalar_same y x : scalar_plain y = true -> scalar_plain x = true -> partial_eq re y x = Done true ->
  forall z, partial_eq re z y = partial_eq re z x.
Proof.
  intros Hy Hx H z. destruct y, x; try discriminate; cbn in H; try discriminate.
  - destruct z; reflexivity.
  - destruct (String.compare s s0) eqn:E; try discriminate. apply String.compare_eq_iff in E. subst. destruct z; reflexivity.
  - inversion H as [E]. apply Bool.eqb_prop in E. subst. destruct z; reflexivity.
  - destruct (Z.compare z0 z1) eqn:E; try discriminate. apply Z.compare_eq_iff in E. subst. destruct z; reflexivity.
Qed.

Lemma contains_congr l y x : (forall z, partial_eq re z y = partial_eq re z x) -> contains_pv re l y = contains_pv re l x.
Proof. intros H. induction l as [|a l IH]; cbn; [reflexivity|]. rewrite H, IH. reflexivity. Qed.

Lemma contains_member l x c : contains_pv re l x = Done c -> In x l -> partial_eq re x x = Done true -> c = true.
Proof.
  induction l as [|y l IH]; intros H Hin Hr; [destruct Hin|]. cbn in H.
  destruct (partial_eq re y x) as [[|]| | | |] eqn:E; cbn in H; try discriminate; [inversion H; reflexivity|].
  destruct Hin as [->|Hin]; [congruence|]. apply IH; assumption.
Qed.

Lemma contains_true_inv l x : contains_pv re l x = Done true -> exists y, In y l /\ partial_eq re y x = Done true.
Proof.
  induction l as [|y l IH]; cbn; [discriminate|].
  destruct (partial_eq re y x) as [[|]| | | |] eqn:E; cbn; try discriminate.
  - intros _. exists y. split; [now left|exact E].
  - intros H. destruct (IH H) as (y0 & Hy & Ey). exists y0. split; [now right|exact Ey].
Qed.

Lemma not_contained_spec l o out : not_contained re l o = Done out ->
  (forall x, In x l -> exists c, contains_pv re o x = Done c) /\
  (forall x, In x out <-> In x l /\ contains_pv re o x = Done false).
Proof.
  revert out. induction l as [|a l IH]; intros out H; cbn in H.
  - inversion H; subst. split; [intros x []|]. intros x. split; [intros []|intros [[] _]].
  - destruct (contains_pv re o a) as [c| | | |] eqn:Ea; cbn in H; try discriminate.
    destruct (not_contained re l o) as [rest| | | |] eqn:Er; cbn in H; try discriminate. inversion H; subst; clear H.
    destruct (IH rest eq_refl) as [I1 I2]. split.
    + intros x [->|Hx]; [eauto|apply I1, Hx].
    + intros x. destruct c.
      * rewrite I2. split; [intros [Hx Hc]; split; [now right|exact Hc]|].
        intros [[->|Hx] Hc]; [congruence|split; assumption].
      * cbn. rewrite I2. split.
        -- intros [->|[Hx Hc]]; [split; [now left|exact Ea]|split; [now right|exact Hc]].
        -- intros [[->|Hx] Hc]; [now left|right; split; assumption].
Qed.

Lemma none_in_spec l o b : none_in re l o = SOk b -> (b = true <-> forall x, In x l -> contains_pv re o x = Done false).
Proof.
  unfold none_in. revert b. induction l as [|a l IH]; intros b H; cbn in H.
  - inversion H; subst. split; [intros _ x []|reflexivity].
  - destruct (contains_pv re o a) as [c| | | |] eqn:Ea; try discriminate.
    match type of H with sbind ?m _ = _ => destruct m as [b0| |] eqn:Er end; cbn in H; try discriminate. inversion H; subst; clear H.
    specialize (IH b0 eq_refl). destruct c; cbn.
    + split; [discriminate|]. intros Hall. specialize (Hall a (or_introl eq_refl)). congruence.
    + rewrite IH. split; [intros Hall x [->|Hx]; [exact Ea|apply Hall, Hx]|intros Hall x Hx; apply Hall; now right].
Qed.

Theorem notin_coherent_scalars l rhsl : forallb scalar_plain l = true -> notin_coherent l rhsl.
Proof.
  intros Hsc diff rd b Hd Hne Hrd Hn. rewrite forallb_forall in Hsc.
  destruct (not_contained_spec _ _ _ Hd) as [D1 D2]. destruct (not_contained_spec _ _ _ Hrd) as [R1 R2].
  pose proof (none_in_spec _ _ _ Hn) as N. split.
  - (* nothing is left over: then no member is in the right list *)
    intros ->. apply N. intros x0 Hx0. destruct (D1 x0 Hx0) as [c Hc]. destruct c; [|exact Hc]. exfalso.
    destruct (R1 x0 Hx0) as [c2 Hc2]. destruct c2.
    + destruct (contains_true_inv _ _ Hc2) as (y & Hy & Ey). apply D2 in Hy as [Hyl Hyc].
      rewrite (contains_congr rhsl y x0 (peq_scalar_same y x0 (Hsc y Hyl) (Hsc x0 Hx0) Ey)) in Hyc. congruence.
    + assert (Hin : In x0 []) by (apply R2; split; assumption). destruct Hin.
  - (* no member is in the right list: then every member is among the ones not found *)
    intros ->. destruct N as [N _]. specialize (N eq_refl). destruct rd as [|x rd']; [reflexivity|]. exfalso.
    assert (Hx : In x (x :: rd')) by now left. apply R2 in Hx as [Hxl Hxc].
    assert (Hxd : In x diff) by (apply D2; split; [exact Hxl|apply N, Hxl]).
    pose proof (contains_member diff x false Hxc Hxd (peq_refl_scalar x (Hsc x Hxl))). discriminate.
Qed.

(* ------------------------------------------------------------------ *)
(* unary operators *)

Definition rel_ob (o : outcome bool) (x : sres bool) : Prop :=
  match x with
  | SOut => True
  | SOk b' => match o with Done b => b = b' | Err _ => False | _ => True end
  | SUndef => match o with Done _ => False | _ => True end
  end.

Lemma unary_refines o base a x : unary_base o = Some base -> rel_q a x -> rel_ob (base a) (unary_value o x).
Proof.
  intros Hb Hr. destruct o; cbn in Hb; inversion Hb; subst base; clear Hb;
    destruct a as [v|v|u], x as [[|] v'|]; cbn in Hr; try contradiction; subst; try destruct v'; cbn; auto;
    try (destruct l; reflexivity); try (destruct vals; reflexivity).
Qed.

End Ops.
