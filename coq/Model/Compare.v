(* Compare.v — compare_values, compare_eq/lt/le/gt/ge, PartialEq, is_within
   (path_value.rs 245-291, 1047-1192; values.rs 266-278). No proofs here. *)
From GV.Model Require Export Value.

(* the regex oracle: fancy_regex on (pattern, text) *)
Inductive re_result := ReMatch (b : bool) | ReCompileErr | ReMatchErr | ReUnknownPair.
Definition re_oracle := string -> string -> re_result.

Definition LOWER_INCLUSIVE : N := 1.
Definition UPPER_INCLUSIVE : N := 2.

(* is_within over an abstract partial comparison: le/lt/ge/gt of PartialOrd are all
   false when partial_cmp is None *)
Definition pcmp_le (c : option comparison) := match c with Some Lt | Some Eq => true | _ => false end.
Definition pcmp_lt (c : option comparison) := match c with Some Lt => true | _ => false end.
Definition pcmp_ge (c : option comparison) := match c with Some Gt | Some Eq => true | _ => false end.
Definition pcmp_gt (c : option comparison) := match c with Some Gt => true | _ => false end.

Definition is_within {T} (cmp : T -> T -> option comparison) (lo hi : T) (incl : N) (x : T) : bool :=
  let lower := if N.ltb 0 (N.land incl LOWER_INCLUSIVE) then pcmp_le (cmp lo x) else pcmp_lt (cmp lo x) in
  let upper := if N.ltb 0 (N.land incl UPPER_INCLUSIVE) then pcmp_ge (cmp hi x) else pcmp_gt (cmp hi x) in
  lower && upper.

Definition zcmp (a b : Z) : option comparison := Some (Z.compare a b).
Definition ncmp (a b : N) : option comparison := Some (N.compare a b).

(* compare_values : Ok ordering | Err NotComparable *)
Definition compare_values (a b : pv) : option comparison :=
  match a, b with
  | PInt _ i, PInt _ o => Some (Z.compare i o)
  | PString _ s, PString _ o => Some (String.compare s o)
  | PFloat _ f, PFloat _ s => f64_cmp f s
  | PChar _ f, PChar _ s => Some (N.compare f s)
  | _, _ => None
  end.

Definition ord_lt (c : comparison) := match c with Lt => true | _ => false end.
Definition ord_le (c : comparison) := match c with Gt => false | _ => true end.
Definition ord_gt (c : comparison) := match c with Gt => true | _ => false end.
Definition ord_ge (c : comparison) := match c with Lt => false | _ => true end.
Definition ord_eq (c : comparison) := match c with Eq => true | _ => false end.

Definition cmp_with (f : comparison -> bool) (a b : pv) : outcome bool :=
  match compare_values a b with
  | Some c => Done (f c)
  | None => Err ENotComparable
  end.
Definition compare_lt := cmp_with ord_lt.
Definition compare_le := cmp_with ord_le.
Definition compare_gt := cmp_with ord_gt.
Definition compare_ge := cmp_with ord_ge.

Section WithRegex.
Variable re : re_oracle.

Definition regex_cmp_eq (r s : string) : outcome bool :=
  match re r s with
  | ReMatch b => Done b
  | ReCompileErr | ReMatchErr => Err ERegex
  | ReUnknownPair => Unknown
  end.

(* compare_eq (path_value.rs 1071-1152). Recursion is on the first argument. *)
Fixpoint compare_eq (a b : pv) {struct a} : outcome bool :=
  match a, b with
  | PString _ s, PRegex _ r => regex_cmp_eq r s
  | PRegex _ r, PString _ s => regex_cmp_eq r s
  | PString _ s1, PString _ s2 => Done (String.eqb s1 s2)
  | PMap _ _ m1, PMap _ _ m2 =>
      if Nat.eqb (List.length m1) (List.length m2) then
        (fix go (m : list (string * pv)) : outcome bool :=
           match m with
           | [] => Done true
           | (k, v) :: r =>
               match map_get k m2 with
               | Some v2 => obind (compare_eq v v2) (fun e => if e then go r else Done false)
               | None => Done false
               end
           end) m1
      else Done false
  | PList _ l1, PList _ l2 =>
      if Nat.eqb (List.length l1) (List.length l2) then
        (fix go (l1 l2 : list pv) : outcome bool :=
           match l1, l2 with
           | x :: r1, y :: r2 => obind (compare_eq x y) (fun e => if e then go r1 r2 else Done false)
           | _, _ => Done true
           end) l1 l2
      else Done false
  | PBool _ b1, PBool _ b2 => Done (Bool.eqb b1 b2)
  | PNull _, PNull _ => Done true
  | PRegex _ r, PRegex _ s => Done (String.eqb r s)
  | PInt _ v, PRangeInt _ lo hi i => Done (is_within zcmp lo hi i v)
  | PFloat _ v, PRangeFloat _ lo hi i => Done (is_within f64_cmp lo hi i v)
  | PChar _ v, PRangeChar _ lo hi i => Done (is_within ncmp lo hi i v)
  | _, _ =>
      match compare_values a b with
      | Some c => Done (ord_eq c)
      | None => Err ENotComparable
      end
  end.

(* impl PartialEq for PathAwareValue (path_value.rs 245-291); the regex arms
   unwrap the match result, hence the Panic; a regex that does not compile is false *)
Definition regex_partial_eq (r s : string) : outcome bool :=
  match re r s with
  | ReMatch b => Done b
  | ReCompileErr => Done false
  | ReMatchErr => Done false        (* fix in /repo: unwrap_or(false) *)
  | ReUnknownPair => Unknown
  end.

Fixpoint partial_eq (a b : pv) {struct a} : outcome bool :=
  match a, b with
  | PMap _ _ m1, PMap _ _ m2 =>
      (* IndexMap == : same length and every (k,v) of the left has an equal value on the right *)
      if Nat.eqb (List.length m1) (List.length m2) then
        (fix go (m : list (string * pv)) : outcome bool :=
           match m with
           | [] => Done true
           | (k, v) :: r =>
               match map_get k m2 with
               | Some v2 => obind (partial_eq v v2) (fun e => if e then go r else Done false)
               | None => Done false
               end
           end) m1
      else Done false
  | PList _ l1, PList _ l2 =>
      if Nat.eqb (List.length l1) (List.length l2) then
        (fix go (l1 l2 : list pv) : outcome bool :=
           match l1, l2 with
           | x :: r1, y :: r2 => obind (partial_eq x y) (fun e => if e then go r1 r2 else Done false)
           | _, _ => Done true
           end) l1 l2
      else Done false
  | PBool _ b1, PBool _ b2 => Done (Bool.eqb b1 b2)
  | PNull _, PNull _ => Done true
  | PString _ s, PRegex _ r => regex_partial_eq r s
  | PRegex _ r, PString _ s => regex_partial_eq r s
  | PRegex _ r, PRegex _ s => Done (String.eqb r s)
  | PInt _ v, PRangeInt _ lo hi i => Done (is_within zcmp lo hi i v)
  | PFloat _ v, PRangeFloat _ lo hi i => Done (is_within f64_cmp lo hi i v)
  | PChar _ v, PRangeChar _ lo hi i => Done (is_within ncmp lo hi i v)
  | _, _ =>
      match compare_values a b with
      | Some c => Done (ord_eq c)
      | None => Done false
      end
  end.

(* Vec::contains / slice contains with PartialEq, left to right, stops at first hit *)
Fixpoint contains_pv (l : list pv) (x : pv) : outcome bool :=
  match l with
  | [] => Done false
  | y :: r => obind (partial_eq y x) (fun e => if e then Done true else contains_pv r x)
  end.

End WithRegex.
