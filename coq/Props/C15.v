(* C15 — variables and parameterised rules are transparent abstractions. Pinned statements only.
   Proved: the resolution mechanism (what a reference to a name returns, from which scope, what is stored, what is
   never looked at). That memoisation is invisible in the verdicts of whole programs is carried by the abstraction
   differential on the implementation (DESIGN.md, C15). *)
From GV.Model Require Import SEval PEval.
From GV.Proofs Require Import VarProps MemoProps MemoErr.

(* `let v = <literal>`: a reference resolves to exactly that literal, in every state, and leaves the state alone ... *)
Theorem C15_literal_variable_resolves : forall r is_root root lets memo name v s,
  find_literal name lets = Some v ->
  resolve_scope r is_root root lets memo name s = Done ([QLiteral v], [], s).
Proof. exact literal_variable_resolves. Qed.
Print Assumptions C15_literal_variable_resolves.

(* ... and the bare query %v returns what the variable resolves to, unchanged and in order: the right-hand side %v
   and the right-hand side <literal> are the same value list *)
Theorem C15_bare_variable_query : forall re conv r name cur cv s vals recs s',
  ev_resolve r name s = Done (vals, recs, s') ->
  query_body re conv r 0 [QKey (String "%" name)] cur cv s = Done (vals, recs ++ [], s').
Proof. exact bare_variable_query. Qed.
Print Assumptions C15_bare_variable_query.

(* every reference to a variable sees the same value: a memoised result is returned as it is *)
Theorem C15_memoised_variable_is_returned : forall r is_root root lets memo name vals s,
  find_literal name lets = None -> assoc name memo = Some vals ->
  resolve_scope r is_root root lets memo name s = Done (vals, [], s).
Proof. exact memoised_variable_is_returned. Qed.
Print Assumptions C15_memoised_variable_is_returned.

(* an unused variable never influences a verdict: it changes no lookup of any other name (equality of computations,
   so also when its own evaluation would be an error) *)
Theorem C15_unused_definition_irrelevant : forall r is_root root n v lets memo name,
  n <> name ->
  resolve_scope r is_root root ((n, v) :: lets) memo name = resolve_scope r is_root root lets memo name.
Proof. exact unused_definition_irrelevant. Qed.
Print Assumptions C15_unused_definition_irrelevant.

(* inner definitions shadow outer ones *)
Theorem C15_inner_definition_shadows : forall r root lets memo rest sts name v,
  find_literal name lets = Some v ->
  resolve_body r name (mkState (FBlock root lets memo :: rest) sts)
  = Done ([QLiteral v], [], mkState (FBlock root lets memo :: rest) sts).
Proof. exact inner_definition_shadows. Qed.
Print Assumptions C15_inner_definition_shadows.

(* an outer variable is looked up - and evaluated - in the scope where it is defined *)
Theorem C15_outer_variable_goes_to_parent : forall r root lets memo rest sts name,
  find_literal name lets = None -> assoc name memo = None ->
  find_function name lets = None -> find_query name lets = None ->
  resolve_body r name (mkState (FBlock root lets memo :: rest) sts)
  = with_parent (ev_resolve r name) (mkState (FBlock root lets memo :: rest) sts).
Proof. exact outer_variable_goes_to_parent. Qed.
Print Assumptions C15_outer_variable_goes_to_parent.

Theorem C15_value_scope_is_transparent : forall r v rest sts name,
  resolve_body r name (mkState (FValue v :: rest) sts)
  = with_parent (ev_resolve r name) (mkState (FValue v :: rest) sts).
Proof. exact value_scope_is_transparent. Qed.
Print Assumptions C15_value_scope_is_transparent.

(* f(args): inside the call a parameter is exactly the value list its argument evaluated to *)
Theorem C15_parameter_resolves_to_argument : forall r bindings call msg rest sts name vals,
  assoc name bindings = Some vals ->
  resolve_body r name (mkState (FParams bindings call msg :: rest) sts)
  = Done (vals, [], mkState (FParams bindings call msg :: rest) sts).
Proof. exact parameter_resolves_to_argument. Qed.
Print Assumptions C15_parameter_resolves_to_argument.

(* ---- memoisation is invisible (capture-free programs) ----
   PEval is the evaluator with both caches switched off: a variable is re-derived from its definition at every reference,
   a named rule is re-evaluated at every reference. *)

(* the verdict of a file is the verdict of the memo-free evaluation: `%v` means its definition *)
Theorem C15_verdict_is_memo_free : forall re conv prog n doc st recs s',
  nc_prog prog = true ->
  eval_file re conv prog n doc = Done (st, recs, s') ->
  Ev (fun k => exists recs', eval_file' re conv prog k doc = Done (st, recs', init_state prog doc)).
Proof. exact eval_file_memo_free. Qed.
Print Assumptions C15_verdict_is_memo_free.

(* every reference to a variable sees the same value, whatever was memoised before and whatever the fuel *)
Theorem C15_every_reference_sees_the_same_value : forall re conv prog, nc_prog prog = true ->
  forall name n1 n2 s1 s2 v1 v2 recs1 recs2 s1' s2',
  Valid prog (evalP re conv prog) s1 -> Valid prog (evalP re conv prog) s2 -> erase s1 = erase s2 ->
  ev_resolve (evalN re conv prog n1) name s1 = Done (v1, recs1, s1') ->
  ev_resolve (evalN re conv prog n2) name s2 = Done (v2, recs2, s2') -> v1 = v2.
Proof. exact variable_value_is_stable. Qed.
Print Assumptions C15_every_reference_sees_the_same_value.

(* evaluating a clause keeps the caches valid, hands the scope stack back, and gives the memo-free status *)
Theorem C15_caches_stay_valid : forall re conv prog, nc_prog prog = true ->
  forall n g s st recs s', nc_clause g = true -> Valid prog (evalP re conv prog) s ->
  ev_clause (evalN re conv prog n) g s = Done (st, recs, s') ->
  Valid prog (evalP re conv prog) s' /\ erase s' = erase s /\
  Ev (fun k => exists recs', ev_clause (evalP re conv prog k) g (erase s) = Done (st, recs', erase s)).
Proof. exact clause_memo_free. Qed.
Print Assumptions C15_caches_stay_valid.

(* the simulation itself, for every entry point of the interpreter and every fuel *)
Theorem C15_seval_is_simulated_by_peval : forall re conv prog, nc_prog prog = true ->
  forall n, ev_sim prog (evalP re conv prog) (evalN re conv prog n).
Proof. exact evalN_sim. Qed.
Print Assumptions C15_seval_is_simulated_by_peval.

(* memoisation is invisible for failures too: an evaluation error, a panic site or an oracle miss of the evaluator with
   its caches is the failure of the memo-free evaluator (capture-free programs, every fuel) *)
Theorem C15_failures_are_memo_free : forall re conv prog n doc ft,
  nc_prog prog = true ->
  fault_of (eval_file re conv prog n doc) = Some ft ->
  Ev (fun k => fault_of (eval_file' re conv prog k doc) = Some ft).
Proof. exact eval_file_fault_memo_free. Qed.
Print Assumptions C15_failures_are_memo_free.
Theorem C15_seval_is_simulated_by_peval_failures_included : forall re conv prog, nc_prog prog = true ->
  forall n, ev_sim2 prog (evalP re conv prog) (evalN re conv prog n).
Proof. exact evalN_sim2. Qed.
Print Assumptions C15_seval_is_simulated_by_peval_failures_included.
