(* MemoErr.v — memoisation is invisible also for failures: when SEval (with its variable memo and rule-status cache)
   answers an evaluation error, a panic site or an oracle miss from a state whose caches are valid, the memo-free
   evaluator PEval answers the same failure from the erased state with eventually-enough fuel.
   With MemoProps (the Done direction) this closes the error direction of the C01 refinement for SEval itself:
   an evaluation error is raised only where the documented semantics is undefined.
   sim2 = MemoProps.sim (values) /\ simF (failures); the combinators are proved for simF, the bodies of the
   interpreter are then walked exactly as in MemoProps. *)
From GV.Model Require Import SEval PEval.
From GV.Proofs Require Import StatusProps EvalLaws FrameProps MemoProps.
From Coq Require Import Lia PeanoNat.
Local Open Scope nat_scope.

Inductive fault := FErr (e : err_kind) | FPanic (p : panic_site) | FUnknown.

Definition fault_of {X} (o : outcome X) : option fault :=
  match o with
  | Err e => Some (FErr e)
  | Panic p => Some (FPanic p)
  | Unknown => Some FUnknown
  | _ => None
  end.

Section SimF.
Variable re : re_oracle.
Variable conv : conv_oracle.
Variable prog : rules_file.
Variable r' : nat -> ev.

Notation Valid := (Valid prog r').
Notation sim := (sim prog r').
Notation computes := (@computes _).

Definition faults {A} (m' : nat -> M A) (E : state) (ft : fault) : Prop :=
  Ev (fun k => fault_of (m' k E) = Some ft).

Definition simF {A} (m : M A) (m' : nat -> M A) : Prop :=
  forall s ft, Valid s -> fault_of (m s) = Some ft -> faults m' (erase s) ft.

Definition sim2 {A} (m : M A) (m' : nat -> M A) : Prop := sim m m' /\ simF m m'.

Lemma simF_const {A} (m : M A) : (forall s s0, fault_of (m s) = fault_of (m s0)) -> simF m (fun _ => m).
Proof. intros H s ft _ E. exists 0. intros k _. rewrite <- (H s). exact E. Qed.

Lemma sim2_ret {A} (a : A) : sim2 (ret a) (fun _ => ret a).
Proof. split; [apply sim_ret|]. intros s ft _ E. discriminate. Qed.
Lemma sim2_failM {A} e : sim2 (@failM A e) (fun _ => failM e).
Proof. split; [apply sim_failM|]. apply simF_const. reflexivity. Qed.
Lemma sim2_panicM {A} p : sim2 (@panicM A p) (fun _ => panicM p).
Proof. split; [apply sim_panicM|]. apply simF_const. reflexivity. Qed.
Lemma sim2_unknownM {A} : sim2 (@unknownM A) (fun _ => unknownM).
Proof. split; [apply sim_unknownM|]. apply simF_const. reflexivity. Qed.
Lemma sim2_oofM {A} m' : sim2 (@oofM A) m'.
Proof. split; [apply sim_oofM|]. intros s ft _ E. discriminate. Qed.
Lemma sim2_lift {A} (o : outcome A) : sim2 (lift o) (fun _ => lift o).
Proof. split; [apply sim_lift|]. apply simF_const. intros s s0. destruct o; reflexivity. Qed.

Lemma fault_bind_l {A B} (m : M A) (f : A -> M B) s ft : fault_of (m s) = Some ft -> fault_of (bind m f s) = Some ft.
Proof. unfold bind. destruct (m s) as [[[a r1] s1]| | | |]; cbn; congruence. Qed.

Lemma sim2_bind {A B} (m : M A) m' (f : A -> M B) f' :
  sim2 m m' -> (forall a, sim2 (f a) (fun k => f' k a)) -> sim2 (bind m f) (fun k => bind (m' k) (f' k)).
Proof.
  intros [Hm Fm] Hf. split; [apply sim_bind; [exact Hm|intros a; apply Hf]|].
  intros s ft Hv E. unfold bind in E. destruct (m s) as [[[a r1] s1]| | | |] eqn:Em.
  - destruct (Hm _ _ _ _ Hv Em) as (V1 & E1 & C1).
    assert (Ef : fault_of (f a s1) = Some ft) by (destruct (f a s1) as [[[b r2] s2]| | | |]; cbn in *; congruence).
    pose proof (proj2 (Hf a) s1 ft V1 Ef) as F2. rewrite E1 in F2.
    eapply Ev_impl; [|exact (Ev_and _ _ C1 F2)]. intros k [[rc Hc] Hk]. unfold bind. rewrite Hc.
    destruct (f' k a (erase s)) as [[[b r2] s2]| | | |]; cbn in *; congruence.
  - eapply Ev_impl; [|exact (Fm s ft Hv ltac:(rewrite Em; exact E))]. intros k Hk. apply fault_bind_l. exact Hk.
  - eapply Ev_impl; [|exact (Fm s ft Hv ltac:(rewrite Em; exact E))]. intros k Hk. apply fault_bind_l. exact Hk.
  - discriminate.
  - eapply Ev_impl; [|exact (Fm s ft Hv ltac:(rewrite Em; exact E))]. intros k Hk. apply fault_bind_l. exact Hk.
Qed.

Lemma sim2_mapM_in {A B} (f : A -> M B) f' l :
  (forall x, In x l -> sim2 (f x) (fun k => f' k x)) -> sim2 (mapM f l) (fun k => mapM (f' k) l).
Proof.
  induction l as [|x l IH]; intros Hf; cbn [mapM]; [apply sim2_ret|].
  apply (sim2_bind (f x) (fun k => f' k x) _ (fun k y => ys <- mapM (f' k) l ;; ret (y :: ys))); [apply Hf; left; reflexivity|].
  intros y. apply (sim2_bind (mapM f l) (fun k => mapM (f' k) l) _ (fun k ys => ret (y :: ys)));
    [apply IH; intros z Hz; apply Hf; right; exact Hz|].
  intros ys. apply sim2_ret.
Qed.
Lemma sim2_mapM {A B} (f : A -> M B) f' l :
  (forall x, sim2 (f x) (fun k => f' k x)) -> sim2 (mapM f l) (fun k => mapM (f' k) l).
Proof. intros Hf. apply sim2_mapM_in. intros x _. apply Hf. Qed.
Lemma sim2_concatMapM {A B} (f : A -> M (list B)) f' l :
  (forall x, sim2 (f x) (fun k => f' k x)) -> sim2 (concatMapM f l) (fun k => concatMapM (f' k) l).
Proof.
  intros Hf. unfold concatMapM.
  apply (sim2_bind (mapM f l) (fun k => mapM (f' k) l) _ (fun k r => ret (List.concat r))); [apply sim2_mapM; exact Hf|].
  intros x. apply sim2_ret.
Qed.

Lemma fault_node {A} (m : M A) mk s : fault_of (node m mk s) = fault_of (m s).
Proof. unfold node. destruct (m s) as [[[a r1] s1]| | | |]; reflexivity. Qed.

Lemma sim2_node {A} (m : M A) m' mk : sim2 m m' -> sim2 (node m mk) (fun k => node (m' k) mk).
Proof.
  intros [Hm Fm]. split; [apply sim_node; exact Hm|]. intros s ft Hv E. rewrite fault_node in E.
  eapply Ev_impl; [|exact (Fm s ft Hv E)]. intros k Hk. rewrite fault_node. exact Hk.
Qed.
Lemma sim2_leaf c : sim2 (leaf c) (fun _ => leaf c).
Proof. unfold leaf. apply (sim2_node (ret tt) (fun _ => ret tt)). apply sim2_ret. Qed.

Lemma sim2_disj_body_in {T} (f : T -> M status) f' l failed :
  (forall x, In x l -> sim2 (f x) (fun k => f' k x)) -> sim2 (disj_body f l failed) (fun k => disj_body (f' k) l failed).
Proof.
  revert failed. induction l as [|x l IH]; intros failed Hf; cbn [disj_body]; [apply sim2_ret|].
  assert (Hl : forall z, In z l -> sim2 (f z) (fun k => f' k z)) by (intros z Hz; apply Hf; right; exact Hz).
  apply (sim2_bind (f x) (fun k => f' k x) _
           (fun k st => match st with PASS => ret PASS | SKIP => disj_body (f' k) l failed | FAIL => disj_body (f' k) l true end));
    [apply Hf; left; reflexivity|].
  intros st. destruct st; [apply sim2_ret|apply IH; exact Hl|apply IH; exact Hl].
Qed.
Lemma sim2_line_body_in {T} (f : T -> M status) f' line :
  (forall x, In x line -> sim2 (f x) (fun k => f' k x)) -> sim2 (line_body f line) (fun k => line_body (f' k) line).
Proof.
  intros Hf. unfold line_body. destruct line as [|x [|y l]]; try (apply sim2_disj_body_in; exact Hf).
  apply (sim2_node (disj_body f (x :: y :: l) false) (fun k => disj_body (f' k) (x :: y :: l) false)).
  apply sim2_disj_body_in; exact Hf.
Qed.
Lemma sim2_cnf_body_in {T} (f : T -> M status) f' cnf :
  (forall line x, In line cnf -> In x line -> sim2 (f x) (fun k => f' k x)) ->
  sim2 (cnf_body f cnf) (fun k => cnf_body (f' k) cnf).
Proof.
  intros Hf. unfold cnf_body.
  apply (sim2_bind (mapM (line_body f) cnf) (fun k => mapM (line_body (f' k)) cnf) _ (fun k sts => ret (fold_fail_pass_skip sts))).
  - apply (sim2_mapM_in (line_body f) (fun k => line_body (f' k))). intros l Hl. apply sim2_line_body_in. intros x Hx. eapply Hf; eassumption.
  - intros sts. apply sim2_ret.
Qed.

(* ---- the scope stack ---- *)

Lemma valid_push f s : frame_fresh f -> Valid s -> Valid (mkState (f :: frames s) (statuses s)).
Proof.
  intros Hfr (Hwf & Hvf & Hvs). pose proof (wf_shape_nonempty _ Hwf) as Hne. split; [|split].
  - cbn. apply wf_shape_cons. exact Hwf.
  - cbn [frames valid_frames]. split; [apply frame_fresh_valid; exact Hfr|exact Hvf].
  - intros name st Hn. cbn [frames statuses map] in *. rewrite root_shape_cons by exact Hne. apply Hvs. exact Hn.
Qed.

Lemma fault_with_frame {A} f (m : M A) s : fault_of (with_frame f m s) = fault_of (m (mkState (f :: frames s) (statuses s))).
Proof. unfold with_frame. destruct (m _) as [[[a r1] s1]| | | |]; reflexivity. Qed.

Lemma sim2_with_frame {A} f (m : M A) m' :
  frame_fresh f -> sim2 m m' -> sim2 (with_frame f m) (fun k => with_frame f (m' k)).
Proof.
  intros Hfr [Hm Fm]. split; [apply sim_with_frame; assumption|].
  intros s ft Hv E. rewrite fault_with_frame in E.
  pose proof (Fm _ ft (valid_push f s Hfr Hv) E) as F.
  eapply Ev_impl; [|exact F]. intros k Hk. rewrite fault_with_frame.
  unfold erase in Hk. cbn [frames statuses map] in Hk. rewrite (frame_fresh_shape f Hfr) in Hk. exact Hk.
Qed.

Lemma valid_pop f rest st : Valid (mkState (f :: rest) st) -> map fshape rest <> [] -> Valid (mkState rest st).
Proof.
  intros (Hwf & Hvf & Hvs) Hne. cbn [frames map] in Hwf. split; [|split]; cbn [frames statuses].
  - eapply wf_shape_tail; eassumption.
  - exact (proj2 Hvf).
  - intros name st0 Hn. specialize (Hvs name st0 Hn). cbn [frames map] in Hvs. rewrite root_shape_cons in Hvs by exact Hne. exact Hvs.
Qed.

Definition simF_at {A} (s : state) (m : M A) (m' : nat -> M A) : Prop :=
  forall ft, Valid s -> fault_of (m s) = Some ft -> faults m' (erase s) ft.

Lemma with_parent_simF {A} (m : M A) m' s f rest ft :
  simF_at (mkState rest (statuses s)) m m' -> Valid s -> frames s = f :: rest -> map fshape rest <> [] ->
  fault_of (with_parent m s) = Some ft -> faults (fun k => with_parent (m' k)) (erase s) ft.
Proof.
  intros Hm Hv Ef Hne E. unfold with_parent in E. rewrite Ef in E.
  assert (Hv0 : Valid (mkState rest (statuses s))).
  { apply (valid_pop f). destruct s as [fs st]. cbn in Ef. subst fs. exact Hv. exact Hne. }
  assert (E0 : fault_of (m (mkState rest (statuses s))) = Some ft).
  { destruct (m (mkState rest (statuses s))) as [[[a r1] s1]| | | |]; cbn in *; congruence. }
  eapply Ev_impl; [|exact (Hm ft Hv0 E0)]. intros k Hk. unfold with_parent, erase at 1. rewrite Ef. cbn [frames statuses map].
  unfold erase in Hk. cbn [frames statuses] in Hk.
  change (statuses (erase s)) with (@nil (string * status)).
  destruct (m' k (mkState (map fshape rest) [])) as [[[a r1] s1]| | | |]; cbn in *; congruence.
Qed.

Lemma fault_at_root {A} (m : M A) s k0 : List.length (frames s) = S k0 ->
  fault_of (at_root m s) = fault_of (m (mkState (skipn k0 (frames s)) (statuses s))).
Proof. intros E. unfold at_root. rewrite E. destruct (m _) as [[[a r1] s1]| | | |]; reflexivity. Qed.

Lemma sim2_at_root {A} (m : M A) m' :
  (forall s0, List.length (frames s0) = 1 -> forall a recs s', Valid s0 -> m s0 = Done (a, recs, s') ->
     Valid s' /\ erase s' = erase s0 /\ computes m' (erase s0) a) ->
  (forall s0, List.length (frames s0) = 1 -> forall ft, Valid s0 -> fault_of (m s0) = Some ft -> faults m' (erase s0) ft) ->
  sim2 (at_root m) (fun k => at_root (m' k)).
Proof.
  intros Hd Hf. split; [apply sim_at_root; exact Hd|].
  intros s ft (Hwf & Hvf & Hvs) E.
  destruct Hwf as (u & r0 & l0 & Esh).
  assert (Hlen : List.length (frames s) = S (List.length u)).
  { rewrite <- (map_length fshape), Esh, app_length. cbn. lia. }
  rewrite (fault_at_root m s _ Hlen) in E.
  assert (Esk : map fshape (skipn (List.length u) (frames s)) = [FRoot r0 l0 []]).
  { rewrite <- skipn_map, Esh. pose proof (skipn_last u (FRoot r0 l0 [])) as K.
    rewrite app_length in K. cbn in K. replace (List.length u + 1 - 1) with (List.length u) in K by lia. exact K. }
  assert (Erootshape : root_shape (map fshape (frames s)) = mkState [FRoot r0 l0 []] []).
  { unfold root_shape. rewrite Esh. rewrite skipn_last. reflexivity. }
  set (sr := mkState (skipn (List.length u) (frames s)) (statuses s)) in *.
  assert (Hv0 : Valid sr).
  { split; [|split]; unfold sr; cbn [frames statuses].
    - rewrite Esk. exists [], r0, l0. reflexivity.
    - apply valid_frames_skipn. exact Hvf.
    - intros name st Hn. cbn [frames statuses] in *. rewrite Esk. unfold root_shape. cbn. specialize (Hvs name st Hn). rewrite Erootshape in Hvs. exact Hvs. }
  assert (Hlen1 : List.length (frames sr) = 1).
  { unfold sr. cbn [frames]. rewrite <- (map_length fshape), Esk. reflexivity. }
  eapply Ev_impl; [|exact (Hf sr Hlen1 ft Hv0 E)]. intros k Hk.
  assert (Hle : List.length (frames (erase s)) = S (List.length u)) by (unfold erase; cbn [frames]; rewrite map_length; exact Hlen).
  rewrite (fault_at_root (m' k) (erase s) _ Hle).
  assert (Esr : mkState (skipn (List.length u) (frames (erase s))) (statuses (erase s)) = erase sr).
  { unfold erase, sr. cbn [frames statuses]. rewrite skipn_map. reflexivity. }
  rewrite Esr. exact Hk.
Qed.

Lemma sim2_ctx_root : sim2 ctx_root (fun _ => ctx_root).
Proof.
  split; [apply sim_ctx_root|]. intros s ft Hv E. exists 0. intros k _. unfold ctx_root in *. unfold erase. cbn [frames].
  assert (K : forall fs, root_of (map fshape fs) = root_of fs).
  { induction fs as [|f fs IH]; [reflexivity|]. destruct f; cbn; try reflexivity. exact IH. }
  rewrite K. destruct (root_of (frames s)); [discriminate|exact E].
Qed.

End SimF.
