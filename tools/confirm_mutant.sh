#!/bin/bash
# usage: confirm_mutant.sh <worktree> <dir with patch.diff demo.sh>  — confirms a seeded change in a scratch worktree at /repo's HEAD:
# demo passes on the clean tree, fails with the patch, and the pinned suite still passes exactly the baseline's tests.
WT=$1; OUT=$2
cd "$WT" || exit 2
export CARGO_NET_OFFLINE=true
git checkout -q -- . 2>/dev/null
git checkout -q --detach "$(git -C /repo rev-parse HEAD)" || exit 2
if ! git apply --check "$OUT/patch.diff" 2>/dev/null; then
  git apply -3 "$OUT/patch.diff" >/dev/null 2>&1 || { echo "PATCH DOES NOT APPLY"; git checkout -q -- .; exit 1; }
  git diff HEAD > "$OUT/patch.diff"; git reset -q --hard
  echo "(patch rebased onto current HEAD)"
fi
cargo build --offline -j5 -p cfn-guard --bin cfn-guard >/dev/null 2>&1 || { echo "CLEAN BUILD FAILED"; exit 1; }
bash "$OUT/demo.sh" "$WT/target/debug/cfn-guard" >/dev/null 2>&1; A=$?
git apply "$OUT/patch.diff"
cargo build --offline -j5 -p cfn-guard --bin cfn-guard >/dev/null 2>&1 || { echo "PATCHED BUILD FAILED"; git checkout -q -- .; exit 1; }
bash "$OUT/demo.sh" "$WT/target/debug/cfn-guard" >/dev/null 2>&1; B=$?
T=$(/verif/tools/baseline.sh "$WT" 2>&1 | tail -3 | tr '\n' ' ')
git checkout -q -- .
echo "demo clean=$A patched=$B tests: $T"
if [ "$A" = "0" ] && [ "$B" != "0" ] && echo "$T" | grep -q "stable tests not passing: 0"; then echo CONFIRMED; else echo NOT-CONFIRMED; fi
