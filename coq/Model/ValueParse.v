(* ValueParse.v — the value-literal grammar of rules/parser.rs (parse_value, lines 163-430): null, strings in both
   quote styles, integers, booleans, regular expressions, ranges, lists and maps, with the layout (blanks and comments)
   the combinators absorb, and nom's distinction between a recoverable Error (the next alternative is tried, a list
   ends) and a Failure (cut: the whole parse stops).  Strings are byte strings (UTF-8 as written).
   Outside the model (answer PUnk, never a value): floating-point spellings (digits followed by `.digit` or
   `e±digit`: nom's `double`), a non-ASCII character where the code decides by `char` (range bounds, bare map keys).
   The validity of a regular expression (Regex::try_from) is an oracle, as in SEval.  No proofs here. *)
From GV.Model Require Export Lex.
Local Open Scope string_scope.

Inductive lit : Type :=
| VNull
| VStr (s : string)
| VRegex (s : string)
| VBool (b : bool)
| VInt (z : Z)
| VChar (a : ascii)
| VList (l : list lit)
| VMap (kvs : list (string * lit))          (* IndexMap: insertion order, a repeated key overwrites in place *)
| VRangeInt (lo hi : Z) (incl : N)
| VRangeChar (lo hi : ascii) (incl : N).

Inductive pres (A : Type) : Type :=
| POk (a : A) (rest : string)
| PErr            (* nom::Err::Error *)
| PFail           (* nom::Err::Failure *)
| PUnk            (* outside the modelled fragment *)
| POof.           (* fuel exhausted; excluded by the fuel theorems *)
Arguments POk {A} a rest.
Arguments PErr {A}.
Arguments PFail {A}.
Arguments PUnk {A}.
Arguments POof {A}.

(* alt((p1, p2)): the second alternative is tried on a recoverable error only *)
Definition palt {A} (x : pres A) (y : pres A) : pres A :=
  match x with PErr => y | _ => x end.

Definition pmap {A B} (f : A -> B) (x : pres A) : pres B :=
  match x with POk a r => POk (f a) r | PErr => PErr | PFail => PFail | PUnk => PUnk | POof => POof end.

(* ---------------------------------------------------------------- characters *)
Definition is_digit (a : ascii) : bool := let n := N_of_ascii a in N.leb 48 n && N.leb n 57.
Definition is_alpha (a : ascii) : bool :=
  let n := N_of_ascii a in (N.leb 65 n && N.leb n 90) || (N.leb 97 n && N.leb n 122).
Definition is_ascii (a : ascii) : bool := N.ltb (N_of_ascii a) 128.
Definition is_blank (a : ascii) : bool := let n := N_of_ascii a in N.eqb n 32 || N.eqb n 9.   (* space0 *)
Definition key_char (a : ascii) : bool := is_digit a || is_alpha a || Ascii.eqb a "-" || Ascii.eqb a "_".

(* take_while(p) *)
Fixpoint span_while (p : ascii -> bool) (s : string) : string * string :=
  match s with
  | EmptyString => (EmptyString, EmptyString)
  | String c r => if p c then let '(a, b) := span_while p r in (String c a, b) else (EmptyString, s)
  end.

Definition expect (c : ascii) (s : string) : option string :=
  match s with String a r => if Ascii.eqb a c then Some r else None | EmptyString => None end.

(* white_space(ch): zero_or_more_ws_or_comment then the character *)
Definition ws_char (c : ascii) (s : string) : option string := expect c (skip_ws_comments s).

(* ---------------------------------------------------------------- integers *)
Definition digit_val (a : ascii) : Z := Z.of_N (N_of_ascii a) - 48.
Fixpoint digits_val_acc (s : string) (acc : Z) : Z :=
  match s with EmptyString => acc | String c r => digits_val_acc r (10 * acc + digit_val c) end.
Definition digits_val (s : string) : Z := digits_val_acc s 0.
Definition i64_max : Z := 9223372036854775807.

(* parse_int_value: digit1 parsed as i64, or '-' digit1 parsed as i64 and negated (so i64::MIN is not accepted) *)
Definition parse_int (s : string) : pres lit :=
  let '(d, r) := span_while is_digit s in
  match d with
  | String _ _ => if Z.leb (digits_val d) i64_max then POk (VInt (digits_val d)) r else PErr
  | EmptyString =>
      match expect "-" s with
      | Some s1 =>
          let '(d1, r1) := span_while is_digit s1 in
          match d1 with
          | String _ _ => if Z.leb (digits_val d1) i64_max then POk (VInt (- digits_val d1)) r1 else PErr
          | EmptyString => PErr
          end
      | None => PErr
      end
  end.

(* parse_float decides on: digit1, then `.` digit1, then [eE][+-]digit1; with a fraction or an exponent the text is
   handed to nom's `double` (not modelled) *)
Definition float_like (s : string) : bool :=
  let '(d, r) := span_while is_digit s in
  match d with
  | EmptyString => false
  | _ =>
      let '(frac, r1) :=
        match r with
        | String "." r' => match span_while is_digit r' with (String _ _, r'') => (true, r'') | _ => (false, r) end
        | _ => (false, r)
        end in
      let expo :=
        match r1 with
        | String e (String sg r2) =>
            (Ascii.eqb e "e" || Ascii.eqb e "E") && (Ascii.eqb sg "+" || Ascii.eqb sg "-") &&
            match span_while is_digit r2 with (String _ _, _) => true | _ => false end
        | _ => false
        end in
      frac || expo
  end.
Definition parse_float (s : string) : pres lit := if float_like s then PUnk else PErr.

(* ---------------------------------------------------------------- strings *)
(* parse_string_inner(q), after the opening quote *)
Fixpoint read_quoted_r (q : ascii) (s : string) (prev_backslash : bool) (acc : string) : pres string :=
  match s with
  | EmptyString => if prev_backslash then PErr else PFail     (* "Could not parse string" / cut(char(q)) *)
  | String c r =>
      if Ascii.eqb c q then
        if prev_backslash then read_quoted_r q r false (acc +++ String q EmptyString)
        else POk acc r
      else
        let acc' := if prev_backslash then acc +++ "\" else acc in
        if Ascii.eqb c "\" then read_quoted_r q r true acc'
        else read_quoted_r q r false (acc' +++ String c EmptyString)
  end.
Definition parse_quoted_r (q : ascii) (s : string) : pres string :=
  match expect q s with Some r => read_quoted_r q r false EmptyString | None => PErr end.
Definition parse_string_r (s : string) : pres string := palt (parse_quoted_r "'" s) (parse_quoted_r """" s).

(* ---------------------------------------------------------------- regular expressions *)
Fixpoint last_is_backslash (s : string) : bool :=
  match s with
  | EmptyString => false
  | String c EmptyString => Ascii.eqb c "\"
  | String _ r => last_is_backslash r
  end.
Fixpoint drop_last (s : string) : string :=
  match s with
  | EmptyString => EmptyString
  | String _ EmptyString => EmptyString
  | String c r => String c (drop_last r)
  end.

(* parse_regex_inner: fragments up to the next '/', a fragment ending in a backslash continues after that '/';
   every fragment is non-empty (is_not) *)
Fixpoint read_regex (s : string) (acc seg : string) : pres string :=
  match s with
  | EmptyString => PErr
  | String c r =>
      if Ascii.eqb c "/" then
        match seg with
        | EmptyString => PErr
        | _ => if last_is_backslash seg then read_regex r (acc +++ drop_last seg +++ "/") EmptyString
               else POk (acc +++ seg) s        (* the closing '/' is left to `delimited` *)
        end
      else read_regex r acc (seg +++ String c EmptyString)
  end.

Section WithRegex.
Variable regex_valid : string -> bool.     (* Regex::try_from(..).is_ok() *)

Definition parse_regex (s : string) : pres lit :=
  match expect "/" s with
  | None => PErr
  | Some s1 =>
      match read_regex s1 EmptyString EmptyString with
      | POk re r =>
          if regex_valid re then match expect "/" r with Some r' => POk (VRegex re) r' | None => PErr end
          else PErr
      | other => pmap VRegex other
      end
  end.

(* ---------------------------------------------------------------- scalars *)
Definition parse_null (s : string) : pres lit :=
  match alt_tags kw_parse_null s with Some r => POk VNull r | None => PErr end.
Definition parse_bool (s : string) : pres lit :=
  match alt_tags kw_bool_true s with
  | Some r => POk (VBool true) r
  | None => match alt_tags kw_bool_false s with Some r => POk (VBool false) r | None => PErr end
  end.

(* order matters: string, float, int, bool, regex *)
Definition parse_scalar (s : string) : pres lit :=
  palt (pmap VStr (parse_string_r s))
    (palt (parse_float s) (palt (parse_int s) (palt (parse_bool s) (parse_regex s)))).

(* ---------------------------------------------------------------- ranges *)
Definition parse_char (s : string) : pres lit :=
  match s with
  | EmptyString => PErr
  | String c r => if is_ascii c then POk (VChar c) r else PUnk
  end.
Definition range_value (s : string) : pres lit :=
  let s1 := snd (span_while is_blank s) in
  match palt (parse_float s1) (palt (parse_int s1) (parse_char s1)) with
  | POk v r => POk v (snd (span_while is_blank r))
  | other => other
  end.

Definition parse_range (s : string) : pres lit :=
  match s with
  | String "r" (String o s1) =>
      if Ascii.eqb o "(" || Ascii.eqb o "[" then
        match range_value s1 with
        | POk a s2 =>
            match expect "," s2 with
            | Some s3 =>
                match range_value s3 with
                | POk b s4 =>
                    match s4 with
                    | String cl s5 =>
                        if Ascii.eqb cl ")" || Ascii.eqb cl "]" then
                          let incl := ((if Ascii.eqb o "[" then 1 else 0) + (if Ascii.eqb cl "]" then 2 else 0))%N in
                          match a, b with
                          | VInt x, VInt y => POk (VRangeInt x y incl) s5
                          | VChar x, VChar y => POk (VRangeChar x y incl) s5
                          | _, _ => PFail      (* "Could not parse range" *)
                          end
                        else PErr
                    | EmptyString => PErr
                    end
                | other => other
                end
            | None => PErr
            end
        | other => other
        end
      else PErr
  | _ => PErr
  end.

(* ---------------------------------------------------------------- composite values *)
(* key_part: a run of alphanumerics, '-' and '_' (char::is_alphanumeric: decided for ASCII only), or a quoted string *)
Definition key_part (s : string) : pres string :=
  match s with
  | String c _ =>
      if negb (is_ascii c) then PUnk
      else
        let '(k, r) := span_while key_char s in
        match k with
        | String _ _ =>
            match r with
            | String c' _ => if negb (is_ascii c') then PUnk else POk k r
            | EmptyString => POk k r
            end
        | EmptyString => parse_string_r s
        end
  | EmptyString => PErr
  end.

(* separated_list0(sep, elem): nom 7 - the first element may be missing; after that a separator followed by an element;
   a recoverable error of either ends the list BEFORE the separator; anything else is passed on *)
Section SepList.
Context {A : Type}.
Variable sep : string -> option string.
Variable elem : string -> pres A.
Fixpoint sep_loop (fuel : nat) (acc : list A) (s : string) : pres (list A) :=
  match fuel with
  | O => POof
  | S n =>
      match sep s with
      | None => POk acc s
      | Some s1 =>
          match elem s1 with
          | POk v s2 => sep_loop n (acc ++ [v]) s2
          | PErr => POk acc s
          | PFail => PFail
          | PUnk => PUnk
          | POof => POof
          end
      end
  end.
Definition sep_list0 (fuel : nat) (s : string) : pres (list A) :=
  match elem s with
  | POk v s1 => sep_loop fuel [v] s1
  | PErr => POk [] s
  | PFail => PFail
  | PUnk => PUnk
  | POof => POof
  end.
End SepList.

Fixpoint parse_value (fuel : nat) (s : string) : pres lit :=
  match fuel with
  | O => POof
  | S n =>
      let s0 := skip_ws_comments s in
      let parse_list : pres lit :=
        match ws_char "[" s0 with
        | None => PErr
        | Some s1 =>
            match sep_list0 (ws_char ",") (parse_value n) n s1 with
            | POk l s2 => match ws_char "]" s2 with Some s3 => POk (VList l) s3 | None => PErr end
            | other => pmap VList other
            end
        end in
      let key_value (t : string) : pres (string * lit) :=
        match key_part (skip_ws_comments t) with
        | POk k t1 =>
            match ws_char ":" t1 with
            | Some t2 => pmap (fun v => (k, v)) (parse_value n t2)
            | None => PErr
            end
        | other => pmap (fun k => (k, VNull)) other
        end in
      let parse_map : pres lit :=
        match expect "{" s0 with
        | None => PErr
        | Some s1 =>
            match sep_list0 (ws_char ",") key_value n s1 with
            | POk l s2 =>
                match ws_char "}" s2 with
                | Some s3 => POk (VMap (fold_left (fun m kv => imap_insert (fst kv) (snd kv) m) l [])) s3
                | None => PErr
                end
            | other => pmap (fun _ => VNull) other
            end
        end in
      palt (parse_null s0) (palt (parse_scalar s0) (palt (parse_range s0) (palt parse_list parse_map)))
  end.

End WithRegex.

(* the fuel that always suffices (ValueParseProps.parse_value_fuel) *)
Definition value_fuel (s : string) : nat := S (String.length s).
Definition parse_value_top (regex_valid : string -> bool) (s : string) : pres lit := parse_value regex_valid (value_fuel s) s.

(* ---------------------------------------------------------------- the tie: what the hook reports *)
Inductive impl_pres :=
| IOk (v : lit) (offset : N)
| IError | IFailure | IOther.

Fixpoint lit_eqb (a b : lit) {struct a} : bool :=
  match a, b with
  | VNull, VNull => true
  | VStr x, VStr y | VRegex x, VRegex y => String.eqb x y
  | VBool x, VBool y => Bool.eqb x y
  | VInt x, VInt y => Z.eqb x y
  | VChar x, VChar y => Ascii.eqb x y
  | VList l, VList m =>
      (fix go (l m : list lit) : bool :=
         match l, m with
         | [], [] => true
         | x :: l', y :: m' => lit_eqb x y && go l' m'
         | _, _ => false
         end) l m
  | VMap l, VMap m =>
      (fix go (l m : list (string * lit)) : bool :=
         match l, m with
         | [], [] => true
         | (k, x) :: l', (k', y) :: m' => String.eqb k k' && lit_eqb x y && go l' m'
         | _, _ => false
         end) l m
  | VRangeInt a1 b1 i1, VRangeInt a2 b2 i2 => Z.eqb a1 a2 && Z.eqb b1 b2 && N.eqb i1 i2
  | VRangeChar a1 b1 i1, VRangeChar a2 b2 i2 => Ascii.eqb a1 a2 && Ascii.eqb b1 b2 && N.eqb i1 i2
  | _, _ => false
  end.

Inductive pv_verdict := PVAgree | PVAgreeReject | PVNotModelled | PVDisagree.

Definition parse_value_obs (regex_valid : string -> bool) (text : string) (i : impl_pres) : pv_verdict :=
  match parse_value_top regex_valid text, i with
  | PUnk, _ => PVNotModelled
  | POk v rest, IOk w off =>
      if lit_eqb v w && N.eqb (N.of_nat (String.length text - String.length rest)%nat) off then PVAgree else PVDisagree
  | PErr, IError => PVAgreeReject
  | PFail, IFailure => PVAgreeReject
  | _, _ => PVDisagree
  end.
