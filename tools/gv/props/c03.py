"""C03 — prefix negation is honoured: never ignored, equals the operator-level negation.

proof   : Props/C03.v over SEval (unary: same status/state; binary: identical computation;
          single comparable value flips; NotComparable stays FAIL; `not R`)
tie     : SEval vs implementation (status, error kind, record tree) on every clause variant
monitor : for each clause c the statuses of c, `not c`, flip(c), `not flip(c)` computed by the
          implementation must satisfy  not c == flip(c),  not flip(c) == c,  single comparable
          value => `not c` is the inversion of c,  SKIP stays SKIP,  `not R` PASS iff R not PASS
"""
import json, random, itertools, re
from .. import coqterm as ct
from .. import impl, model, corr, gen
from ..common import *

DOCS = [
    {"s": 5, "t": "ab", "f": 1.5, "b": True, "n": None, "l": [1, 5, 9], "ls": ["a", "ab"], "e": [],
     "m": {"k": 5, "j": "x"}, "em": {}, "lm": [{"k": 1}, {"k": 5}, {"j": 2}], "s2": 5, "t2": "b"},
    {"s": 0, "t": "", "f": 0.0, "b": False, "n": None, "l": [5], "ls": [], "e": [],
     "m": {"k": "5"}, "em": {}, "lm": [{"k": 5}], "s2": 1, "t2": "ab"},
]
QUERIES = ['s', 't', 'f', 'b', 'n', 'l', 'l[*]', 'ls[*]', 'e', 'e[*]', 'm', 'm.k', 'm.*', 'em', 'missing',
           'm.missing', 'lm[*].k', 'lm[ k == 5 ].k', 'lm[ k == 77 ].k', 'l[0]', 'l[7]',
           'lm[ k == 5 ]', 'lm[ k == 77 ]', 'missing[ k == 1 ]', 'm.missing[ k == 1 ]', 'lm[ j exists ]',
           '%qv', '%mv', '%lv', '%lit', '%ev', 'm[ keys == "k" ]', 'm[ keys == "zz" ]', 'n[ k == 1 ]']
RHS = ['5', '1', '"ab"', '"zz"', '1.5', 'true', 'null', '[1, 5]', '["ab", "c"]', '[]', 'r[1,5]', '/^a/',
       's2', 't2', 'l', 'l[*]', 'missing', '%lit', '%qv', '{k: 5, j: "x"}', 's', 'lm[*].k',
       # lists of lists: a list on the left is one member, or not a member (the negation of `in` over a whole list)
       '[[1, 5, 9], [2]]', '[[7], [8, 9]]', '[["a", "ab"], []]',
       # right-hand sides that select NOTHING (a comparison against them is skipped, negated or not)
       'lm[ k == 77 ].k', '%ev', 'lm[ k == 77 ]']
BINARY = ['==', 'in', '>', '>=', '<', '<=']
UNARY = ['exists', 'empty', 'is_string', 'is_list', 'is_struct', 'is_bool', 'is_int', 'is_float', 'is_null']
HEADER = 'let lit = 5\nlet qv = s2\nlet mv = missing.x\nlet lv = l[*]\nlet ev = lm[ k == 77 ]\n'


def variants(q, some, op, rhs):
    qt = ('some ' if some else '') + q
    if op in UNARY:
        A = '%s %s' % (qt, op)
        C = '%s !%s' % (qt, op)
    elif op == '==':
        A = '%s == %s' % (qt, rhs)
        C = '%s != %s' % (qt, rhs)
    elif op == 'in':
        A = '%s in %s' % (qt, rhs)
        C = '%s not in %s' % (qt, rhs)
    else:
        A = '%s %s %s' % (qt, op, rhs)
        C = None
    return A, C


def group_file(A, C):
    rules = ['rule a { %s }' % A, 'rule na { not %s }' % A]
    if C is not None:
        rules += ['rule c { %s }' % C, 'rule nc { not %s }' % C]
    return HEADER + '\n'.join(rules) + '\n'


def statuses(result):
    if result[0] != 'Ok':
        return None
    out = {}
    for child in ct.L(result[2][3]):
        c = child[2]['O']
        if c[0] == 'RuleCheck':
            out[ct.S(c[1])] = c[2]
    return out


def single_comparable(doc, q, rhs):
    """the query is a plain key and selects one scalar of the literal's ordered type"""
    if not re.fullmatch(r'[a-z0-9]+', q) or q not in doc:
        return False
    v = doc[q]
    if isinstance(v, bool) or v is None or isinstance(v, (list, dict)):
        return False
    if re.fullmatch(r'-?\d+', rhs):
        return isinstance(v, int)
    if re.fullmatch(r'\d+\.\d+', rhs):
        return isinstance(v, float)
    if re.fullmatch(r'"[^"]*"', rhs):
        return isinstance(v, str)
    return False


INV = {'PASS': 'FAIL', 'FAIL': 'PASS', 'SKIP': 'SKIP'}


def run_groups(ctx, groups, tag):
    pairs = [{'rules': group_file(A, C), 'data': json.dumps(doc)} for (doc, q, some, op, rhs, A, C) in groups]
    out, errs = corr.run(pairs, ctx.wd, tag, loader='json', public=True)
    if errs:
        raise ToolingError('model evaluation failed: %r' % (errs[:1],))
    # groups whose file raised an error: evaluate the variants one by one
    redo, redo_idx = [], []
    for gi, (g, o) in enumerate(zip(groups, out)):
        if o['kind'] == 'compared' and o['result'] and not isinstance(o['result'], dict) and o['result'][0] == 'Err':
            doc, q, some, op, rhs, A, C = g
            for name, text in (('a', A), ('na', 'not ' + A), ('c', C), ('nc', ('not ' + C) if C else None)):
                if text is None:
                    continue
                redo.append({'rules': HEADER + 'rule %s { %s }\n' % (name, text), 'data': json.dumps(doc)})
                redo_idx.append((gi, name))
    rout = []
    if redo:
        rout, errs2 = corr.run(redo, ctx.wd, tag + 'redo', loader='json')
        if errs2:
            raise ToolingError('model evaluation failed: %r' % (errs2[:1],))
    single = {}
    for (gi, name), o, p in zip(redo_idx, rout, redo):
        if o['kind'] != 'compared':
            continue
        if re.search(r'VDis|VModelOOF|NoModelOutput', o['verdict']):
            ctx.failing('clause variant: model and implementation disagree (%s)' % o['verdict'],
                        {'class': 'eval-correspondence', 'rules': p['rules'], 'data': p['data'], 'verdict': o['verdict']}, found=False)
        r = o['result']
        if isinstance(r, dict):
            st = 'PANIC' if 'panic' in r else 'ABORT'
        elif r[0] == 'Ok':
            st = (statuses(r) or {}).get(name)
        else:
            st = 'ERR:' + r[1]
        single.setdefault(gi, {})[name] = st
    n = 0
    dist = {}
    for gi, (g, o, p) in enumerate(zip(groups, out, pairs)):
        doc, q, some, op, rhs, A, C = g
        if o['kind'] != 'compared':
            ctx.failing('clause group not accepted by the parser/loader: %s' % o['kind'],
                        {'class': 'generator', 'rules': p['rules'], 'data': p['data'], 'raw': str(o.get('raw'))[:300]}, found=False)
            continue
        if re.search(r'VDis|VModelOOF|NoModelOutput', o['verdict']):
            ctx.failing('clause group: model and implementation disagree (%s)' % o['verdict'],
                        {'class': 'eval-correspondence', 'rules': p['rules'], 'data': p['data'], 'verdict': o['verdict']}, found=False)
        r = o['result']
        if isinstance(r, dict):
            continue   # panic/abort of the whole file: C08's subject
        st = statuses(r) if r[0] == 'Ok' else single.get(gi)
        if st is None:
            continue
        pub = (o.get('public') or {}).get('rc_verbose')
        if r[0] == 'Ok' and pub and 'ok' in pub:
            psts = {c['container']['RuleCheck']['name']: c['container']['RuleCheck']['status'] for c in pub['ok']['children']
                    if 'RuleCheck' in (c.get('container') or {})}
            if psts != st:
                ctx.failing('run_checks statuses differ from eval_rules_file statuses',
                            {'class': 'public-api', 'rules': p['rules'], 'data': p['data']}, found=True)
        n += 1
        info = {'rules': p['rules'], 'data': p['data'], 'clause': A, 'statuses': st, 'op': op}
        a, na, c, nc = st.get('a'), st.get('na'), st.get('c'), st.get('nc')
        dist[(a, na)] = dist.get((a, na), 0) + 1
        if C is not None:
            if na != c:
                ctx.failing('`not %s` is %s but `%s` is %s' % (A, na, C, c), dict(info, cls='not-vs-operator-not'), found=True)
            if nc != a:
                ctx.failing('`not %s` is %s but `%s` is %s (double negation)' % (C, nc, A, a), dict(info, cls='double-negation'), found=True)
        if a == 'SKIP' and na != 'SKIP':
            ctx.failing('`%s` is SKIP but its negation is %s' % (A, na), dict(info, cls='skip-not-preserved'), found=True)
        if op in ('>', '>=', '<', '<=', '==') and not some and single_comparable(doc, q, rhs):
            if a in INV and na != INV[a]:
                ctx.failing('single comparable value: `%s` is %s but `not %s` is %s' % (A, a, A, na), dict(info, cls='single-value-flip'), found=True)
        if op == 'in' and not some and rhs and rhs.startswith('[') and q in doc and a in INV and na != INV[a] \
           and (not isinstance(doc[q], list) or rhs.startswith('[[')):
            # (a list on the left against a FLAT list is compared element by element, and so is its negation: no flip there)
            # one value on the left (a scalar, or a whole list as ONE candidate member) against a literal list: membership is decided, its negation is the opposite
            ctx.failing('membership of one value in a literal list: `%s` is %s but `not %s` is %s' % (A, a, A, na), dict(info, cls='membership-flip'), found=True)
        if a in ('PASS', 'FAIL') and na == a and op in UNARY and q in doc and not isinstance(doc[q], list) and op != 'empty':
            ctx.failing('prefix negation ignored: `%s` and its negation are both %s' % (A, a), dict(info, cls='negation-ignored'), found=True)
    return n, dist


def random_groups(ctx, n):
    """clauses from the program generator on generated documents, with their negation variants"""
    rng = random.Random(ctx.seed * 31 + 5)
    groups = []
    style = dict(gen.DEFAULT_STYLE)
    while len(groups) < n:
        doc = gen.gen_doc(rng)
        if not isinstance(doc, dict):
            continue
        pg = gen.ProgGen(rng, doc, dict(functions=False, prefix_not=False, keys=True))
        for _ in range(4):
            p, v = pg.pick_path()
            q, reached = pg.query_for_path(p)
            c = pg.clause_on(q, reached)
            _, neg, q, op, opnot, rhs, msg = c
            A = gen.render_clause(('cmp', False, q, op, False, rhs, None), style)
            C = gen.render_clause(('cmp', False, q, op, True, rhs, None), style) if (op in ('==', 'in') or op in UNARY) else None
            groups.append((doc, gen.render_query(dict(q, some=False), style), q.get('some', False), op,
                           gen.render_rhs(rhs, style) if rhs else None, A, C))
    return groups[:n]


def named_rule_groups(ctx):
    """`not R` is PASS exactly when R is not PASS; R referenced before and after its definition"""
    doc = DOCS[0]
    bodies = {'PASS': 's == 5', 'FAIL': 's == 6', 'SKIP': 'lm[ k == 77 ].k == 1'}
    pairs, exp = [], []
    for st, body in bodies.items():
        for order in (0, 1):
            rdef = 'rule R { %s }' % body
            users = 'rule t1 {\n  R\n}\nrule t2 {\n  not R\n}\nrule t3 when not R {\n  s == 5\n}\nrule t4 when R {\n  s == 5\n}'
            text = (rdef + '\n' + users) if order == 0 else (users + '\n' + rdef)
            pairs.append({'rules': text + '\n', 'data': json.dumps(doc)})
            exp.append(st)
    out, errs = corr.run(pairs, ctx.wd, 'c03named', loader='json')
    if errs:
        raise ToolingError('model evaluation failed: %r' % (errs[:1],))
    for o, p, st in zip(out, pairs, exp):
        if o['kind'] != 'compared' or 'VAgree' not in o['verdict']:
            ctx.failing('named-rule negation: model and implementation disagree (%s)' % o.get('verdict'),
                        {'class': 'eval-correspondence', 'rules': p['rules'], 'data': p['data']}, found=False)
            continue
        got = statuses(o['result'])
        want = {'R': st, 't1': 'PASS' if st == 'PASS' else 'FAIL', 't2': 'FAIL' if st == 'PASS' else 'PASS',
                't3': 'SKIP' if st == 'PASS' else 'PASS', 't4': 'PASS' if st == 'PASS' else 'SKIP'}
        if got != want:
            ctx.failing('`not R`: statuses %r, the statement requires %r' % (got, want),
                        {'class': 'not-rule', 'rules': p['rules'], 'data': p['data']}, found=True)
    return len(pairs)


def run(ctx):
    ctx.build()
    pr = ctx.proofs('C03')
    rng = random.Random(ctx.seed)
    groups = []
    for doc in DOCS:
        for q in QUERIES:
            for some in (False, True):
                for op in UNARY:
                    A, C = variants(q, some, op, None)
                    groups.append((doc, q, some, op, None, A, C))
                for op in BINARY:
                    for rhs in RHS:
                        A, C = variants(q, some, op, rhs)
                        groups.append((doc, q, some, op, rhs, A, C))
    total = len(groups)
    groups_all = groups
    if ctx.tier == 'quick':
        # stratified: every (operator, right-hand side) cell gets the same number of (document, query, all/some) draws
        cells = {}
        for g in groups:
            cells.setdefault((g[3], g[4]), []).append(g)
        per = max(1, 1000 // len(cells))
        groups = [g for key in sorted(cells, key=str) for g in rng.sample(cells[key], min(per, len(cells[key])))]
        # always: a literal-valued variable on the LEFT of `==` / `in` against a query on the right (the literal-vs-query arm of the operators)
        core = [g for g in groups_all if g[1] in ('%lit',) and g[3] in ('==', 'in') and g[4] in ('s2', 't2', 'l', 'l[*]', 'missing', 's', 'lm[*].k')]
        groups += [g for g in core if g not in groups]
        core2 = [g for g in groups_all if g[1] in ('l', 'ls', 'e', 'l[*]', 's') and g[3] == 'in' and g[4] in ('[[1, 5, 9], [2]]', '[[7], [8, 9]]', '[["a", "ab"], []]')]
        groups += [g for g in core2 if g not in groups]
        # always: `in` against a QUERY on the right that selects a list from the document (or its members), for left-hand sides that are
        # members, non-members, a list of members, a whole list
        core3 = [g for g in groups_all if g[3] == 'in' and g[4] in ('l', 'l[*]', 'lm[*].k', '%qv', 's')
                 and g[1] in ('s', 't', 'f', 'l[0]', 'm.k', 'lm[*].k', 'l[*]', 'l', '%qv', '%lit', '%lv')]
        groups += [g for g in core3 if g not in groups]
    n, dist = run_groups(ctx, groups, 'c03')
    n3, dist3 = run_groups(ctx, random_groups(ctx, 400 if ctx.tier == 'quick' else 3000), 'c03rnd')
    ctx.coverage['random_clause_groups'] = n3
    n += n3
    n2 = named_rule_groups(ctx)
    ctx.coverage['clause_groups_total'] = total
    ctx.coverage['clause_groups_run'] = len(groups)
    ctx.coverage['status_pairs_(clause,negated)'] = {'%s/%s' % k: v for k, v in sorted(dist.items(), key=lambda x: -x[1])}
    ctx.coverage['evaluations'] += n * 4 + n2 * 5
    from .. import qparse as _qp
    n4 = _qp.check_operators(ctx, 'c03op')      # the operator grammar: how a negation is READ (Model/OpParse.v against value_cmp)
    n4 += _qp.check_clauses(ctx, 'c03cl', 4000 if ctx.tier == 'thorough' else 1500)      # how the negation in front of a clause is READ (Model/ClauseParse.v against single_clause)
    ctx.coverage['distinct_nontrivial'] = n + n2 + n4
    ctx.coverage['exhaustive'] = ctx.tier == 'thorough'
    ctx.coverage['rule'] = ('groups = document x query shape (scalar, list, list elements, empty list, map, missing, filtered, '
                            'indexed) x all/some x every unary and binary operator x right-hand side form (literals of every type, '
                            'queries, literal and query variables); each group is evaluated as c, not c, flip(c), not flip(c); '
                            'distinct by construction; quick draws the same number of groups from every (operator, right-hand side) cell with VERIF_SEED')
    ctx.sample({'rules': group_file(*variants('s', False, '==', '5')), 'data': json.dumps(DOCS[0])})
    ctx.sample({'rules': group_file(*variants('lm[*].k', True, '>', '1')), 'data': json.dumps(DOCS[0])})
    ctx.coverage['trusted_base'] = [
        'Coq 8.16.1 kernel (coqc), vm_compute for case evaluation; no axioms',
        'hand-written model SEval.v/Operators.v/OpParse.v/ClauseParse.v (modelled, not verified); correspondence hooks eval_dump, parse_cmp_dump, parse_clause_dump + tools/gv glue',
        'fancy_regex oracle table per run',
    ]
    ctx.assumptions = ['ordering operators have no operator-level negated spelling; for them only the single-comparable-value inversion and SKIP preservation are monitored']
    if not pr['ok']:
        ctx.failing('proof obligations of Props/C03.v no longer check: %s' % (pr.get('problems') or pr.get('log', '')[-500:]),
                    {'class': 'proof', 'theorems': pr['theorems']}, found=False)


def replay(ctx, path):
    j = json.load(open(path))
    for v in j.get('violations', []):
        print(json.dumps(v, indent=1)[:3000])
    return 0
