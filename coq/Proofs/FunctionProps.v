(* FunctionProps.v — built-in functions compute what the documentation says (C18), over Model/Functions.v. *)
From Coq Require Import Lia.
From GV.Model Require Import Functions.
From GV.Proofs Require Import DecimalProps.
Open Scope Z_scope.

(* count(q) is the number of resolved values of q *)
Theorem count_is_resolved_count : forall args,
  exists p, fn_count args = PInt p (Z.of_nat (List.length (filter is_resolved_or_literal args))).
Proof. intros [|a l]; cbn; eexists; reflexivity. Qed.

Lemma count_ignores_unresolved : forall u l,
  (exists p q, fn_count (QUnResolved u :: l) = PInt p (Z.of_nat (List.length (filter is_resolved_or_literal l)))
            /\ fn_count l = PInt q (Z.of_nat (List.length (filter is_resolved_or_literal l)))).
Proof. intros u l. destruct l; cbn; eexists; eexists; split; reflexivity. Qed.

(* join concatenates, in query order, with the delimiter between the elements *)
Fixpoint all_strings (l : list qres) : option (list string) :=
  match l with
  | [] => Some []
  | (QResolved (PString _ s) | QLiteral (PString _ s)) :: r => option_map (cons s) (all_strings r)
  | _ => None
  end.

Lemma join_strings_all : forall args,
  join_strings args = match all_strings args with Some strs => Done strs | None => Err EIncompatible end.
Proof.
  induction args as [|a l IH]; cbn; [reflexivity|].
  destruct a as [v|v|u]; try reflexivity; destruct v; try reflexivity;
    rewrite IH; destruct (all_strings l); reflexivity.
Qed.

Theorem join_spec : forall args delim strs,
  all_strings args = Some strs ->
  exists p, fn_join args delim = Done (PString p (str_join delim strs)).
Proof.
  intros args delim strs H. unfold fn_join. rewrite join_strings_all, H. cbn. eexists. reflexivity.
Qed.

(* ... and refuses anything that is not a string (an error, never a wrong value) *)
Theorem join_rejects_non_strings : forall args delim,
  all_strings args = None -> fn_join args delim = Err EIncompatible.
Proof. intros args delim H. unfold fn_join. now rewrite join_strings_all, H. Qed.

(* substring(s, i, j) on an ASCII string: the characters i..j; offsets out of range: skipped *)
Lemma ascii_is_boundary : forall s i, is_ascii_str s = true -> (i <= String.length s)%nat -> is_char_boundary s i = true.
Proof.
  induction s as [|a r IH]; intros i H Hi.
  - cbn in Hi. assert (i = O) by lia. subst. reflexivity.
  - cbn in H. apply andb_true_iff in H as [Ha Hr]. destruct i as [|i].
    + cbn. apply N.ltb_lt in Ha. apply negb_true_iff. apply andb_false_iff. left. apply N.leb_gt. exact Ha.
    + cbn. apply IH; [exact Hr|]. cbn in Hi. lia.
Qed.

Theorem substring_ascii : forall p s from to,
  is_ascii_str s = true ->
  fn_substring [QResolved (PString p s)] from to =
  Done [if negb (str_is_empty s) && Nat.ltb from to && Nat.leb from (String.length s) && Nat.leb to (String.length s)
        then Some (PString p (str_take (to - from) (str_skip from s))) else None].
Proof.
  intros p s from to H. unfold fn_substring, map_strings. cbn [omapM].
  destruct (negb (str_is_empty s) && Nat.ltb from to && Nat.leb from (String.length s) && Nat.leb to (String.length s))%bool eqn:E;
    [|reflexivity].
  apply andb_true_iff in E as [E E4]. apply andb_true_iff in E as [E E3].
  apply Nat.leb_le in E3, E4.
  rewrite !ascii_is_boundary by assumption. reflexivity.
Qed.

(* values of unsupported type are skipped by the element-wise functions *)
Theorem string_functions_skip_non_strings : forall q,
  (forall p s, q <> QResolved (PString p s) /\ q <> QLiteral (PString p s)) ->
  fn_to_upper [q] = Done [None] /\ fn_to_lower [q] = Done [None] /\
  forall f t, fn_substring [q] f t = Done [None].
Proof.
  intros q H. unfold fn_to_upper, fn_to_lower, fn_substring, map_strings.
  destruct q as [v|v|u]; cbn; try (repeat split; reflexivity);
    destruct v; cbn; try (repeat split; reflexivity);
    exfalso; destruct (H p s) as [A B]; congruence.
Qed.

(* to_upper / to_lower on ASCII strings: letter by letter, element-wise, in order *)
Theorem to_upper_ascii : forall p s, is_ascii_str s = true ->
  fn_to_upper [QResolved (PString p s)] = Done [Some (PString p (str_map ascii_upper s))].
Proof. intros p s H. unfold fn_to_upper, map_strings. cbn. now rewrite H. Qed.

(* parse_int(parse_string(n)) = n, for every i64 n *)
Theorem parse_int_parse_string : forall p n, i64_min <= n <= i64_max ->
  parse_str_one (QResolved (PInt p n)) = Done (Some (PString p (Z_to_string n))) /\
  parse_int_one (QResolved (PString p (Z_to_string n))) = Done (Some (PInt p n)).
Proof. intros p n H. split; [reflexivity|]. cbn. now rewrite parse_i64_print. Qed.

(* the converters never return a wrong value for a string: the parsed value or an error *)
Theorem parse_int_value_or_error : forall p s,
  (exists z, parse_i64 s = Some z /\ parse_int_one (QResolved (PString p s)) = Done (Some (PInt p z))) \/
  (parse_i64 s = None /\ parse_int_one (QResolved (PString p s)) = Err EParse).
Proof. intros p s. cbn. destruct (parse_i64 s); [left; eauto|right; auto]. Qed.

Theorem parse_boolean_value_or_error : forall p s, is_ascii_str s = true ->
  parse_bool_one (QResolved (PString p s)) = Done (Some (PBool p true)) \/
  parse_bool_one (QResolved (PString p s)) = Done (Some (PBool p false)) \/
  parse_bool_one (QResolved (PString p s)) = Err EParse.
Proof.
  intros p s H. cbn. rewrite H.
  destruct (String.eqb (str_map ascii_lower s) "true"); [auto|].
  destruct (String.eqb (str_map ascii_lower s) "false"); auto.
Qed.
