(* C17 — input parameters are merged into the data without loss or silent override. Pinned statements only. *)
From Coq Require Import Permutation.
From GV.Model Require Import Merge Erase.
From GV.Proofs Require Import MergeProps EraseProps EraseMerge.

(* two maps without a common key: the union, receiver's entries first, nothing lost or changed *)
Theorem C17_merge_disjoint : forall p keys vals p2 keys2 other,
  no_clash (map fst vals) (map fst other) ->
  exists keys', merge (PMap p keys vals) (PMap p2 keys2 other) = Done (PMap p keys' (vals ++ other)) /\
                top_entries (PMap p keys' (vals ++ other)) =
                top_entries (PMap p keys vals) ++ top_entries (PMap p2 keys2 other).
Proof. exact merge_disjoint. Qed.
Print Assumptions C17_merge_disjoint.

(* a key defined by both sources is an error, never a silent choice *)
Theorem C17_merge_conflict_errors : forall p keys vals p2 keys2 other k,
  In k (map fst vals) -> In k (map fst other) ->
  merge (PMap p keys vals) (PMap p2 keys2 other) = Err EMultipleValues.
Proof. exact merge_conflict_errors. Qed.
Print Assumptions C17_merge_conflict_errors.

Theorem C17_merge_no_loss : forall a b m k,
  merge a b = Done m -> is_map a = true ->
  (assoc k (top_entries a) <> None -> assoc k (top_entries m) = assoc k (top_entries a)) /\
  (assoc k (top_entries a) = None -> assoc k (top_entries m) = assoc k (top_entries b)).
Proof. exact merge_no_loss. Qed.
Print Assumptions C17_merge_no_loss.

Theorem C17_merge_keeps_alignment : forall a b m,
  merge a b = Done m -> aligned a = true -> aligned m = true.
Proof. exact merge_keeps_alignment. Qed.
Print Assumptions C17_merge_keeps_alignment.

(* P1..Pn and D with pairwise disjoint top-level keys: what is evaluated is the document whose top-level map
   is the disjoint union (entries of P1, ..., Pn, D in that order) *)
Theorem C17_merged_input_union : forall params data,
  Forall (fun v => is_map v = true) (params ++ [data]) ->
  NoDup (map fst (all_entries (params ++ [data]))) ->
  exists m, merged_input params data = Done m /\ top_entries m = all_entries (params ++ [data]).
Proof. exact merged_input_union. Qed.
Print Assumptions C17_merged_input_union.

(* the order of the parameter files only permutes the entries *)
Theorem C17_param_order_same_map : forall params params' data m m',
  Permutation params params' ->
  merged_input params data = Done m -> merged_input params' data = Done m' ->
  top_entries m = all_entries (params ++ [data]) -> top_entries m' = all_entries (params' ++ [data]) ->
  Permutation (top_entries m) (top_entries m').
Proof. exact param_order_same_map. Qed.
Print Assumptions C17_param_order_same_map.

(* ---- the verdict on parameter files + data is the verdict on the union document ---- *)

(* parts loaded separately (each with its own paths and positions) and merged are the union loaded as one document, up to paths *)
Theorem C17_merge_of_loaded_parts_is_the_union : forall m1 m2 p q r,
  no_clash (map fst m1) (map fst m2) ->
  exists m, merge (annotate p (VMap m1)) (annotate q (VMap m2)) = Done m /\ er m = er (annotate r (VMap (m1 ++ m2))).
Proof. exact merge_of_loaded_parts. Qed.
Print Assumptions C17_merge_of_loaded_parts_is_the_union.

(* and evaluation looks at a document only through its content (EraseProps.v), so every rules file gives the merged input
   the verdict it gives the union document *)
Theorem C17_verdict_of_merged_parts_is_verdict_of_union : forall re conv prog fuel m1 m2 p q r m,
  no_clash (map fst m1) (map fst m2) ->
  merge (annotate p (VMap m1)) (annotate q (VMap m2)) = Done m ->
  verdict (eval_file re conv prog fuel m) = verdict (eval_file re conv prog fuel (annotate r (VMap (m1 ++ m2)))).
Proof. exact verdict_of_merged_parts. Qed.
Print Assumptions C17_verdict_of_merged_parts_is_verdict_of_union.

Theorem C17_verdict_depends_on_content_only : forall re conv prog fuel d1 d2,
  er d1 = er d2 -> verdict (eval_file re conv prog fuel d1) = verdict (eval_file re conv prog fuel d2).
Proof. exact verdict_depends_on_content_only. Qed.
Print Assumptions C17_verdict_depends_on_content_only.
