#!/bin/sh
# Build the framework offline from files on disk: harness (hooks on), cfn-guard CLI, Coq development.
cd "$(dirname "$0")"
export CARGO_NET_OFFLINE=true
set -e
python3 -c "import sys; sys.path.insert(0, 'tools'); from gv import tables; print(tables.regenerate())"
cp -n /repo/Cargo.lock harness/Cargo.lock 2>/dev/null || true
(cd harness && RUSTFLAGS="--cfg guard_verif" CARGO_TARGET_DIR=/verif/.cache/target cargo +1.77.2 build --offline) 
(cd /repo && CARGO_TARGET_DIR=/verif/.cache/target-cli cargo +1.77.2 build --offline -p cfn-guard --bin cfn-guard)
(cd coq && coq_makefile -f _CoqProject -o Makefile.coq && timeout 3000 make -f Makefile.coq -j16)
