(* FullParseProps.v — about the comparison the full-grammar tie uses: `tree_eqb` decides equality of trees, so an agreement reported by
   `rules_file_obs` is the equality of the model's tree with the tree of the implementation's AST. *)
From GV.Model Require Import Ast.
From GV.Model Require Import ValueParse FullParse.
Local Open Scope string_scope.

Lemma tree_eqb_eq : forall a b, tree_eqb a b = true -> a = b.
Proof.
  fix IH 1. intros [x|t ks] [y|u ls]; cbn [tree_eqb]; try discriminate.
  - intros H. apply String.eqb_eq in H. now subst.
  - intros H. apply andb_prop in H as [H1 H2]. apply String.eqb_eq in H1. subst u. f_equal.
    revert ls H2. induction ks as [|k ks IHks]; intros [|l ls]; try discriminate; [reflexivity|].
    intros H. apply andb_prop in H as [Hk Hr]. f_equal; [apply IH; exact Hk|apply IHks; exact Hr].
Qed.

Lemma tree_eqb_refl : forall a, tree_eqb a a = true.
Proof.
  fix IH 1. intros [x|t ks]; cbn [tree_eqb]; [apply String.eqb_refl|]. rewrite String.eqb_refl. cbn [andb].
  induction ks as [|k ks IHks]; [reflexivity|]. now rewrite IH, IHks.
Qed.

Theorem agreement_is_equality : forall rv name text t', rules_file_obs rv name text (IFileOk t') = FVAgree -> rules_file rv name text = FOk t'.
Proof.
  intros rv name text t'. unfold rules_file_obs. destruct (rules_file rv name text) as [|t| | |]; try discriminate.
  destruct (tree_eqb t t') eqn:E; [|discriminate]. intros _. now rewrite (tree_eqb_eq t t' E).
Qed.

(* a file of layout only is the empty file *)
Theorem layout_only_is_empty : forall rv name s, skip_ws_comments s = EmptyString -> rules_file rv name s = FEmpty.
Proof. intros rv name s H. unfold rules_file. now rewrite H. Qed.

(* a rules file is accepted only when the top-level loop consumed it to the last byte: text that the grammar does not cover anywhere in
   the file makes the whole file a parse error (no rule of it is evaluated) *)
Theorem accepted_file_is_consumed_entirely : forall rv name s t, rules_file rv name s = FOk t ->
  exists es n, exprs_loop rv n n [] (skip_ws_comments s) = POk es EmptyString.
Proof.
  intros rv name s t. unfold rules_file. destruct (skip_ws_comments s) as [|c r] eqn:E; [discriminate|].
  match goal with |- context [exprs_loop rv ?n ?n [] ?u] => destruct (exprs_loop rv n n [] u) as [es rest| | | |] eqn:El; try discriminate; exists es, n end.
  destruct rest; [exact El|discriminate].
Qed.
