#!/bin/bash
# usage: mutant_lab.sh <out.tsv> <mutant-id>:<Cnn,Cnn,...> ...
# Runs the checks against seeded changes WITHOUT touching /repo: a scratch worktree of /repo HEAD (/tmp/wt/mut) and a
# scratch copy of /verif (/tmp/mutverif, harness path rewritten) are used, so development can go on meanwhile.
# (The registered way - git -C /repo apply; ./check; git -C /repo checkout -- . - is tools/try_mutant.sh.)
OUT=$1; shift
LAB=${LAB:-/tmp/mutverif}; WT=${WT:-/tmp/wt/mut}
mkdir -p $LAB
rsync -a --delete --exclude .cache --exclude work --exclude .git --exclude evidence /verif/ $LAB/
sed -i "s#/repo/guard#$WT/guard#" $LAB/harness/Cargo.toml
if [ ! -d $WT ]; then git -C /repo worktree add --detach $WT HEAD >/dev/null 2>&1; fi
git -C $WT checkout -q -- . ; git -C $WT checkout -q --detach "$(git -C /repo rev-parse HEAD)"
cp -n /repo/Cargo.lock $LAB/harness/Cargo.lock 2>/dev/null
export VERIF_DIR=$LAB REPO_DIR=$WT VERIF_EVIDENCE_DIR=$LAB/evidence-mut VERIF_JOBS=${VERIF_JOBS:-8}
for spec in "$@"; do
  id=${spec%%:*}; checks=${spec#*:}
  git -C $WT checkout -q -- .
  if ! git -C $WT apply /verif/seeded/$id/patch.diff 2>/dev/null; then echo -e "$id\t-\tPATCH-DOES-NOT-APPLY" >> $OUT; continue; fi
  for c in ${checks//,/ }; do
    full=$(cd $LAB && timeout 1500 ./check $c quick 2>&1)
    res=$(echo "$full" | grep -v "^KNOWN-FINDING" | tail -3 | tr '\n' ' ' | cut -c1-500)
    if echo "$full" | grep -q "^VIOLATION property=$c"; then v=CAUGHT; elif echo "$full" | grep -q "^OK property"; then v=missed; else v=other; fi
    echo -e "$id\t$c\t$v\t$res" >> $OUT
  done
  git -C $WT checkout -q -- .
done
echo DONE >> $OUT
