"""Translate the neutral JSON dumps of the hook module into Gallina terms of
the model (GV.Model.*).  Canonicalisation of what the model does not carry
(record contexts, message text, locations of rule clauses) happens here and
nowhere else."""
import struct

class TranslateError(Exception):
    pass

def cstr(s):
    b = s.encode('utf-8') if isinstance(s, str) else bytes(s)
    if all(32 <= c < 127 for c in b):
        return '"' + b.decode('ascii').replace('"', '""') + '"'
    return '(bs [' + ';'.join(str(c) for c in b) + ']%N)'

def S(j):
    if not (isinstance(j, dict) and 'S' in j):
        raise TranslateError('expected string: %r' % (j,))
    return j['S']

def L(j):
    if not (isinstance(j, dict) and 'L' in j):
        raise TranslateError('expected list: %r' % (j,))
    return j['L']

def clist(items):
    return '[' + '; '.join(items) + ']'

def copt(j, f):
    if j is None:
        return 'None'
    return '(Some ' + f(j['O']) + ')'

def cbool(b):
    return 'true' if b else 'false'

def cZ(n):
    return '(%d)%%Z' % n

def cN(n):
    return '%d%%N' % n

def ostr(j):
    return copt(j, lambda x: cstr(S(x)))

def has(j):
    return cbool(j is not None)

def decode_f64(bits):
    bits = int(bits)
    sign = bits >> 63
    exp = (bits >> 52) & 0x7ff
    frac = bits & ((1 << 52) - 1)
    if exp == 0x7ff:
        return 'FNaN' if frac else '(FInf %s)' % cbool(bool(sign))
    if exp == 0:
        m, e = frac, -1074
    else:
        m, e = frac | (1 << 52), exp - 1075
    if sign:
        m = -m
    return '(FFin %s %s %s)' % (cZ(m), cZ(e), cbool(bool(sign) and m == 0))

def F(j):
    return decode_f64(j['F'])

def path(j):
    assert j[0] == 'Path'
    return '(mkPath %s %s %s)' % (cstr(S(j[1])), cN(j[2]), cN(j[3]))

def pv(j):
    t = j[0]
    if t == 'PNull':
        return '(PNull %s)' % path(j[1])
    if t == 'PString':
        return '(PString %s %s)' % (path(j[1]), cstr(S(j[2])))
    if t == 'PRegex':
        return '(PRegex %s %s)' % (path(j[1]), cstr(S(j[2])))
    if t == 'PBool':
        return '(PBool %s %s)' % (path(j[1]), cbool(j[2]))
    if t == 'PInt':
        return '(PInt %s %s)' % (path(j[1]), cZ(j[2]))
    if t == 'PFloat':
        return '(PFloat %s %s)' % (path(j[1]), F(j[2]))
    if t == 'PChar':
        return '(PChar %s %s)' % (path(j[1]), cN(j[2]['C']))
    if t == 'PList':
        return '(PList %s %s)' % (path(j[1]), clist([pv(x) for x in L(j[2])]))
    if t == 'PMap':
        mv = j[2]
        keys = clist([pv(x) for x in L(mv[1])])
        vals = clist(['(%s, %s)' % (cstr(S(kv[1])), pv(kv[2])) for kv in L(mv[2])])
        return '(PMap %s %s %s)' % (path(j[1]), keys, vals)
    if t == 'PRangeInt':
        return '(PRangeInt %s %s %s %s)' % (path(j[1]), cZ(j[2]), cZ(j[3]), cN(j[4]))
    if t == 'PRangeFloat':
        return '(PRangeFloat %s %s %s %s)' % (path(j[1]), F(j[2]), F(j[3]), cN(j[4]))
    if t == 'PRangeChar':
        return '(PRangeChar %s %s %s %s)' % (path(j[1]), cN(j[2]['C']), cN(j[3]['C']), cN(j[4]))
    raise TranslateError('pv: %r' % (t,))

STATUS = {'PASS': 'PASS', 'FAIL': 'FAIL', 'SKIP': 'SKIP'}

def cmp_(j):
    assert j[0] == 'pair'
    return '(O%s, %s)' % (j[1], cbool(j[2]))

def let_value(j):
    t = j[0]
    if t == 'LValue':
        return '(LValue %s)' % pv(j[1])
    if t == 'LAccess':
        return '(LAccess %s)' % access_query(j[1])
    if t == 'LFunction':
        fx = j[1]
        return '(LFunction %s F%s)' % (clist([let_value(x) for x in L(fx[1])]), fx[2])
    raise TranslateError('let_value %r' % t)

def let_expr(j):
    return '(%s, %s)' % (cstr(S(j[1])), let_value(j[2]))

def cnf(j, f):
    return clist([clist([f(x) for x in L(d)]) for d in L(j)])

def query_part(j):
    t = j[0]
    if t == 'This':
        return 'QThis'
    if t == 'Key':
        return '(QKey %s)' % cstr(S(j[1]))
    if t == 'MapKeyFilter':
        return '(QMapKeyFilter %s %s %s)' % (ostr(j[1]), cmp_(j[2]), let_value(j[3]))
    if t == 'AllValues':
        return '(QAllValues %s)' % ostr(j[1])
    if t == 'AllIndices':
        return '(QAllIndices %s)' % ostr(j[1])
    if t == 'Index':
        return '(QIndex %s)' % cZ(j[1])
    if t == 'Filter':
        return '(QFilter %s %s)' % (ostr(j[1]), cnf(j[2], guard_clause))
    raise TranslateError('query_part %r' % t)

def query(j):
    return clist([query_part(x) for x in L(j)])

def access_query(j):
    return '(AccessQuery %s %s)' % (query(j[1]), cbool(j[2]))

def access_clause(j):
    # [aq, cmp, w, custom, loc, negation]
    return '(GuardAccessClause %s %s %s %s %s)' % (
        access_query(j[1]), cmp_(j[2]), copt(j[3], let_value), ostr(j[4]), cbool(j[6]))

def named_clause(j):
    return '(GuardNamedRuleClause %s %s %s)' % (cstr(S(j[1])), cbool(j[2]), ostr(j[3]))

def block(j):
    return '(Block %s %s)' % (clist([let_expr(x) for x in L(j[1])]), cnf(j[2], guard_clause))

def guard_clause(j):
    t = j[0]
    if t == 'GClause':
        return '(GClause %s)' % access_clause(j[1])
    if t == 'GNamedRule':
        return '(GNamedRule %s)' % named_clause(j[1])
    if t == 'GParameterizedNamedRule':
        p = j[1]
        return '(GParameterizedNamedRule %s %s)' % (clist([let_value(x) for x in L(p[1])]), named_clause(p[2]))
    if t == 'GBlockClause':
        return '(GBlockClause %s %s %s)' % (access_query(j[1]), block(j[2]), cbool(j[4]))
    if t == 'GWhenBlock':
        return '(GWhenBlock %s %s)' % (cnf(j[1], when_clause), block(j[2]))
    raise TranslateError('guard_clause %r' % t)

def when_clause(j):
    t = j[0]
    if t == 'WClause':
        return '(WClause %s)' % access_clause(j[1])
    if t == 'WNamedRule':
        return '(WNamedRule %s)' % named_clause(j[1])
    if t == 'WParameterizedNamedRule':
        p = j[1]
        return '(WParameterizedNamedRule %s %s)' % (clist([let_value(x) for x in L(p[1])]), named_clause(p[2]))
    raise TranslateError('when_clause %r' % t)

def rule_clause(j):
    t = j[0]
    if t == 'RClause':
        return '(RClause %s)' % guard_clause(j[1])
    if t == 'RWhenBlock':
        return '(RWhenBlock %s %s)' % (cnf(j[1], when_clause), block(j[2]))
    if t == 'RTypeBlock':
        return '(RTypeBlock %s %s %s %s)' % (
            cstr(S(j[1])), copt(j[2], lambda w: cnf(w, when_clause)), block(j[3]), query(j[4]))
    raise TranslateError('rule_clause %r' % t)

def rule(j):
    b = j[3]
    return '(mkRule %s %s %s %s)' % (
        cstr(S(j[1])), copt(j[2], lambda w: cnf(w, when_clause)),
        clist([let_expr(x) for x in L(b[1])]), cnf(b[2], rule_clause))

def rules_file(j):
    assert j[0] == 'RulesFile'
    prs = []
    for p in L(j[3]):
        prs.append('(mkParamRule %s %s)' % (clist([cstr(S(x)) for x in L(p[1])]), rule(p[2])))
    return '(mkRulesFile %s %s %s)' % (
        clist([let_expr(x) for x in L(j[1])]), clist([rule(x) for x in L(j[2])]), clist(prs))

def qres(j):
    t = j[0]
    if t == 'Literal':
        return '(QLiteral %s)' % pv(j[1])
    if t == 'Resolved':
        return '(QResolved %s)' % pv(j[1])
    if t == 'UnResolved':
        return '(QUnResolved (mkUnres %s %s %s))' % (pv(j[1]), cstr(S(j[2])), has(j[3]))
    raise TranslateError('qres %r' % t)

def clause_check(j):
    t = j[0]
    if t == 'Success':
        return 'CSuccess'
    if t == 'Comparison':
        return '(CComparison %s %s %s %s %s %s)' % (
            cmp_(j[1]), qres(j[2]), copt(j[3], qres), has(j[4]), ostr(j[5]), STATUS[j[6]])
    if t == 'InComparison':
        return '(CInComparison %s %s %s %s %s %s)' % (
            cmp_(j[1]), qres(j[2]), clist([qres(x) for x in L(j[3])]), has(j[4]), ostr(j[5]), STATUS[j[6]])
    if t == 'Unary':
        return '(CUnary %s %s %s %s %s)' % (cmp_(j[1]), qres(j[2]), has(j[3]), ostr(j[4]), STATUS[j[5]])
    if t == 'NoValueForEmptyCheck':
        return '(CNoValueForEmptyCheck %s)' % ostr(j[1])
    if t == 'DependentRule':
        return '(CDependentRule %s %s %s %s)' % (cstr(S(j[1])), has(j[2]), ostr(j[3]), STATUS[j[4]])
    if t == 'MissingBlockValue':
        return '(CMissingBlockValue %s %s %s %s)' % (qres(j[1]), has(j[2]), ostr(j[3]), STATUS[j[4]])
    raise TranslateError('clause_check %r' % t)

def container(j):
    t = j[0]
    if t == 'FileCheck':
        return '(KFileCheck %s)' % STATUS[j[2]]
    if t == 'RuleCheck':
        return '(KRuleCheck %s %s %s)' % (cstr(S(j[1])), STATUS[j[2]], ostr(j[3]))
    if t in ('RuleCondition', 'TypeCondition', 'TypeBlock', 'Filter', 'WhenCondition'):
        return '(K%s %s)' % (t, STATUS[j[1]])
    if t == 'TypeCheck':
        return '(KTypeCheck %s %s %s %s)' % (cstr(S(j[1])), cbool(j[2]), STATUS[j[3]], has(j[4]))
    if t in ('WhenCheck', 'Disjunction', 'BlockGuardCheck', 'GuardClauseBlockCheck'):
        return '(K%s %s %s %s)' % (t, cbool(j[1]), STATUS[j[2]], has(j[3]))
    if t == 'ClauseValueCheck':
        return '(KClauseValueCheck %s)' % clause_check(j[1])
    raise TranslateError('container %r' % t)

def record(j):
    assert j[0] == 'Record'
    if j[2] is None:
        raise TranslateError('open record in final tree')
    return '(Rec %s %s)' % (container(j[2]['O']), clist([record(x) for x in L(j[3])]))

ERR = {
    'NotComparable': 'ENotComparable', 'IncompatibleError': 'EIncompatible',
    'MissingValue': 'EMissingValue', 'RegexError': 'ERegex', 'ParseError': 'EParse',
    'RetrievalError': 'ERetrieval', 'IncompatibleRetrievalError': 'EIncompatibleRetrieval',
    'MultipleValues': 'EMultipleValues', 'MissingVariable': 'EMissingVariable',
    'MissingProperty': 'EMissingProperty', 'YamlError': 'EYaml', 'JsonError': 'EJson',
    'InternalError': 'EInternal',
}

def impl_result(res):
    """res: the 'result' field of an eval op, or a dict with 'panic'/'abort'."""
    if isinstance(res, dict):
        if 'panic' in res:
            return 'IPanic'
        if 'abort' in res:
            return 'IAbort'
        raise TranslateError('impl_result dict %r' % (res,))
    if res[0] == 'Ok':
        return '(IOk %s %s)' % (STATUS[res[1]], record(res[2]))
    if res[0] == 'Err':
        return '(IErr %s)' % ERR.get(res[1], 'EOther')
    raise TranslateError('impl_result %r' % (res[0],))

# ---- collecting oracle queries from dumps -------------------------------

def walk(j, f):
    f(j)
    if isinstance(j, list):
        for x in j:
            walk(x, f)
    elif isinstance(j, dict):
        for x in j.values():
            walk(x, f)

def collect_strings(j):
    """all PString payloads and map keys in a dump"""
    out = set()
    def f(x):
        if isinstance(x, list) and x and x[0] == 'PString':
            out.add(S(x[2]))
        if isinstance(x, list) and x and x[0] == 'pair' and isinstance(x[1], dict) and 'S' in x[1]:
            out.add(S(x[1]))
    walk(j, f)
    return out

def collect_regexes(j):
    out = set()
    def f(x):
        if isinstance(x, list) and x and x[0] == 'PRegex':
            out.add(S(x[2]))
    walk(j, f)
    return out

def collect_keys(j):
    out = set()
    def f(x):
        if isinstance(x, list) and x and x[0] == 'Key':
            out.add(S(x[1]))
    walk(j, f)
    return out
