(* EraseMerge.v — merging is blind to paths, and merging loaded parts is loading the union (C17), so that with
   EraseProps.verdict_depends_on_content_only the verdict on `-i` parameter files + data is the verdict on the union document. *)
From GV.Model Require Import Erase Merge.
From GV.Proofs Require Import ErasePure EraseProps MergeProps.
Local Open Scope nat_scope.

Definition ann_entries (p : path) (m : list (string * value)) : list (string * pv) :=
  (fix go (m : list (string * value)) : list (string * pv) :=
     match m with
     | [] => []
     | (k, x) :: r => (k, annotate (path_extend p k) x) :: go r
     end) m.

Lemma annotate_map p m :
  annotate p (VMap m) = PMap p (map (fun kv => PString (path_extend p (fst kv)) (fst kv)) m) (ann_entries p m).
Proof. reflexivity. Qed.

Lemma ann_entries_cons p k x m : ann_entries p ((k, x) :: m) = (k, annotate (path_extend p k) x) :: ann_entries p m.
Proof. reflexivity. Qed.

Lemma ann_entries_fst p m : map fst (ann_entries p m) = map fst m.
Proof. induction m as [|[k x] m IH]; [reflexivity|]. rewrite ann_entries_cons. cbn [map fst]. now rewrite IH. Qed.

Lemma ann_entries_app p m1 m2 : ann_entries p (m1 ++ m2) = ann_entries p m1 ++ ann_entries p m2.
Proof. induction m1 as [|[k x] m1 IH]; [reflexivity|]. cbn [app]. rewrite !ann_entries_cons. cbn [app]. now rewrite IH. Qed.

Lemma er_ann_entries p q m : er_vals (ann_entries p m) = er_vals (ann_entries q m).
Proof.
  induction m as [|[k x] m IH]; [reflexivity|]. rewrite !ann_entries_cons. unfold er_vals in *. cbn [map fst snd]. f_equal; [|exact IH].
  f_equal. apply er_annotate.
Qed.

Lemma er_vals_app a b : er_vals (a ++ b) = er_vals a ++ er_vals b.
Proof. apply map_app. Qed.

(* parts loaded separately (each with its own paths and positions) and merged = the union loaded as one document, up to paths *)
Theorem merge_of_loaded_parts m1 m2 p q r :
  no_clash (map fst m1) (map fst m2) ->
  exists m, merge (annotate p (VMap m1)) (annotate q (VMap m2)) = Done m /\ er m = er (annotate r (VMap (m1 ++ m2))).
Proof.
  intros H. rewrite !annotate_map. unfold merge.
  rewrite merge_entries_ok by (rewrite !ann_entries_fst; exact H).
  eexists. split; [reflexivity|]. cbn [er]. f_equal.
  - rewrite !map_app, !map_map. cbn. f_equal.
    clear. induction m2 as [|[k x] m2 IH]; [reflexivity|]. rewrite ann_entries_cons. cbn [map fst]. f_equal. exact IH.
  - fold (er_vals (ann_entries p m1 ++ ann_entries q m2)). fold (er_vals (ann_entries r (m1 ++ m2))).
    rewrite ann_entries_app, !er_vals_app. f_equal; apply er_ann_entries.
Qed.

(* so: validating data with a parameter file gives the verdict of validating the union document *)
Theorem verdict_of_merged_parts re conv prog fuel m1 m2 p q r m :
  no_clash (map fst m1) (map fst m2) ->
  merge (annotate p (VMap m1)) (annotate q (VMap m2)) = Done m ->
  verdict (eval_file re conv prog fuel m) = verdict (eval_file re conv prog fuel (annotate r (VMap (m1 ++ m2)))).
Proof.
  intros H Hm. destruct (merge_of_loaded_parts m1 m2 p q r H) as (m' & Hm' & E). rewrite Hm in Hm'. inversion Hm'; subst.
  apply verdict_depends_on_content_only. exact E.
Qed.

