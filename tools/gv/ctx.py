"""Check context: builds, proof-obligation accounting, verdict, evidence."""
import os, re, json, time, glob, subprocess, hashlib
from .common import *
from . import impl, model, tables

FORBIDDEN = re.compile(r'\b(Admitted|admit|Axiom|Axioms|Parameter|Parameters|Conjecture|Conjectures|Admit Obligations)\b|Unset Guard Checking|Unset Positivity Checking|Unset Universe Checking|bypass_check|type-in-type|impredicative-set')
ALLOWED_AXIOMS = set()   # the development is axiom-free; anything printed by Print Assumptions is an error

class Ctx:
    def __init__(self, prop, tier):
        self.prop = prop
        self.tier = tier
        self.seed = seed()
        self.t0 = time.time()
        self.wd = workdir('%s-%s' % (prop, tier))
        self.violations = []       # dicts: what, replay(dict), found(bool)
        self.known_hits = []       # strings
        self.coverage = {'obligations': 0, 'discharged': 0, 'samples': [], 'evaluations': 0,
                         'distinct_nontrivial': 0, 'trusted_base': [], 'checker_cmd': ''}
        self.assumptions = []
        self.notes = {}
        kf = os.path.join(VERIF, 'known_findings.json')
        self.known = json.load(open(kf)).get('findings', []) if os.path.exists(kf) else []
        self.known = [k for k in self.known if k.get('property') == prop and k.get('state', 'open') == 'open']

    # ---- builds ----------------------------------------------------------
    def build(self, cli=False):
        impl.build_harness()
        if cli:
            impl.build_cli()

    # ---- proofs ----------------------------------------------------------
    def proofs(self, props_file):
        """Build the Coq target of this property (full .vo build of its dependencies),
        re-run coqc on the Props file to capture Print Assumptions, count obligations."""
        rel = 'Props/%s.v' % props_file
        vo = rel + 'o'
        t = time.time()
        tok, tproblems = tables.regenerate()
        tproblems = tables.problems_for(props_file, tproblems)     # a table that this property's theorems do not mention is not its concern
        if tproblems:
            # the source no longer has the shape the translator reads (possibly a harmless rewrite): the reviewed copy of the table
            # is in place; if the compiled code behaves exactly as that copy says, the tie holds by exhaustive correspondence instead
            confirmed = []
            for pr_ in list(tproblems):
                g = pr_.split(':', 1)[0]
                try:
                    okb, detail = tables.behavioural_check(g, os.path.join(self.wd, 'tables_' + g))
                except Exception as e:
                    okb, detail = False, 'behavioural check failed to run: %s' % str(e)[:200]
                if okb:
                    confirmed.append('%s [translator: %s]' % (detail, pr_))
                    tproblems.remove(pr_)
            if confirmed:
                self.notes['tables_confirmed_behaviourally'] = confirmed
        if tproblems:
            self.notes['translator_problems'] = tproblems
            src0 = open(os.path.join(COQDIR, rel)).read()
            th0 = re.findall(r'^\s*(?:Theorem|Lemma|Corollary)\s+([A-Za-z0-9_\']+)', src0, re.M)
            self.coverage['obligations'] += len(th0)
            self.coverage['checker_cmd'] = 'tools/gv/tables.py (translator) failed before make'
            return {'ok': False, 'theorems': th0, 'problems': ['translator: %s' % tproblems], 'log': ''}
        p = model.coq_make([vo])
        out = p.stdout.decode('utf-8', 'replace') + p.stderr.decode('utf-8', 'replace')
        src = open(os.path.join(COQDIR, rel)).read()
        theorems = re.findall(r'^\s*(?:Theorem|Lemma|Corollary)\s+([A-Za-z0-9_\']+)', src, re.M)
        self.coverage['obligations'] += len(theorems)
        self.coverage['checker_cmd'] = 'make -f Makefile.coq %s && coqc %s (Coq 8.16.1, full .vo build)' % (vo, rel)
        if p.returncode != 0:
            self.notes['coq_build_error'] = out[-3000:]
            return {'ok': False, 'theorems': theorems, 'log': out[-3000:]}
        # recompile the Props file alone to get Print Assumptions output
        rc, so, se = model.run_coq_file_in_project(rel)
        if rc != 0:
            self.notes['coq_build_error'] = (so + se)[-3000:]
            return {'ok': False, 'theorems': theorems, 'log': (so + se)[-3000:]}
        closed = so.count('Closed under the global context')
        axioms = re.findall(r'^Axioms:\s*\n((?:.+\n)+?)(?:\n|$)', so, re.M)
        prints = len(re.findall(r'^\s*Print Assumptions', src, re.M))
        ok = True
        problems = []
        if prints < len(theorems):
            ok = False
            problems.append('not every theorem is followed by Print Assumptions')
        if closed != prints:
            ok = False
            problems.append('Print Assumptions reported axioms: %r' % (axioms,))
        # every property theorem must be closed by `exact <lemma>.`
        bodies = re.findall(r'Proof\.(.*?)Qed\.', src, re.S)
        for b in bodies:
            if not re.fullmatch(r'\s*exact\s+[^.]+\.\s*', b):
                ok = False
                problems.append('a Props theorem is not closed by a single exact: %r' % b.strip()[:60])
        # forbidden vocabulary anywhere in the development
        for path in glob.glob(os.path.join(COQDIR, '**', '*.v'), recursive=True):
            txt = re.sub(r'\(\*.*?\*\)', '', open(path).read(), flags=re.S)
            m = FORBIDDEN.search(txt)
            if m:
                ok = False
                problems.append('%s contains %r' % (os.path.relpath(path, COQDIR), m.group(0)))
        if ok:
            self.coverage['discharged'] += len(theorems)
        self.notes.setdefault('proof_seconds', 0)
        self.notes['proof_seconds'] += round(time.time() - t, 1)
        self.coverage.setdefault('theorems', []).extend(theorems)
        return {'ok': ok, 'theorems': theorems, 'problems': problems, 'log': out[-2000:]}

    # ---- verdict ---------------------------------------------------------
    def match_known(self, info):
        """info: dict describing a failing input (keys: class, rules, data, site, ...).
        A known finding matches when every key of its 'match' dict is a substring/equal."""
        for k in self.known:
            m = k.get('match', {})
            ok = True
            for key, pat in m.items():
                v = info.get(key)
                if v is None:
                    ok = False
                    break
                if isinstance(pat, str) and pat.startswith('re:'):
                    if not re.search(pat[3:], str(v), re.S):
                        ok = False
                        break
                elif str(pat) not in str(v):
                    ok = False
                    break
            if ok:
                return k
        return None

    def failing(self, what, info, found=True):
        """record a failing input (or a broken obligation when found=False)"""
        k = self.match_known(info) if found else None
        if k is not None:
            line = 'KNOWN-FINDING: property=%s %s' % (self.prop, k.get('what', k.get('id')))
            if line not in self.known_hits:
                self.known_hits.append(line)
            return 'known'
        self.violations.append({'what': what, 'info': info, 'found': found})
        return 'violation'

    def declare_known(self, kid):
        """a listed finding whose witness was replayed and still fails"""
        for k in self.known:
            if k.get('id') == kid:
                line = 'KNOWN-FINDING: property=%s %s' % (self.prop, k.get('what', kid))
                if line not in self.known_hits:
                    self.known_hits.append(line)
                return True
        return False

    def sample(self, s):
        if len(self.coverage['samples']) < 6:
            self.coverage['samples'].append(s)

    def finish(self):
        wall = round(time.time() - self.t0, 1)
        ev = {
            'property_id': self.prop, 'tier': self.tier, 'seed': self.seed, 'level': 'proof',
            'coverage': dict(self.coverage, notes=self.notes, known_findings=self.known_hits),
            'assumptions': self.assumptions, 'wall_s': wall, 'violations': len(self.violations),
        }
        if not ev['coverage']['samples']:
            ev['coverage']['samples'] = ['(no sample recorded)']
        evdir = os.environ.get('VERIF_EVIDENCE_DIR') or os.path.join(VERIF, 'evidence')
        os.makedirs(evdir, exist_ok=True)
        with open(os.path.join(evdir, self.prop + '.json'), 'w') as f:
            json.dump(ev, f, indent=1, default=str)
        for line in self.known_hits:
            print(line)
        if self.violations:
            os.makedirs(os.path.join(VERIF, 'work', 'replay'), exist_ok=True)
            # violations with a concrete failing input first
            self.violations.sort(key=lambda v: not v['found'])
            first = self.violations[0]
            path = os.path.join(VERIF, 'work', 'replay', '%s-%s.json' % (self.prop, self.tier))
            with open(path, 'w') as f:
                json.dump({'property': self.prop, 'seed': self.seed, 'tier': self.tier,
                           'violations': self.violations[:300]}, f, indent=1, default=str)
            for v in self.violations[:5]:
                print('  - %s' % v['what'])
            tail = '' if first['found'] else ' no-failing-input-found'
            print('VIOLATION property=%s replay=%s%s' % (self.prop, path, tail))
            return 1
        print('OK property=%s tier=%s obligations=%d discharged=%d evaluations=%d wall=%.1fs' % (
            self.prop, self.tier, self.coverage['obligations'], self.coverage['discharged'],
            self.coverage['evaluations'], wall))
        return 0
