(* ClauseFProps.v — the clause parser over queries with filters (Model/ClauseFParse.clause_f) extends the filter-free clause parser
   (Model/ClauseParse.clause): wherever that one answers - a clause, an error, a failure - this one answers the same.  So the
   clause theorems (negation flag, spellings) hold for clauses over queries with filters. *)
From Coq Require Import Lia.
From GV.Model Require Import Ast.
From GV.Model Require Import ValueParse QueryParse OpParse ClauseParse CnfParse FilterParse ClauseFParse.
From GV.Proofs Require Import LexProps ValueParseProps QueryParseProps FilterParseProps.
Local Open Scope string_scope.
Local Open Scope nat_scope.

Section Extends.
Variable rv : string -> bool.

Definition embed_rhs (w : rhs) : grhs (Q := fquery) := match w with RLit l => GLit l | RQuery q => GQuery (embed q) end.
Definition embed_clause (c : pclause) : gclause (Q := fquery) :=
  mkGC (pc_neg c) (embed (pc_query c)) (pc_cmp c) (option_map embed_rhs (pc_rhs c)) (pc_msg c).

Lemma message_embed neg q c w s :
  gwith_message neg (embed q) c (option_map embed_rhs w) s = pmap embed_clause (with_message neg q c w s).
Proof. unfold gwith_message, with_message. destruct (opt_message s); reflexivity. Qed.

Lemma access_f_of n m s : n <= m -> access n s <> PUnk -> access n s <> POof -> access_f rv (S m) s = pmap embed (access n s).
Proof. intros L H1 H2. now apply (access_f_extends rv n s (access n s) eq_refl H1 H2 m L). Qed.

Theorem clause_f_extends : forall n s x, clause rv n s = x -> x <> PUnk -> x <> POof ->
  forall m, n <= m -> clause_f rv (S m) s = pmap embed_clause x.
Proof.
  intros n s x H H1 H2 m L. unfold clause_f, gclause_parse. unfold clause in H.
  destruct (match not_kw (skip_ws_comments s) with Some r => (true, r) | None => (false, skip_ws_comments s) end) as [neg s1].
  destruct (access n s1) as [q r1| | | |] eqn:Ea; cbn [pmap] in H; try (subst x; congruence).
  2,3: rewrite (access_f_of n m s1 L) by (rewrite Ea; discriminate); rewrite Ea; subst x; reflexivity.
  rewrite (access_f_of n m s1 L) by (rewrite Ea; discriminate). rewrite Ea. cbn [pmap].
  destruct (value_cmp (skip_ws_comments r1)) as [c r2| | | |]; cbn [pmap gfail] in *; try (subst x; (reflexivity || congruence)).
  destruct (is_unary (fst c)).
  { subst x. apply (message_embed neg q c None r2). }
  destruct (parse_value rv n r2) as [l r3| | | |] eqn:Ep; cbn [pmap] in H; try (subst x; congruence).
  - rewrite (parse_value_fuel_mono rv n (S m) r2 _ ltac:(lia) Ep ltac:(discriminate)). subst x. apply (message_embed neg q c (Some (RLit l)) r3).
  - rewrite (parse_value_fuel_mono rv n (S m) r2 _ ltac:(lia) Ep ltac:(discriminate)).
    destruct (function_like (skip_ws_comments r2)) eqn:Ef; cbn [pmap gfail] in *; try (subst x; (reflexivity || congruence)).
    + exfalso. eapply ClauseParseProps.function_like_not_ok. exact Ef.
    + destruct (access n (skip_ws_comments r2)) as [q2 r3| | | |] eqn:Ea2; cbn [pmap] in H; try (subst x; congruence).
      * rewrite (access_f_of n m _ L) by (rewrite Ea2; discriminate). rewrite Ea2. cbn [pmap]. subst x. apply (message_embed neg q c (Some (RQuery q2)) r3).
      * rewrite (access_f_of n m _ L) by (rewrite Ea2; discriminate). rewrite Ea2. subst x. reflexivity.
      * rewrite (access_f_of n m _ L) by (rewrite Ea2; discriminate). rewrite Ea2. subst x. reflexivity.
  - rewrite (parse_value_fuel_mono rv n (S m) r2 _ ltac:(lia) Ep ltac:(discriminate)). subst x. reflexivity.
Qed.

Corollary clause_f_top_extends : forall s x, clause_top rv s = x -> x <> PUnk -> clause_f_top rv s = pmap embed_clause x.
Proof.
  intros s x H H1. unfold clause_f_top. apply (clause_f_extends (S (len s)) s x); [exact H|exact H1| |lia].
  subst x. apply ClauseParseProps.clause_answers.
Qed.

(* hence: the negation in front of a clause over queries with filters is recorded whenever the filter-free reading exists *)
Corollary clause_f_negation : forall s c r, clause_top rv s = POk c r ->
  exists c' , clause_f_top rv s = POk c' r /\ gc_neg c' = pc_neg c /\ gc_cmp c' = pc_cmp c.
Proof.
  intros s c r H. exists (embed_clause c). rewrite (clause_f_top_extends s _ H ltac:(discriminate)). repeat split.
Qed.

End Extends.
