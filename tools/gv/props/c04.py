"""C04 — verdicts do not depend on the order or repetition of clauses and rules.

proof   : Props/C04.v (bodies of state-transparent clauses: permuting lines, permuting alternatives, repeating a line;
          the combinators for status lists of any shape; rule definitions found by name independent of rule order; the
          file fold; a cached rule status is what later references get)
tie     : SEval vs implementation on the generated programs (status, error kind, whole record tree)
monitor : on the implementation: every generated (capture-free, acyclic) program against its documents under every
          permutation (exhaustive up to 4 items, sampled beyond) of the lines of a rule or block, of the alternatives of an
          or-line, of the rules of the file, with a repeated clause, and with a rule duplicated under a new name; the
          status of every rule and of the file must not change unless one of the two orderings raises an error. The
          history dimension (which reference populates a memoised variable or a cached rule status first) is exercised by
          forward references, shared variables and references to already evaluated rules, which the generator produces
          on purpose.
"""
import json, random, copy, itertools, re
from .. import coqterm as ct
from .. import impl, corr, gen, e2e
from ..common import *


def blocks_of(prog):
    """every {'lets','cnf'} block of the program with a label, in pre-order"""
    out = []
    def walk_block(b, label):
        out.append((label, b))
        for li, line in enumerate(b['cnf']):
            for ci, c in enumerate(line):
                walk_clause(c, '%s/%d.%d' % (label, li, ci))
    def walk_clause(c, label):
        if c[0] == 'block':
            walk_block(c[3], label + ':block')
        elif c[0] == 'when':
            walk_block(c[2], label + ':when')
        elif c[0] == 'type':
            walk_block(c[3], label + ':type')
        elif c[0] == 'cmp':
            walk_query(c[2], label)
    def walk_query(q, label):
        for p in q['parts']:
            if p[0] == 'filter':
                out.append((label + ':filter', {'lets': [], 'cnf': p[1], '_filter': p}))
    for r in prog['rules']:
        walk_block(r['block'], 'rule:' + r['name'])
    return out


def perms(n, rng, cap=24):
    ps = list(itertools.permutations(range(n)))
    if len(ps) > cap:
        ps = [ps[0]] + rng.sample(ps[1:], cap - 1)
    return [p for p in ps if list(p) != list(range(n))]


def variants(prog, rng, budget):
    """list of (description, program) transformed variants"""
    out = []
    labels = [l for l, b in blocks_of(prog)]
    for bi, label in enumerate(labels):
        b0 = blocks_of(prog)[bi][1]
        nlines = len(b0['cnf'])
        if nlines > 1:
            for p in perms(nlines, rng, 6 if nlines > 3 else 24):
                v = copy.deepcopy(prog)
                b = blocks_of(v)[bi][1]
                b['cnf'][:] = [b['cnf'][i] for i in p]
                if '_filter' in b:
                    b['_filter'] = None
                out.append(('lines of %s permuted %s' % (label, list(p)), v))
        for li, line in enumerate(b0['cnf']):
            if len(line) > 1:
                for p in perms(len(line), rng, 6):
                    v = copy.deepcopy(prog)
                    b = blocks_of(v)[bi][1]
                    b['cnf'][li][:] = [b['cnf'][li][i] for i in p]
                    out.append(('alternatives of line %d of %s permuted %s' % (li, label, list(p)), v))
        if nlines >= 1 and not label.endswith(':filter'):
            v = copy.deepcopy(prog)
            b = blocks_of(v)[bi][1]
            li = rng.randrange(nlines)
            b['cnf'].insert(rng.randrange(nlines + 1), copy.deepcopy(b['cnf'][li]))
            out.append(('line %d of %s repeated' % (li, label), v))
    plain = [i for i, r in enumerate(prog['rules']) if not r.get('params')]
    if len(plain) > 1:
        for p in perms(len(plain), rng, 8 if len(plain) > 3 else 24):
            v = copy.deepcopy(prog)
            rs = [v['rules'][i] for i in plain]
            for slot, src in zip(plain, p):
                v['rules'][slot] = rs[src]
            out.append(('rules permuted %s' % list(p), v))
    if plain:
        v = copy.deepcopy(prog)
        i = rng.choice(plain)
        dup = copy.deepcopy(v['rules'][i])
        dup['name'] = dup['name'] + '_copy'
        v['rules'].insert(rng.randrange(len(v['rules']) + 1), dup)
        out.append(('rule %s duplicated as %s' % (prog['rules'][i]['name'], dup['name']), v))
    # filters were transformed through a shadow block: write them back
    for d, v in out:
        for label, b in blocks_of(v):
            pass
    if len(out) > budget:
        out = rng.sample(out, budget)
    return out


def sync_filters(prog):
    """blocks_of hands out shadow blocks for filters: the cnf list object is shared with the query part, so edits made in
    place are already visible; nothing to do (kept for clarity)"""
    return prog


def statuses(outcome, raw):
    if outcome in ('PASS', 'FAIL', 'SKIP'):
        d = {}
        for n, s in e2e.rule_statuses(raw):
            d.setdefault(n, []).append(s)
        return outcome, d
    return outcome, None


def Q(*parts, some=False):
    return {'some': some, 'parts': [(('var', p[1:]) if p.startswith('%') else (('all',) if p == '*' else (('allidx',) if p == '[*]' else ('key', p)))) for p in parts]}


def C(q, op, rhs=None, opnot=False, neg=False):
    return ('cmp', neg, q, op, opnot, rhs, None)


def history_templates():
    """programs whose verdict could depend on which reference populates a memoised variable or a cached rule status first:
    `some` variables read by clauses that treat unresolved entries differently, reference chains top -> mid -> base with a
    later direct reference, a variable shared by several rules, forward and backward references"""
    s = lambda x: ('lit', ('str', x))
    i = lambda x: ('lit', ('int', x))
    t1 = {'lets': [('v', ('q', Q('Resources', '*', 'Properties', 'Mode', some=True))), ('w', ('q', Q('Resources', '*', 'Properties', 'Size')))],
          'rules': [{'name': 'a', 'when': None, 'params': None, 'block': {'lets': [], 'cnf': [[C(Q('%v', some=True), '==', s('on'))], [C(Q('%v'), '==', s('on'))], [C(Q('%v'), 'exists')]]}},
                    {'name': 'b', 'when': None, 'params': None, 'block': {'lets': [], 'cnf': [[C(Q('%w'), '>=', i(1)), C(Q('%v'), 'empty')], [C(Q('%w', some=True), '==', i(5))]]}},
                    {'name': 'c', 'when': [[C(Q('%v'), '!=', s('off'))]], 'params': None, 'block': {'lets': [], 'cnf': [[C(Q('%w'), 'exists')], [('named', False, 'a', None)]]}}],
          'default': []}
    t2 = {'lets': [],
          'rules': [{'name': 'base', 'when': None, 'params': None, 'block': {'lets': [], 'cnf': [[C(Q('a'), 'exists')]]}},
                    {'name': 'mid', 'when': [[('named', False, 'base', None)]], 'params': None, 'block': {'lets': [], 'cnf': [[C(Q('b'), '==', i(1))]]}},
                    {'name': 'top', 'when': None, 'params': None, 'block': {'lets': [], 'cnf': [[('named', False, 'mid', None)]]}},
                    {'name': 'other', 'when': None, 'params': None, 'block': {'lets': [], 'cnf': [[('named', False, 'base', None)], [('named', True, 'mid', None), ('named', False, 'top', None)]]}}],
          'default': []}
    t3 = {'lets': [('x', ('q', Q('items', '[*]', 'k'))), ('lim', ('lit', ('int', 2)))],
          'rules': [{'name': 'r1', 'when': None, 'params': None, 'block': {'lets': [('lim', ('lit', ('int', 5)))], 'cnf': [[C(Q('%x'), '<=', ('q', Q('%lim')))], [C(Q('%x', some=True), '==', i(3))]]}},
                    {'name': 'r2', 'when': None, 'params': None, 'block': {'lets': [], 'cnf': [[C(Q('%x'), '<=', ('q', Q('%lim')))], [('named', False, 'r1', None), ('named', True, 'r3', None)]]}},
                    {'name': 'r3', 'when': [[('named', False, 'r1', None)]], 'params': None, 'block': {'lets': [], 'cnf': [[C(Q('%x', some=True), '>', i(4))]]}}],
          'default': []}
    docs1 = [{"Resources": {"a": {"Properties": {"Mode": "on", "Size": 5}}, "b": {"Properties": {"Size": 1}}}},
             {"Resources": {"a": {"Properties": {"Mode": "off"}}, "b": {"Properties": {"Mode": "on", "Size": 0}}}},
             {"Resources": {"a": {"Properties": {}}}}, {"Resources": {}}]
    docs2 = [{"a": 1, "b": 1}, {"a": 1, "b": 2}, {"b": 1}, {}]
    docs3 = [{"items": [{"k": 1}, {"k": 3}]}, {"items": [{"k": 5}, {"j": 1}]}, {"items": []}, {"items": [{"k": 3}, {"k": 9}]}]
    # one rule name defined twice under mutually exclusive guards (at most one definition applies), referenced by name, with a
    # definition that applies and fails / passes first or last: the reference and the file status must not depend on the order
    t4 = {'lets': [],
          'rules': [{'name': 'sized', 'when': [[C(Q('kind'), '==', s('a'))]], 'params': None, 'block': {'lets': [], 'cnf': [[C(Q('size'), '>=', i(10))]]}},
                    {'name': 'sized', 'when': [[C(Q('kind'), '==', s('b'))]], 'params': None, 'block': {'lets': [], 'cnf': [[C(Q('size'), '>=', i(100))]]}},
                    {'name': 'user', 'when': None, 'params': None, 'block': {'lets': [], 'cnf': [[('named', False, 'sized', None)]]}},
                    {'name': 'typed', 'when': None, 'params': None, 'block': {'lets': [], 'cnf': [[C(Q('kind'), 'exists')], [('named', True, 'sized', None), C(Q('size'), 'exists')]]}}],
          'default': []}
    docs4 = [{"kind": "a", "size": 50}, {"kind": "b", "size": 50}, {"kind": "c", "size": 50}, {"kind": "a", "size": 5}, {"kind": "b", "size": 500}, {"size": 1}]
    return [(t1, docs1), (t2, docs2), (t3, docs3), (t4, docs4)]


def run_diff(ctx, nprog, budget):
    rng = random.Random(ctx.seed * 211 + 4)
    feats = {'cycles': 0.0, 'captures': False}
    base, pairs, owner = [], [], []
    templates = history_templates()
    for k in range(nprog + len(templates)):
        if k < len(templates):
            prog, docs = templates[k]
            vs = variants(prog, rng, 200)
        else:
            doc, prog = gen.gen_pair(rng, feats)
            docs = [doc] + ([gen.gen_doc(rng)] if rng.random() < 0.3 else [])
            vs = variants(prog, rng, budget)
        base.append({'prog': prog, 'docs': docs, 'variants': vs})
        for di, d in enumerate(docs):
            pairs.append((gen.render_file(prog), json.dumps(d)))
            owner.append((k, di, None))
            for vi, (desc, v) in enumerate(vs):
                pairs.append((gen.render_file(v), json.dumps(d)))
                owner.append((k, di, vi))
    outs, raw = e2e.pair_outcomes(pairs, ctx.wd, 'c04pairs', loader='cli')
    res = {}
    for (k, di, vi), o, r in zip(owner, outs, raw):
        res[(k, di, vi)] = statuses(o, r)
    compared = 0
    kinds = {}
    skipped_err = 0
    for k, b in enumerate(base):
        for di, d in enumerate(b['docs']):
            o0, s0 = res[(k, di, None)]
            for vi, (desc, v) in enumerate(b['variants']):
                o1, s1 = res[(k, di, vi)]
                kind = desc.split(' of ')[0].split(' permuted')[0].split(' duplicated')[0]
                if o0 in ('PANIC', 'ABORT') or o1 in ('PANIC', 'ABORT'):
                    continue       # C08
                if s0 is None or s1 is None:
                    skipped_err += 1    # "provided no ordering raises an evaluation error"
                    continue
                compared += 1
                kinds[kind] = kinds.get(kind, 0) + 1
                info = {'class': 'order', 'transformation': desc, 'rules': gen.render_file(b['prog']), 'variant': gen.render_file(v), 'data': json.dumps(d)}
                if o0 != o1:
                    ctx.failing('%s: file status %s becomes %s' % (desc, o0, o1), info, found=True)
                    continue
                for name, sts in s0.items():
                    got = s1.get(name)
                    if got is None or sorted(got) != sorted(sts):
                        ctx.failing('%s: rule %s has status %s, before %s' % (desc, name, got, sts), info, found=True)
                        break
                else:
                    if 'duplicated as' in desc:
                        m = re.search(r'rule (\S+) duplicated as (\S+)', desc)
                        if m and len(s0.get(m.group(1), [])) == 1 and s1.get(m.group(2)) is not None and sorted(set(s1[m.group(2)])) != sorted(set(s0[m.group(1)])):
                            ctx.failing('%s: the copy has status %s, the original %s' % (desc, s1[m.group(2)], s0[m.group(1)]), info, found=True)
    ctx.coverage['programs'] = nprog
    ctx.coverage['history_templates'] = len(templates)
    ctx.coverage['variants_compared'] = compared
    ctx.coverage['variants_skipped_because_an_ordering_errs'] = skipped_err
    ctx.coverage['transformation_kinds'] = kinds
    ctx.coverage['evaluations'] += len(pairs)
    b = base[0]
    if b['variants']:
        ctx.sample({'rules': gen.render_file(b['prog']), 'transformation': b['variants'][0][0], 'variant': gen.render_file(b['variants'][0][1]), 'data': json.dumps(b['docs'][0])})
    return compared, [(gen.render_file(b['prog']), json.dumps(b['docs'][0])) for b in base]


def run_text_orders(ctx):
    """or-lines written in the concrete syntax with every kind of alternative a rule body accepts - short-form type blocks
    (`AWS::X::Y Properties.k >= 1`, no braces), braced type blocks, when blocks, query blocks, named rules, plain clauses - in
    every order: the parser must not let one alternative swallow the next, so the status of the rule cannot depend on the order"""
    import itertools
    alts = {'tb_short': 'AWS::S3::Bucket Properties.Size >= 10', 'tb_short2': 'AWS::SQS::Queue Properties.Delay exists',
            'tb_braced': 'AWS::S3::Bucket {\n    Properties.Name exists\n  }', 'clause_root': 'Mode == "strict"',
            'clause_root2': 'Limit >= 3', 'when_blk': 'when Mode exists {\n    Kind == "x"\n  }',
            'qblock': 'Resources.*.Properties {\n    Size exists\n  }', 'named': 'other', 'not_named': 'not other',
            'tb_when': 'AWS::S3::Bucket when Properties.Size exists {\n    Properties.Size < 100\n  }'}
    docs = [{'Mode': 'strict', 'Limit': 1, 'Kind': 'x', 'Resources': {'b': {'Type': 'AWS::S3::Bucket', 'Properties': {'Size': 5}}, 'q': {'Type': 'AWS::SQS::Queue', 'Properties': {'Size': 1}}}},
            {'Mode': 'lax', 'Limit': 5, 'Kind': 'y', 'Resources': {'b': {'Type': 'AWS::S3::Bucket', 'Properties': {'Size': 50, 'Name': 'n', 'Mode': 'strict', 'Limit': 9}}}},
            {'Limit': 3, 'Resources': {'q': {'Type': 'AWS::SQS::Queue', 'Properties': {'Delay': 0, 'Mode': 'strict'}}}},
            {'Mode': 'strict', 'Resources': {}}]
    names = sorted(alts)
    groups = [c for c in itertools.combinations(names, 2)]
    if ctx.tier == 'thorough':
        groups += [c for c in itertools.combinations(names, 3)]
    else:
        tri = [c for c in itertools.combinations(names, 3) if any(x.startswith('tb_short') for x in c)]
        groups += [c for i, c in enumerate(tri) if i % 3 == ctx.seed % 3]
    pairs, meta = [], []
    for g in groups:
        for perm in itertools.permutations(g):
            text = 'rule other {\n  Kind == "x"\n}\nrule t {\n  ' + ' or\n  '.join(alts[a] for a in perm) + '\n}\n'
            text2 = 'rule other {\n  Kind == "x"\n}\nrule t {\n  Limit exists\n  ' + ' or\n  '.join(alts[a] for a in perm) + '\n  Resources exists\n}\n'
            for di, d in enumerate(docs):
                pairs.append((text, json.dumps(d))); meta.append((g, perm, di, 'alone'))
                pairs.append((text2, json.dumps(d))); meta.append((g, perm, di, 'between lines'))
    outs, raw = e2e.pair_outcomes(pairs, ctx.wd, 'c04text', loader='cli')
    seen = {}
    n = 0
    for (g, perm, di, where), o, r, (text, data) in zip(meta, outs, raw, pairs):
        o1, s1 = statuses(o, r)
        if o1 in ('PANIC', 'ABORT'):
            continue
        st = (o1, tuple(sorted((k, tuple(sorted(v))) for k, v in (s1 or {}).items())))
        key = (g, di, where)
        if key in seen:
            n += 1
            perm0, st0, text0 = seen[key]
            if st0 != st and s1 is not None and st0[1]:
                ctx.failing('alternatives %s written in the order %s: %s; in the order %s: %s (%s)' % (list(g), list(perm0), st0, list(perm), st, where),
                            {'class': 'order', 'transformation': 'alternatives of an or-line permuted (concrete syntax)', 'rules': text0, 'variant': text, 'data': data}, found=True)
        else:
            seen[key] = (perm, st, text)
    ctx.coverage['text_order_groups'] = len(groups)
    ctx.coverage['text_order_comparisons'] = n
    ctx.coverage['evaluations'] += len(pairs)
    return n


def run_near_duplicates(ctx):
    """items that differ only in a detail that is easy to lose - the clauses inside a filter, the definition of a same-named
    variable of a block - written next to each other in every order: (a) rules whose `when` guards and bodies differ only inside
    `[ .. ]`, with file-level function variables over the same queries; (b) lines of one rule that are type blocks / query
    blocks on the same type or query, each with its own `let` of the same name. Statuses must not depend on the order."""
    import itertools
    T = ['AWS::SQS::Queue', 'AWS::SNS::Topic', 'AWS::S3::Bucket']
    rule = lambda nm, ty, prop: ('rule %s when Resources.*[ Type == \'%s\' ] !empty {\n  Resources.*[ Type == \'%s\' ].Properties.%s exists\n}\n' % (nm, ty, ty, prop))
    rules_a = [rule('queues', T[0], 'Delay'), rule('topics', T[1], 'Name'), rule('buckets', T[2], 'Size')]
    lets_a = ['let nq = count(Resources.*[ Type == \'%s\' ])\n' % T[0], 'let nt = count(Resources.*[ Type == \'%s\' ])\n' % T[1]]
    counts = 'rule counts {\n  %nq == 1\n  %nt == 2\n}\n'
    docs_a = [{'Resources': {'q': {'Type': T[0], 'Properties': {'Delay': 1}}, 't1': {'Type': T[1], 'Properties': {}}, 't2': {'Type': T[1], 'Properties': {'Name': 'n'}}}},
              {'Resources': {'b': {'Type': T[2], 'Properties': {'Size': 1}}, 'q': {'Type': T[0], 'Properties': {}}}},
              {'Resources': {'t': {'Type': T[1], 'Properties': {'Name': 'n'}}}}]
    scen = []        # (label, [texts that must agree], docs)
    texts = []
    for lp in itertools.permutations(lets_a):
        for rp in itertools.permutations(rules_a + [counts]):
            texts.append(''.join(lp) + ''.join(rp))
    if ctx.tier != 'thorough':
        texts = texts[::3] + texts[1:8]
    scen.append(('rules and file-level variables that differ only inside a filter', texts, docs_a))
    lines_b = ['AWS::IAM::Role {\n    let want = "admin"\n    Properties.RoleName == %want\n  }',
               'AWS::IAM::Role {\n    let want = "/"\n    Properties.Path == %want\n  }',
               'AWS::S3::Bucket {\n    let want = 5\n    Properties.Size == %want\n  }',
               'Resources.* {\n    let want = Type\n    %want exists\n  }']
    docs_b = [{'Resources': {'r': {'Type': 'AWS::IAM::Role', 'Properties': {'RoleName': 'admin', 'Path': '/'}}, 'b': {'Type': 'AWS::S3::Bucket', 'Properties': {'Size': 5}}}},
              {'Resources': {'r': {'Type': 'AWS::IAM::Role', 'Properties': {'RoleName': 'admin', 'Path': '/x'}}}},
              {'Resources': {'r': {'Type': 'AWS::IAM::Role', 'Properties': {'RoleName': 'dev', 'Path': '/'}}, 'b': {'Type': 'AWS::S3::Bucket', 'Properties': {'Size': 6}}}}]
    texts = ['rule r {\n  ' + '\n  '.join(p) + '\n}\n' for k in (2, 3, 4) for sub in itertools.combinations(lines_b, k) for p in itertools.permutations(sub)]
    groups_b = {}
    for k in (2, 3, 4):
        for sub in itertools.combinations(range(len(lines_b)), k):
            groups_b[sub] = ['rule r {\n  ' + '\n  '.join(lines_b[i] for i in p) + '\n}\n' for p in itertools.permutations(sub)]
    for sub, tx in groups_b.items():
        scen.append(('blocks on the same type / query with a same-named variable each (lines %s)' % (list(sub),), tx if ctx.tier == 'thorough' else tx[:8], docs_b))
    pairs, meta = [], []
    for si, (lab, tx, docs) in enumerate(scen):
        for ti, text in enumerate(tx):
            for di, d in enumerate(docs):
                pairs.append((text, json.dumps(d))); meta.append((si, ti, di))
    outs, raw = e2e.pair_outcomes(pairs, ctx.wd, 'c04dup', loader='cli')
    seen, n = {}, 0
    for (si, ti, di), o, r, (text, data) in zip(meta, outs, raw, pairs):
        o1, s1 = statuses(o, r)
        if o1 not in ('PASS', 'FAIL', 'SKIP'):
            raise ToolingError('near-duplicate scenario does not evaluate: %s %s' % (scen[si][0], o1))
        st = (o1, tuple(sorted((k, tuple(sorted(v))) for k, v in (s1 or {}).items())))
        key = (si, di)
        if key in seen:
            n += 1
            st0, text0 = seen[key]
            if st0 != st:
                ctx.failing('%s: %s in one order, %s in another' % (scen[si][0], st0, st),
                            {'class': 'order', 'transformation': 'items that differ only inside a filter / a block variable, permuted (concrete syntax)', 'rules': text0, 'variant': text, 'data': data}, found=True)
        else:
            seen[key] = (st, text)
    ctx.coverage['near_duplicate_comparisons'] = n
    ctx.coverage['evaluations'] += len(pairs)
    return n


def run_cnf_orders(ctx):
    """enumerated, not sampled: (a) bodies of two and three lines drawn from a universe of or-lines (P, F, S, F|P, F|S, S|S, P|F, S|F,
    F|F|P ...) in every order of the lines and of the alternatives, at three sites (rule body, block, when block); (b) files that
    define a rule name twice or three times with different outcomes, in every order of the rules, next to other rules and with a
    reference; (c) clauses whose first key starts with the letters of a keyword (`orders`, `or_x`, `ORigin`, `android`, `notes`,
    `inner`, `somewhere`, `keys_x`) at every position of a body. Statuses of rules and file must not depend on the order."""
    import itertools
    leaf = {'P': 'a exists', 'F': 'a !exists', 'S': 'l[ x == 99 ].y exists'}
    doc = {'a': 1, 'l': [{'x': 1}], 'blk': {'a': 1, 'l': [{'x': 1}]}, 'orders': 1, 'or_x': 1, 'ORigin': 1, 'android': 1, 'when_x': 1, 'notes': 1, 'inner': 1}
    lines = ['P', 'F', 'S', 'FP', 'FS', 'SS', 'PF', 'SF', 'FFP', 'SP']
    site = {'rule': 'rule r {\n  %s\n}\n', 'block': 'rule r {\n  blk {\n    %s\n  }\n}\n', 'when': 'rule r {\n  when a exists {\n    %s\n  }\n}\n'}
    groups = []      # lists of texts that must agree
    combos = [c for k in (2, 3) for c in itertools.combinations(lines, k)]
    if ctx.tier != 'thorough':
        combos = [c for c in combos if len(c) == 2] + [c for i, c in enumerate(combos) if len(c) == 3 and i % 5 == ctx.seed % 5]
    for c in combos:
        for sname, tpl in site.items():
            if sname != 'rule' and len(c) == 3 and ctx.tier != 'thorough':
                continue
            tx = []
            for perm in itertools.permutations(c):
                tx.append(tpl % '\n    '.join(' or '.join(leaf[x] for x in line) for line in perm))
                tx.append(tpl % '\n    '.join(' or '.join(leaf[x] for x in reversed(line)) for line in perm))
            groups.append(('lines %s at site %s' % (list(c), sname), tx))
    bodies = {'P': 'a exists', 'F': 'a !exists', 'S': 'l[ x == 99 ].y exists'}
    for k in (2, 3):
        for c in itertools.product('PFS', repeat=k):
            if len(set(c)) == 1:
                continue
            rules = ['rule dup {\n  %s\n}\n' % bodies[x] for x in c] + ['rule other {\n  a exists\n}\n']
            tx = [''.join(p_) for p_ in itertools.permutations(rules)]
            groups.append(('rule `dup` defined %d times with outcomes %s' % (k, list(c)), tx if ctx.tier == 'thorough' else tx[:12]))
    kw = ['orders', 'or_x', 'ORigin', 'android', 'notes', 'inner', 'somewhere', 'keys_x']
    for w in kw:
        cl = ['%s exists' % w, 'a exists', 'a == 2 or a == 1']
        tx = ['rule r {\n  %s\n}\n' % '\n  '.join(p_) for p_ in itertools.permutations(cl)]
        tx += ['rule r {\n  a == 2 or\n  %s exists\n  a exists\n}\n' % w, 'rule r {\n  a exists\n  %s exists or\n  a == 2\n}\n' % w]
        groups.append(('a clause whose key starts like a keyword (%s) at every position' % w, tx))
        cl = ['%s == 99' % w, 'a exists', 'a == 1']          # the keyword-like clause FAILs: merged into a neighbour's or-line it would vanish
        tx = ['rule r {\n  %s\n}\n' % '\n  '.join(p_) for p_ in itertools.permutations(cl)]
        tx += ['rule r {\n  blk {\n    %s\n  }\n}\n' % '\n    '.join(p_) for p_ in itertools.permutations(['a exists', '%s == 99' % w.replace('x', 'y')])]
        groups.append(('a failing clause whose key starts like a keyword (%s) at every position' % w, tx))
    # (d) a block evaluated for several values, with a block-level variable (from a function call, a query, a literal) that differs
    # between the values and is used behind / in front of another alternative: which value asks for the variable first depends on
    # the order of the alternatives and lines - the verdict must not (a scope shared between the values would show here)
    gdocs = {}
    vals_a = [{'flag': True, 'xs': [1, 2, 3], 'name': 'AA'}, {'flag': False, 'xs': [1], 'name': 'b'}]
    for vname, vals in (('first-flagged', vals_a), ('last-flagged', list(reversed(vals_a))), ('three', vals_a + [{'flag': False, 'xs': [1, 2], 'name': 'Cc'}])):
        ddoc = {'items': vals, 'm': {'k%d' % i: v for i, v in enumerate(vals)}, 'Resources': {'r%d' % i: {'Type': 'T::A::B', 'Properties': v} for i, v in enumerate(vals)}}
        for lname, (let, use) in {'function count': ('let n = count(xs[*])', '%n <= 1'), 'function to_lower': ('let n = to_lower(name)', '%n == "b"'),
                                  'query': ('let n = xs[*]', '%n < 2'), 'query+filter': ('let n = xs[ this > 1 ]', '%n empty'),
                                  'function join': ('let n = join(xs[*], ",")', '%n == "1"')}.items():
            A, B, Cc = 'flag == true', use, 'name exists'
            bodies_ = [[A + ' or ' + B], [B + ' or ' + A], [Cc, A + ' or ' + B], [A + ' or ' + B, Cc], [Cc, B + ' or ' + A], [B + ' or ' + A, Cc],
                       [A + ' or ' + B, A + ' or ' + B], [A + ' or ' + B, B + ' or ' + A], [B + ' or ' + A, A + ' or ' + B]]
            for sname, (head, tail, ind) in {'list block': ('items[*] {', '}', '    '), 'map block': ('m.* {', '}', '    '), 'filter block': ('items[ name exists ] {', '}', '    '),
                                             'type block': ('T::A::B {', '}', '    '), 'resources block': ("Resources.*[ Type == 'T::A::B' ].Properties {", '}', '    '),
                                             'when inside block': ('items[*] {\n    when name exists {', '}\n  }', '      ')}.items():
                def mk(lines_, head=head, tail=tail, ind=ind, let=let):
                    pre = 'Properties.' if head.startswith('T::') else ''
                    def fix(l_):
                        return l_ if not pre else l_.replace('flag ==', 'Properties.flag ==').replace('name exists', 'Properties.name exists')
                    let_ = let if not pre else let.replace('(xs', '(Properties.xs').replace('(name', '(Properties.name').replace('= xs', '= Properties.xs')
                    return 'rule r {\n  %s\n%s%s\n%s%s\n  %s\n}\n' % (head, ind, let_, ind, ('\n' + ind).join(fix(l_) for l_ in lines_), tail)
                groups.append(('block variable (%s) used behind an alternative, %s, values %s' % (lname, sname, vname), [mk(b_) for b_ in bodies_]))
                gdocs[len(groups) - 1] = ddoc
    pairs, meta = [], []
    for gi, (lab, tx) in enumerate(groups):
        for ti, text in enumerate(tx):
            pairs.append((text, json.dumps(gdocs.get(gi, doc)))); meta.append((gi, ti))
    outs, raw = e2e.pair_outcomes(pairs, ctx.wd, 'c04cnf', loader='cli')
    seen, n = {}, 0
    for (gi, ti), o, r, (text, data) in zip(meta, outs, raw, pairs):
        o1, s1 = statuses(o, r)
        st = (o1, tuple(sorted((k_, tuple(sorted(v))) for k_, v in (s1 or {}).items())))
        if gi in seen:
            n += 1
            st0, text0 = seen[gi]
            if st0 != st:
                ctx.failing('%s: %s in one order, %s in another' % (groups[gi][0], st0, st),
                            {'class': 'order', 'transformation': 'lines / alternatives / rules permuted (enumerated shapes)', 'rules': text0, 'variant': text, 'data': data}, found=True)
        else:
            seen[gi] = (st, text)
    ctx.coverage['enumerated_order_comparisons'] = n
    ctx.coverage['evaluations'] += len(pairs)
    return n


def run(ctx):
    ctx.build()
    pr = ctx.proofs('C04')
    thorough = ctx.tier == 'thorough'
    n, originals = run_diff(ctx, 400 if thorough else 60, 40 if thorough else 16)
    n += run_text_orders(ctx)
    n += run_near_duplicates(ctx)
    n += run_cnf_orders(ctx)
    # the model evaluator agrees with the implementation on the originals (status, error kind, record tree)
    out, errs = corr.run([{'rules': r, 'data': d} for r, d in originals[:300]], ctx.wd, 'c04corr', loader='cli')
    if errs:
        raise ToolingError('model evaluation failed: %r' % (errs[:1],))
    stats = {}
    for o, (r, d) in zip(out, originals):
        key = o['kind'] if o['kind'] != 'compared' else o['verdict']
        stats[key] = stats.get(key, 0) + 1
        if o['kind'] == 'compared' and re.search(r'VDis|VModelOOF|NoModelOutput', o['verdict']):
            ctx.failing('model and implementation disagree on a generated program (%s)' % o['verdict'],
                        {'class': 'eval-correspondence', 'verdict': o['verdict'], 'rules': r, 'data': d}, found=False)
    ctx.coverage['correspondence_verdicts'] = stats
    ctx.coverage['distinct_nontrivial'] = n
    ctx.coverage['rule'] = ('variant = generated capture-free, acyclic program with one transformation (lines of a rule/block/filter permuted, alternatives of an or-line '
                            'permuted, a line repeated, rules permuted, a rule duplicated under a new name) x document; permutations exhaustive up to 4 items, sampled '
                            'beyond; counted when both orderings evaluate without error')
    ctx.coverage['trusted_base'] = [
        'Coq 8.16.1 kernel (coqc), vm_compute for case evaluation; no axioms',
        'hand-written model SEval.v (modelled, not verified); correspondence hook eval_dump + tools/gv glue',
        'the hypothesis `transparent` of the body theorems is not discharged for memoised variables and cached rule statuses: that part is the differential',
    ]
    ctx.assumptions = ['programs with key captures ([ k | ... ], keys captures) are excluded: captures append to the root memo, so repeating a capturing clause changes %k (recorded deviation, DESIGN.md)',
                       'statuses of same-named rules are compared as multisets']
    if not pr['ok']:
        ctx.failing('proof obligations of Props/C04.v no longer check: %s' % (pr.get('problems') or pr.get('log', '')[-500:]),
                    {'class': 'proof', 'theorems': pr['theorems']}, found=False)


def replay(ctx, path):
    j = json.load(open(path))
    for v in j.get('violations', []):
        print(json.dumps(v, indent=1)[:3000])
    return 0
