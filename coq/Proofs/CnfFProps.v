(* CnfFProps.v — the conditions parser over clauses with filtered queries (Model/CnfFParse.single_clauses_f) extends the filter-free
   one (Model/CnfParse.single_clauses): wherever that one answers, this one answers the same.  Generic part: if one clause parser
   extends another, so do the lines and the conjunction built from them. *)
From Coq Require Import Lia.
From GV.Model Require Import Ast.
From GV.Model Require Import ValueParse QueryParse OpParse ClauseParse CnfParse FilterParse ClauseFParse CnfFParse.
From GV.Proofs Require Import LexProps ValueParseProps QueryParseProps ClauseParseProps FilterParseProps ClauseFProps.
Local Open Scope string_scope.
Local Open Scope nat_scope.

Section Generic.
Context {A B : Type}.
Variable elem1 : nat -> string -> pres A.
Variable elem2 : nat -> string -> pres B.
Variable f : A -> B.
Hypothesis Hext : forall n s x, elem1 n s = x -> x <> PUnk -> x <> POof -> forall m, n <= m -> elem2 (S m) s = pmap f x.

Lemma sep_loop_extends n m : n <= m -> forall k acc s x,
  sep_loop or_join (fun t => elem1 n (skip_ws_comments t)) k acc s = x -> x <> PUnk -> x <> POof ->
  forall k', k <= k' -> sep_loop or_join (fun t => elem2 (S m) (skip_ws_comments t)) k' (map f acc) s = pmap (map f) x.
Proof.
  intros L. induction k as [|k IH]; intros acc s x H H1 H2 k' Lk; [cbn in H; congruence|].
  destruct k' as [|k']; [lia|]. cbn [sep_loop] in *. destruct (or_join s) as [s1|]; [|subst x; reflexivity].
  destruct (elem1 n (skip_ws_comments s1)) as [v s2| | | |] eqn:E.
  - rewrite (Hext n _ _ E ltac:(discriminate) ltac:(discriminate) m L). cbn [pmap].
    replace (map f acc ++ [f v])%list with (map f (acc ++ [v])) by (now rewrite map_app). apply IH; [exact H|exact H1|exact H2|lia].
  - rewrite (Hext n _ _ E ltac:(discriminate) ltac:(discriminate) m L). subst x. reflexivity.
  - rewrite (Hext n _ _ E ltac:(discriminate) ltac:(discriminate) m L). subst x. reflexivity.
  - congruence.
  - congruence.
Qed.

Lemma disjunction_extends n m s x : n <= m -> disjunction elem1 n s = x -> x <> PUnk -> x <> POof ->
  disjunction elem2 (S m) s = pmap (map f) x.
Proof.
  intros L H H1 H2. unfold disjunction in *. destruct (elem1 n (skip_ws_comments s)) as [v s1| | | |] eqn:E; try (subst x; congruence).
  - rewrite (Hext n _ _ E ltac:(discriminate) ltac:(discriminate) m L). cbn [pmap].
    apply (sep_loop_extends n m L n [v] s1 x H H1 H2 (S m)). lia.
  - rewrite (Hext n _ _ E ltac:(discriminate) ltac:(discriminate) m L). subst x. reflexivity.
  - rewrite (Hext n _ _ E ltac:(discriminate) ltac:(discriminate) m L). subst x. reflexivity.
Qed.

Lemma cnf_loop_extends : forall k acc s x, cnf_loop elem1 k acc s = x -> x <> PUnk -> x <> POof ->
  forall k', k <= k' -> cnf_loop elem2 (S k') (map (map f) acc) s = pmap (map (map f)) x.
Proof.
  induction k as [|n IH]; intros acc s x H H1 H2 k' L; [cbn in H; congruence|].
  destruct k' as [|m]; [lia|]. cbn [cnf_loop] in H. change (cnf_loop elem2 (S (S m)) (map (map f) acc) s) with
    (match disjunction elem2 (S m) s with
     | POk d r => cnf_loop elem2 (S m) (map (map f) acc ++ [d]) r
     | PErr => match map (map f) acc with [] => PFail | _ => POk (map (map f) acc) s end
     | PFail => PFail | PUnk => PUnk | POof => POof end).
  destruct (disjunction elem1 n s) as [d r| | | |] eqn:E.
  - rewrite (disjunction_extends n m s _ ltac:(lia) E ltac:(discriminate) ltac:(discriminate)). cbn [pmap].
    replace (map (map f) acc ++ [map f d])%list with (map (map f) (acc ++ [d])) by (now rewrite map_app). apply IH; [exact H|exact H1|exact H2|lia].
  - rewrite (disjunction_extends n m s _ ltac:(lia) E ltac:(discriminate) ltac:(discriminate)). cbn [pmap]. subst x. destruct acc; reflexivity.
  - rewrite (disjunction_extends n m s _ ltac:(lia) E ltac:(discriminate) ltac:(discriminate)). subst x. reflexivity.
  - congruence.
  - congruence.
Qed.

End Generic.

Section Conds.
Variable rv : string -> bool.

Definition embed_when (w : pwhen) : fwhen := match w with PWClause c => FWClause (embed_clause c) | PWNamed n => FWNamed n end.

Lemma when_elem_f_extends : forall n s x, when_elem rv n s = x -> x <> PUnk -> x <> POof ->
  forall m, n <= m -> when_elem_f rv (S m) s = pmap embed_when x.
Proof.
  intros n s x H H1 H2 m L. unfold when_elem, when_elem_f in *.
  destruct (clause rv n s) as [c r| | | |] eqn:E; cbn [pmap] in H.
  - rewrite (clause_f_extends rv n s _ E ltac:(discriminate) ltac:(discriminate) m L). subst x. reflexivity.
  - rewrite (clause_f_extends rv n s _ E ltac:(discriminate) ltac:(discriminate) m L). cbn [pmap].
    destruct (call_like s) eqn:Ec; cbn [pmap] in H; try (subst x; (reflexivity || congruence)).
    + exfalso. unfold call_like in Ec. eapply function_like_not_ok. exact Ec.
    + subst x. destruct (rule_clause s); reflexivity.
  - rewrite (clause_f_extends rv n s _ E ltac:(discriminate) ltac:(discriminate) m L). subst x. reflexivity.
  - subst x. congruence.
  - subst x. congruence.
Qed.

Theorem conditions_f_extend : forall s x, single_clauses_top rv s = x -> x <> PUnk -> x <> POof ->
  single_clauses_f_top rv s = pmap (map (map embed_when)) x.
Proof.
  intros s x H H1 H2. unfold single_clauses_f_top, single_clauses_f, single_clauses_top, single_clauses, cnf in *.
  apply (cnf_loop_extends (when_elem rv) (when_elem_f rv) embed_when when_elem_f_extends _ [] s x H H1 H2). lia.
Qed.

End Conds.
