(* CheckSpec.v — C01's monitor: the documented semantics (Spec.v) against an observed result. No proofs. *)
From GV.Model Require Export Check Spec.

Inductive c01_verdict :=
| C01Agree                      (* same file status and same status for every rule *)
| C01AgreeUndef                 (* the semantics is undefined and an evaluation error was raised *)
| C01NotCovered                 (* outside the core fragment (or a crash: C08) *)
| C01FileStatus (spec impl : status)
| C01RuleStatus (name : string) (spec impl : status)
| C01RuleMissing (name : string)
| C01UndefinedButAnswered (impl : status)
| C01DefinedButError.

Fixpoint compare_rules (spec : list (string * status)) (impl : list (string * status)) : option c01_verdict :=
  match spec with
  | [] => None
  | (n, s) :: r =>
      match assoc n impl with
      | None => Some (C01RuleMissing n)
      | Some s' => if status_eqb s s' then compare_rules r impl else Some (C01RuleStatus n s s')
      end
  end.

Definition c01_check (fuel : nat) (rt : re_table) (prog : rules_file) (doc : pv) (impl : impl_result) : c01_verdict :=
  match spec_file (re_of_table rt) (fun _ => true) prog doc fuel, impl with
  | SOut, _ => C01NotCovered
  | _, IPanic | _, IAbort => C01NotCovered
  | SUndef, IErr _ => C01AgreeUndef
  | SUndef, IOk st _ => C01UndefinedButAnswered st
  | SOk _, IErr _ => C01DefinedButError
  | SOk (st, rules), IOk st' rec =>
      if negb (status_eqb st st') then C01FileStatus st st'
      else match compare_rules rules (rule_statuses rec) with
           | Some v => v
           | None => C01Agree
           end
  end.
