(* Report.v — the structured report derived from an evaluation record:
   simplified_json_from_root (eval_context.rs 2402-2435), report_all_failed_clauses_for_rules (1965-2400),
   FileReport::combine (1629-1640). The `context` strings and message texts are not modelled; a reported check
   keeps its kind, operands and custom message. No proofs here. *)
From GV.Model Require Export Wf.

Inductive leaf :=
| LNoValueForEmpty (custom : option string)
| LDependentRule (rule : string) (custom : option string)
| LMissingBlock (from : qres) (custom : option string)
| LUnary (c : cmp) (from : qres) (custom : option string)
| LBinary (c : cmp) (from : qres) (to : option qres) (custom : option string)
| LIn (c : cmp) (from : qres) (to : list qres) (custom : option string).

Inductive creport :=
| RRule (name : string) (msg : option string) (checks : list creport)
| RBlockEmpty
| RDisj (checks : list creport)
| RLeaf (l : leaf).

(* the leaf a ClauseValueCheck is reported as, if it is reported at all *)
Definition leaf_of (cc : clause_check) : option leaf :=
  match cc with
  | CSuccess => None
  | CNoValueForEmptyCheck cu => Some (LNoValueForEmpty cu)
  | CDependentRule rule _ cu _ => Some (LDependentRule rule cu)
  | CMissingBlockValue from _ cu _ => Some (LMissingBlock from cu)
  | CUnary c from _ cu FAIL => Some (LUnary c from cu)
  | CComparison c from to _ cu FAIL =>
      match from, to with
      | QResolved _, None => None            (* `if let Some(to) = to` *)
      | _, _ => Some (LBinary c from to cu)
      end
  | CInComparison c from to _ cu FAIL => Some (LIn c from to cu)
  | _ => None
  end.

Fixpoint report_rec (r : record) : list creport :=
  match r with
  | Rec c ch =>
      let sub := (fix go (l : list record) : list creport :=
                    match l with [] => [] | x :: xs => report_rec x ++ go xs end) ch in
      match c with
      | KRuleCheck n FAIL msg => [RRule n msg sub]
      | KBlockGuardCheck _ FAIL _ => match ch with [] => [RBlockEmpty] | _ => sub end
      | KDisjunction _ FAIL _ => [RDisj sub]
      | KGuardClauseBlockCheck _ FAIL _ | KTypeBlock FAIL | KTypeCheck _ _ FAIL _ | KWhenCheck _ FAIL _ => sub
      | KClauseValueCheck cc => match leaf_of cc with Some l => [RLeaf l] | None => [] end
      | _ => []
      end
  end.
Definition report_failed (l : list record) : list creport := flat_map report_rec l.

Record file_report := mkFileReport {
  fr_status : status;
  fr_not_compliant : list creport;
  fr_not_applicable : list string;     (* BTreeSet: a set; kept as the list of insertions *)
  fr_compliant : list string }.

Definition rule_names_with (st : status) (children : list record) : list string :=
  flat_map (fun c => match rec_container c with
                     | KRuleCheck n s _ => if status_eqb s st then [n] else []
                     | _ => []
                     end) children.

Definition simplified (root : record) : option file_report :=
  match root with
  | Rec (KFileCheck st) children =>
      Some (mkFileReport st (report_failed children) (rule_names_with SKIP children) (rule_names_with PASS children))
  | _ => None      (* unreachable!() *)
  end.

(* FileReport::combine, starting from FileReport::default() whose status is SKIP *)
Definition empty_report : file_report := mkFileReport SKIP [] [] [].
Definition combine (a b : file_report) : file_report :=
  mkFileReport (status_and (fr_status a) (fr_status b))
               (fr_not_compliant a ++ fr_not_compliant b)
               (fr_not_applicable a ++ fr_not_applicable b)
               (fr_compliant a ++ fr_compliant b).
Definition combine_all (l : list file_report) : file_report := fold_left combine l empty_report.

Definition not_compliant_names (l : list creport) : list string :=
  flat_map (fun r => match r with RRule n _ _ => [n] | _ => [] end) l.

(* all leaves listed under a report item *)
Fixpoint leaves (r : creport) : list leaf :=
  match r with
  | RRule _ _ ch | RDisj ch => (fix go (l : list creport) := match l with [] => [] | x :: xs => leaves x ++ go xs end) ch
  | RBlockEmpty => []
  | RLeaf l => [l]
  end.

(* every reportable failing check of a record subtree, wherever it sits *)
Fixpoint failing_checks (r : record) : list leaf :=
  match r with
  | Rec c ch =>
      (match c with KClauseValueCheck cc => match leaf_of cc with Some l => [l] | None => [] end | _ => [] end)
      ++ (fix go (l : list record) := match l with [] => [] | x :: xs => failing_checks x ++ go xs end) ch
  end.

(* the statuses of the top-level rule records *)
Definition rule_entries (children : list record) : list (string * status) :=
  flat_map (fun c => match rec_container c with KRuleCheck n s _ => [(n, s)] | _ => [] end) children.

(* ---- skeleton of a report, for comparison with the JSON the implementation prints ---- *)
Inductive skel :=
| SRule (n : string) (msg : option string) (ch : list skel)
| SBlock (custom : string)
| SDisj (ch : list skel)
| SUnary (custom : string)
| SBinary (custom : string).

Definition ostr (o : option string) : string := match o with Some s => s | None => "" end.

Fixpoint skel_of (r : creport) : skel :=
  match r with
  | RRule n msg ch => SRule n msg (map skel_of ch)
  | RBlockEmpty => SBlock ""
  | RDisj ch => SDisj (map skel_of ch)
  | RLeaf (LNoValueForEmpty cu) => SUnary (ostr cu)
  | RLeaf (LDependentRule _ cu) => SUnary (ostr cu)
  | RLeaf (LMissingBlock _ cu) => SBlock (ostr cu)
  | RLeaf (LUnary _ _ cu) => SUnary (ostr cu)
  | RLeaf (LBinary _ _ _ cu) => SBinary (ostr cu)
  | RLeaf (LIn _ _ _ cu) => SBinary (ostr cu)
  end.

Fixpoint skel_eqb (a b : skel) : bool :=
  match a, b with
  | SRule n m ch, SRule n' m' ch' =>
      String.eqb n n' && option_eqb String.eqb m m' &&
      (fix go (l l' : list skel) : bool :=
         match l, l' with [], [] => true | x :: r, y :: r' => skel_eqb x y && go r r' | _, _ => false end) ch ch'
  | SBlock c, SBlock c' => String.eqb c c'
  | SDisj ch, SDisj ch' =>
      (fix go (l l' : list skel) : bool :=
         match l, l' with [], [] => true | x :: r, y :: r' => skel_eqb x y && go r r' | _, _ => false end) ch ch'
  | SUnary c, SUnary c' => String.eqb c c'
  | SBinary c, SBinary c' => String.eqb c c'
  | _, _ => false
  end.

Fixpoint str_list_eqb (a b : list string) : bool :=
  match a, b with [], [] => true | x :: r, y :: r' => String.eqb x y && str_list_eqb r r' | _, _ => false end.
Fixpoint skel_list_eqb (a b : list skel) : bool :=
  match a, b with [], [] => true | x :: r, y :: r' => skel_eqb x y && skel_list_eqb r r' | _, _ => false end.

(* sorted, de-duplicated insertion (BTreeSet) *)
Fixpoint str_leb (a b : string) : bool :=
  match a, b with
  | EmptyString, _ => true
  | String _ _, EmptyString => false
  | String x r, String y r' =>
      if N.ltb (N_of_ascii x) (N_of_ascii y) then true
      else if N.ltb (N_of_ascii y) (N_of_ascii x) then false else str_leb r r'
  end.
Fixpoint set_insert (x : string) (l : list string) : list string :=
  match l with
  | [] => [x]
  | y :: r => if String.eqb x y then l else if str_leb x y then x :: l else y :: set_insert x r
  end.
Definition to_set (l : list string) : list string := fold_right set_insert [] l.

Inductive report_verdict := RepAgree | RepStatus | RepCompliant | RepNotApplicable | RepNotCompliant | RepNoReport.

(* the implementation's printed report vs the model's report of the implementation's record *)
Definition report_agrees (root : record) (st : status) (nc : list skel) (na c : list string) : report_verdict :=
  match simplified root with
  | None => RepNoReport
  | Some fr =>
      if negb (status_eqb (fr_status fr) st) then RepStatus
      else if negb (str_list_eqb (to_set (fr_compliant fr)) c) then RepCompliant
      else if negb (str_list_eqb (to_set (fr_not_applicable fr)) na) then RepNotApplicable
      else if negb (skel_list_eqb (map skel_of (fr_not_compliant fr)) nc) then RepNotCompliant
      else RepAgree
  end.

(* ---- C07: the other renderings are functions of the same record / report ---- *)

(* summary_table.rs 161-180: three insertion-ordered maps; a rule defined several times is dropped from the
   SKIP table when it also passed or failed *)
Definition summary_passed (children : list record) : list string := rule_names_with PASS children.
Definition summary_failed (children : list record) : list string := rule_names_with FAIL children.
Definition summary_skipped (children : list record) : list string :=
  filter (fun n => negb (existsb (String.eqb n) (rule_names_with PASS children)
                         || existsb (String.eqb n) (rule_names_with FAIL children)))
         (rule_names_with SKIP children).

(* ClauseReport::get_message: the flattened list of reported checks; one SARIF result each (sarif.rs 124-...) *)
Fixpoint message_count (r : creport) : nat :=
  match r with
  | RRule _ _ ch | RDisj ch =>
      (fix go (l : list creport) : nat := match l with [] => O | x :: xs => (message_count x + go xs)%nat end) ch
  | RBlockEmpty => 1%nat
  | RLeaf _ => 1%nat
  end.
Definition sarif_result_count (fr : file_report) : nat :=
  match fr_status fr with
  | FAIL => fold_right (fun r acc => (message_count r + acc)%nat) O (fr_not_compliant fr)
  | _ => O      (* SarifRun::from keeps only FAIL reports *)
  end.

(* the reported checks of a report tree: its leaves (Report.leaves) and its empty-block entries *)
Fixpoint empty_blocks (r : creport) : nat :=
  match r with
  | RRule _ _ ch | RDisj ch =>
      (fix go (l : list creport) : nat := match l with [] => O | x :: xs => (empty_blocks x + go xs)%nat end) ch
  | RBlockEmpty => 1%nat
  | RLeaf _ => O
  end.
Definition check_nodes (r : creport) : nat := (List.length (leaves r) + empty_blocks r)%nat.

(* JUnit: one test case per (data file, rules file): its mark is the status of that evaluation (reporters/mod.rs 107-171) *)
Inductive junit_mark := JPass | JFail | JSkip.
Definition junit_mark_of (st : status) : junit_mark :=
  match st with PASS => JPass | FAIL => JFail | SKIP => JSkip end.
