(* RuleOrderProps.v — the order in which the rules of a file are written does not matter (C04), for capture-free
   programs with distinct rule names: every rule gets the same status and the file the same status, forward
   references and already-evaluated (cached) rules included.
   Proof: the memo-free evaluator PEval depends on the program only through `rules_named` and `find_param_rule`,
   which a permutation of distinctly named rules leaves unchanged; SEval is simulated by PEval (MemoProps). *)
From GV.Model Require Import SEval PEval.
From GV.Proofs Require Import StatusProps EvalLaws FuelProps FrameProps MemoProps.
From Coq Require Import Permutation Lia.

Section Cong.
Variable re : re_oracle.
Variable conv : conv_oracle.
Variables prog prog' : rules_file.
Hypothesis Hnamed : forall name, rules_named prog name = rules_named prog' name.
Hypothesis Hparam : forall dep, find_param_rule prog dep = find_param_rule prog' dep.
Variables r r2 : ev.
Hypothesis Hle : ev_le r r2.

Let Hq := proj1 Hle.
Let Hc := proj1 (proj2 Hle).
Let Hrule := proj1 (proj2 (proj2 Hle)).
Let Hres := proj1 (proj2 (proj2 (proj2 Hle))).
Let Hfn := proj2 (proj2 (proj2 (proj2 Hle))).

Ltac ph := first [apply Hq | apply Hc | apply Hrule | apply Hres | apply Hfn].
Ltac pl := first [apply (ml_ctx_query r r2 Hle) | apply (ml_gblock_body r r2 Hle) | apply (ml_access_clause_body re r r2 Hle)
                 | apply (ml_block_clause_body r r2 Hle) | apply (ml_first_non_skip r r2 Hle)].
Ltac pl2 := fail.
Ltac pss := repeat first [pl2 | pl | ph | ml_step].

Lemma mlp_rule_status_body name : mle (rule_status_body' prog r name) (rule_status_body' prog' r2 name).
Proof.
  unfold rule_status_body', rule_status_inner'. apply mle_at_root. rewrite <- Hnamed.
  destruct (rules_named prog name); [apply mle_refl|apply (ml_first_non_skip r r2 Hle)].
Qed.

Lemma mlp_named_clause_body n : mle (named_clause_body' prog r n) (named_clause_body' prog' r2 n).
Proof. unfold named_clause_body'. destruct n. apply mle_node. apply mle_bind; [apply mlp_rule_status_body|intros; apply mle_refl]. Qed.

Lemma mlp_param_call_body params n : mle (param_call_body prog r params n) (param_call_body prog' r2 params n).
Proof. unfold param_call_body. destruct n as [dep neg custom]. rewrite <- Hparam. pss. Qed.
Ltac pl2 ::= first [apply mlp_named_clause_body | apply mlp_param_call_body].

Lemma mlp_when_clause_body w : mle (when_clause_body' re prog r w) (when_clause_body' re prog' r2 w).
Proof. unfold when_clause_body'. pss. Qed.
Ltac pl2 ::= first [apply mlp_named_clause_body | apply mlp_param_call_body | apply mlp_when_clause_body].

Lemma mlp_when_block_body conds b : mle (when_block_body' re prog r conds b) (when_block_body' re prog' r2 conds b).
Proof. unfold when_block_body'. pss. Qed.
Ltac pl2 ::= first [apply mlp_named_clause_body | apply mlp_param_call_body | apply mlp_when_clause_body | apply mlp_when_block_body].

Lemma mlp_clause_body g : mle (clause_body' re prog r g) (clause_body' re prog' r2 g).
Proof. unfold clause_body'. pss. Qed.

Lemma mlp_type_block_body tn conds b q : mle (type_block_body' re prog r tn conds b q) (type_block_body' re prog' r2 tn conds b q).
Proof. unfold type_block_body'. pss. Qed.

Lemma mlp_rule_clause_body c : mle (rule_clause_body' re prog r c) (rule_clause_body' re prog' r2 c).
Proof. unfold rule_clause_body'. pss; apply mlp_type_block_body. Qed.

Lemma mlp_rule_body x : mle (rule_body' re prog r x) (rule_body' re prog' r2 x).
Proof. unfold rule_body'. pss; apply mlp_rule_clause_body. Qed.

Lemma mlp_resolve_scope is_root root lets name : mle (resolve_scope' r is_root root lets name) (resolve_scope' r2 is_root root lets name).
Proof. unfold resolve_scope'. pss. Qed.

Lemma mlp_resolve_body name : mle (resolve_body' r name) (resolve_body' r2 name).
Proof.
  intros s. unfold resolve_body'. destruct (frames s) as [|f fs]; [right; reflexivity|].
  destruct f as [root l memo|root l memo|root|b c m].
  - apply mlp_resolve_scope.
  - apply mlp_resolve_scope.
  - apply mle_with_parent. apply Hres.
  - destruct (assoc name b); [right; reflexivity|]. apply mle_with_parent. apply Hres.
Qed.
End Cong.

(* the memo-free evaluators of two programs that define the same rules under every name are the same function *)
Theorem evalP_cong re conv prog prog' :
  (forall name, rules_named prog name = rules_named prog' name) ->
  (forall dep, find_param_rule prog dep = find_param_rule prog' dep) ->
  forall k, ev_le (evalP re conv prog k) (evalP re conv prog' k).
Proof.
  intros Hn Hp k. induction k as [|k IH].
  - apply ev_le_refl.
  - cbn [evalP]. split; [|split; [|split; [|split]]]; cbn [ev_query ev_clause ev_rule ev_resolve ev_fn].
    + intros qi q cur cv. apply ml_query_body; exact IH.
    + intros g. apply mlp_clause_body; assumption.
    + intros x. apply mlp_rule_body; assumption.
    + intros nm. apply mlp_resolve_body; assumption.
    + intros f ps. apply ml_fn_body; exact IH.
Qed.

Lemma mle_antisym {A} (m m' : M A) : mle m m' -> mle m' m -> forall s, m s = m' s.
Proof.
  intros H1 H2 s. destruct (H1 s) as [E|E]; [|exact E]. destruct (H2 s) as [E2|E2]; congruence.
Qed.

(* a permutation of distinctly named rules defines the same rules under every name *)
Lemma filter_perm {A} (p : A -> bool) l l' : Permutation l l' -> Permutation (filter p l) (filter p l').
Proof.
  induction 1 as [|x l l' Hp IH|x y l|l l' l'' H1 IH1 H2 IH2]; cbn.
  - constructor.
  - destruct (p x); [constructor; exact IH|exact IH].
  - destruct (p x), (p y); try apply Permutation_refl. apply perm_swap.
  - eapply perm_trans; eassumption.
Qed.

Lemma filter_name_short rules name : NoDup (map rule_name rules) ->
  (List.length (filter (fun x => String.eqb (rule_name x) name) rules) <= 1)%nat.
Proof.
  induction rules as [|x rules IH]; intros Hnd; cbn; [lia|]. inversion Hnd as [|? ? Hnin Hnd']; subst.
  destruct (String.eqb (rule_name x) name) eqn:E; [|apply IH; exact Hnd'].
  apply String.eqb_eq in E. cbn.
  assert (Z : filter (fun y => String.eqb (rule_name y) name) rules = []).
  { clear IH Hnd Hnd'. induction rules as [|y rules IHr]; [reflexivity|]. cbn.
    destruct (String.eqb (rule_name y) name) eqn:Ey.
    - exfalso. apply Hnin. apply String.eqb_eq in Ey. left. congruence.
    - apply IHr. intros Hin. apply Hnin. right. exact Hin. }
  rewrite Z. cbn. lia.
Qed.

Lemma rules_named_perm lets prs rules rules' name :
  NoDup (map rule_name rules) -> Permutation rules rules' ->
  rules_named (mkRulesFile lets rules prs) name = rules_named (mkRulesFile lets rules' prs) name.
Proof.
  intros Hnd Hp. unfold rules_named. cbn [rf_rules].
  pose proof (filter_perm (fun x => String.eqb (rule_name x) name) _ _ Hp) as P.
  pose proof (filter_name_short rules name Hnd) as L.
  destruct (filter (fun x => String.eqb (rule_name x) name) rules) as [|a [|b l]] eqn:E.
  - apply Permutation_nil in P. symmetry. exact P.
  - apply Permutation_length_1_inv in P. symmetry. exact P.
  - cbn in L. lia.
Qed.

Lemma Forall2_weaken {A B} (P Q : A -> B -> Prop) l b : (forall x y, P x y -> Q x y) -> Forall2 P l b -> Forall2 Q l b.
Proof. intros H F. induction F; constructor; auto. Qed.

Section RuleOrder.
Variable re : re_oracle.
Variable conv : conv_oracle.
Variables (lets : list let_expr) (prs : list param_rule) (rules rules' : list rule).
Let prog := mkRulesFile lets rules prs.
Let prog' := mkRulesFile lets rules' prs.
Hypothesis Hnc : nc_prog prog = true.
Hypothesis Hnd : NoDup (map rule_name rules).
Hypothesis Hperm : Permutation rules rules'.

Lemma nc_prog' : nc_prog prog' = true.
Proof.
  pose proof Hnc as H0. unfold nc_prog, prog, prog' in *. cbn [rf_lets rf_rules rf_param_rules] in *.
  apply andb_prop in H0 as [H12 H3]. apply andb_prop in H12 as [H1 H2]. rewrite H1, H3. cbn.
  rewrite Bool.andb_true_r. rewrite forallb_forall in *. intros x Hx. apply H2.
  eapply Permutation_in; [apply Permutation_sym; exact Hperm|exact Hx].
Qed.

(* the denotation of a rule: what the memo-free evaluator of the ORIGINAL file computes for it from the initial state *)
Definition rule_den (doc : pv) (x : rule) (st : status) : Prop :=
  computes (fun k => ev_rule (evalP re conv prog k) x) (init_state prog doc) st.

Lemma rule_den_fun doc x a b : rule_den doc x a -> rule_den doc x b -> a = b.
Proof. apply computes_functional. Qed.

Lemma evalP_same k : forall x s, ev_rule (evalP re conv prog' k) x s = ev_rule (evalP re conv prog k) x s.
Proof.
  intros x s.
  assert (Hn : forall name, rules_named prog name = rules_named prog' name) by (intros; apply rules_named_perm; assumption).
  assert (Hp : forall dep, find_param_rule prog dep = find_param_rule prog' dep) by reflexivity.
  apply mle_antisym.
  - apply (proj1 (proj2 (proj2 (evalP_cong re conv prog' prog (fun nm => eq_sym (Hn nm)) (fun d => eq_sym (Hp d)) k)))).
  - apply (proj1 (proj2 (proj2 (evalP_cong re conv prog prog' Hn Hp k)))).
Qed.

Lemma file_trace (p : rules_file) n doc st recs s' : nc_prog p = true ->
  eval_file re conv p n doc = Done (st, recs, s') ->
  exists sts, Forall2 (fun x b => computes (fun k => ev_rule (evalP re conv p k) x) (init_state p doc) b) (rf_rules p) sts /\
              st = fold_fail_pass_skip sts.
Proof.
  intros Hp H. unfold eval_file, file_body in H. apply node_inv in H as (ch & H & _).
  apply bind_inv in H as (sts & r1 & s1 & r2 & H1 & H2 & _). apply ret_inv in H2 as (-> & _ & _).
  exists sts. split; [|reflexivity].
  pose proof (evalN_sim re conv p Hp n) as (_ & _ & Hrule & _).
  assert (Hin : forall x, In x (rf_rules p) ->
            sim p (evalP re conv p) (ev_rule (evalN re conv p n) x) (fun k => ev_rule (evalP re conv p k) x)).
  { intros x Hx. apply Hrule. unfold nc_prog in Hp. apply andb_prop in Hp as [H12 _]. apply andb_prop in H12 as [_ Hr].
    rewrite forallb_forall in Hr. apply Hr. exact Hx. }
  destruct (mapM_sim_trace p (evalP re conv p) (ev_rule (evalN re conv p n)) (fun k => ev_rule (evalP re conv p k)) (rf_rules p) Hin
              _ _ _ _ (init_state_valid re conv p doc Hp) H1) as (F & _ & _).
  exact F.
Qed.

(* the file status does not depend on the order in which the rules are written *)
Theorem rule_order_file_status n n' doc st st' recs recs' s1 s2 :
  eval_file re conv prog n doc = Done (st, recs, s1) ->
  eval_file re conv prog' n' doc = Done (st', recs', s2) -> st = st'.
Proof.
  intros H1 H2.
  destruct (file_trace prog n doc _ _ _ Hnc H1) as (sts & F1 & ->).
  destruct (file_trace prog' n' doc _ _ _ nc_prog' H2) as (sts' & F2 & ->).
  assert (F2' : Forall2 (rule_den doc) rules' sts').
  { cbn [rf_rules] in F2. eapply Forall2_weaken; [|exact F2]. intros x b [k0 Hk]. exists k0. intros k Hle.
    destruct (Hk k Hle) as [rc E]. exists rc. rewrite <- evalP_same. exact E. }
  cbn [rf_rules] in F1.
  destruct (Forall2_perm _ _ _ _ _ _ F1 Hperm) as (b' & F3 & P).
  pose proof (Forall2_functional _ _ _ (rule_den_fun doc) _ _ _ F3 F2') as ->.
  apply fold_fail_pass_skip_perm. exact P.
Qed.

(* ... and neither does the status of any rule *)
Theorem rule_order_rule_status n n' doc st st' recs recs' s1 s2 :
  eval_file re conv prog n doc = Done (st, recs, s1) ->
  eval_file re conv prog' n' doc = Done (st', recs', s2) ->
  exists sts sts', Forall2 (rule_den doc) rules sts /\ Forall2 (rule_den doc) rules' sts' /\
                   st = fold_fail_pass_skip sts /\ st' = fold_fail_pass_skip sts'.
Proof.
  intros H1 H2.
  destruct (file_trace prog n doc _ _ _ Hnc H1) as (sts & F1 & ->).
  destruct (file_trace prog' n' doc _ _ _ nc_prog' H2) as (sts' & F2 & ->).
  exists sts, sts'. split; [exact F1|split; [|split; reflexivity]].
  cbn [rf_rules] in F2. eapply Forall2_weaken; [|exact F2]. intros x b [k0 Hk]. exists k0. intros k Hle.
  destruct (Hk k Hle) as [rc E]. exists rc. rewrite <- evalP_same. exact E.
Qed.

End RuleOrder.
