(* C09 — the structured report partitions the rules exactly as they were evaluated. Pinned statements only. *)
From GV.Model Require Import Report.
From GV.Proofs Require Import StatusProps ReportProps TableProps.
From GV.Generated Require Import EvalTables.

(* distinct rule names: every evaluated rule is in exactly one of compliant (PASS), not_applicable (SKIP),
   not_compliant (FAIL) *)
Theorem C09_partition_exactly_one : forall st children n s,
  all_rule_records children -> NoDup (map fst (rule_entries children)) ->
  In (n, s) (rule_entries children) ->
  forall fr, simplified (Rec (KFileCheck st) children) = Some fr ->
  (In n (fr_compliant fr) <-> s = PASS) /\
  (In n (fr_not_applicable fr) <-> s = SKIP) /\
  (In n (not_compliant_names (fr_not_compliant fr)) <-> s = FAIL).
Proof. exact partition_exactly_one. Qed.
Print Assumptions C09_partition_exactly_one.

(* file status: FAIL iff not_compliant is non-empty, PASS iff it is empty and compliant is not, else SKIP *)
Theorem C09_file_status_rule : forall children fr,
  all_rule_records children ->
  simplified (Rec (KFileCheck (fold_fail_pass_skip (map snd (rule_entries children)))) children) = Some fr ->
  (fr_status fr = FAIL <-> not_compliant_names (fr_not_compliant fr) <> []) /\
  (fr_status fr = PASS <-> not_compliant_names (fr_not_compliant fr) = [] /\ fr_compliant fr <> []) /\
  (fr_status fr = SKIP <-> not_compliant_names (fr_not_compliant fr) = [] /\ fr_compliant fr = []).
Proof. exact file_status_rule. Qed.
Print Assumptions C09_file_status_rule.

(* several rules files against one data file: the union of the individual reports *)
Theorem C09_combine_is_union : forall l,
  fr_not_compliant (combine_all l) = flat_map fr_not_compliant l /\
  fr_not_applicable (combine_all l) = flat_map fr_not_applicable l /\
  fr_compliant (combine_all l) = flat_map fr_compliant l /\
  fr_status (combine_all l) = fold_fail_pass_skip (map fr_status l).
Proof. exact combine_is_union. Qed.
Print Assumptions C09_combine_is_union.

(* every check listed under a rule is a failing check of that rule's own subtree ... *)
Theorem C09_listed_checks_are_failing_checks : forall r l,
  In l (flat_map leaves (report_rec r)) -> In l (failing_checks r).
Proof. exact listed_checks_are_failing_checks. Qed.
Print Assumptions C09_listed_checks_are_failing_checks.

(* ... it is the image of a ClauseValueCheck record of that subtree (and so carries its custom message) ... *)
Theorem C09_failing_check_origin : forall r l,
  In l (failing_checks r) -> exists cc, In cc (value_checks r) /\ leaf_of cc = Some l.
Proof. exact failing_check_origin. Qed.
Print Assumptions C09_failing_check_origin.

(* ... whose status is FAIL *)
Theorem C09_reported_leaf_failed : forall cc l, leaf_of cc = Some l ->
  match cc with
  | CSuccess => False
  | CComparison _ _ _ _ _ st | CInComparison _ _ _ _ _ st | CUnary _ _ _ _ st => st = FAIL
  | CNoValueForEmptyCheck _ | CDependentRule _ _ _ _ | CMissingBlockValue _ _ _ _ => True
  end.
Proof. exact reported_leaf_failed. Qed.
Print Assumptions C09_reported_leaf_failed.

(* every FAIL rule is listed even when no individual check can be shown; nothing is listed under a rule that
   passed or was skipped *)
Theorem C09_rule_report_by_status : forall n s msg ch,
  (s <> FAIL -> report_rec (Rec (KRuleCheck n s msg) ch) = []) /\
  (s = FAIL -> report_rec (Rec (KRuleCheck n s msg) ch) = [RRule n msg (report_failed ch)]).
Proof. exact rule_report_by_status. Qed.
Print Assumptions C09_rule_report_by_status.

(* FileReport::combine folds the statuses with Status::and: the model's status_and is the truth table obtained by interpreting the
   match arms of the Rust source (regenerated on every run) *)
Theorem C09_status_and_is_the_source_table : forall a b,
  lookup3 (status_name a) (status_name b) src_status_and = Some (status_name (status_and a b)).
Proof. exact status_and_is_the_source_table. Qed.
Print Assumptions C09_status_and_is_the_source_table.
