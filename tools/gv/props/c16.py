"""C16 — `cfn-guard test` agrees with `cfn-guard validate`.

proof   : Props/C16.v over Model/TestCmd.v (get_status_result, get_by_rules, classification, JUnit marks)
tie     : exhaustive correspondence of get_status_result through the hook (expected x status lists up to the tier's
          length, matched AND listed statuses); end-to-end: `test -o json` of the real binary vs the model's
          classification of the statuses the hook harness records for the same rules/input (c16_case_obs, in Coq)
monitor : statuses reported by `test` vs `validate --structured -o json` on the same document (uniquely named
          rules); plain / JSON / YAML / JUnit renderings of the same run agree; exit code 7 iff a failed rule
"""
import json, random, os, itertools, re
import yaml
import xml.etree.ElementTree as ET
from .. import coqterm as ct
from .. import impl, model, gen, e2e
from ..common import *

ST = ['PASS', 'FAIL', 'SKIP']
HEADER = 'From Coq Require Import String.\nFrom GV.Model Require Import TestCmd.\n'


def exhaustive_gsr(ctx, maxlen):
    ops, meta = [], []
    for exp in ST:
        for n in range(0, maxlen + 1):
            for l in itertools.product(ST, repeat=n):
                ops.append({'op': 'tsr', 'expected': exp, 'statuses': list(l)})
                meta.append((exp, l))
    res = impl.run_ops_parallel(ops, ctx.wd, 'c16tsr')
    cases = []
    for i, ((exp, l), r) in enumerate(zip(meta, res)):
        if 'res' not in r:
            ctx.failing('get_status_result crashed on %s %s' % (exp, l), {'class': 'gsr-crash', 'expected': exp, 'statuses': l}, found=True)
            continue
        m = r['res']['matched']
        seen = r['res']['seen']
        cases.append((i, '', 'gsr_obs %s %s %s %s' % (exp, ct.clist(l), ('(Some %s)' % m) if m else 'None', ct.clist(seen))))
    verdicts, errors = model.eval_cases(cases, ctx.wd, 'c16gsr', header=HEADER, per_file=400)
    if errors:
        raise ToolingError('model evaluation failed: %r' % (errors[:1],))
    for i, _, _ in cases:
        if verdicts.get(i) != 'true':
            exp, l = meta[i]
            # the statement itself decides whether this is a failing input
            want = (exp != 'SKIP' and exp in l) or (exp == 'SKIP' and all(x == 'SKIP' for x in l))
            got = res[i]['res']['matched'] is not None
            ctx.failing('get_status_result(%s, %s): implementation %s, model/statement %s' % (exp, list(l), res[i]['res'], want),
                        {'class': 'gsr', 'expected': exp, 'statuses': list(l), 'impl': res[i]['res']}, found=(got != want))
    ctx.coverage['gsr_cases'] = len(cases)
    ctx.coverage['exhaustive'] = True
    ctx.coverage['evaluations'] += len(cases)
    return len(cases)


def parse_plain(text):
    """-> list of cases: dict(passed=[(name, exp)], failed=[(name, exp, [evaluated])], noexp=[names])"""
    cases, cur, section = [], None, None
    for line in text.splitlines():
        if line.startswith('Test Case #'):
            cur = {'passed': [], 'failed': [], 'noexp': []}
            cases.append(cur)
            section = None
            continue
        if cur is None:
            continue
        m = re.match(r'^  No Test expectation was set for Rule (.*)$', line)
        if m:
            cur['noexp'].append(m.group(1))
            continue
        if line.startswith('  PASS Rules:'):
            section = 'P'
            continue
        if line.startswith('  FAIL Rules:'):
            section = 'F'
            continue
        m = re.match(r'^    (.*): Expected = (\w+)(?:, Evaluated = \[(.*)\])?$', line)
        if m and section == 'P':
            cur['passed'].append((m.group(1), m.group(2)))
        elif m and section == 'F':
            cur['failed'].append((m.group(1), m.group(2), [x.strip() for x in (m.group(3) or '').split(',') if x.strip()]))
    return cases


def run_e2e(ctx, nfiles):
    rng = random.Random(ctx.seed * 131 + 16)
    scen = []
    while len(scen) < nfiles:
        doc, prog = gen.gen_pair(rng, {'cycles': 0.0, 'functions': False})
        rules = gen.render_file(prog)
        inputs = [doc] + [gen.gen_doc(rng) for _ in range(rng.choice([0, 1, 2, 3]))]
        scen.append({'rules': rules, 'inputs': inputs})
    pairs, index = [], []
    for k, sc in enumerate(scen):
        for b, inp in enumerate(sc['inputs']):
            pairs.append((sc['rules'], json.dumps(inp)))
            index.append((k, b))
    outs, raw = e2e.pair_outcomes(pairs, ctx.wd, 'c16pairs', loader='test')
    sts = {}
    for (k, b), o, rw in zip(index, outs, raw):
        sts[(k, b)] = (o, e2e.rule_statuses(rw) if o in ST else None)
    jobs, meta = [], []
    usable = []
    for k, sc in enumerate(scen):
        if any(sts[(k, b)][0] not in ST for b in range(len(sc['inputs']))):
            continue    # parse errors / evaluation errors / crashes: C06 and C08
        usable.append(k)
        d = os.path.join(ctx.wd, 's%d' % k)
        spec = []
        sc['exps'] = []
        for b, inp in enumerate(sc['inputs']):
            statuses = sts[(k, b)][1]
            names = []
            for n, _ in statuses:
                if n not in names:
                    names.append(n)
            exps = {}
            for n in names:
                r = rng.random()
                own = [s for (m, s) in statuses if m == n]
                if r < 0.2:
                    continue
                if r < 0.65:
                    exps[n] = rng.choice(own)
                else:
                    exps[n] = rng.choice(ST)
            sc['exps'].append(exps)
            spec.append({'name': 'case%d' % b, 'input': inp, 'expectations': {'rules': exps}})
        files = {'r.guard': sc['rules'], 'tests/r_tests.yaml': json.dumps(spec)}
        for b, inp in enumerate(sc['inputs']):
            files['in%d.json' % b] = json.dumps(inp)
        e2e.write_files(d, files)
        for fmt in ('json', 'yaml', 'junit', 'plain'):
            args = ['test', '-a', '-r', 'r.guard', '-t', 'tests/r_tests.yaml'] + ([] if fmt == 'plain' else ['-o', fmt])
            jobs.append({'args': args, 'cwd': d})
            meta.append((k, fmt, None))
        for b in range(len(sc['inputs'])):
            jobs.append({'args': ['validate', '-r', 'r.guard', '-d', 'in%d.json' % b, '--structured', '-o', 'json', '-S', 'none'], 'cwd': d})
            meta.append((k, 'validate', b))
    res = e2e.run_many(jobs)
    out = {}
    for (k, fmt, b), r in zip(meta, res):
        out[(k, fmt, b)] = r
    cases, cinfo = [], {}
    cid = 0
    n_rules = 0
    dist = {'matched': 0, 'mismatch': 0, 'noexp': 0, 'dup_names': 0}
    for k in usable:
        sc = scen[k]
        info = {'class': 'test-vs-validate', 'rules': sc['rules'], 'inputs': sc['inputs'], 'expectations': sc['exps']}
        code, so, se = out[(k, 'json', None)]
        try:
            tj = json.loads(so.decode())
            tcs = tj['test_cases']
        except Exception:
            ctx.failing('test -o json did not produce a JSON test report (exit %s)' % (code,), dict(info, stdout=so[:500].decode('utf-8', 'replace'), stderr=se[-500:].decode('utf-8', 'replace')), found=True)
            continue
        if len(tcs) != len(sc['inputs']):
            ctx.failing('test -o json reports %d cases for %d inputs' % (len(tcs), len(sc['inputs'])), info, found=True)
            continue
        any_failed = False
        for b, tc in enumerate(tcs):
            statuses = sts[(k, b)][1]
            exps = sc['exps'][b]
            passed = [(p['name'], p['evaluated']) for p in tc['passed_rules']]
            failed = [(f['name'], f['expected'], f['evaluated']) for f in tc['failed_rules']]
            skipped = [s['name'] for s in tc['skipped_rules']]
            any_failed = any_failed or bool(failed)
            n_rules += len(passed) + len(failed) + len(skipped)
            dist['matched'] += len(passed); dist['mismatch'] += len(failed); dist['noexp'] += len(skipped)
            if len(set(n for n, _ in statuses)) != len(statuses):
                dist['dup_names'] += 1
            term = 'c16_case_obs %s %s %s %s %s' % (
                ct.clist(['(%s, %s)' % (ct.cstr(n), e) for n, e in exps.items()]),
                ct.clist(['(%s, %s)' % (ct.cstr(n), s) for n, s in statuses]),
                ct.clist(['(%s, %s)' % (ct.cstr(n), s) for n, s in passed]),
                ct.clist(['(%s, (%s, %s))' % (ct.cstr(n), e, ct.clist(ev)) for n, e, ev in failed]),
                ct.clist([ct.cstr(n) for n in skipped]))
            cases.append((cid, '', term))
            cinfo[cid] = (k, b, dict(info, case=b, test_case=tc, hook_statuses=statuses))
            cid += 1
            # --- validate on the same document: uniquely named rules must have the status test reports
            vcode, vso, vse = out[(k, 'validate', b)]
            try:
                vj = json.loads(vso.decode())[0]
            except Exception:
                ctx.failing('validate --structured -o json produced no report (exit %s)' % (vcode,), dict(info, case=b), found=True)
                continue
            vstat = {}
            for key, st in (('compliant', 'PASS'), ('not_applicable', 'SKIP')):
                for n in vj.get(key, []):
                    vstat.setdefault(n, []).append(st)
            for r in vj.get('not_compliant', []):
                if 'Rule' in r:
                    vstat.setdefault(r['Rule']['name'], []).append('FAIL')
            counts = {}
            for n, _ in statuses:
                counts[n] = counts.get(n, 0) + 1
            for n, ev in passed:
                if counts.get(n) == 1 and vstat.get(n) != [ev]:
                    ctx.failing('rule %s: test reports evaluated=%s, validate reports %s on the same document' % (n, ev, vstat.get(n)), dict(info, case=b), found=True)
            for n, e, ev in failed:
                if counts.get(n) == 1 and vstat.get(n) != ev:
                    ctx.failing('rule %s: test reports evaluated=%s, validate reports %s on the same document' % (n, ev, vstat.get(n)), dict(info, case=b), found=True)
        # --- renderings agree
        ycode, yso, yse = out[(k, 'yaml', None)]
        try:
            import yaml
            yj = yaml.safe_load(yso.decode())
            if yj != tj:
                ctx.failing('test -o yaml and -o json denote different reports', dict(info, yaml=yso[:800].decode('utf-8', 'replace')), found=True)
        except ImportError:
            pass
        except Exception as e:
            ctx.failing('test -o yaml output is not well-formed YAML: %s' % e, info, found=True)
        pcode, pso, pse = out[(k, 'plain', None)]
        pcs = parse_plain(pso.decode('utf-8', 'replace'))
        if len(pcs) != len(tcs):
            ctx.failing('plain test output has %d cases, JSON has %d' % (len(pcs), len(tcs)), dict(info, plain=pso[:800].decode('utf-8', 'replace')), found=True)
        else:
            for b, (pc, tc) in enumerate(zip(pcs, tcs)):
                jp = sorted((p['name'], p['evaluated']) for p in tc['passed_rules'])
                jf = sorted((f['name'], f['expected'], tuple(f['evaluated'])) for f in tc['failed_rules'])
                js = sorted(s['name'] for s in tc['skipped_rules'])
                if sorted(pc['passed']) != jp or sorted((n, e, tuple(ev)) for n, e, ev in pc['failed']) != jf or sorted(pc['noexp']) != js:
                    ctx.failing('plain and JSON renderings of test case %d disagree' % b, dict(info, case=b, plain=pc, json=tc), found=True)
        jcode, jso, jse = out[(k, 'junit', None)]
        try:
            root = ET.fromstring(jso.decode())
            marks = []
            for tcx in root.iter('testcase'):
                marks.append((tcx.get('id'), tcx.get('name'), 'fail' if tcx.find('failure') is not None else ('error' if tcx.find('error') is not None else 'pass')))
            want = []
            for tc in tcs:
                want += [(tc['name'], p['name'], 'pass') for p in tc['passed_rules']]
                want += [(tc['name'], f['name'], 'fail') for f in tc['failed_rules']]
            if sorted(marks) != sorted(want):
                ctx.failing('JUnit marks disagree with the JSON report', dict(info, junit=marks, json=want), found=True)
            nfail = sum(1 for m in want if m[2] == 'fail')
            for el in [root] + list(root.iter('testsuite')):
                if el.get('failures') is not None and int(el.get('failures')) != nfail:
                    ctx.failing('JUnit <%s failures="%s"> but the run has %d unmet expectations' % (el.tag, el.get('failures'), nfail), dict(info, xml=jso[:600].decode('utf-8', 'replace')), found=True)
                if el.tag == 'testsuites' and el.get('tests') is not None and int(el.get('tests')) != len(want):
                    ctx.failing('JUnit <testsuites tests="%s"> but there are %d test cases' % (el.get('tests'), len(want)), dict(info, xml=jso[:600].decode('utf-8', 'replace')), found=True)
        except ET.ParseError as e:
            ctx.failing('test -o junit output is not well-formed XML: %s' % e, info, found=True)
        want_code = 7 if any_failed else 0
        for fmt in ('json', 'yaml', 'junit', 'plain'):
            c = out[(k, fmt, None)][0]
            if c != want_code:
                ctx.failing('test (%s) exits %s, expected %d (failed rules: %s)' % (fmt, c, want_code, any_failed), dict(info, fmt=fmt), found=True)
    verdicts, errors = model.eval_cases(cases, ctx.wd, 'c16case', header=HEADER, per_file=100)
    if errors:
        raise ToolingError('model evaluation failed: %r' % (errors[:1],))
    for i, _, _ in cases:
        if verdicts.get(i) != 'true':
            k, b, inf = cinfo[i]
            ctx.failing('test -o json case %d differs from the model classification of the recorded statuses (%s)' % (b, verdicts.get(i)), inf, found=True)
    ctx.coverage['e2e_rules_files'] = len(usable)
    ctx.coverage['e2e_test_cases'] = len(cases)
    ctx.coverage['e2e_rule_verdicts'] = n_rules
    ctx.coverage['e2e_distribution'] = dist
    ctx.coverage['evaluations'] += len(cases)
    if cases:
        k, b, inf = cinfo[cases[0][0]]
        ctx.sample({'rules': inf['rules'], 'input': inf['inputs'][b], 'expectations': inf['expectations'][b], 'test_case': inf['test_case']})
    return len(cases)


def run_multi_files(ctx):
    """several test-data files for one rules file (a -t directory and the --dir layout): every combination of files whose
    expectations are met / unmet; every output format must exit 7 iff some expectation is unmet, and list every file's cases"""
    import itertools
    jobs, meta = [], []
    k = 0
    for n_ in (2, 3):
        for combo in itertools.product([True, False], repeat=n_):
            d = os.path.join(ctx.wd, 'mf%d' % k); k += 1
            # rules files whose names sort before and after "tests" (the --dir walk is sorted and descends into tests/ on its
            # way), and a second rules file with its own specs in the same directory
            stem = ['r', 'vpc', 'api', 'waf', 'Zeta', 'tf_x'][k % 6]
            files = {'pol/%s.guard' % stem: 'rule t {\n  x == 1\n}\nrule u when y exists {\n  y == 2\n}\n',
                     'pol/other.guard': 'rule o {\n  x exists\n}\n',
                     'pol/tests/other_tests.yaml': json.dumps([{'name': 'othercase', 'input': {'x': 1}, 'expectations': {'rules': {'o': 'PASS'}}}])}
            for i, met in enumerate(combo):
                spec = [{'name': 'case%d' % i, 'input': {'x': 1}, 'expectations': {'rules': {'t': 'PASS' if met else 'FAIL', 'u': 'SKIP'}}}]
                files['pol/tests/%s_%d_tests.yaml' % (stem, i)] = json.dumps(spec)
                files['only/%s_%d_tests.yaml' % (stem, i)] = json.dumps(spec)      # the same specs alone, for -t <directory>
            e2e.write_files(d, files)
            for fmt in ('plain', 'json', 'yaml', 'junit'):
                o = [] if fmt == 'plain' else ['-o', fmt]
                jobs.append({'args': ['test', '-a', '-r', 'pol/%s.guard' % stem, '-t', 'only'] + o, 'cwd': d}); meta.append((combo, 'tdir', fmt))
                jobs.append({'args': ['test', '-a', '-d', 'pol'] + o, 'cwd': d}); meta.append((combo, 'dir', fmt))
    n = 0
    for (combo, layout, fmt), (code, so, se) in zip(meta, e2e.run_many(jobs)):
        n += 1
        want = 0 if all(combo) else 7
        text = so.decode('utf-8', 'replace')
        info = {'class': 'test-multi-file', 'met': list(combo), 'layout': layout, 'format': fmt, 'stdout': text[:600], 'stderr': se[-300:].decode('utf-8', 'replace')}
        if code != want:
            ctx.failing('test (%s, %s) over %d test files with expectations met=%s exits %s, expected %d' % (layout, fmt, len(combo), list(combo), code, want), info, found=True)
        missing = [i for i in range(len(combo)) if ('case%d' % i) not in text]
        if missing and fmt in ('json', 'yaml', 'junit'):
            ctx.failing('test (%s, %s): the cases of test file(s) %s are not reported' % (layout, fmt, missing), info, found=True)
    ctx.coverage['multi_test_file_runs'] = n
    ctx.coverage['evaluations'] += n
    return n


def run_default_rule(ctx):
    """rules files with FILE-LEVEL clauses: they form the file's default rule, named `<file name as given>/default` - the path in
    the -r/-t layout, the file's prefix in the --dir layout.  The expectation written for that name is looked up by every
    rendering: the plain, JSON, YAML and JUnit runs classify the default rule alike and exit alike."""
    jobs, meta = [], []
    k = 0
    for stem in ('vol', 'r', 'Zeta'):
        for exp_default in ('PASS', 'FAIL', None):
            d = os.path.join(ctx.wd, 'df%d' % k); k += 1
            rules = 'x == 1\nrule t {\n  x exists\n}\n'
            for layout, dname in (('dir', '%s/default' % stem), ('single', 'pol/%s.guard/default' % stem)):
                exps = {'t': 'PASS'}
                if exp_default:
                    exps[dname] = exp_default
                spec = [{'name': 'c0', 'input': {'x': 1}, 'expectations': {'rules': exps}}]
                dd = os.path.join(d, layout)
                e2e.write_files(dd, {'pol/%s.guard' % stem: rules, 'pol/tests/%s_tests.yaml' % stem: json.dumps(spec)})
                for fmt in ('plain', 'json', 'yaml', 'junit'):
                    o = [] if fmt == 'plain' else ['-o', fmt]
                    args = ['test', '-a', '-d', 'pol'] if layout == 'dir' else ['test', '-a', '-r', 'pol/%s.guard' % stem, '-t', 'pol/tests/%s_tests.yaml' % stem]
                    jobs.append({'args': args + o, 'cwd': dd}); meta.append((stem, exp_default, layout, dname, fmt))
    n = 0
    for (stem, exp_default, layout, dname, fmt), (code, so, se) in zip(meta, e2e.run_many(jobs)):
        n += 1
        text = so.decode('utf-8', 'replace')
        want = 7 if exp_default == 'FAIL' else 0     # the default rule PASSes on {x: 1}
        info = {'class': 'test-default-rule', 'stem': stem, 'expected_for_default': exp_default, 'layout': layout, 'format': fmt,
                'default_rule_name': dname, 'stdout': text[:700], 'stderr': se[-300:].decode('utf-8', 'replace')}
        if code != want:
            ctx.failing('test (%s, %s): the file-level clauses form rule %s which PASSes; with expectation %s the run exits %s, expected %d'
                        % (layout, fmt, dname, exp_default, code, want), info, found=True)
            continue
        cls = None
        if fmt == 'json':
            try:
                j = json.loads(text)
                tc = (j[0] if isinstance(j, list) else j)['test_cases'][0]
                cls = ('passed' if any(p['name'] == dname for p in tc['passed_rules']) else
                       'failed' if any(f['name'] == dname for f in tc['failed_rules']) else
                       'skipped' if any(s['name'] == dname for s in tc['skipped_rules']) else 'absent')
            except Exception as e:
                ctx.failing('test (%s, json) output unreadable: %s' % (layout, e), info, found=True)
                continue
        elif fmt == 'plain':
            pc = parse_plain(text)
            if pc:
                cls = ('passed' if any(x[0] == dname for x in pc[0]['passed']) else 'failed' if any(x[0] == dname for x in pc[0]['failed']) else
                       'skipped' if dname in pc[0]['noexp'] else 'absent')
        if cls is not None:
            wantc = {'PASS': 'passed', 'FAIL': 'failed', None: 'skipped'}[exp_default]
            if cls != wantc:
                ctx.failing('test (%s, %s): the default rule %s is reported as %s, expected %s' % (layout, fmt, dname, cls, wantc), info, found=True)
    ctx.coverage['default_rule_runs'] = n
    ctx.coverage['evaluations'] += n
    return n


def run_repeated_and_empty(ctx):
    """a rule name defined three times whose definitions evaluate to the same status next to each other ([FAIL, FAIL, SKIP],
    [PASS, PASS, FAIL], ...) with met and unmet expectations, and test cases that set NO expectation at all (`rules: {}`) or one only
    for a rule that is not in the file: the plain, JSON and JUnit renderings list the same evaluated statuses, the same rules without
    expectation, and exit alike"""
    defs = {'F': 'x == 2', 'P': 'x == 1', 'S': 'l[ k == 99 ].v == 1'}
    jobs, meta = [], []
    k = 0
    for combo in (('F', 'F', 'S'), ('P', 'P', 'F'), ('S', 'S', 'S'), ('F', 'P', 'P'), ('P', 'F', 'F', 'F')):
        rules = ''.join('rule a {\n  %s\n}\n' % defs[c] for c in combo) + 'rule b {\n  x == 1\n}\n'
        for exp_a in ('PASS', 'FAIL', 'SKIP'):
            spec = [{'name': 'c0', 'input': {'x': 1, 'l': []}, 'expectations': {'rules': {'a': exp_a}}},
                    {'name': 'c1', 'input': {'x': 1, 'l': []}, 'expectations': {'rules': {}}},
                    {'name': 'c2', 'input': {'x': 1, 'l': []}, 'expectations': {'rules': {'not_in_file': 'PASS'}}},
                    {'name': 'c3', 'input': {'x': 1, 'l': []}, 'expectations': {'rules': {'a': exp_a, 'b': 'PASS'}}}]
            d = os.path.join(ctx.wd, 're%d' % k); k += 1
            e2e.write_files(d, {'r.guard': rules, 'tests/r_tests.yaml': json.dumps(spec)})
            for fmt in ('plain', 'plain-v', 'json', 'junit'):
                o = {'plain': [], 'plain-v': ['-v'], 'json': ['-o', 'json'], 'junit': ['-o', 'junit']}[fmt]
                jobs.append({'args': ['test', '-a', '-r', 'r.guard', '-t', 'tests/r_tests.yaml'] + o, 'cwd': d}); meta.append((combo, exp_a, fmt))
    res = dict(zip(meta, e2e.run_many(jobs)))
    n = 0
    for combo in sorted(set(m[0] for m in meta)):
        for exp_a in ('PASS', 'FAIL', 'SKIP'):
            n += 1
            jc, jso, jse = res[(combo, exp_a, 'json')]
            info = {'class': 'test-renderings', 'definitions_of_a': list(combo), 'expected_for_a': exp_a}
            try:
                tcs = json.loads(jso.decode())['test_cases']
            except Exception as e:
                ctx.failing('test -o json unreadable: %s' % e, info, found=True)
                continue
            for fmt in ('plain', 'plain-v', 'junit'):
                c, so, se = res[(combo, exp_a, fmt)]
                if c != jc:
                    ctx.failing('test (%s) exits %s, -o json exits %s (definitions of a: %s, expected %s)' % (fmt, c, jc, list(combo), exp_a), dict(info, fmt=fmt), found=True)
            for fmt in ('plain', 'plain-v'):
                pcs = parse_plain(res[(combo, exp_a, fmt)][1].decode('utf-8', 'replace'))
                if len(pcs) != len(tcs):
                    ctx.failing('%s output has %d test cases, JSON has %d' % (fmt, len(pcs), len(tcs)), dict(info, fmt=fmt), found=True)
                    continue
                for b, (pc, tc) in enumerate(zip(pcs, tcs)):
                    jf = sorted((f['name'], f['expected'], tuple(f['evaluated'])) for f in tc['failed_rules'])
                    js = sorted(s['name'] for s in tc['skipped_rules'])
                    jp = sorted((p_['name'], p_['evaluated']) for p_ in tc['passed_rules'])
                    if sorted((n_, e, tuple(ev)) for n_, e, ev in pc['failed']) != jf or sorted(pc['noexp']) != js or sorted(pc['passed']) != jp:
                        ctx.failing('%s and JSON renderings of test case %d disagree (definitions of a: %s, expected %s): plain %s, json failed=%s skipped=%s passed=%s'
                                    % (fmt, b, list(combo), exp_a, pc, jf, js, jp), dict(info, fmt=fmt, case=b), found=True)
            try:
                root = ET.fromstring(res[(combo, exp_a, 'junit')][1].decode())
                for tcx in root.iter('testcase'):
                    fl = tcx.find('failure')
                    if fl is None:
                        continue
                    m = re.search(r'Evaluated = \[(.*?)\]', (fl.text or '') + (fl.get('message') or ''))
                    want = next((f['evaluated'] for tc in tcs if tc['name'] == tcx.get('id') for f in tc['failed_rules'] if f['name'] == tcx.get('name')), None)
                    got = [x.strip() for x in m.group(1).split(',')] if m else None
                    if want is None or got != want:
                        ctx.failing('JUnit failure of rule %s in case %s says evaluated %s, JSON says %s' % (tcx.get('name'), tcx.get('id'), got, want), dict(info, fmt='junit'), found=True)
            except ET.ParseError as e:
                ctx.failing('test -o junit output is not well-formed XML: %s' % e, info, found=True)
    ctx.coverage['repeated_and_empty_scenarios'] = n
    ctx.coverage['evaluations'] += len(jobs)
    return n


def run_similar_inputs(ctx):
    """one test file whose cases have inputs that differ in ONE scalar only (a float, an int, a string, a bool, a list order), repeat
    an earlier input, or differ in key order; the expectations are what `validate` says about each input. `test` must meet all of
    them in every rendering and both layouts, and with the expectation of one case flipped exactly that case must fail (a case
    evaluated against another case's document shows here)."""
    base = {'Ratio': 0.5, 'N': 1, 'S': 'a', 'B': True, 'L': [1, 2], 'Deep': {'r': 0.25, 'k': 'v'}}
    def var(**kw):
        d = json.loads(json.dumps(base)); d.update(kw); return d
    inputs = [base, var(Ratio=0.95), var(Ratio=0.5), var(Ratio=1000.0), var(Ratio=-0.5), var(N=2), var(S='b'), var(B=False), var(L=[2, 1]),
              var(Deep={'r': 0.75, 'k': 'v'}), var(Deep={'k': 'v', 'r': 0.25}), var(Ratio=0.6), var(Ratio=0.6000001)]
    rules = ('rule ratio {\n  Ratio <= 0.6\n}\nrule n {\n  N == 1\n}\nrule s {\n  S == "a"\n}\nrule b {\n  B == true\n}\nrule l {\n  L[0] == 1\n}\n'
             'rule deep {\n  Deep.r < 0.5\n}\n')
    # what validate says about each input
    jobs = []
    for i, d_ in enumerate(inputs):
        d = os.path.join(ctx.wd, 'sim_v%d' % i)
        e2e.write_files(d, {'r.guard': rules, 'd.json': json.dumps(d_)})
        jobs.append({'args': ['validate', '-r', 'r.guard', '-d', 'd.json', '--structured', '-o', 'json', '-S', 'none'], 'cwd': d})
    truth = []
    for (c, so, se), d_ in zip(e2e.run_many(jobs), inputs):
        try:
            rep = json.loads(so.decode())[0]
            st = {}
            for nm in rep['compliant']:
                st[nm] = 'PASS'
            for nm in rep['not_applicable']:
                st[nm] = 'SKIP'
            for x in rep['not_compliant']:
                st[x['Rule']['name']] = 'FAIL'
        except Exception as e:
            raise ToolingError('validate on an input of the similar-inputs family is unreadable: %s' % e)
        truth.append(st)
    n = 0
    flips = [None, 1, 3, len(inputs) - 1]
    jobs, meta = [], []
    for fi, flip in enumerate(flips):
        spec = []
        for i, (d_, st) in enumerate(zip(inputs, truth)):
            exp = dict(st)
            if flip == i:
                exp['ratio'] = 'FAIL' if st['ratio'] == 'PASS' else 'PASS'
            spec.append({'name': 'case%d' % i, 'input': d_, 'expectations': {'rules': exp}})
        for sfmt, stext in (('json-spec', json.dumps(spec, indent=1)), ('yaml-spec', yaml.safe_dump(spec, sort_keys=False))):
            d = os.path.join(ctx.wd, 'sim_t%d_%s' % (fi, sfmt))
            e2e.write_files(d, {'r.guard': rules, 'tests/r_tests.yaml': stext, 'dir/r.guard': rules, 'dir/tests/r_tests.yaml': stext})
            for fmt, o in (('plain', []), ('json', ['-o', 'json']), ('yaml', ['-o', 'yaml']), ('junit', ['-o', 'junit'])):
                for layout, args in (('files', ['test', '-r', 'r.guard', '-t', 'tests/r_tests.yaml']), ('dir', ['test', '-d', 'dir'])):
                    jobs.append({'args': args + o, 'cwd': d}); meta.append((flip, sfmt, fmt, layout))
    for (flip, sfmt, fmt, layout), (c, so, se) in zip(meta, e2e.run_many(jobs)):
        n += 1
        want = 0 if flip is None else 7
        info = {'class': 'test-vs-validate', 'kind': 'inputs that differ in one scalar', 'flipped_case': flip, 'spec_format': sfmt, 'rendering': fmt, 'layout': layout, 'rules': rules}
        if c != want:
            ctx.failing('test (%s, %s, %s): the expectations are what validate says about each input%s; exit %s, expected %s'
                        % (fmt, layout, sfmt, '' if flip is None else ' except case%d' % flip, c, want), info, found=True)
            continue
        if fmt == 'json':
            try:
                from .c07 import split_json_docs as _split
                docs_ = _split(so.decode())
                tcs = [tc for dj in docs_ for tc in (dj.get('test_cases') or [])]
            except Exception:
                tcs = None
            if tcs is not None:
                bad = sorted(tc['name'] for tc in tcs if tc.get('failed_rules'))
                if bad != ([] if flip is None else ['case%d' % flip]):
                    ctx.failing('test -o json (%s, %s): cases with unmet expectations %s, expected %s' % (layout, sfmt, bad, [] if flip is None else ['case%d' % flip]), info, found=True)
    ctx.coverage['similar_input_runs'] = n
    ctx.coverage['evaluations'] += len(jobs) + len(inputs)
    return n


def run_key_shapes(ctx):
    """inputs whose mapping keys are unusual - contain `/` (in front, inside, twice), `.`, blanks, `~`, quotes, digits only, are empty -
    and rules that look at the KEYS (keys ==, keys in, keys != , keys against a regex; a key filter followed by a clause; a block
    over the filtered entries): the expectations are what `validate` says about each input; `test` must meet all of them in every
    rendering and both layouts, and with one expectation flipped exactly that case must fail"""
    paths = {'/pets': {'Enabled': True}, 'a/b': {'Enabled': True}, 'plain': {'Enabled': False}, 'x/y/z': {'Enabled': False},
             'dotted.key': {'Enabled': True}, 'with blank': {'Enabled': True}, 'til~de': {'Enabled': False}, '7': {'Enabled': True}}
    inputs = [{'Paths': paths},
              {'Paths': {'/pets': {'Enabled': False}, 'pets': {'Enabled': True}}},
              {'Paths': {'pets': {'Enabled': False}, 'b': {'Enabled': True}, 'a/b': {'Enabled': False}}},
              {'Paths': {'a/b': {'Enabled': True}}, 'Other': {'/pets': 1}},
              {'Paths': {'plain': {'Enabled': True}}},
              {'Paths': {'/': {'Enabled': True}, 'q/': {'Enabled': True}, '/q': {'Enabled': False}}},
              {'Paths': {'/pets': {'Enabled': True, 'sub/key': {'v/w': 1}}}}]
    rules = ('rule k_eq {\n  Paths[ keys == "/pets" ].Enabled == true\n}\n'
             'rule k_in {\n  Paths[ keys in ["/pets", "a/b", "dotted.key"] ].Enabled == true\n}\n'
             'rule k_ne {\n  Paths[ keys != "plain" ].Enabled == true\n}\n'
             'rule k_re {\n  Paths[ keys == /^.pets$/ ].Enabled == true\n}\n'
             'rule k_short {\n  Paths[ keys == "pets" ].Enabled == true\n}\n'
             'rule k_tail {\n  Paths[ keys == "b" ].Enabled == true\n}\n'
             'rule k_empty {\n  Paths[ keys == "/pets" ] !empty\n}\n'
             'rule k_block {\n  Paths[ keys == /^[a-z].[a-z]$/ ] {\n    Enabled exists\n    Enabled == true\n  }\n}\n'
             'rule k_deep {\n  Paths.*[ keys == "sub/key" ][ keys == "v/w" ] == 1\n}\n'
             'rule k_blank {\n  Paths[ keys == "with blank" ].Enabled == true\n  Paths[ keys == "7" ].Enabled == true\n}\n'
             'rule k_other when Other exists {\n  Other[ keys == "/pets" ] == 1\n}\n')
    jobs = []
    for i, d_ in enumerate(inputs):
        d = os.path.join(ctx.wd, 'key_v%d' % i)
        e2e.write_files(d, {'r.guard': rules, 'd.json': json.dumps(d_)})
        jobs.append({'args': ['validate', '-r', 'r.guard', '-d', 'd.json', '--structured', '-o', 'json', '-S', 'none'], 'cwd': d})
    truth = []
    for (c, so, se), d_ in zip(e2e.run_many(jobs), inputs):
        try:
            rep = json.loads(so.decode())[0]
            st = {}
            for nm in rep['compliant']:
                st[nm] = 'PASS'
            for nm in rep['not_applicable']:
                st[nm] = 'SKIP'
            for x in rep['not_compliant']:
                st[x['Rule']['name']] = 'FAIL'
        except Exception as e:
            raise ToolingError('validate on an input of the key-shapes family is unreadable (exit %s): %s %s' % (c, e, se[-300:]))
        truth.append(st)
    n = 0
    flips = [None, 0, 2, len(inputs) - 1]
    jobs, meta = [], []
    for fi, flip in enumerate(flips):
        spec = []
        for i, (d_, st) in enumerate(zip(inputs, truth)):
            exp = dict(st)
            if flip == i:
                exp['k_eq'] = 'FAIL' if st['k_eq'] == 'PASS' else 'PASS'
            spec.append({'name': 'case%d' % i, 'input': d_, 'expectations': {'rules': exp}})
        for sfmt, stext in (('json-spec', json.dumps(spec, indent=1)), ('yaml-spec', yaml.safe_dump(spec, sort_keys=False))):
            d = os.path.join(ctx.wd, 'key_t%d_%s' % (fi, sfmt))
            e2e.write_files(d, {'r.guard': rules, 'tests/r_tests.yaml': stext, 'dir/r.guard': rules, 'dir/tests/r_tests.yaml': stext})
            for fmt, o in (('plain', []), ('json', ['-o', 'json']), ('junit', ['-o', 'junit'])):
                for layout, args in (('files', ['test', '-r', 'r.guard', '-t', 'tests/r_tests.yaml']), ('dir', ['test', '-d', 'dir'])):
                    jobs.append({'args': args + o, 'cwd': d}); meta.append((flip, sfmt, fmt, layout))
    for (flip, sfmt, fmt, layout), (c, so, se) in zip(meta, e2e.run_many(jobs)):
        n += 1
        want = 0 if flip is None else 7
        info = {'class': 'test-vs-validate', 'kind': 'unusual mapping keys under key filters', 'flipped_case': flip, 'spec_format': sfmt, 'rendering': fmt, 'layout': layout,
                'rules': rules, 'inputs': inputs, 'validate_says': truth, 'stdout': so[:1500].decode('utf-8', 'replace'), 'stderr': se[-300:].decode('utf-8', 'replace')}
        if c != want:
            ctx.failing('test (%s, %s, %s) on inputs with unusual mapping keys: the expectations are what validate says about each input%s; exit %s, expected %s'
                        % (fmt, layout, sfmt, '' if flip is None else ' except case%d' % flip, c, want), info, found=True)
    ctx.coverage['key_shape_runs'] = n
    ctx.coverage['key_shape_statuses'] = sorted({v for st in truth for v in st.values()})
    ctx.coverage['evaluations'] += len(jobs) + len(inputs)
    return n


def run(ctx):
    ctx.build(cli=True)
    pr = ctx.proofs('C16')
    thorough = ctx.tier == 'thorough'
    n1 = exhaustive_gsr(ctx, 6 if thorough else 4) + run_multi_files(ctx) + run_default_rule(ctx) + run_repeated_and_empty(ctx) + run_similar_inputs(ctx) + run_key_shapes(ctx)
    n2 = run_e2e(ctx, 300 if thorough else 60)
    ctx.coverage['distinct_nontrivial'] = n1 + n2
    ctx.coverage['rule'] = ('get_status_result: every expected status x every status list up to length %d (all distinct); end-to-end: generated rules files '
                            '(tools/gv/gen.py, incl. repeated rule names) x 1..4 generated inputs x random expectations (own status / random status / none), '
                            'each (rules, input, expectations) distinct by construction' % (6 if thorough else 4))
    ctx.coverage['trusted_base'] = [
        'Coq 8.16.1 kernel (coqc), vm_compute for case evaluation; no axioms',
        'hand-written model TestCmd.v of reporters/test/{mod,generic,structured}.rs (modelled, not verified)',
        'hook test_status_result, hook eval_dump (statuses of the record tree), python parsers of the plain/JSON/YAML/JUnit output',
    ]
    ctx.assumptions = ['inputs are JSON-compatible documents (the two loaders agree there: C11)',
                       'rules files that fail to parse or raise evaluation errors are left to C06/C08']
    if not pr['ok']:
        ctx.failing('proof obligations of Props/C16.v no longer check: %s' % (pr.get('problems') or pr.get('log', '')[-500:]),
                    {'class': 'proof', 'theorems': pr['theorems']}, found=False)


def replay(ctx, path):
    j = json.load(open(path))
    for v in j.get('violations', []):
        print(json.dumps(v, indent=1)[:3000])
    return 0
