(* TestCmd.v — the `test` command's matching of evaluated rule statuses against expectations:
   reporters/test/mod.rs get_by_rules / get_status_result; generic.rs get_by_result (plain) and
   structured.rs evaluate (JSON/YAML/JUnit) classification of one test case. No proofs here. *)
From GV.Model Require Export Status.

(* get_by_rules: the RuleCheck children of the file record grouped by rule name, names in order of
   first appearance (IndexMap since fix 0a447c0), statuses in definition order *)
Fixpoint group_insert (name : string) (st : status) (acc : list (string * list status))
  : list (string * list status) :=
  match acc with
  | [] => [(name, [st])]
  | (n, l) :: r => if String.eqb n name then (n, l ++ [st]) :: r else (n, l) :: group_insert name st r
  end.
Definition get_by_rules (rules : list (string * status)) : list (string * list status) :=
  fold_left (fun acc r => group_insert (fst r) (snd r) acc) rules [].

(* get_status_result: (matched?, statuses seen before the decision) *)
Fixpoint gsr_loop (expected : status) (l : list status) (seen : list status) (all_skipped : nat)
  : bool * list status * nat :=
  match l with
  | [] => (false, seen, all_skipped)
  | got :: r =>
      match expected with
      | SKIP => gsr_loop expected r (seen ++ [got]) (if status_eqb got SKIP then S all_skipped else all_skipped)
      | rest => if status_eqb got rest then (true, seen, all_skipped)
                else gsr_loop expected r (seen ++ [got]) all_skipped
      end
  end.
Definition get_status_result (expected : status) (l : list status) : option status * list status :=
  let '(hit, seen, sk) := gsr_loop expected l [] 0 in
  if hit then (Some expected, seen)
  else if status_eqb expected SKIP && Nat.eqb sk (List.length l) then (Some expected, seen)
  else (None, seen).

Definition matched (expected : status) (l : list status) : bool :=
  match fst (get_status_result expected l) with Some _ => true | None => false end.

(* classification of one test case *)
Inductive rule_verdict := RMatched (exp : status) | RMismatch (exp : status) (evaluated : list status) | RNoExpectation.

Definition classify (expectations : list (string * status)) (by_rules : list (string * list status))
  : list (string * rule_verdict) :=
  map (fun g => (fst g,
                 match assoc (fst g) expectations with
                 | None => RNoExpectation
                 | Some exp =>
                     match get_status_result exp (snd g) with
                     | (Some _, _) => RMatched exp
                     | (None, seen) => RMismatch exp seen
                     end
                 end)) by_rules.

(* plain reporter: by_result["PASS"], by_result["FAIL"]; rules without expectation are only printed *)
Definition plain_pass (c : list (string * rule_verdict)) : list string :=
  flat_map (fun x => match snd x with RMatched _ => [fst x] | _ => [] end) c.
Definition plain_fail (c : list (string * rule_verdict)) : list string :=
  flat_map (fun x => match snd x with RMismatch _ _ => [fst x] | _ => [] end) c.
(* structured reporter: passed_rules / failed_rules / skipped_rules *)
Definition structured_passed := plain_pass.
Definition structured_failed := plain_fail.
Definition structured_skipped (c : list (string * rule_verdict)) : list string :=
  flat_map (fun x => match snd x with RNoExpectation => [fst x] | _ => [] end) c.
(* JUnit: one passing test case per passed rule, one failing per failed rule, nothing for the others *)
Definition junit_marks (c : list (string * rule_verdict)) : list (string * bool) :=
  map (fun n => (n, true)) (structured_passed c) ++ map (fun n => (n, false)) (structured_failed c).

Definition case_fails (c : list (string * rule_verdict)) : bool :=
  existsb (fun x => match snd x with RMismatch _ _ => true | _ => false end) c.

(* ---- comparison with an observed `test -o json` test case (used by the correspondence) ---- *)
Definition list_eqb {A} (eqb : A -> A -> bool) (a b : list A) : bool :=
  Nat.eqb (List.length a) (List.length b) && forallb (fun p => eqb (fst p) (snd p)) (combine a b).

Definition model_passed (c : list (string * rule_verdict)) : list (string * status) :=
  flat_map (fun x => match snd x with RMatched e => [(fst x, e)] | _ => [] end) c.
Definition model_failed (c : list (string * rule_verdict)) : list (string * (status * list status)) :=
  flat_map (fun x => match snd x with RMismatch e l => [(fst x, (e, l))] | _ => [] end) c.

Definition c16_case_obs (exps : list (string * status)) (rules : list (string * status))
           (passed : list (string * status)) (failed : list (string * (status * list status)))
           (skipped : list string) : bool :=
  let c := classify exps (get_by_rules rules) in
  list_eqb (fun a b => String.eqb (fst a) (fst b) && status_eqb (snd a) (snd b)) (model_passed c) passed
  && list_eqb (fun a b => String.eqb (fst a) (fst b) && status_eqb (fst (snd a)) (fst (snd b))
                          && list_eqb status_eqb (snd (snd a)) (snd (snd b))) (model_failed c) failed
  && list_eqb String.eqb (structured_skipped c) skipped.

Definition gsr_obs (exp : status) (l : list status) (m : option status) (seen : list status) : bool :=
  let '(m', seen') := get_status_result exp l in
  match m, m' with
  | Some a, Some b => status_eqb a b
  | None, None => true
  | _, _ => false
  end && list_eqb status_eqb seen seen'.
