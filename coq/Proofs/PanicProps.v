(* PanicProps.v — the modelled evaluator never reaches a panic site (C08), for programs as the parser produces them.

   Every unreachable!() / unwrap() / index expression of eval.rs, eval_context.rs, operators.rs and functions/*.rs is a
   `Panic site` outcome of the model. A program is PARSER-SHAPED (Strat.pwf_prog, an executable predicate that the C08
   correspondence evaluates on every AST the implementation parses) when no query starts with a filter, the query of a
   clause is not empty, a `keys` filter compares with a binary operator, and every function call has the arity of its
   function. Theorem: for a parser-shaped program, every document, every oracle and every fuel, no query, clause, rule,
   variable or function call answers `Panic p` - except for P_map_key_missing, the site that is guarded by an invariant of
   the VALUE (a struct's key list names only keys it holds), which is a property of the loader, not of the program.
   Proof: as TermProps (induction on the fuel, Hoare-style invariant on the scope stack: every frame holds parser-shaped
   definitions); the value layer is PanicPure.v. *)
From GV.Model Require Import SEval Strat.
From GV.Proofs Require Import EvalLaws FrameProps NoPanicProps PanicPure.
From Coq Require Import Lia.
Local Open Scope nat_scope.

Definition frame_pwf (f : frame) : Prop :=
  match f with
  | FRoot _ lets _ | FBlock _ lets _ => pwf_lets lets = true
  | _ => True
  end.
Definition InvP (s : state) : Prop := Forall frame_pwf (frames s).

Lemma frame_pwf_fshape f : frame_pwf (fshape f) <-> frame_pwf f.
Proof. destruct f; cbn; tauto. Qed.

Lemma InvP_shape s s' : same_shape s s' -> InvP s -> InvP s'.
Proof.
  unfold same_shape, shape, InvP. intros H Hi.
  assert (G : Forall frame_pwf (map fshape (frames s'))).
  { rewrite H. clear H. induction Hi; cbn; constructor; auto. apply frame_pwf_fshape; assumption. }
  clear H Hi. induction (frames s') as [|f fs IH]; constructor; inversion G; subst; auto. apply frame_pwf_fshape; assumption.
Qed.

Definition okp (p : panic_site) : Prop := p = P_map_key_missing.

Definition npM {A} (m : M A) : Prop :=
  forall s, InvP s -> (forall p, m s = Panic p -> okp p) /\ (forall a recs s', m s = Done (a, recs, s') -> same_shape s s').

Lemma np_ret {A} (a : A) : npM (ret a).
Proof. intros s _. split; [discriminate|]. intros b recs s' H. apply ret_inv in H as (_ & _ & ->). apply ss_refl. Qed.
Lemma np_failM {A} e : npM (@failM A e).
Proof. intros s _. split; discriminate. Qed.
Lemma np_unknownM {A} : npM (@unknownM A).
Proof. intros s _. split; discriminate. Qed.
Lemma np_oofM {A} : npM (@oofM A).
Proof. intros s _. split; discriminate. Qed.
Lemma np_panic_missing {A} : npM (@panicM A P_map_key_missing).
Proof. intros s _. split; [|discriminate]. intros p H. inversion H. reflexivity. Qed.

Lemma np_lift {A} (o : outcome A) : np o -> npM (lift o).
Proof.
  intros Hn s _. unfold lift. destruct o as [a|e|p| |]; try (split; discriminate).
  - split; [discriminate|]. intros b recs s' H. inversion H; subst. apply ss_refl.
  - exfalso. exact (Hn p eq_refl).
Qed.

Lemma np_keeps {A} (m : M A) : (forall s p, m s <> Panic p) -> kshape m -> npM m.
Proof. intros H K s _. split; [intros p E; exfalso; exact (H s p E)|]. intros a recs s' E. eapply K; exact E. Qed.

Lemma np_bind {A B} (m : M A) (f : A -> M B) : npM m -> (forall a, npM (f a)) -> npM (bind m f).
Proof.
  intros Hm Hf s Hi. destruct (Hm s Hi) as [Hn Hs]. unfold bind.
  destruct (m s) as [[[a r1] s1]|e|p| |] eqn:E; try (split; discriminate).
  - specialize (Hs a r1 s1 eq_refl). pose proof (InvP_shape s s1 Hs Hi) as Hi1.
    destruct (Hf a s1 Hi1) as [Hn2 Hs2].
    destruct (f a s1) as [[[b r2] s2]|e|p| |] eqn:E2; try (split; discriminate).
    + split; [discriminate|]. intros b' recs s' H. inversion H; subst. eapply ss_trans; [exact Hs|]. eapply Hs2. reflexivity.
    + split; [|discriminate]. intros p' H. inversion H; subst. apply Hn2. reflexivity.
  - split; [|discriminate]. intros p' H. inversion H; subst. apply Hn. reflexivity.
Qed.

Lemma np_mapM_in {A B} (f : A -> M B) l : (forall x, In x l -> npM (f x)) -> npM (mapM f l).
Proof.
  induction l as [|x l IH]; intros Hf; cbn [mapM]; [apply np_ret|].
  apply np_bind; [apply Hf; left; reflexivity|]. intros y.
  apply np_bind; [apply IH; intros z Hz; apply Hf; right; exact Hz|]. intros ys. apply np_ret.
Qed.
Lemma np_mapM {A B} (f : A -> M B) l : (forall x, npM (f x)) -> npM (mapM f l).
Proof. intros Hf. apply np_mapM_in. intros x _. apply Hf. Qed.
Lemma np_concatMapM {A B} (f : A -> M (list B)) l : (forall x, npM (f x)) -> npM (concatMapM f l).
Proof. intros Hf. unfold concatMapM. apply np_bind; [apply np_mapM; exact Hf|]. intros r. apply np_ret. Qed.

Lemma np_node {A} (m : M A) mk : npM m -> npM (node m mk).
Proof.
  intros Hm s Hi. destruct (Hm s Hi) as [Hn Hs]. unfold node.
  destruct (m s) as [[[a r1] s1]|e|p| |] eqn:E; try (split; discriminate).
  - split; [discriminate|]. intros b recs s' H. inversion H; subst. eapply Hs. reflexivity.
  - split; [|discriminate]. intros p' H. inversion H; subst. apply Hn. reflexivity.
Qed.
Lemma np_leaf c : npM (leaf c).
Proof. unfold leaf. apply np_node, np_ret. Qed.

Lemma np_with_frame {A} f (m : M A) : frame_pwf f -> npM m -> npM (with_frame f m).
Proof.
  intros Hf Hm s Hi. unfold with_frame.
  assert (Hi' : InvP (mkState (f :: frames s) (statuses s))) by (constructor; assumption).
  destruct (Hm _ Hi') as [Hn Hs].
  destruct (m (mkState (f :: frames s) (statuses s))) as [[[a r1] s1]|e|p| |] eqn:E; try (split; discriminate).
  - split; [discriminate|]. intros b recs s' H. inversion H; subst. apply ss_push with (f := f). eapply Hs. reflexivity.
  - split; [|discriminate]. intros p' H. inversion H; subst. apply Hn. reflexivity.
Qed.

Lemma np_with_parent {A} (m : M A) : npM m -> npM (with_parent m).
Proof.
  intros Hm s Hi. unfold with_parent. destruct s as [fs st]. cbn in *.
  destruct fs as [|f rest]; [split; discriminate|].
  assert (Hi' : InvP (mkState rest st)) by (inversion Hi; assumption).
  destruct (Hm (mkState rest st) Hi') as [Hn Hs].
  destruct (m (mkState rest st)) as [[[a r1] s1]|e|p| |] eqn:E; try (split; discriminate).
  - split; [discriminate|]. intros b recs s' H. inversion H; subst. apply ss_parent. eapply Hs. reflexivity.
  - split; [|discriminate]. intros p' H. inversion H; subst. apply Hn. reflexivity.
Qed.

Lemma np_at_root {A} (m : M A) : npM m -> npM (at_root m).
Proof.
  intros Hm s Hi. unfold at_root. destruct (List.length (frames s)) as [|k] eqn:El; [split; discriminate|].
  assert (Hi' : InvP (mkState (skipn k (frames s)) (statuses s))).
  { unfold InvP in *. cbn. rewrite <- (firstn_skipn k (frames s)) in Hi. apply Forall_app in Hi. apply Hi. }
  destruct (Hm _ Hi') as [Hn Hs].
  destruct (m (mkState (skipn k (frames s)) (statuses s))) as [[[a r1] s1]|e|p| |] eqn:E; try (split; discriminate).
  - split; [discriminate|]. intros b recs s' H. inversion H; subst. apply ss_root. eapply Hs. reflexivity.
  - split; [|discriminate]. intros p' H. inversion H; subst. apply Hn. reflexivity.
Qed.

Lemma np_ctx_root : npM ctx_root.
Proof.
  intros s _. unfold ctx_root. destruct (root_of (frames s)); split; try discriminate.
  intros a recs s' H. inversion H; subst. apply ss_refl.
Qed.
Lemma np_set_top_memo name vals : npM (set_top_memo name vals).
Proof. apply np_keeps; [|apply ks_set_top_memo]. intros s p. unfold set_top_memo. destruct (frames s) as [|[] ?]; discriminate. Qed.
Lemma np_add_capture name key : npM (add_capture name key).
Proof. apply np_keeps; [|apply ks_add_capture]. intros s p. unfold add_capture. destruct (capture_in name key (frames s)); discriminate. Qed.

Lemma np_disj_body_in {T} (f : T -> M status) l failed : (forall x, In x l -> npM (f x)) -> npM (disj_body f l failed).
Proof.
  revert failed. induction l as [|x l IH]; intros failed Hf; cbn [disj_body]; [apply np_ret|].
  apply np_bind; [apply Hf; left; reflexivity|]. intros st.
  assert (Hl : forall z, In z l -> npM (f z)) by (intros z Hz; apply Hf; right; exact Hz).
  destruct st; [apply np_ret|apply IH; exact Hl|apply IH; exact Hl].
Qed.
Lemma np_line_body_in {T} (f : T -> M status) line : (forall x, In x line -> npM (f x)) -> npM (line_body f line).
Proof.
  intros Hf. unfold line_body. destruct line as [|x [|y l]]; try (apply np_disj_body_in; exact Hf).
  apply np_node. apply np_disj_body_in; exact Hf.
Qed.
Lemma np_cnf_body_in {T} (f : T -> M status) cnf :
  (forall line x, In line cnf -> In x line -> npM (f x)) -> npM (cnf_body f cnf).
Proof.
  intros Hf. unfold cnf_body. apply np_bind; [|intros sts; apply np_ret].
  apply np_mapM_in. intros l Hl. apply np_line_body_in. intros x Hx. eapply Hf; eassumption.
Qed.

(* results of a computation, whatever the state *)
Definition postM {A} (P : A -> Prop) (m : M A) : Prop := forall s a recs s', m s = Done (a, recs, s') -> P a.

Lemma np_bind_post {A B} (P : A -> Prop) (m : M A) (f : A -> M B) :
  npM m -> postM P m -> (forall a, P a -> npM (f a)) -> npM (bind m f).
Proof.
  intros Hm Hp Hf s Hi. destruct (Hm s Hi) as [Hn Hs]. unfold bind.
  destruct (m s) as [[[a r1] s1]|e|p| |] eqn:E; try (split; discriminate).
  - specialize (Hs a r1 s1 eq_refl). pose proof (InvP_shape s s1 Hs Hi) as Hi1.
    destruct (Hf a (Hp s a r1 s1 E) s1 Hi1) as [Hn2 Hs2].
    destruct (f a s1) as [[[b r2] s2]|e|p| |] eqn:E2; try (split; discriminate).
    + split; [discriminate|]. intros b' recs s' H. inversion H; subst. eapply ss_trans; [exact Hs|]. eapply Hs2. reflexivity.
    + split; [|discriminate]. intros p' H. inversion H; subst. apply Hn2. reflexivity.
  - split; [|discriminate]. intros p' H. inversion H; subst. apply Hn. reflexivity.
Qed.

Lemma post_ret {A} (P : A -> Prop) a : P a -> postM P (ret a).
Proof. intros H s b recs s' E. apply ret_inv in E as (-> & _ & _). exact H. Qed.
Lemma post_bind {A B} (Q : A -> Prop) (P : B -> Prop) (m : M A) (f : A -> M B) :
  postM Q m -> (forall a, Q a -> postM P (f a)) -> postM P (bind m f).
Proof. intros Hm Hf s b recs s' E. apply bind_inv in E as (a & r1 & s1 & r2 & E1 & E2 & _). exact (Hf a (Hm _ _ _ _ E1) _ _ _ _ E2). Qed.
Lemma post_any {A} (m : M A) : postM (fun _ => True) m.
Proof. intros s a recs s' _. exact I. Qed.
Lemma post_mapM {A B} (P : B -> Prop) (f : A -> M B) l : (forall x, postM P (f x)) -> postM (Forall P) (mapM f l).
Proof.
  intros Hf. induction l as [|x l IH]; cbn [mapM]; [apply post_ret; constructor|].
  eapply post_bind; [apply Hf|]. intros y Hy. eapply post_bind; [exact IH|]. intros ys Hys. apply post_ret. constructor; assumption.
Qed.
Lemma post_mapM_in {A B} (P : B -> Prop) (f : A -> M B) l : (forall x, In x l -> postM P (f x)) -> postM (Forall P) (mapM f l).
Proof.
  induction l as [|x l IH]; intros Hf; cbn [mapM]; [apply post_ret; constructor|].
  eapply post_bind; [apply Hf; left; reflexivity|]. intros y Hy.
  eapply post_bind; [apply IH; intros z Hz; apply Hf; right; exact Hz|]. intros ys Hys. apply post_ret. constructor; assumption.
Qed.
Lemma post_concatMapM {A B} (P : B -> Prop) (f : A -> M (list B)) l : (forall x, postM (Forall P) (f x)) -> postM (Forall P) (concatMapM f l).
Proof.
  intros Hf. unfold concatMapM. eapply post_bind; [apply (post_mapM (Forall P)); exact Hf|]. intros r Hr. apply post_ret.
  induction Hr; cbn; [constructor|apply Forall_app; split; assumption].
Qed.
Lemma post_fail {A} (P : A -> Prop) e : postM P (failM e).
Proof. intros s a recs s' E. discriminate. Qed.
Lemma post_panic {A} (P : A -> Prop) p : postM P (panicM p).
Proof. intros s a recs s' E. discriminate. Qed.

Definition pf (x : qres * status) : Prop := snd x = PASS \/ snd x = FAIL.
Definition no_skip_res (r : evaluation_result) : Prop :=
  match r with QueryValueResult l => has_status SKIP l = false | EmptyQueryResult _ => True end.

Lemma pf_no_skip l : Forall pf l -> has_status SKIP l = false.
Proof.
  intros H. unfold has_status. apply Bool.not_true_is_false. intros E. apply existsb_exists in E as (x & Hin & Hx).
  rewrite Forall_forall in H. destruct (H x Hin) as [Hs|Hs]; rewrite Hs in Hx; discriminate.
Qed.

(* ------------------------------------------------------------------ *)
(* list facts about parser-shaped syntax *)

Lemma forallb_in' {A} (p : A -> bool) l x : forallb p l = true -> In x l -> p x = true.
Proof. intros H Hx. rewrite forallb_forall in H. exact (H x Hx). Qed.

Lemma pwf_query_part q qi part : pwf_query q = true -> nth_error q qi = Some part -> pwf_part part = true.
Proof.
  unfold pwf_query. intros H Hn. apply andb_prop in H. destruct H as [H _]. eapply forallb_in'; [exact H|]. eapply nth_error_In; exact Hn.
Qed.
Lemma pwf_query_head q n cnf : pwf_query q = true -> nth_error q 0 = Some (QFilter n cnf) -> False.
Proof.
  unfold pwf_query. intros H Hn. apply andb_prop in H. destruct H as [_ H]. destruct q as [|p q]; [discriminate|].
  cbn in Hn. inversion Hn; subst. discriminate.
Qed.
Lemma pwf_aq_query a : pwf_aq a = true -> pwf_query (aq_query a) = true.
Proof. destruct a. exact (fun H => H). Qed.
Lemma pwf_cnf_in cnf line x : pwf_cnf cnf = true -> In line cnf -> In x line -> pwf_clause x = true.
Proof. intros H Hl Hx. unfold pwf_cnf in H. eapply forallb_in'; [|exact Hx]. eapply forallb_in'; [exact H|exact Hl]. Qed.
Lemma pwf_conds_in cnf line x : pwf_conds cnf = true -> In line cnf -> In x line -> pwf_wc x = true.
Proof. intros H Hl Hx. unfold pwf_conds in H. eapply forallb_in'; [|exact Hx]. eapply forallb_in'; [exact H|exact Hl]. Qed.

Lemma find_function_pwf name lets ps f : pwf_lets lets = true -> find_function name lets = Some (ps, f) -> pwf_lv (LFunction ps f) = true.
Proof.
  induction lets as [|[n v] lets IH]; intros Hn H; cbn in *; [discriminate|]. apply andb_prop in Hn. destruct Hn as [Hv Hl].
  destruct (find_function name lets) as [[ps' f']|]; [inversion H; subst; apply IH; [assumption|reflexivity]|].
  destruct v; try discriminate. destruct (String.eqb n name); [|discriminate]. inversion H; subst. exact Hv.
Qed.
Lemma find_query_pwf name lets aq : pwf_lets lets = true -> find_query name lets = Some aq -> pwf_aq aq = true.
Proof.
  induction lets as [|[n v] lets IH]; intros Hn H; cbn in *; [discriminate|]. apply andb_prop in Hn. destruct Hn as [Hv Hl].
  destruct (find_query name lets) as [aq'|]; [inversion H; subst; apply IH; [assumption|reflexivity]|].
  destruct v; try discriminate. destruct (String.eqb n name); [|discriminate]. inversion H; subst. exact Hv.
Qed.

Lemma pwf_lv_fn ps f : pwf_lv (LFunction ps f) = true -> List.length ps = fn_arity f /\ forallb pwf_lv ps = true.
Proof. intros H. change (Nat.eqb (List.length ps) (fn_arity f) && forallb pwf_lv ps = true) in H. apply andb_prop in H. destruct H as [H1 H2]. split; [apply Nat.eqb_eq; exact H1|exact H2]. Qed.

(* ------------------------------------------------------------------ *)
(* every body of the interpreter *)

Section Bodies.
Variable re : re_oracle.
Variable conv : conv_oracle.
Variable prog : rules_file.
Hypothesis Hprog : pwf_prog prog = true.
Variable r : ev.

Definition NP : Prop :=
  (forall qi q cur cv, pwf_query q = true -> npM (ev_query r qi q cur cv)) /\
  (forall g, pwf_clause g = true -> npM (ev_clause r g)) /\
  (forall x, pwf_rule x = true -> npM (ev_rule r x)) /\
  (forall n, npM (ev_resolve r n)) /\
  (forall f ps, pwf_lv (LFunction ps f) = true -> npM (ev_fn r f ps)).
Hypothesis Hr : NP.

Let Hq := proj1 Hr.
Let Hc := proj1 (proj2 Hr).
Let Hrule := proj1 (proj2 (proj2 Hr)).
Let Hres := proj1 (proj2 (proj2 (proj2 Hr))).
Let Hfn := proj2 (proj2 (proj2 (proj2 Hr))).

Ltac np_step :=
  first
  [ assumption
  | apply np_ret | apply np_failM | apply np_unknownM | apply np_leaf | apply np_ctx_root | apply np_panic_missing
  | apply np_set_top_memo | apply np_add_capture
  | match goal with |- npM (concatMapM _ _) => apply np_concatMapM; intros ? end
  | match goal with |- npM (mapM _ _) => apply np_mapM; intros ? end
  | apply np_bind; [|intros ?]
  | apply np_node
  | match goal with |- npM (match ?x with _ => _ end) => destruct x eqn:? end
  | match goal with |- npM (if ?x then _ else _) => destruct x eqn:? end
  | match goal with |- npM (let (_, _) := ?x in _) => destruct x eqn:? end ].
Ltac nps := repeat np_step.
Ltac psplit := repeat match goal with H : _ && _ = true |- _ => apply andb_prop in H; destruct H end.

Lemma np_ctx_query_fs fs q : pwf_query q = true -> npM (ctx_query_fs r fs q).
Proof.
  intros Hw. induction fs as [|f fs IH]; cbn [ctx_query_fs]; [apply np_unknownM|].
  destruct f; [apply Hq; exact Hw|apply Hq; exact Hw|apply np_with_parent, Hq; exact Hw|apply np_with_parent, IH].
Qed.
Lemma np_ctx_query q : pwf_query q = true -> npM (ctx_query r q).
Proof. intros Hw s Hi. unfold ctx_query. apply (np_ctx_query_fs (frames s) q Hw s Hi). Qed.

Lemma np_arg (p : let_value) (lit : pv -> qres) : pwf_lv p = true ->
  npM (match p with
       | LValue v => ret [lit v]
       | LAccess a => ctx_query r (aq_query a)
       | LFunction ps n => ev_fn r n ps
       end).
Proof.
  intros Hw. destruct p as [v|a|ps n]; [apply np_ret|apply np_ctx_query, pwf_aq_query; exact Hw|apply Hfn; exact Hw].
Qed.

Lemma mapM_length {A B} (f : A -> M B) l s bs recs s' : mapM f l s = Done (bs, recs, s') -> List.length bs = List.length l.
Proof.
  revert s bs recs s'. induction l as [|x l IH]; intros s bs recs s' H; cbn [mapM] in H.
  - apply ret_inv in H as (-> & _ & _). reflexivity.
  - apply bind_inv in H as (b & r1 & s1 & r2 & H1 & H2 & _). apply bind_inv in H2 as (bs' & r3 & s2 & r4 & H2 & H3 & _).
    apply ret_inv in H3 as (-> & _ & _). cbn. f_equal. eapply IH; exact H2.
Qed.

Lemma np_fn_body name params : pwf_lv (LFunction params name) = true -> npM (fn_body r name params).
Proof.
  intros Hw. destruct (pwf_lv_fn _ _ Hw) as [Hlen Hps]. unfold fn_body.
  eapply (np_bind_post (fun args => List.length args = fn_arity name)).
  - apply np_mapM_in. intros p Hp. apply (np_arg p QLiteral). eapply forallb_in'; eassumption.
  - intros s args recs s' E. rewrite (mapM_length _ _ _ _ _ _ E). exact Hlen.
  - intros args Hargs. apply np_bind; [apply np_lift, np_call_fn; exact Hargs|]. intros res. apply np_ret.
Qed.

Lemma np_resolve_scope is_root root lets memo name : pwf_lets lets = true -> npM (resolve_scope r is_root root lets memo name).
Proof.
  intros Hl. unfold resolve_scope.
  destruct (find_literal name lets); [apply np_ret|]. destruct (assoc name memo); [apply np_ret|].
  destruct (find_function name lets) as [[ps f]|] eqn:Ef.
  - pose proof (find_function_pwf _ _ _ _ Hl Ef) as Hw. apply np_bind; [apply Hfn; exact Hw|]. intros result. nps.
  - destruct (find_query name lets) as [aq|] eqn:Eq.
    + pose proof (pwf_aq_query _ (find_query_pwf _ _ _ Hl Eq)) as Hw. apply np_bind; [apply Hq; exact Hw|]. intros result. nps.
    + destruct is_root; [apply np_failM|]. apply np_with_parent, Hres.
Qed.

Lemma np_resolve_body name : npM (resolve_body r name).
Proof.
  intros s Hi. unfold resolve_body. case_eq (frames s); [intros E; split; discriminate|intros f fs E].
  assert (Hf : frame_pwf f) by (unfold InvP in Hi; rewrite E in Hi; inversion Hi; assumption).
  pose proof (np_with_parent _ (Hres name)) as Hp.
  destruct f as [root l memo|root l memo|root|b c m].
  - exact (np_resolve_scope true root l memo name Hf s Hi).
  - exact (np_resolve_scope false root l memo name Hf s Hi).
  - exact (Hp s Hi).
  - destruct (assoc name b); [exact (np_ret _ s Hi)|exact (Hp s Hi)].
Qed.

Section Walk.
Variable q : query.
Hypothesis Hw : pwf_query q = true.

Lemma np_next qi cur cv : npM (rq r qi q cur cv).
Proof. apply Hq. exact Hw. Qed.

Lemma np_map_resolved qi qr cv : npM (map_resolved qr (fun v => rq r qi q v cv)).
Proof. unfold map_resolved. destruct qr; try apply np_ret. apply np_next. Qed.

Lemma np_accumulate parent qi elements cv : npM (accumulate r parent qi q elements cv).
Proof. unfold accumulate. destruct elements; [apply np_ret|]. apply np_concatMapM. intros each. apply np_next. Qed.

Lemma np_accumulate_map parent keys vals qi cv func :
  (forall i key value, npM (func i q key value cv)) -> npM (accumulate_map parent keys vals qi q cv func).
Proof.
  intros Hf. unfold accumulate_map. destruct vals; [apply np_ret|]. apply np_concatMapM. intros kv.
  apply np_with_frame; [exact I|]. apply Hf.
Qed.

Lemma np_filter_cnf cnf : pwf_cnf cnf = true -> npM (eval_filter_cnf r cnf).
Proof.
  intros Hwc. unfold eval_filter_cnf. apply np_cnf_body_in. intros line x Hl Hx. apply Hc. eapply pwf_cnf_in; eassumption.
Qed.

Lemma np_check_and_delegate cnf name index key value cv : pwf_cnf cnf = true ->
  npM (check_and_delegate r cnf name index q key value cv).
Proof.
  intros Hwc. unfold check_and_delegate. apply np_bind; [apply np_node, np_filter_cnf; exact Hwc|]. intros st.
  apply np_bind; [nps|]. intros _. destruct st; try apply np_ret. apply np_next.
Qed.

Lemma np_lookup_key vals cur key qi cv : npM (lookup_key conv r vals cur key qi q cv).
Proof.
  unfold lookup_key. pose proof np_next as Hnx.
  destruct (map_get key vals); [apply Hnx|]. destruct cv as [c|].
  - destruct (conv c key); [|apply np_unknownM]. destruct (map_get _ vals); [apply Hnx|apply np_ret].
  - repeat (match goal with
            | |- npM (match conv ?c key with _ => _ end) => destruct (conv c key); [|apply np_unknownM]
            | |- npM (match map_get ?x vals with _ => _ end) => destruct (map_get x vals); [apply Hnx|]
            end).
    apply np_ret.
Qed.

Lemma np_interpolate var vals cur qi cv : npM (interpolate r var vals cur qi q cv).
Proof.
  pose proof np_next as Hnx. unfold interpolate. apply np_bind; [apply Hres|]. intros keys.
  destruct (nth_error q (S qi)) as [[]|]; nps; try apply Hnx; try (apply np_lift; unfold abs_index; apply np_done).
Qed.

End Walk.

Lemma np_old_report_value c x : npM (old_report_value c x).
Proof. unfold old_report_value. nps. Qed.

Lemma np_real_binary_operation lhs rhs c0 : is_unary (fst c0) = false -> npM (real_binary_operation re lhs rhs c0).
Proof.
  intros Hb. unfold real_binary_operation. cbv zeta.
  assert (Hc0 : is_unary (fst (if cmp_op_eqb (fst c0) OEq && Nat.ltb 1 (List.length rhs) then (OIn, snd c0) else c0)) = false).
  { destruct (cmp_op_eqb (fst c0) OEq && Nat.ltb 1 (List.length rhs))%bool; [reflexivity|exact Hb]. }
  revert Hc0. generalize (if cmp_op_eqb (fst c0) OEq && Nat.ltb 1 (List.length rhs) then (OIn, snd c0) else c0) as c. intros c Hc0.
  apply np_concatMapM. intros each. destruct each as [l|l|u]; [| |nps];
    (destruct l; try apply np_unknownM;
     (apply np_bind;
      [ apply np_lift; destruct (fst c); try discriminate; apply np_each_lhs_compare; intros ? ?;
        first [apply np_in_cmp | apply np_not_compare; first [apply np_compare_eq | apply np_cmp_with]]
      | intros rs; destruct (fst c); nps; apply np_old_report_value ])).
Qed.

Lemma np_map_key_filter q qi c w n keys vals cur cv : pwf_query q = true ->
  nth_error q qi = Some (QMapKeyFilter n c w) -> npM (map_key_filter re r c w keys vals cur qi q cv).
Proof.
  intros Hw Hn. pose proof (pwf_query_part _ _ _ Hw Hn) as Hp.
  change (negb (is_unary (fst c)) && pwf_lv w = true) in Hp. apply andb_prop in Hp. destruct Hp as [Hb Hlv].
  apply Bool.negb_true_iff in Hb.
  unfold map_key_filter. apply np_bind.
  - destruct w as [v|a|ps f]; [apply np_ret|apply Hq, pwf_aq_query; exact Hlv|apply Hfn; exact Hlv].
  - intros rhs. apply np_bind; [apply np_real_binary_operation; exact Hb|]. intros results.
    apply np_bind; [nps|]. intros selected. nps; apply Hq; exact Hw.
Qed.

Lemma np_query_body qi q cur cv : pwf_query q = true -> npM (query_body re conv r qi q cur cv).
Proof.
  intros Hw. unfold query_body. destruct (nth_error q qi) as [part|] eqn:Hn; [|apply np_ret].
  pose proof (np_next q Hw) as Hnx. pose proof (pwf_query_part _ _ _ Hw Hn) as Hp.
  destruct (if Nat.eqb qi 0 then part_variable part else None) as [var|].
  - apply np_bind; [apply Hres|]. intros retrieved. apply np_concatMapM. intros each.
    destruct each as [v|v|u]; try apply np_ret;
      (match goal with |- npM (if ?c then _ else _) => destruct c end; [|apply np_ret]; apply np_with_frame; [exact I|apply Hnx]).
  - destruct part as [|key|n c w|n|n|i|n cnf].
    + apply Hnx.
    + destruct (parse_i32 key).
      * destruct cur; try apply np_ret. apply np_bind; [apply np_lift, np_retrieve_index|]. intros qr. apply np_map_resolved; exact Hw.
      * destruct cur; try apply np_ret. destruct (key_variable key); [apply np_interpolate; exact Hw|apply np_lookup_key; exact Hw].
    + destruct cur; try apply np_ret. eapply np_map_key_filter; eassumption.
    + destruct cur; try apply Hnx; [apply np_accumulate; exact Hw|].
      apply np_accumulate_map. intros i key value. nps; apply Hnx.
    + destruct cur; try apply Hnx; [apply np_accumulate; exact Hw|].
      destruct n; [|apply Hnx]. apply np_accumulate_map. intros i key value. nps; apply Hnx.
    + destruct cur; try apply np_ret. apply np_bind; [apply np_lift, np_retrieve_index|]. intros qr. apply np_map_resolved; exact Hw.
    + change (pwf_cnf cnf = true) in Hp.
      destruct qi as [|pi]; [exfalso; eapply pwf_query_head; eassumption|].
      destruct cur; try (destruct (nth_error q pi) as [[]|]; try apply np_ret;
                         apply np_bind; [apply np_node, np_with_frame; [exact I|apply np_filter_cnf; exact Hp]|];
                         intros st; destruct st; try apply np_ret; apply Hnx).
      * apply np_concatMapM. intros each.
        apply np_bind; [apply np_node, np_with_frame; [exact I|apply np_filter_cnf; exact Hp]|].
        intros st; destruct st; try apply np_ret; apply Hnx.
      * destruct (nth_error q pi) as [[]|]; try apply np_failM.
        -- destruct vals; [apply np_ret|]. apply np_accumulate_map. intros i key value. apply np_check_and_delegate; assumption.
        -- apply np_with_frame; [exact I|]. apply np_check_and_delegate; assumption.
        -- apply np_with_frame; [exact I|]. apply np_check_and_delegate; assumption.
Qed.

(* ------------------------------------------------------------------ *)
(* clauses *)

Lemma post_unary_operation lq c inverse custom : postM no_skip_res (unary_operation r lq c inverse custom).
Proof.
  unfold unary_operation. eapply post_bind; [apply post_any|]. intros lhs _.
  destruct lq as [|p0 lq']; [destruct (last [] QThis); apply post_panic|].
  generalize (last (p0 :: lq') QThis) as lastp. intros lastp.
  assert (Hm1 : forall l, postM no_skip_res
            (res <- mapM (fun each =>
                   let '(result, st) :=
                     match each with
                     | QLiteral x | QResolved x =>
                         (QResolved x, if (if snd c then negb (is_null x) else is_null x) then PASS else FAIL)
                     | QUnResolved u => (QUnResolved u, if snd c then FAIL else PASS)
                     end in
                   let st := if inverse then invert_status st else st in
                   _ <- leaf (KClauseValueCheck (match st with PASS => CSuccess | _ => CUnary c result false custom FAIL end)) ;;
                   ret (result, st)) l ;;
             ret (QueryValueResult res))).
  { intros l. eapply post_bind; [apply (post_mapM pf)|intros res Hrs; apply post_ret; apply pf_no_skip; exact Hrs].
    intros each. destruct each as [x|x|u];
      [destruct (if snd c then negb (is_null x) else is_null x)|destruct (if snd c then negb (is_null x) else is_null x)|destruct (snd c)];
      destruct inverse; (eapply post_bind; [apply post_any|]; intros _ _; apply post_ret; unfold pf; cbn; auto). }
  assert (Hm2 : forall base l, postM no_skip_res
            (res <- mapM (fun each =>
                       b <- lift (unary_op c inverse base each) ;;
                       _ <- leaf (KClauseValueCheck (if b then CSuccess else CUnary c each false custom FAIL)) ;;
                       ret (each, if b then PASS else FAIL)) l ;;
             ret (QueryValueResult res))).
  { intros base l. eapply post_bind; [apply (post_mapM pf)|intros res Hrs; apply post_ret; apply pf_no_skip; exact Hrs].
    intros each. eapply post_bind; [apply post_any|]. intros b _. eapply post_bind; [apply post_any|]. intros _ _.
    apply post_ret. unfold pf. destruct b; cbn; auto. }
  destruct lastp;
    repeat first
      [ apply Hm1 | apply Hm2 | apply post_ret; exact I | apply post_panic
      | eapply post_bind; [apply post_any|intros _ _]
      | match goal with |- postM _ (match ?x with _ => _ end) => destruct x end
      | match goal with |- postM _ (if ?x then _ else _) => destruct x end ].
Qed.

Lemma post_binary_operation lq rhs c custom : postM no_skip_res (binary_operation re r lq rhs c custom).
Proof.
  unfold binary_operation. eapply post_bind; [apply post_any|]. intros lhs _. eapply post_bind; [apply post_any|]. intros results _.
  destruct results as [|l]; [apply post_ret; exact I|].
  eapply post_bind; [|intros res Hrs; apply post_ret; apply pf_no_skip; exact Hrs].
  apply post_concatMapM. intros e. apply post_mapM_in. intros t Ht. destruct t as [[cc v] st].
  eapply post_bind; [apply post_any|]. intros _ _. apply post_ret.
  destruct (report_binary_pass_or_fail c custom e (cc, v, st) Ht) as [H|H]; unfold pf; cbn in *; auto.
Qed.

Lemma np_unary_operation lq c inverse custom : pwf_query lq = true -> lq <> [] -> is_unary (fst c) = true ->
  npM (unary_operation r lq c inverse custom).
Proof.
  intros Hw Hne Hu. unfold unary_operation. apply np_bind; [apply np_ctx_query; exact Hw|]. intros lhs.
  destruct lq as [|p0 lq']; [contradiction|].
  destruct (unary_operator_has_operation _ Hu) as (base & Eb). rewrite Eb.
  generalize (last (p0 :: lq') QThis) as lastp. intros lastp.
  assert (Hb : forall v, np (base v)) by (intros v; eapply np_unary_base; exact Eb).
  destruct lastp;
    repeat first
      [ match goal with |- npM (bind (lift (unary_op _ _ _ _)) _) => apply np_bind; [apply np_lift, np_unary_op, Hb|intros ?] end
      | np_step ].
Qed.

Lemma np_binary_operation lq rhs c custom : pwf_query lq = true -> npM (binary_operation re r lq rhs c custom).
Proof.
  intros Hw. unfold binary_operation. apply np_bind; [apply np_ctx_query; exact Hw|]. intros lhs.
  apply np_bind; [apply np_lift, np_cmp_compare|]. intros results. nps.
Qed.

Lemma np_access_clause_body g : pwf_ac g = true -> npM (access_clause_body re r g).
Proof.
  intros Hw. destruct g as [aq c w custom negation].
  change (pwf_aq aq && match aq_query aq with [] => false | _ => true end && match w with None => true | Some v => pwf_lv v end = true) in Hw.
  psplit. pose proof (pwf_aq_query _ H) as Hq1.
  assert (Hne : aq_query aq <> []) by (destruct (aq_query aq); [discriminate|discriminate]).
  unfold access_clause_body. apply np_bind; [|intros ?; apply np_ret]. apply np_node.
  assert (Hfinal : forall res, no_skip_res res -> npM (match res with
        | EmptyQueryResult st => ret (st, aq_all aq)
        | QueryValueResult l =>
            if has_status SKIP l then panicM P_skip_in_values
            else ret (if aq_all aq then (if has_status FAIL l then FAIL else PASS) else (if has_status PASS l then PASS else FAIL), negb (aq_all aq))
        end)).
  { intros res Hrs. destruct res as [st|l]; [apply np_ret|]. cbn in Hrs. rewrite Hrs. apply np_ret. }
  destruct (is_unary (fst c)) eqn:Eu.
  - eapply np_bind_post; [apply np_unary_operation; assumption|apply post_unary_operation|exact Hfinal].
  - destruct w as [wv0|]; [|eapply (np_bind_post (fun _ => False)); [apply np_failM|apply post_fail|intros res []]].
    eapply np_bind_post; [| |exact Hfinal].
    + apply np_bind; [apply (np_arg wv0 QLiteral); assumption|]. intros rhs. apply np_binary_operation; exact Hq1.
    + eapply post_bind; [apply post_any|]. intros rhs _. apply post_binary_operation.
Qed.

Lemma pwf_rules_named name x : In x (rules_named prog name) -> pwf_rule x = true.
Proof.
  intros Hin. unfold rules_named in Hin. apply filter_In in Hin as [Hin _].
  unfold pwf_prog in Hprog. psplit. eapply forallb_in'; eassumption.
Qed.

Lemma find_param_rule_pwf dep p : find_param_rule prog dep = Some p -> pwf_rule (pr_rule p) = true.
Proof.
  unfold find_param_rule. unfold pwf_prog in Hprog. psplit.
  match goal with H : forallb (fun pr => pwf_rule (pr_rule pr)) _ = true |- _ => revert H end. generalize (rf_param_rules prog) as l. intros l Hl.
  assert (G : forall acc, (forall q, acc = Some q -> pwf_rule (pr_rule q) = true) ->
              fold_left (fun acc p0 => if String.eqb (rule_name (pr_rule p0)) dep then Some p0 else acc) l acc = Some p ->
              pwf_rule (pr_rule p) = true).
  { induction l as [|x l IH]; intros acc Hacc Hf; cbn in *; [apply Hacc; exact Hf|]. apply andb_prop in Hl. destruct Hl as [Hx Hl'].
    eapply IH; [exact Hl'| |exact Hf]. intros q Hq0. destruct (String.eqb (rule_name (pr_rule x)) dep).
    - inversion Hq0; subst. exact Hx.
    - apply Hacc. exact Hq0. }
  apply G. intros q Hq0. discriminate.
Qed.

Lemma np_first_non_skip rules : (forall x, In x rules -> pwf_rule x = true) -> npM (first_non_skip r rules).
Proof.
  induction rules as [|x rest IH]; intros H; cbn [first_non_skip]; [apply np_ret|].
  apply np_bind; [apply Hrule, H; left; reflexivity|]. intros st.
  destruct st; try apply np_ret. apply IH. intros y Hy. apply H. right. exact Hy.
Qed.

Lemma np_rule_status_body name : npM (rule_status_body prog r name).
Proof.
  unfold rule_status_body. apply np_at_root. intros s Hi.
  destruct (assoc name (statuses s)); [exact (np_ret _ s Hi)|].
  destruct (rules_named prog name) as [|x rest] eqn:En; [split; discriminate|].
  assert (Hf : npM (first_non_skip r (x :: rest))).
  { apply np_first_non_skip. intros y Hy. apply (pwf_rules_named name). rewrite En. exact Hy. }
  destruct (Hf s Hi) as [Hno Hsh]. unfold bind.
  destruct (first_non_skip r (x :: rest) s) as [[[st r1] s1]|e|p| |] eqn:E; try (split; discriminate).
  - split; [discriminate|]. intros a recs s' H. inversion H; subst. specialize (Hsh _ _ _ eq_refl).
    unfold same_shape, shape in *. cbn. exact Hsh.
  - split; [|discriminate]. intros p' H. inversion H; subst. apply Hno. reflexivity.
Qed.

Lemma np_named_clause_body n : npM (named_clause_body prog r n).
Proof. destruct n as [dep negation custom]. unfold named_clause_body. apply np_node. apply np_bind; [apply np_rule_status_body|]. intros st. apply np_ret. Qed.

Lemma np_gblock_body b : pwf_block b = true -> npM (gblock_body r b).
Proof.
  intros Hw. destruct b as [lets cnf]. change (pwf_lets lets && pwf_cnf cnf = true) in Hw. apply andb_prop in Hw. destruct Hw as [Hl Hcnf].
  unfold gblock_body. apply np_bind; [apply np_ctx_root|]. intros root.
  apply np_with_frame; [exact Hl|]. apply np_cnf_body_in. intros line x Hln Hx. apply Hc. eapply pwf_cnf_in; eassumption.
Qed.

Lemma np_block_clause_body aq b ne : pwf_aq aq = true -> pwf_block b = true -> npM (block_clause_body r aq b ne).
Proof.
  intros Hw1 Hw2. unfold block_clause_body. apply np_node. apply np_bind; [apply np_ctx_query, pwf_aq_query; exact Hw1|]. intros values.
  destruct values; [apply np_ret|]. apply np_bind; [|intros ?; apply np_ret].
  apply np_mapM. intros each. destruct each; try (nps; fail); (apply np_with_frame; [exact I|]; apply np_gblock_body; exact Hw2).
Qed.

Lemma np_param_call_body params n : forallb pwf_lv params = true -> npM (param_call_body prog r params n).
Proof.
  intros Hw. destruct n as [dep negation custom]. unfold param_call_body.
  destruct (find_param_rule prog dep) as [p|] eqn:Ef; [|apply np_failM].
  pose proof (find_param_rule_pwf _ _ Ef) as Hp.
  match goal with |- npM (if ?c then _ else _) => destruct c end; [apply np_failM|].
  apply np_bind.
  - apply np_mapM_in. intros each Hin'. apply (np_arg each QLiteral). eapply forallb_in'; eassumption.
  - intros resolved. apply np_with_frame; [exact I|]. apply Hrule. exact Hp.
Qed.

Lemma np_when_clause_body w : pwf_wc w = true -> npM (when_clause_body re prog r w).
Proof.
  intros Hw. destruct w as [c|n|ps n]; cbn [when_clause_body].
  - apply np_access_clause_body. exact Hw.
  - apply np_named_clause_body.
  - apply np_param_call_body. exact Hw.
Qed.

Lemma np_conds conds mk : pwf_conds conds = true -> npM (node (cnf_body (when_clause_body re prog r) conds) mk).
Proof.
  intros Hw. apply np_node. apply np_cnf_body_in. intros line x Hl Hx. apply np_when_clause_body. eapply pwf_conds_in; eassumption.
Qed.

Lemma np_when_block_body conds b : pwf_conds conds = true -> pwf_block b = true -> npM (when_block_body re prog r conds b).
Proof.
  intros Hw1 Hw2. unfold when_block_body. apply np_node. apply np_bind; [apply np_conds; exact Hw1|]. intros cst.
  destruct cst; try apply np_ret. apply np_gblock_body; exact Hw2.
Qed.

Lemma np_clause_body g : pwf_clause g = true -> npM (clause_body re prog r g).
Proof.
  intros Hw. destruct g as [c|n|ps n|aq b ne|conds b]; cbn [clause_body].
  - apply np_access_clause_body. exact Hw.
  - apply np_named_clause_body.
  - apply np_param_call_body. exact Hw.
  - change (pwf_aq aq && pwf_block b = true) in Hw. apply andb_prop in Hw. destruct Hw. apply np_block_clause_body; assumption.
  - change (pwf_conds conds && pwf_block b = true) in Hw. apply andb_prop in Hw. destruct Hw. apply np_when_block_body; assumption.
Qed.

Lemma np_oconds (conds : option when_conditions) mk : pwf_oconds conds = true ->
  npM (match conds with
       | Some c => cst <- node (cnf_body (when_clause_body re prog r) c) mk ;; ret (status_eqb cst PASS)
       | None => ret true
       end).
Proof.
  intros Hw. destruct conds as [c|]; [|apply np_ret]. apply np_bind; [apply np_conds; exact Hw|]. intros cst. apply np_ret.
Qed.

Lemma np_type_block_body tn conds b q : pwf_oconds conds = true -> pwf_block b = true -> pwf_query q = true ->
  npM (type_block_body re prog r tn conds b q).
Proof.
  intros Hw1 Hw2 Hw3. unfold type_block_body. apply np_node.
  apply np_bind; [apply np_oconds; exact Hw1|]. intros go. destruct (negb go); [apply np_ret|].
  apply np_bind; [apply np_ctx_query; exact Hw3|]. intros values. destruct values; [apply np_ret|].
  apply np_bind; [|intros ?; apply np_ret]. apply np_mapM. intros each.
  destruct each; try apply np_failM; (apply np_node, np_with_frame; [exact I|]; apply np_gblock_body; exact Hw2).
Qed.

Lemma np_rule_clause_body c : pwf_rc c = true -> npM (rule_clause_body re prog r c).
Proof.
  intros Hw. destruct c as [g|conds b|tn conds b q]; cbn [rule_clause_body pwf_rc] in *.
  - apply Hc. exact Hw.
  - psplit. apply np_when_block_body; assumption.
  - psplit. apply np_type_block_body; assumption.
Qed.

Lemma np_rule_body x : pwf_rule x = true -> npM (rule_body re prog r x).
Proof.
  intros Hw. unfold pwf_rule in Hw. psplit. unfold rule_body. apply np_node.
  apply np_bind; [apply np_oconds; assumption|]. intros go. destruct (negb go); [apply np_ret|].
  apply np_bind; [apply np_ctx_root|]. intros root. apply np_with_frame; [assumption|].
  apply np_cnf_body_in. intros line c Hl Hx. apply np_rule_clause_body.
  eapply forallb_in'; [|exact Hx]. eapply forallb_in'; [|exact Hl]. assumption.
Qed.

End Bodies.

(* ------------------------------------------------------------------ *)
(* every entry point, at every fuel *)

Section Main.
Variable re : re_oracle.
Variable conv : conv_oracle.
Variable prog : rules_file.
Hypothesis Hprog : pwf_prog prog = true.

Theorem evalN_np n : NP (evalN re conv prog n).
Proof.
  induction n as [|n IH].
  - unfold NP. cbn [evalN ev_bottom ev_query ev_clause ev_rule ev_resolve ev_fn]. (split; [|split; [|split; [|split]]]); intros; apply np_oofM.
  - change (evalN re conv prog (S n)) with
      (let r := evalN re conv prog n in
       mkEv (query_body re conv r) (clause_body re prog r) (rule_body re prog r) (resolve_body r) (fn_body r)).
    cbv zeta. unfold NP. cbn [ev_query ev_clause ev_rule ev_resolve ev_fn]. (split; [|split; [|split; [|split]]]); intros.
    + eapply np_query_body; eassumption.
    + eapply np_clause_body; eassumption.
    + eapply np_rule_body; eassumption.
    + eapply np_resolve_body; eassumption.
    + eapply np_fn_body; eassumption.
Qed.

Lemma init_invp doc : InvP (init_state prog doc).
Proof.
  unfold InvP, init_state. cbn. constructor; [|constructor]. cbn.
  unfold pwf_prog in Hprog. apply andb_prop in Hprog. destruct Hprog as [H _]. apply andb_prop in H. apply H.
Qed.

(* the evaluation of a file never reaches a panic site of the evaluator, the operator layer or the built-in functions,
   whatever the fuel, the document and the oracles - the one site that depends on the shape of a VALUE excepted *)
Theorem eval_file_no_panic fuel doc p : eval_file re conv prog fuel doc = Panic p -> p = P_map_key_missing.
Proof.
  intros H. unfold eval_file, file_body in H.
  assert (Hok : npM (node (sts <- mapM (ev_rule (evalN re conv prog fuel)) (rf_rules prog) ;; ret (fold_fail_pass_skip sts)) KFileCheck)).
  { apply np_node. apply np_bind; [|intros sts; apply np_ret]. apply np_mapM_in. intros x Hx.
    destruct (evalN_np fuel) as (_ & _ & Hrule & _). apply Hrule.
    unfold pwf_prog in Hprog. apply andb_prop in Hprog. destruct Hprog as [H0 _]. apply andb_prop in H0. destruct H0 as [_ H0].
    eapply forallb_in'; eassumption. }
  exact (proj1 (Hok _ (init_invp doc)) p H).
Qed.

End Main.

(* ------------------------------------------------------------------ *)
(* the remaining site is guarded by an invariant of the loader: a document annotated from a plain value is key-consistent *)

Lemma assoc_annot_some p (m : list (string * value)) k :
  In k (map fst m) ->
  assoc k ((fix go (m : list (string * value)) : list (string * pv) :=
              match m with [] => [] | (k0, x) :: r => (k0, annotate (path_extend p k0) x) :: go r end) m) <> None.
Proof.
  induction m as [|[k0 x] m IH]; cbn [map fst In assoc]; [contradiction|]. intros [E|H].
  - subst k0. rewrite String.eqb_refl. discriminate.
  - destruct (String.eqb k k0); [discriminate|]. apply IH. exact H.
Qed.

Theorem annotate_wfv : forall v p, wfv (annotate p v) = true.
Proof.
  fix IH 1. intros v p. destruct v as [| | | | | | |l|m| | |]; try reflexivity.
  - cbn [annotate wfv]. generalize 0%N as i. induction l as [|x l IHl]; intros i; cbn; [reflexivity|]. rewrite IH. cbn. apply IHl.
  - cbn [annotate wfv]. apply andb_true_intro. split.
    + apply forallb_forall. intros k Hk. apply in_map_iff in Hk as ([k0 x] & <- & Hin). cbn [fst].
      pose proof (assoc_annot_some p m k0 (in_map fst m (k0, x) Hin)) as H.
      destruct (assoc k0 _); [reflexivity|contradiction].
    + induction m as [|[k0 x] m IHm]; cbn; [reflexivity|]. rewrite IH. cbn. exact IHm.
Qed.
