(* TermPure.v — the value layer never runs out of fuel: comparisons, the operator layer of operators.rs and the
   built-in functions are total functions of their arguments (they answer a value, an error, a panic site or
   "oracle miss", never OutOfFuel). Used by TermProps.v (termination of the evaluator). *)
From GV.Model Require Import SEval.
From GV.Proofs Require Import RefineOps.

Definition nf {A} (o : outcome A) : Prop := o <> OutOfFuel.

Lemma nf_done {A} (a : A) : nf (Done a).
Proof. discriminate. Qed.
Lemma nf_err {A} e : nf (@Err A e).
Proof. discriminate. Qed.
Lemma nf_panic {A} p : nf (@Panic A p).
Proof. discriminate. Qed.
Lemma nf_unknown {A} : nf (@Unknown A).
Proof. discriminate. Qed.

Lemma nf_obind {A B} (m : outcome A) (f : A -> outcome B) : nf m -> (forall a, nf (f a)) -> nf (obind m f).
Proof. intros Hm Hf. destruct m; cbn; try discriminate; [apply Hf|contradiction]. Qed.

Lemma nf_omapM {A B} (f : A -> outcome B) l : (forall x, nf (f x)) -> nf (omapM f l).
Proof.
  intros Hf. induction l as [|x l IH]; cbn [omapM]; [apply nf_done|].
  apply nf_obind; [apply Hf|]. intros y. apply nf_obind; [exact IH|]. intros ys. apply nf_done.
Qed.

Ltac nf_step :=
  first
  [ assumption
  | apply nf_done | apply nf_err | apply nf_panic | apply nf_unknown
  | apply nf_obind; [|intros ?]
  | apply nf_omapM; intros ?
  | match goal with |- nf (match ?x with _ => _ end) => destruct x end
  | match goal with |- nf (if ?x then _ else _) => destruct x end ].
Ltac nfs := repeat nf_step.

Section WithRegex.
Variable re : re_oracle.

Lemma nf_regex_cmp_eq r s : nf (regex_cmp_eq re r s).
Proof. unfold regex_cmp_eq. nfs. Qed.
Lemma nf_regex_partial_eq r s : nf (regex_partial_eq re r s).
Proof. unfold regex_partial_eq. nfs. Qed.

Lemma nf_cmp_with f a b : nf (cmp_with f a b).
Proof. unfold cmp_with. nfs. Qed.

Lemma nf_compare_eq a : forall b, nf (compare_eq re a b).
Proof.
  induction a as [p|p s|p s|p b0|p z|p f|p c|p l IH|p ks vals IH|p lo hi i|p lo hi i|p lo hi i] using pv_ind'; intros b;
    destruct b; cbn [compare_eq]; try (nfs; fail); try apply nf_regex_cmp_eq.
  - (* lists *)
    destruct (Nat.eqb (List.length l) (List.length l0)); [|apply nf_done].
    revert l0. induction IH as [|x l Hx _ IHl]; intros l0; [destruct l0; apply nf_done|].
    destruct l0 as [|y l0]; [apply nf_done|]. apply nf_obind; [apply Hx|]. intros e. destruct e; [apply IHl|apply nf_done].
  - (* maps *)
    destruct (Nat.eqb (List.length vals) (List.length vals0)); [|apply nf_done].
    induction vals as [|[k v] vals IHv]; [apply nf_done|]. cbn [map] in IH. inversion IH as [|? ? Hv Hrest]; subst.
    destruct (map_get k vals0); [|apply nf_done]. apply nf_obind; [apply Hv|]. intros e. destruct e; [apply IHv; exact Hrest|apply nf_done].
Qed.

Lemma nf_partial_eq a : forall b, nf (partial_eq re a b).
Proof.
  induction a as [p|p s|p s|p b0|p z|p f|p c|p l IH|p ks vals IH|p lo hi i|p lo hi i|p lo hi i] using pv_ind'; intros b;
    destruct b; cbn [partial_eq]; try (nfs; fail); try apply nf_regex_partial_eq.
  - destruct (Nat.eqb (List.length l) (List.length l0)); [|apply nf_done].
    revert l0. induction IH as [|x l Hx _ IHl]; intros l0; [destruct l0; apply nf_done|].
    destruct l0 as [|y l0]; [apply nf_done|]. apply nf_obind; [apply Hx|]. intros e. destruct e; [apply IHl|apply nf_done].
  - destruct (Nat.eqb (List.length vals) (List.length vals0)); [|apply nf_done].
    induction vals as [|[k v] vals IHv]; [apply nf_done|]. cbn [map] in IH. inversion IH as [|? ? Hv Hrest]; subst.
    destruct (map_get k vals0); [|apply nf_done]. apply nf_obind; [apply Hv|]. intros e. destruct e; [apply IHv; exact Hrest|apply nf_done].
Qed.

Lemma nf_contains_pv l x : nf (contains_pv re l x).
Proof. induction l as [|y l IH]; cbn [contains_pv]; [apply nf_done|]. apply nf_obind; [apply nf_partial_eq|]. intros e. destruct e; [apply nf_done|exact IH]. Qed.

Lemma nf_not_contained l other : nf (not_contained re l other).
Proof. induction l as [|x l IH]; cbn [not_contained]; [apply nf_done|]. apply nf_obind; [apply nf_contains_pv|]. intros c. apply nf_obind; [exact IH|]. intros r. apply nf_done. Qed.

Lemma nf_match_value cmpf l r : nf (cmpf l r) -> nf (match_value cmpf l r).
Proof. intros H. unfold match_value. destruct (cmpf l r) as [[]|[]| | |]; try discriminate. contradiction. Qed.

Lemma nf_try_cmp cmpf l r : nf (cmpf l r) -> nf (try_cmp cmpf l r).
Proof. intros H. unfold try_cmp. destruct (cmpf l r) as [b|[]| | |]; try discriminate. contradiction. Qed.

Lemma nf_contained_in l r : nf (contained_in re l r).
Proof.
  unfold contained_in.
  repeat first [ apply nf_contains_pv | apply nf_not_contained | apply nf_match_value, nf_compare_eq | nf_step ].
Qed.

Lemma nf_common_compare cmpf lhs rhs : (forall a b, nf (cmpf a b)) -> nf (common_compare cmpf lhs rhs).
Proof. intros H. unfold common_compare. repeat first [apply nf_match_value, H | nf_step]. Qed.

Lemma nf_in_compare lhs rhs : nf (in_compare re lhs rhs).
Proof.
  unfold in_compare.
  destruct (is_literal lhs) as [l|], (is_literal rhs) as [r|];
    try (repeat first [ apply nf_contained_in | apply nf_not_contained | nf_step ]; fail).
  apply nf_obind; [|intros ?; apply nf_done].
  generalize (selected_values lhs) as lv. generalize (selected_values rhs) as rv. intros rv lv.
  induction lv as [|x lv IH]; [apply nf_done|].
  cbn -[contained_in].
  apply nf_obind.
  - clear IH. induction rv as [|y rv IHr]; [apply nf_done|].
    cbn -[contained_in].
    apply nf_obind; [apply nf_contained_in|]. intros c. destruct (is_success c); [apply nf_done|exact IHr].
  - intros found. apply nf_obind; [exact IH|]. intros d. apply nf_done.
Qed.

Lemma nf_eq_compare lhs rhs : nf (eq_compare re lhs rhs).
Proof.
  unfold eq_compare.
  repeat first [ apply nf_match_value, nf_compare_eq | apply nf_not_contained | nf_step ].
Qed.

Lemma nf_op_compare op lhs rhs : nf (op_compare re op lhs rhs).
Proof.
  unfold op_compare.
  repeat first [ apply nf_eq_compare | apply nf_in_compare | apply nf_common_compare; intros ? ?; apply nf_cmp_with | nf_step ].
Qed.

Lemma nf_negate_result op n m e : nf (negate_result re op n m e).
Proof. unfold negate_result, reverse_diff. repeat first [apply nf_not_contained | nf_step]. Qed.

Theorem nf_cmp_compare c lhs rhs : nf (cmp_compare re c lhs rhs).
Proof. unfold cmp_compare. repeat first [apply nf_op_compare | apply nf_negate_result | nf_step]. Qed.

Lemma nf_not_compare cmpf inv l r : nf (cmpf l r) -> nf (not_compare cmpf inv l r).
Proof. intros H. unfold not_compare. nfs. Qed.

Lemma nf_in_cmp ni l r : nf (in_cmp re ni l r).
Proof. unfold in_cmp. repeat first [apply nf_compare_eq | nf_step]. Qed.

Theorem nf_each_lhs_compare cmpf l rhs : (forall a b, nf (cmpf a b)) -> nf (each_lhs_compare cmpf l rhs).
Proof. intros H. unfold each_lhs_compare. repeat first [apply nf_try_cmp, H | nf_step]. Qed.

End WithRegex.

(* functions *)
Lemma nf_join_strings l : nf (join_strings l).
Proof.
  induction l as [|x l IH]; cbn [join_strings]; [apply nf_done|].
  destruct x as [v|v|u]; try apply nf_err; destruct v; try apply nf_err; (apply nf_obind; [exact IH|intros ?; apply nf_done]).
Qed.

Lemma nf_map_strings f args : (forall p s, nf (f p s)) -> nf (map_strings f args).
Proof. intros H. unfold map_strings. repeat first [apply H | nf_step]. Qed.

Theorem nf_call_fn name args : nf (call_fn name args).
Proof.
  unfold call_fn, fn_join, fn_to_upper, fn_to_lower, fn_substring, first_arg_value.
  destruct name;
    repeat first [ apply nf_join_strings | apply nf_map_strings; intros ? ? | nf_step
                 | match goal with |- nf (omapM ?f _) => apply nf_omapM; intros ?; unfold f end
                 | progress unfold parse_int_one, parse_bool_one, parse_str_one ].
Qed.

Lemma nf_unary_op c inverse base v : nf (base v) -> nf (unary_op c inverse base v).
Proof. intros H. unfold unary_op. nfs. Qed.

Lemma nf_unary_base o base v : unary_base o = Some base -> nf (base v).
Proof.
  destruct o; cbn; intros E; inversion E; subst; unfold exists_operation, element_empty_operation, is_type_operation; nfs.
Qed.

Lemma nf_retrieve_index parent i elements q : nf (retrieve_index parent i elements q).
Proof. unfold retrieve_index, abs_index. cbn. apply nf_done. Qed.
