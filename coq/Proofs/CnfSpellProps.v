(* CnfSpellProps.v — every concrete spelling of the conditions of a `when` made of access clauses parses to those conditions:
   lines (any layout in front of each) of alternatives (each any spelling of a clause, ClauseSpellProps) joined by `or` / `OR` /
   `|OR|` with any layout in front and any non-empty layout behind. *)
From Coq Require Import Lia.
From GV.Model Require Import Ast.
From GV.Model Require Import ValueParse QueryParse OpParse ClauseParse CnfParse.
From GV.Proofs Require Import LexProps ValueParseProps ValueSpellProps QueryParseProps QuerySpellProps OpParseProps ClauseParseProps ClauseFuelProps ClauseSpellProps CnfParseProps.
Local Open Scope string_scope.
Local Open Scope nat_scope.

Ltac norm := repeat first [ rewrite sapp_assoc in * | progress cbn [append] in * ].
Ltac lens := repeat first [ rewrite len_app in * | progress cbn [String.length] in * ].

(* ---------------------------------------------------------------- the skipper is idempotent *)
Lemma skip_solid_result : forall s b, solid (skip b s).
Proof.
  induction s as [|c s IH]; intros b; cbn; [exact I|].
  destruct b.
  - destruct (is_nl c); apply IH.
  - destruct (is_ws c) eqn:E1; [apply IH|]. destruct (is_hash c) eqn:E2; [apply IH|]. cbn. auto.
Qed.

Lemma skip_idem s : skip_ws_comments (skip_ws_comments s) = skip_ws_comments s.
Proof.
  pose proof (skip_solid_result s false) as H. fold (skip_ws_comments s) in H. destruct (skip_ws_comments s) as [|c r]; [reflexivity|].
  destruct H as [H1 H2]. now apply skip_solid.
Qed.

Lemma or_join_skip s : or_join (skip_ws_comments s) = or_join s.
Proof. unfold or_join. now rewrite skip_idem. Qed.

Lemma last_cons {X} (x d : X) l : last (x :: l) d = last l x.
Proof.
  revert x d. induction l as [|a l IH]; intros x d; [reflexivity|].
  change (last (x :: a :: l) d) with (last (a :: l) d). now rewrite (IH a d), (IH a x).
Qed.

(* ---------------------------------------------------------------- concrete syntax *)
Record corsep := mkOr { or_w : string; or_t : string; or_w' : string }.
(* an alternative: an access clause (with the operator it denotes), or a reference to a named rule with an optional message *)
Inductive calt :=
| AClause (c : cclause) (o : cmp_op * bool)
| ANamed (ng : cneg) (name : string) (msg : option (string * string)).
Record cline := mkLine { ln_w : string; ln_first : calt; ln_rest : list (corsep * calt) }.

Section Spelling.
Variable rv : string -> bool.

Definition render_or (o : corsep) : string := or_w o +++ (or_t o +++ or_w' o).
Definition render_alt (a : calt) : string :=
  match a with
  | AClause c _ => crender rv c
  | ANamed ng name msg => render_neg ng +++ (name +++ render_msg msg)
  end.
Fixpoint render_alts (l : list (corsep * calt)) : string :=
  match l with [] => EmptyString | (o, a) :: r => render_or o +++ (render_alt a +++ render_alts r) end.
Definition render_line (ln : cline) : string := ln_w ln +++ (render_alt (ln_first ln) +++ render_alts (ln_rest ln)).
Fixpoint render_conds (ls : list cline) : string :=
  match ls with [] => EmptyString | l :: r => render_line l +++ render_conds r end.

Definition denote_alt (a : calt) : pwhen :=
  match a with
  | AClause c o => PWClause (cdenote c o)
  | ANamed ng name msg => PWNamed (mkPN name (neg_flag ng) (denote_msg msg))
  end.
Definition denote_line (ln : cline) : list pwhen := denote_alt (ln_first ln) :: map (fun oa => denote_alt (snd oa)) (ln_rest ln).

(* what is left after an alternative: the text itself after a message or a rule reference, else the text without its leading layout *)
Definition after (a : calt) (Y : string) : string :=
  match a with
  | AClause c _ => match cl_msg c with Some _ => Y | None => skip_ws_comments Y end
  | ANamed _ _ _ => Y
  end.

Definition wf_or (o : corsep) : Prop := layout (or_w o) /\ In (or_t o) kw_or_term /\ layout (or_w' o) /\ or_w' o <> EmptyString.
(* a rule reference: the name is not read as a keyword or a negation, what follows it is not read as an operator or a call, and -
   without a message - the reference ends there by one of the parser's lookaheads; the message is separated by blanks only *)
Definition named_ok (ng : cneg) (name : string) (msg : option (string * string)) (Y : string) : Prop :=
  wf_neg ng /\ wf_name name /\ no_keyword_prefix name /\ (ng = NNone -> str_prefix "not" name = false /\ str_prefix "NOT" name = false) /\
  match msg with
  | Some (b, t) => blanks b /\ has_close (t +++ ">") = false
  | None => name_end Y /\ first_not (fun c => Ascii.eqb c "(") Y /\ part Y = PErr /\ value_cmp (skip_ws_comments Y) = PErr /\ reference_ends Y = true
  end.
Definition alt_ok (a : calt) (Y : string) : Prop :=
  match a with
  | AClause c o => cwf rv c o /\ cl_w0 c = EmptyString /\ cfollow rv c Y
  | ANamed ng name msg => named_ok ng name msg Y
  end.
Fixpoint alts_ok (l : list (corsep * calt)) (tail : string) : Prop :=
  match l with
  | [] => True
  | (o, a) :: r => wf_or o /\ alt_ok a (render_alts r +++ tail) /\ alts_ok r tail
  end.
(* the first clause of a line does not start with the letters of an or *)
Definition or_start (c : ascii) : bool := Ascii.eqb c "o" || Ascii.eqb c "O" || Ascii.eqb c "|".
Definition line_ok (ln : cline) (tail : string) : Prop :=
  layout (ln_w ln) /\ alt_ok (ln_first ln) (render_alts (ln_rest ln) +++ tail) /\ alts_ok (ln_rest ln) tail /\
  first_not or_start (render_alt (ln_first ln) +++ (render_alts (ln_rest ln) +++ tail)).
Fixpoint lines_ok (ls : list cline) (tail : string) : Prop :=
  match ls with
  | [] => True
  | l :: r => line_ok l (render_conds r +++ tail) /\ lines_ok r tail
  end.

(* ---------------------------------------------------------------- one alternative *)
Lemma blanks_layout b : blanks b -> layout b.
Proof.
  unfold blanks. induction b as [|c b IH]; cbn; intros H; [constructor|]. apply andb_prop in H as [Hc Hb].
  constructor; [|now apply IH]. destruct c as [[] [] [] [] [] [] [] []]; cbv in Hc; try discriminate; reflexivity.
Qed.

Lemma render_neg_name_solid ng name Z : wf_name name -> exists c r, render_neg ng +++ (name +++ Z) = String c r /\ is_ws c = false /\ is_hash c = false.
Proof.
  intros (a & r & -> & Ha & _). destruct (alpha_facts a Ha) as (_ & _ & _ & A1 & A2 & _).
  destruct ng as [|u b|]; cbn [render_neg append].
  - eauto.
  - destruct u; norm; eexists; eexists; repeat split.
  - norm. eexists; eexists; repeat split.
Qed.

Lemma crender_solid a Y : alt_ok a Y -> exists c r, render_alt a +++ Y = String c r /\ is_ws c = false /\ is_hash c = false.
Proof.
  destruct a as [[w0 ng q w1 op rh msg] o|ng name msg]; cbn [alt_ok render_alt].
  - intros (W & E0 & _). cbn [cl_w0] in *. subst w0.
    destruct W as (_ & Hng & _ & Hsolid & _). cbn [cl_neg cl_query] in *. unfold crender. cbn [cl_w0 cl_neg cl_query cl_w1 cl_op cl_rhs cl_msg append].
    destruct ng as [|u b|]; cbn [render_neg append].
    + destruct (solid_first _ Hsolid) as (c & r & -> & H1 & H2). norm. eauto.
    + destruct u; norm; eexists; eexists; repeat split.
    + norm. eexists; eexists; repeat split.
  - intros (_ & Hn & _). norm. now apply render_neg_name_solid.
Qed.

Lemma crender_nonempty a Y : alt_ok a Y -> 1 <= len (render_alt a).
Proof.
  destruct a as [c o|ng name msg]; cbn [alt_ok render_alt].
  - intros (W & _ & _). destruct W as (_ & _ & _ & Hsolid & _). destruct (solid_first _ Hsolid) as (c0 & r & E & _).
    unfold crender. lens. rewrite E. cbn [String.length]. lia.
  - intros (_ & (a & r & -> & _) & _). lens. lia.
Qed.

(* the part of a reference after its name *)
Lemma named_tail_facts msg Y : (match msg with
    | Some (b, t) => blanks b /\ has_close (t +++ ">") = false
    | None => name_end Y /\ first_not (fun c => Ascii.eqb c "(") Y /\ part Y = PErr /\ value_cmp (skip_ws_comments Y) = PErr /\ reference_ends Y = true
    end) ->
  let Z := render_msg msg +++ Y in
  name_end Z /\ first_not (fun c => Ascii.eqb c "(") Z /\ part Z = PErr /\ value_cmp (skip_ws_comments Z) = PErr.
Proof.
  destruct msg as [[b t]|]; cbn [render_msg]; [|cbn [append]; tauto].
  intros (Hb & _). cbv zeta. norm. pose proof (blanks_layout b Hb) as Hl.
  assert (S1 : skip_ws_comments (b +++ String "<" (String "<" (t +++ String ">" (String ">" Y)))) = String "<" (String "<" (t +++ String ">" (String ">" Y)))).
  { rewrite (skip_layout b _ Hl). now apply skip_solid. }
  repeat split.
  - destruct b as [|c b']; [cbn; split; reflexivity|]. cbn in Hb |- *. apply andb_prop in Hb as [Hc _]. destruct c as [[] [] [] [] [] [] [] []]; cbv in Hc; try discriminate; cbv; split; reflexivity.
  - destruct b as [|c b']; [reflexivity|]. cbn in Hb |- *. apply andb_prop in Hb as [Hc _]. destruct c as [[] [] [] [] [] [] [] []]; cbv in Hc; try discriminate; reflexivity.
  - unfold part, dotted_property, predicate_or_index, ws_char. rewrite S1. reflexivity.
  - rewrite S1. reflexivity.
Qed.

Lemma named_parses ng name msg Y n : named_ok ng name msg Y -> len (render_neg ng +++ (name +++ (render_msg msg +++ Y))) < n ->
  when_elem rv n (render_neg ng +++ (name +++ (render_msg msg +++ Y))) = POk (PWNamed (mkPN name (neg_flag ng) (denote_msg msg))) Y.
Proof.
  intros (Hng & Hname & Hkw & Hnot & Hmsg) Hn.
  destruct (named_tail_facts msg Y Hmsg) as (Z1 & Z2 & Z3 & Z4). set (Z := render_msg msg +++ Y) in *.
  destruct (render_neg_name_solid ng name Z Hname) as (c0 & r0 & E0 & S1 & S2).
  (* what the negation leaves *)
  assert (En : match not_kw (render_neg ng +++ (name +++ Z)) with Some r => (true, r) | None => (false, render_neg ng +++ (name +++ Z)) end = (neg_flag ng, name +++ Z)).
  { destruct ng as [|u b|]; cbn [neg_flag].
    - cbn [render_neg append]. destruct (Hnot eq_refl) as [N1 N2]. now rewrite (not_kw_of_name name Z Hname N1 N2 Z1).
    - rewrite (not_kw_spelled (NWord u b) _ Hng eq_refl); [reflexivity|].
      destruct Hname as (a & r & -> & Ha & _). cbn. destruct a as [[] [] [] [] [] [] [] []]; cbv in Ha |- *; try discriminate; reflexivity.
    - rewrite (not_kw_spelled NBang _ I eq_refl); [reflexivity|].
      destruct Hname as (a & r & -> & Ha & _). cbn. destruct a as [[] [] [] [] [] [] [] []]; cbv in Ha |- *; try discriminate; reflexivity. }
  (* the name as a query of one key *)
  assert (Ea : forall m, access m (name +++ Z) = POk (AccessQuery [QKey name] true) Z).
  { intros m. unfold access. pose proof (head_not_some (CKey KBare name) Z (conj Hname Hkw) Z1) as E1. cbn [render_head render_key_how] in E1. rewrite E1.
    pose proof (head_spelled (CKey KBare name) Z (conj Hname Hkw) Z1) as E2. unfold head_of in E2. cbn [render_head render_key_how denote_head] in E2. rewrite E2.
    unfold dotted_access. rewrite Z3. reflexivity. }
  unfold when_elem.
  assert (Ec : clause rv n (render_neg ng +++ (name +++ Z)) = PErr).
  { unfold clause. rewrite E0, (skip_solid c0 r0 S1 S2), <- E0. rewrite En. rewrite Ea. rewrite Z4. reflexivity. }
  rewrite Ec.
  assert (Ev : var_name (name +++ Z) = POk name Z) by now apply var_name_spelled.
  assert (Ecall : call_like (render_neg ng +++ (name +++ Z)) = PErr).
  { unfold call_like. assert (E : match not_kw (render_neg ng +++ (name +++ Z)) with Some r => r | None => render_neg ng +++ (name +++ Z) end = name +++ Z).
    { destruct (not_kw (render_neg ng +++ (name +++ Z))); injection En as _ E'; exact E'. }
    rewrite E. unfold function_like. rewrite Ev. destruct Z as [|c r]; [reflexivity|]. cbn in Z2. now rewrite Z2. }
  rewrite Ecall. unfold rule_clause. rewrite En, Ev. cbn [pmap].
  destruct msg as [[b t]|]; cbn [render_msg denote_msg named_ok] in *.
  - destruct Hmsg as (Hb & Hc). unfold Z. norm.
    assert (Esp : span_while is_blank (b +++ String "<" (String "<" (t +++ String ">" (String ">" Y)))) = (b, String "<" (String "<" (t +++ String ">" (String ">" Y))))).
    { apply span_while_all; [exact Hb|reflexivity]. }
    assert (Eend : reference_ends (b +++ String "<" (String "<" (t +++ String ">" (String ">" Y)))) = false).
    { unfold reference_ends. rewrite Esp. cbn [snd]. unfold or_join. rewrite (skip_layout b _ (blanks_layout b Hb)). rewrite skip_solid by reflexivity.
      destruct b; reflexivity. }
    rewrite Eend, Esp. cbn [snd]. unfold custom_message. cbn [str_prefix Ascii.eqb Bool.eqb andb drop]. rewrite (find_close_spelled t EmptyString Y Hc). reflexivity.
  - destruct Hmsg as (_ & _ & _ & _ & He). unfold Z. cbn [append]. rewrite He. reflexivity.
Qed.

Lemma alt_parses a Y n : alt_ok a Y -> len (render_alt a +++ Y) < n ->
  when_elem rv n (skip_ws_comments (render_alt a +++ Y)) = POk (denote_alt a) (after a Y).
Proof.
  intros Hok Hn. destruct (crender_solid a Y Hok) as (c & r & E & H1 & H2). rewrite E. rewrite (skip_solid c r H1 H2). rewrite <- E.
  destruct a as [cl o|ng name msg]; cbn [alt_ok render_alt denote_alt after] in *.
  - destruct Hok as (W & _ & F). unfold when_elem. rewrite (clause_fuel_irrelevant rv n _ Hn).
    rewrite (clause_spelling_parses rv cl o Y W F). reflexivity.
  - norm. apply named_parses; [exact Hok|]. revert Hn. norm. trivial.
Qed.

Lemma after_cases a Y : after a Y = Y \/ after a Y = skip_ws_comments Y.
Proof. destruct a as [c o|ng name msg]; cbn [after]; [destruct (cl_msg c)|]; auto. Qed.

Lemma or_join_after prev o X : wf_or o -> solid X -> or_join (after prev (render_or o +++ X)) = Some X.
Proof.
  intros (Hw & Ht & Hw' & Hne) HX.
  assert (E : or_join (render_or o +++ X) = Some X) by (unfold render_or; norm; now apply or_join_spelled).
  destruct (after_cases prev (render_or o +++ X)) as [-> | ->]; [exact E|]. now rewrite or_join_skip.
Qed.

Lemma solid_of_first s : (exists c r, s = String c r /\ is_ws c = false /\ is_hash c = false) -> solid s.
Proof. intros (c & r & -> & H1 & H2). cbn. auto. Qed.

(* the alternatives of a line, from the first one on *)
Lemma alts_parse : forall l prev acc tail n k, alts_ok l tail ->
  or_join (after (last (map snd l) prev) tail) = None ->
  len (render_alts l +++ tail) < n -> List.length l < k ->
  sep_loop or_join (fun t => when_elem rv n (skip_ws_comments t)) k acc (after prev (render_alts l +++ tail)) =
  POk (acc ++ map (fun oa => denote_alt (snd oa)) l)%list (after (last (map snd l) prev) tail).
Proof.
  induction l as [|[o a] l IH]; intros prev acc tail n k Hok Hend Hn Hk; destruct k as [|k]; try (cbn in Hk; lia).
  - cbn [render_alts map last append] in *. cbn [sep_loop]. rewrite Hend. now rewrite app_nil_r.
  - cbn [alts_ok] in Hok. destruct Hok as (Ho & Ha & Hl). cbn [render_alts] in *.
    cbn [sep_loop]. rewrite !sapp_assoc.
    rewrite (or_join_after prev o _ Ho (solid_of_first _ (crender_solid a _ Ha))).
    rewrite !sapp_assoc in Hn. rewrite (alt_parses a _ n Ha) by (revert Hn; lens; lia).
    assert (El : last (map snd ((o, a) :: l)) prev = last (map snd l) a).
    { cbn [map snd]. apply last_cons. }
    rewrite El in *. rewrite (IH a (acc ++ [denote_alt a])%list tail n k Hl Hend) by (try (revert Hn; lens; lia); cbn in Hk; lia).
    cbn [map snd]. now rewrite <- app_assoc.
Qed.

(* ---------------------------------------------------------------- lines *)
Definition last_alt (ln : cline) : calt := last (map snd (ln_rest ln)) (ln_first ln).

Lemma or_start_none s : first_not or_start s -> alt_tags kw_or_term s = None.
Proof.
  destruct s as [|c r]; [reflexivity|]. cbn [first_not]. unfold or_start, kw_or_term. cbn [alt_tags str_prefix].
  intros H. apply orb_false_elim in H as [H H3]. apply orb_false_elim in H as [H1 H2].
  rewrite (Ascii.eqb_sym "o" c), H1, (Ascii.eqb_sym "O" c), H2, (Ascii.eqb_sym "|" c), H3. reflexivity.
Qed.

Lemma line_start_not_or prev ln tail : line_ok ln tail -> or_join (after prev (render_line ln +++ tail)) = None.
Proof.
  intros (Hw & Ha & _ & Hs). assert (E : or_join (render_line ln +++ tail) = None).
  { unfold or_join, render_line. norm. rewrite (skip_layout (ln_w ln) _ Hw).
    destruct (crender_solid (ln_first ln) (render_alts (ln_rest ln) +++ tail) Ha) as (c & r & E & H1 & H2).
    rewrite E, (skip_solid c r H1 H2), <- E. now rewrite or_start_none. }
  destruct (after_cases prev (render_line ln +++ tail)) as [-> | ->]; [exact E|]. now rewrite or_join_skip.
Qed.

Lemma skip_after prev ln Y : layout (ln_w ln) -> alt_ok (ln_first ln) Y ->
  skip_ws_comments (after prev (ln_w ln +++ (render_alt (ln_first ln) +++ Y))) = render_alt (ln_first ln) +++ Y.
Proof.
  intros Hw Ha. destruct (crender_solid (ln_first ln) Y Ha) as (c & r & E & H1 & H2).
  assert (E1 : skip_ws_comments (ln_w ln +++ (render_alt (ln_first ln) +++ Y)) = render_alt (ln_first ln) +++ Y).
  { rewrite (skip_layout _ _ Hw). rewrite E. now apply skip_solid. }
  destruct (after_cases prev (ln_w ln +++ (render_alt (ln_first ln) +++ Y))) as [-> | ->]; [exact E1|]. now rewrite skip_idem.
Qed.

Fixpoint final_alt (ls : list cline) (prev : calt) : calt :=
  match ls with [] => prev | l :: r => final_alt r (last_alt l) end.

(* all the lines, from any point between two lines *)
Lemma lines_parse : forall ls prev acc tail n k, lines_ok ls tail -> acc <> [] \/ ls <> [] ->
  or_join (after (final_alt ls prev) tail) = None ->
  (forall m, when_elem rv m (skip_ws_comments (after (final_alt ls prev) tail)) = PErr) ->
  len (render_conds ls +++ tail) < n -> n <= k ->
  cnf_loop (when_elem rv) (S k) acc (after prev (render_conds ls +++ tail)) =
  POk (acc ++ map denote_line ls)%list (after (final_alt ls prev) tail).
Proof.
  induction ls as [|ln ls IH]; intros prev acc tail n k Hok Hne Hor Hend Hn Hk.
  - cbn [render_conds append final_alt map] in *. cbn [cnf_loop]. unfold disjunction. rewrite Hend.
    destruct acc; [destruct Hne; congruence|]. now rewrite app_nil_r.
  - cbn [lines_ok] in Hok. destruct Hok as (Hln & Hls). pose proof Hln as (Hw & Ha & Hal & Hs).
    cbn [render_conds final_alt] in *. cbn [cnf_loop]. unfold disjunction, render_line. norm.
    rewrite (skip_after prev ln _ Hw Ha).
    assert (Hlen : len (render_alt (ln_first ln) +++ (render_alts (ln_rest ln) +++ (render_conds ls +++ tail))) < k).
    { unfold render_line in Hn. revert Hn. lens. lia. }
    destruct (crender_solid (ln_first ln) _ Ha) as (c & r & E & H1 & H2).
    pose proof (alt_parses (ln_first ln) _ k Ha Hlen) as Ep. rewrite E in Ep. rewrite (skip_solid c r H1 H2) in Ep. rewrite <- E in Ep. rewrite Ep.
    rewrite ?sapp_assoc.
    assert (Hnext : or_join (after (last (map snd (ln_rest ln)) (ln_first ln)) (render_conds ls +++ tail)) = None).
    { destruct ls as [|l2 ls2].
      - cbn [render_conds append final_alt] in *. exact Hor.
      - cbn [render_conds lines_ok] in *. rewrite sapp_assoc. apply line_start_not_or. exact (proj1 Hls). }
    rewrite (alts_parse (ln_rest ln) (ln_first ln) [denote_alt (ln_first ln)] (render_conds ls +++ tail) k k Hal Hnext).
    + fold (last_alt ln). change ([denote_alt (ln_first ln)] ++ map (fun oa : corsep * calt => denote_alt (snd oa)) (ln_rest ln))%list with (denote_line ln).
      destruct k as [|k']; [lia|].
      rewrite (IH (last_alt ln) (acc ++ [denote_line ln])%list tail (S (len (render_conds ls +++ tail))) k' Hls); try assumption.
      * cbn [map]. unfold denote_line. now rewrite <- app_assoc.
      * left. destruct acc; discriminate.
      * lia.
      * pose proof (crender_nonempty (ln_first ln) _ Ha). revert Hn Hk. unfold render_line. lens. lia.
    + revert Hlen. lens. lia.
    + (* one separator per further alternative: at least three characters each *)
      assert (G : forall l t, alts_ok l t -> List.length l <= len (render_alts l)).
      { induction l as [|[o a] l IHl]; intros t Hl; cbn [render_alts List.length]; [lia|]. cbn [alts_ok] in Hl. destruct Hl as ((_ & Ht & _ & Hne') & _ & Hl).
        specialize (IHl t Hl). unfold render_or. lens. unfold kw_or_term in Ht. destruct Ht as [<-|[<-|[<-|[]]]]; cbn [String.length]; lia. }
      specialize (G _ _ Hal). revert Hlen. lens. lia.
Qed.

Theorem conditions_spelling_parses : forall l0 ls tail, lines_ok (l0 :: ls) tail ->
  or_join (after (final_alt ls (last_alt l0)) tail) = None ->
  (forall m, when_elem rv m (skip_ws_comments (after (final_alt ls (last_alt l0)) tail)) = PErr) ->
  single_clauses_top rv (render_conds (l0 :: ls) +++ tail) = POk (map denote_line (l0 :: ls)) (after (final_alt ls (last_alt l0)) tail).
Proof.
  intros l0 ls tail Hok Hor Hend. unfold single_clauses_top, single_clauses, cnf.
  set (p0 := ANamed NNone EmptyString None).
  change (render_conds (l0 :: ls) +++ tail) with (after p0 (render_conds (l0 :: ls) +++ tail)) at 2.
  rewrite (lines_parse (l0 :: ls) p0 [] tail (S (len (render_conds (l0 :: ls) +++ tail))) (S (len (render_conds (l0 :: ls) +++ tail)))); try assumption; try lia.
  - reflexivity.
  - right. discriminate.
Qed.

(* the conditions end where a block opens *)
Lemma conditions_end_at_a_brace prev w r : layout w ->
  or_join (after prev (w +++ String "{" r)) = None /\ (forall m, when_elem rv m (skip_ws_comments (after prev (w +++ String "{" r))) = PErr).
Proof.
  intros Hw. assert (E : skip_ws_comments (w +++ String "{" r) = String "{" r) by (rewrite (skip_layout w _ Hw); now apply skip_solid).
  split.
  - destruct (after_cases prev (w +++ String "{" r)) as [-> | ->]; [|rewrite or_join_skip]; unfold or_join; rewrite E; reflexivity.
  - intros m. assert (E2 : skip_ws_comments (after prev (w +++ String "{" r)) = String "{" r).
    { destruct (after_cases prev (w +++ String "{" r)) as [-> | ->]; [exact E|]. now rewrite skip_idem. }
    rewrite E2. destruct m; reflexivity.
Qed.

End Spelling.
