(* RefineFile.v — C01 at the level of a rules file: the verdict table the model of the implementation computes
   (file status and the status of every rule) is the one the documented semantics assigns, whenever the
   documented semantics covers the file.  RefineProps.evalP_refines (memo-free evaluator ⊑ Spec) composed with
   MemoProps.evalN_sim (SEval computes what the memo-free evaluator computes). *)
From GV.Model Require Import SEval PEval Spec CheckSpec.
From GV.Proofs Require Import EvalLaws FrameProps MemoProps MemoErr RuleOrderProps RefineOps RefineProps.
From Coq Require Import Lia.
Local Open Scope nat_scope.

Lemma nodup_length_le {A} (dec : forall x y : A, {x = y} + {x <> y}) l : List.length (nodup dec l) <= List.length l.
Proof. induction l as [|a l IH]; cbn; [lia|]. destruct (in_dec dec a l); cbn; lia. Qed.

Lemma nodup_length_NoDup {A} (dec : forall x y : A, {x = y} + {x <> y}) l :
  List.length (nodup dec l) = List.length l -> NoDup l.
Proof.
  induction l as [|a l IH]; cbn; [constructor|]. destruct (in_dec dec a l) as [Hin|Hn]; cbn.
  - pose proof (nodup_length_le dec l). lia.
  - intros H. constructor; [exact Hn|]. apply IH. lia.
Qed.

Lemma filter_unique (rules : list rule) x : NoDup (map rule_name rules) -> In x rules ->
  filter (fun y => String.eqb (rule_name y) (rule_name x)) rules = [x].
Proof.
  induction rules as [|a rules IH]; intros Hnd Hin; [destruct Hin|]. cbn in Hnd. inversion Hnd as [|? ? Hna Hnd']; subst.
  cbn [filter]. destruct Hin as [->|Hin].
  - rewrite String.eqb_refl. f_equal.
    assert (K : forall l, ~ In (rule_name x) (map rule_name l) -> filter (fun y => String.eqb (rule_name y) (rule_name x)) l = []).
    { induction l as [|b l IHl]; intros Hb; [reflexivity|]. cbn. destruct (String.eqb (rule_name b) (rule_name x)) eqn:E.
      - apply String.eqb_eq in E. exfalso. apply Hb. left. exact E.
      - apply IHl. intros Hc. apply Hb. right. exact Hc. }
    apply K, Hna.
  - destruct (String.eqb (rule_name a) (rule_name x)) eqn:E.
    + apply String.eqb_eq in E. exfalso. apply Hna. rewrite E. apply in_map, Hin.
    + apply IH; assumption.
Qed.

Section File.
Variable re : re_oracle.
Variable conv : conv_oracle.
Variable lit_ok : pv -> bool.
Variable prog : rules_file.
Variable doc : pv.

Variable G : pv -> Prop.
Hypothesis G_list : forall p l x, G (PList p l) -> In x l -> G x.
Hypothesis G_map : forall p ks vals k x, G (PMap p ks vals) -> In (k, x) vals -> G x.
Hypothesis G_wf : forall p ks vals, G (PMap p ks vals) -> List.length ks = List.length vals.
Hypothesis G_alias : forall p ks vals c k k', G (PMap p ks vals) -> conv c k = Some k' -> map_get k vals = None -> map_get k' vals = None.
Hypothesis G_notin : forall v r, G v -> nin_ok re v r.
Hypothesis G_doc : G doc.
Hypothesis G_lit : forall v, lit_ok v = true -> G v.

Let refines := evalP_refines re conv lit_ok prog doc G G_list G_map G_wf G_alias G_notin G_doc G_lit.

(* one rule, from the initial state *)
Lemma rule_from_init k m x :
  rel_out eq (ev_rule (evalP re conv prog k) x (init_state prog doc)) (rule_eval_s re lit_ok prog doc (Spec.run re lit_ok prog doc m) x).
Proof.
  destruct (refines k m) as (_ & _ & _ & Hrule & _).
  apply (Hrule x G_doc eq_refl (init_state prog doc)); [apply re_root|reflexivity].
Qed.

(* what spec_file answers when it answers *)
Lemma spec_file_inv m st' table :
  spec_file re lit_ok prog doc m = SOk (st', table) ->
  NoDup (map rule_name (rf_rules prog)) /\
  st' = body_status (map snd table) /\
  Forall2 (fun x p => fst p = rule_name x /\ spec_rule re lit_ok prog doc m (rule_name x) = SOk (snd p)) (rf_rules prog) table.
Proof.
  unfold spec_file. destruct (negb (Nat.eqb _ _)) eqn:En; [discriminate|]. destruct (rf_param_rules prog); [|discriminate].
  intros H. apply sbind_inv in H as (sts & Hs & E). inversion E; subst. clear E.
  apply Bool.negb_false_iff, Nat.eqb_eq in En. split; [eapply nodup_length_NoDup; exact En|]. split; [reflexivity|].
  apply smap_inv in Hs. eapply Forall2_impl'; [|exact Hs]. intros x p Hp. cbn beta in Hp.
  apply sbind_inv in Hp as (st & Hst & E). inversion E; subst. split; [reflexivity|exact Hst].
Qed.

Lemma spec_rule_eval m x st : NoDup (map rule_name (rf_rules prog)) -> In x (rf_rules prog) ->
  spec_rule re lit_ok prog doc m (rule_name x) = SOk st ->
  exists m', m = S m' /\ rule_eval_s re lit_ok prog doc (Spec.run re lit_ok prog doc m') x = SOk st.
Proof.
  intros Hnd Hin H. unfold spec_rule in H. destruct m as [|m']; [discriminate|]. exists m'. split; [reflexivity|].
  cbn [Spec.run sv_rule] in H. unfold rule_status_s in H. rewrite (filter_unique _ x Hnd Hin) in H. exact H.
Qed.

(* ------------------------------------------------------------------ *)
(* the memo-free evaluator *)

Theorem peval_file_refines k m :
  rel_out (fun st (p : status * list (string * status)) => st = fst p)
          (eval_file' re conv prog k doc) (spec_file re lit_ok prog doc m).
Proof.
  unfold eval_file', file_body. apply node_out.
  destruct (spec_file re lit_ok prog doc m) as [[st' table]| |] eqn:Es; [| |exact I].
  - destruct (spec_file_inv m st' table Es) as (Hnd & -> & Htab).
    assert (K : forall rules table0 s, shape s = shape (init_state prog doc) ->
                (forall x, In x rules -> In x (rf_rules prog)) ->
                Forall2 (fun x p => fst p = rule_name x /\ spec_rule re lit_ok prog doc m (rule_name x) = SOk (snd p)) rules table0 ->
                match mapM (ev_rule (evalP re conv prog k)) rules s with
                | Done (sts, _, s1) => sts = map snd table0 /\ shape s1 = shape s
                | Err _ => False
                | _ => True
                end).
    { induction rules as [|x rules IHr]; intros table0 s Hs Hsub HF; inversion HF as [|? p ? table1 [Hn Hp] HF']; subst.
      - cbn. split; reflexivity.
      - cbn [mapM]. unfold bind at 1.
        destruct (spec_rule_eval m x (snd p) Hnd (Hsub x (or_introl eq_refl)) Hp) as (m' & -> & He).
        destruct (refines k m') as (Hks & _ & _ & Hrule & _).
        pose proof (Hrule x G_doc eq_refl s) as Hx. rewrite He in Hx.
        assert (Hre : rel_env prog doc G (shape s) (file_env prog doc)) by (rewrite Hs; apply re_root).
        assert (Hroot : root_of (frames s) = Some doc).
        { rewrite <- root_of_shape. fold (shape s). rewrite Hs. reflexivity. }
        specialize (Hx Hre Hroot).
        destruct (ev_rule (evalP re conv prog k) x s) as [[[st r1] s1]| | | |] eqn:E; cbn in Hx; try contradiction; try exact I.
        apply (proj1 (proj2 (proj2 Hks))) in E. unfold same_shape in E.
        specialize (IHr table1 s1 ltac:(congruence) ltac:(intros; apply Hsub; now right) HF').
        unfold bind. destruct (mapM (ev_rule (evalP re conv prog k)) rules s1) as [[[sts r2] s2]| | | |]; try contradiction; try exact I.
        destruct IHr as [-> Hsh]. cbn. split; [congruence|congruence]. }
    specialize (K (rf_rules prog) table (init_state prog doc) eq_refl (fun x H => H) Htab).
    unfold bind. destruct (mapM _ _ _) as [[[sts r1] s1]| | | |]; try contradiction; try exact I.
    destruct K as [-> _]. cbn. reflexivity.
  - (* undefined: some rule is undefined, and the rules before it are defined or not covered *)
    unfold spec_file in Es. destruct (negb (Nat.eqb _ _)) eqn:En; [discriminate|]. destruct (rf_param_rules prog); [|discriminate].
    apply Bool.negb_false_iff, Nat.eqb_eq in En. apply nodup_length_NoDup in En.
    assert (K : forall rules s, shape s = shape (init_state prog doc) ->
                (forall x, In x rules -> In x (rf_rules prog)) ->
                smap (fun x => st <~ spec_rule re lit_ok prog doc m (rule_name x) ;; SOk (rule_name x, st)) rules = SUndef ->
                match mapM (ev_rule (evalP re conv prog k)) rules s with Done _ => False | _ => True end).
    { induction rules as [|x rules IHr]; intros s Hs Hsub Hu; [discriminate|]. cbn [smap mapM] in *.
      destruct (spec_rule re lit_ok prog doc m (rule_name x)) as [st| |] eqn:Ex; cbn [sbind] in Hu; [| |discriminate].
      - destruct (spec_rule_eval m x st En (Hsub x (or_introl eq_refl)) Ex) as (m' & -> & He).
        destruct (refines k m') as (Hks & _ & _ & Hrule & _).
        pose proof (Hrule x G_doc eq_refl s) as Hx. rewrite He in Hx.
        assert (Hre : rel_env prog doc G (shape s) (file_env prog doc)) by (rewrite Hs; apply re_root).
        assert (Hroot : root_of (frames s) = Some doc).
        { rewrite <- root_of_shape. fold (shape s). rewrite Hs. reflexivity. }
        specialize (Hx Hre Hroot). unfold bind at 1.
        destruct (ev_rule (evalP re conv prog k) x s) as [[[st0 r1] s1]| | | |] eqn:E; try exact I.
        apply (proj1 (proj2 (proj2 Hks))) in E. unfold same_shape in E.
        destruct (smap _ rules) eqn:Er; cbn in Hu; try discriminate.
        specialize (IHr s1 ltac:(congruence) ltac:(intros; apply Hsub; now right) eq_refl).
        unfold bind. destruct (mapM _ rules s1) as [[[sts r2] s2]| | | |]; try contradiction; exact I.
      - (* this rule is undefined *)
        destruct m as [|m']; [discriminate|]. unfold spec_rule in Ex. cbn [Spec.run sv_rule] in Ex. unfold rule_status_s in Ex.
        rewrite (filter_unique _ x En (Hsub x (or_introl eq_refl))) in Ex.
        destruct (refines k m') as (Hks & _ & _ & Hrule & _).
        pose proof (Hrule x G_doc eq_refl s) as Hx. rewrite Ex in Hx.
        assert (Hre : rel_env prog doc G (shape s) (file_env prog doc)) by (rewrite Hs; apply re_root).
        assert (Hroot : root_of (frames s) = Some doc).
        { rewrite <- root_of_shape. fold (shape s). rewrite Hs. reflexivity. }
        specialize (Hx Hre Hroot). unfold bind at 1.
        destruct (ev_rule (evalP re conv prog k) x s) as [[[st0 r1] s1]| | | |]; cbn in Hx; try contradiction; exact I. }
    destruct (smap _ (rf_rules prog)) eqn:Esm; cbn in Es; try discriminate.
    specialize (K (rf_rules prog) (init_state prog doc) eq_refl (fun x H => H) Esm).
    unfold bind. destruct (mapM _ _ _) as [[[sts r1] s1]| | | |]; try contradiction; exact I.
Qed.

(* ------------------------------------------------------------------ *)
(* the model of the implementation (with its caches) *)

Lemma computes_at {A} (m' : nat -> M A) E (a : A) : computes m' E a -> exists k recs, m' k E = Done (a, recs, E).
Proof. intros [k0 Hk]. exists k0. apply Hk. lia. Qed.

Theorem seval_file_status n m st recs s' :
  nc_prog prog = true ->
  eval_file re conv prog n doc = Done (st, recs, s') ->
  match spec_file re lit_ok prog doc m with
  | SOk (st', _) => st = st'
  | SUndef => False
  | SOut => True
  end.
Proof.
  intros Hnc H. pose proof (eval_file_memo_free re conv prog n doc st recs s' Hnc H) as [k0 Hk].
  destruct (Hk k0 (le_n _)) as [recs' E]. pose proof (peval_file_refines k0 m) as R. rewrite E in R.
  destruct (spec_file re lit_ok prog doc m) as [[st' table]| |]; cbn in R; auto.
Qed.

Lemma assoc_nodup {A} (t : list (string * A)) n a : NoDup (map fst t) -> In (n, a) t -> assoc n t = Some a.
Proof.
  induction t as [|[k v] t IH]; intros Hnd Hin; [destruct Hin|]. cbn in Hnd. inversion Hnd as [|? ? Hk Hnd']; subst. cbn.
  destruct Hin as [E|Hin].
  - inversion E; subst. rewrite String.eqb_refl. reflexivity.
  - destruct (String.eqb n k) eqn:E; [|apply IH; assumption].
    apply String.eqb_eq in E. subst. exfalso. apply Hk. change k with (fst (k, a)). apply in_map, Hin.
Qed.

Lemma compare_rules_sub sub t : (forall n a, In (n, a) sub -> assoc n t = Some a) -> compare_rules sub t = None.
Proof.
  induction sub as [|[n a] sub IH]; intros H; [reflexivity|]. cbn. rewrite (H n a) by now left.
  assert (E : status_eqb a a = true) by (destruct a; reflexivity). rewrite E. apply IH. intros; apply H; now right.
Qed.

Lemma rewrite_container_rule fs n st m : exists msg, rewrite_container fs (KRuleCheck n st m) = KRuleCheck n st msg.
Proof.
  revert m. induction fs as [|f fs IH]; intros m; cbn; [eexists; reflexivity|].
  destruct f; try apply IH. destruct (String.eqb n call_name); apply IH.
Qed.

Lemma rule_record n x s st recs s1 :
  ev_rule (evalN re conv prog n) x s = Done (st, recs, s1) -> exists msg ch, recs = [Rec (KRuleCheck (rule_name x) st msg) ch].
Proof.
  destruct n as [|k]; [discriminate|]. cbn [evalN ev_rule]. unfold rule_body. intros H.
  apply node_inv in H as (ch & _ & ->). destruct (rewrite_container_rule (frames s1) (rule_name x) st None) as [msg E].
  rewrite E. eauto.
Qed.

Lemma rules_records n rules s sts recs s1 :
  mapM (ev_rule (evalN re conv prog n)) rules s = Done (sts, recs, s1) ->
  flat_map (fun c => match rec_container c with KRuleCheck nm st0 _ => [(nm, st0)] | _ => [] end) recs
  = combine (map rule_name rules) sts.
Proof.
  revert s sts recs s1. induction rules as [|x rules IH]; intros s sts recs s1 H; cbn [mapM] in H.
  - apply ret_inv in H as (-> & -> & _). reflexivity.
  - apply bind_inv in H as (st & r1 & s2 & r2 & H1 & H2 & ->).
    apply bind_inv in H2 as (sts' & r3 & s3 & r4 & H2 & H3 & ->). apply ret_inv in H3 as (-> & -> & _).
    destruct (rule_record _ _ _ _ _ _ H1) as (msg & ch & ->). rewrite app_nil_r. cbn. f_equal. eapply IH. exact H2.
Qed.

Lemma table_eq m rules sts table : NoDup (map rule_name (rf_rules prog)) ->
  (forall x, In x rules -> In x (rf_rules prog)) ->
  Forall2 (fun x b => computes (fun k => ev_rule (evalP re conv prog k) x) (init_state prog doc) b) rules sts ->
  Forall2 (fun x p => fst p = rule_name x /\ spec_rule re lit_ok prog doc m (rule_name x) = SOk (snd p)) rules table ->
  combine (map rule_name rules) sts = table.
Proof.
  intros Hnd. revert sts table. induction rules as [|x rules IH]; intros sts table Hin F Htab;
    inversion F as [|? b ? bs Hb F']; inversion Htab as [|? p ? table' [Hn Hp] Htab']; subst; [reflexivity|].
  cbn. f_equal.
  - destruct p as [pn ps]. cbn in Hn, Hp. subst pn. f_equal.
    destruct (spec_rule_eval m x ps Hnd (Hin x (or_introl eq_refl)) Hp) as (m' & -> & He).
    destruct (computes_at _ _ _ Hb) as (k & rc & Ek). pose proof (rule_from_init k m' x) as R. rewrite Ek, He in R. exact R.
  - apply IH; [intros; apply Hin; now right|assumption|assumption].
Qed.

(* C01: the verdict table *)
Theorem seval_refines_spec n m st recs s' st' table :
  nc_prog prog = true ->
  eval_file re conv prog n doc = Done (st, recs, s') ->
  spec_file re lit_ok prog doc m = SOk (st', table) ->
  st = st' /\ exists rec, recs = [rec] /\ compare_rules table (rule_statuses rec) = None.
Proof.
  intros Hnc H Hs. pose proof (seval_file_status n m st recs s' Hnc H) as Hst. rewrite Hs in Hst. split; [exact Hst|].
  destruct (file_law re conv prog n doc st recs s' H) as (sts & ch & Hm & _ & _ & ->).
  eexists. split; [reflexivity|]. unfold rule_statuses. cbn [rec_children].
  rewrite (rules_records _ _ _ _ _ _ Hm).
  destruct (spec_file_inv m st' table Hs) as (Hnd & _ & Htab).
  destruct (file_trace re conv prog n doc st _ s' Hnc H) as (sts2 & F & _).
  (* the statuses the run returned are the ones the memo-free evaluator computes *)
  assert (Esame : sts2 = sts).
  { unfold eval_file, file_body in H. apply node_inv in H as (ch2 & H & _).
    apply bind_inv in H as (sts3 & r1 & s1 & r2 & H1 & H2 & _). rewrite Hm in H1. inversion H1; subst sts3.
    pose proof (evalN_sim re conv prog Hnc n) as (_ & _ & Hrule & _).
    assert (Hin : forall x, In x (rf_rules prog) ->
              sim prog (evalP re conv prog) (ev_rule (evalN re conv prog n) x) (fun k => ev_rule (evalP re conv prog k) x)).
    { intros x Hx. apply Hrule. unfold nc_prog in Hnc. apply andb_prop in Hnc as [H12 _]. apply andb_prop in H12 as [_ Hr].
      rewrite forallb_forall in Hr. apply Hr. exact Hx. }
    destruct (mapM_sim_trace prog (evalP re conv prog) (ev_rule (evalN re conv prog n)) (fun k => ev_rule (evalP re conv prog k)) (rf_rules prog) Hin
                _ _ _ _ (init_state_valid re conv prog doc Hnc) Hm) as (F2 & _ & _).
    rewrite init_state_erase in F2.
    clear -F F2. revert sts F2. induction F as [|x b l bs Hb F IH]; intros sts F2; inversion F2; subst; [reflexivity|].
    f_equal; [eapply computes_functional; eassumption|apply IH; assumption]. }
  subst sts2.
  (* ... and those are the statuses of the table *)
  assert (Etab : combine (map rule_name (rf_rules prog)) sts = table) by (apply (table_eq m); auto).
  rewrite Etab. apply compare_rules_sub. intros nm a Hin. apply assoc_nodup; [|exact Hin].
  assert (Hfst : map fst table = map rule_name (rf_rules prog)).
  { clear -Htab. induction Htab as [|x p l t [Hn _] _ IH]; cbn; [reflexivity|]. now rewrite Hn, IH. }
  rewrite Hfst. exact Hnd.
Qed.

End File.

(* ------------------------------------------------------------------ *)
(* the same theorems with the set of values made explicit: the sub-values of the document and of the literal
   values of variables that the reading is asked to cover *)

Inductive subvalue (root : pv) : pv -> Prop :=
| sub_refl : subvalue root root
| sub_list p l x : subvalue root (PList p l) -> In x l -> subvalue root x
| sub_map p ks vals k x : subvalue root (PMap p ks vals) -> In (k, x) vals -> subvalue root x.

Definition world (lit_ok : pv -> bool) (doc : pv) (v : pv) : Prop :=
  exists root, (root = doc \/ lit_ok root = true) /\ subvalue root v.

Section World.
Variable re : re_oracle.
Variable conv : conv_oracle.
Variable lit_ok : pv -> bool.
Variable prog : rules_file.
Variable doc : pv.

(* the three conditions on the values of this world *)
Hypothesis W_wf : forall p ks vals, world lit_ok doc (PMap p ks vals) -> List.length ks = List.length vals.
Hypothesis W_alias : forall p ks vals c k k', world lit_ok doc (PMap p ks vals) -> conv c k = Some k' -> map_get k vals = None -> map_get k' vals = None.
Hypothesis W_notin : forall v r, world lit_ok doc v -> nin_ok re v r.

Let G := world lit_ok doc.

Lemma W_list p l x : G (PList p l) -> In x l -> G x.
Proof. intros (root & Hr & Hs) Hin. exists root. split; [exact Hr|]. eapply sub_list; eassumption. Qed.
Lemma W_map p ks vals k x : G (PMap p ks vals) -> In (k, x) vals -> G x.
Proof. intros (root & Hr & Hs) Hin. exists root. split; [exact Hr|]. eapply sub_map; eassumption. Qed.
Lemma W_doc : G doc.
Proof. exists doc. split; [now left|constructor]. Qed.
Lemma W_lit v : lit_ok v = true -> G v.
Proof. intros H. exists v. split; [now right|constructor]. Qed.

(* C01, Done / SOk and Done / SUndef *)
Theorem refinement n m st recs s' :
  nc_prog prog = true ->
  eval_file re conv prog n doc = Done (st, recs, s') ->
  match spec_file re lit_ok prog doc m with
  | SOk (st', table) => st = st' /\ exists rec, recs = [rec] /\ compare_rules table (rule_statuses rec) = None
  | SUndef => False
  | SOut => True
  end.
Proof.
  intros Hnc H.
  pose proof (seval_file_status re conv lit_ok prog doc G W_list W_map W_wf W_alias W_notin W_doc W_lit n m st recs s' Hnc H) as Hst.
  destruct (spec_file re lit_ok prog doc m) as [[st' table]| |] eqn:Es; [|exact Hst|exact I].
  exact (seval_refines_spec re conv lit_ok prog doc G W_list W_map W_wf W_alias W_notin W_doc W_lit n m st recs s' st' table Hnc H Es).
Qed.

(* C01 for the memo-free evaluator, errors included: an evaluation error exactly when the semantics is undefined *)
Theorem refinement_memo_free k m :
  match eval_file' re conv prog k doc, spec_file re lit_ok prog doc m with
  | Done (st, _, _), SOk (st', _) => st = st'
  | Err _, SOk _ => False
  | Done _, SUndef => False
  | _, _ => True
  end.
Proof.
  pose proof (peval_file_refines re conv lit_ok prog doc G W_list W_map W_wf W_alias W_notin W_doc W_lit k m) as R.
  destruct (eval_file' re conv prog k doc) as [[[st r1] s1]| | | |], (spec_file re lit_ok prog doc m) as [[st' table]| |]; cbn in R; auto.
Qed.

(* C01, Err / SOk: an evaluation error of the evaluator WITH its caches never meets a defined verdict of the documented
   semantics (the failure direction of the memo simulation, MemoErr.v, composed with the refinement of the memo-free
   evaluator) *)
Theorem refinement_errors n m e :
  nc_prog prog = true ->
  eval_file re conv prog n doc = Err e ->
  match spec_file re lit_ok prog doc m with
  | SOk _ => False
  | _ => True
  end.
Proof.
  intros Hnc H. destruct (eval_file_error_memo_free re conv prog n doc e Hnc H) as [k0 Hk]. specialize (Hk k0 (le_n k0)).
  pose proof (refinement_memo_free k0 m) as R. rewrite Hk in R.
  destruct (spec_file re lit_ok prog doc m) as [[st' table]| |]; [exact R|exact I|exact I].
Qed.

(* both directions at once, for the evaluator with its caches: whatever SEval answers, the documented semantics - where
   it covers the file - agrees: a status with the same status (and rule table), an error with "undefined" *)
Theorem refinement_total n m :
  nc_prog prog = true ->
  match eval_file re conv prog n doc, spec_file re lit_ok prog doc m with
  | Done (st, recs, _), SOk (st', table) => st = st' /\ exists rec, recs = [rec] /\ compare_rules table (rule_statuses rec) = None
  | Done _, SUndef => False
  | Err _, SOk _ => False
  | _, _ => True
  end.
Proof.
  intros Hnc. destruct (eval_file re conv prog n doc) as [[[st recs] s']|e| | |] eqn:E.
  - pose proof (refinement n m st recs s' Hnc E) as R. destruct (spec_file re lit_ok prog doc m) as [[st' table]| |]; exact R.
  - pose proof (refinement_errors n m e Hnc E) as R. destruct (spec_file re lit_ok prog doc m) as [[st' table]| |]; exact R.
  - destruct (spec_file re lit_ok prog doc m) as [[? ?]| |]; exact I.
  - destruct (spec_file re lit_ok prog doc m) as [[? ?]| |]; exact I.
  - destruct (spec_file re lit_ok prog doc m) as [[? ?]| |]; exact I.
Qed.

End World.
