(* C10 — reported paths, values and source positions point into the input document (partial). Pinned statements only.
   Proved: the path annotation of loaded values and the traversal steps. NOT modelled: libyaml's marks (line/column);
   they are checked by correspondence against a layout-aware emitter (tools/gv/props/c10.py). *)
From GV.Model Require Import Value.
From GV.Proofs Require Import PathProps.

(* every value reachable in a loaded document carries the slash-joined pointer of the segments that lead to it, that
   pointer resolves in the plain document to exactly that value, and the location of the root is kept *)
Theorem C10_annotate_paths_sound : forall segs p v y,
  presolve (annotate p v) segs = Some y ->
  pstr (self_path y) = pointer (pstr p) segs /\
  resolve v segs = Some (strip y) /\
  pline (self_path y) = pline p /\ pcol (self_path y) = pcol p.
Proof. exact annotate_paths_sound. Qed.
Print Assumptions C10_annotate_paths_sound.

Theorem C10_strip_annotate : forall v p, strip (annotate p v) = v.
Proof. exact strip_annotate. Qed.
Print Assumptions C10_strip_annotate.

Theorem C10_presolve_strip : forall segs v x,
  presolve v segs = Some x -> resolve (strip v) segs = Some (strip x).
Proof. exact presolve_strip. Qed.
Print Assumptions C10_presolve_strip.

(* the steps a query takes (key, index, every member) stay inside the document *)
Theorem C10_reachable_key : forall d p keys vals k x,
  reachable d (PMap p keys vals) -> assoc k vals = Some x -> reachable d x.
Proof. exact reachable_key. Qed.
Print Assumptions C10_reachable_key.

Theorem C10_reachable_index : forall d p l i x,
  reachable d (PList p l) -> nth_error l i = Some x -> reachable d x.
Proof. exact reachable_index. Qed.
Print Assumptions C10_reachable_index.

Theorem C10_reachable_member : forall d p l x, reachable d (PList p l) -> In x l -> reachable d x.
Proof. exact reachable_member. Qed.
Print Assumptions C10_reachable_member.

Theorem C10_reachable_map_value : forall d p keys vals k x,
  NoDup (map fst vals) -> reachable d (PMap p keys vals) -> In (k, x) vals -> reachable d x.
Proof. exact reachable_map_value. Qed.
Print Assumptions C10_reachable_map_value.

Theorem C10_reported_path_resolves : forall v x,
  reachable (annotate root_path v) x ->
  exists segs, pstr (self_path x) = pointer "" segs /\ resolve v segs = Some (strip x).
Proof. exact reported_path_resolves. Qed.
Print Assumptions C10_reported_path_resolves.
