(* FuelMonoProps.v — more fuel never changes an answer: for the query parser, the clause parser, lines of or-joined clauses, and the
   query parser with filters.  (An answer is anything but POof.) *)
From Coq Require Import Lia.
From GV.Model Require Import Ast.
From GV.Model Require Import ValueParse QueryParse OpParse ClauseParse CnfParse FilterParse ClauseFParse.
From GV.Proofs Require Import LexProps ValueParseProps QueryParseProps ClauseParseProps CnfParseProps.
Local Open Scope string_scope.
Local Open Scope nat_scope.

Lemma access_mono n m s x : n <= m -> access n s = x -> x <> POof -> access m s = x.
Proof.
  intros L H Hx. unfold access in *.
  destruct (match some_keyword s with Some r => (false, r) | None => (true, s) end) as [all s1].
  destruct (match this_keyword s1 with Some r => POk QThis r | None => pmap QKey (palt (var_access s1) (property_name s1)) end) as [f r| | | |]; try exact H.
  destruct (dotted_access n r) as [parts r'| | | |] eqn:E.
  - rewrite (dotted_access_mono n m r _ L E) by discriminate. exact H.
  - rewrite (dotted_access_mono n m r _ L E) by discriminate. exact H.
  - rewrite (dotted_access_mono n m r _ L E) by discriminate. exact H.
  - rewrite (dotted_access_mono n m r _ L E) by discriminate. exact H.
  - subst x. cbn in Hx. congruence.
Qed.

Section Mono.
Variable rv : string -> bool.

Lemma clause_mono n m s x : n <= m -> clause rv n s = x -> x <> POof -> clause rv m s = x.
Proof.
  intros L H Hx. unfold clause in *.
  destruct (match not_kw (skip_ws_comments s) with Some r => (true, r) | None => (false, skip_ws_comments s) end) as [neg s1].
  destruct (access n s1) as [q r1| | | |] eqn:Ea; try (rewrite (access_mono n m s1 _ L Ea) by discriminate; exact H); [|subst x; cbn in Hx; congruence].
  rewrite (access_mono n m s1 _ L Ea) by discriminate.
  destruct (value_cmp (skip_ws_comments r1)) as [c r2| | | |]; try exact H.
  destruct (is_unary (fst c)); [exact H|].
  destruct (parse_value rv n r2) as [l r3| | | |] eqn:Ep; try (rewrite (parse_value_fuel_mono rv n m r2 _ L Ep) by discriminate; exact H); [|subst x; cbn in Hx; congruence].
  rewrite (parse_value_fuel_mono rv n m r2 _ L Ep) by discriminate.
  destruct (function_like (skip_ws_comments r2)); try exact H.
  destruct (access n (skip_ws_comments r2)) as [q2 r3| | | |] eqn:Ea2; try (rewrite (access_mono n m _ _ L Ea2) by discriminate; exact H).
  subst x. cbn in Hx. congruence.
Qed.

(* lines and conjunctions over an element parser that is monotone in its fuel *)
Section Cnf.
Context {A : Type}.
Variable elem : nat -> string -> pres A.
Hypothesis elem_mono : forall n m s x, n <= m -> elem n s = x -> x <> POof -> elem m s = x.

Lemma disjunction_mono n m s x : n <= m -> disjunction elem n s = x -> x <> POof -> disjunction elem m s = x.
Proof.
  intros L H Hx. unfold disjunction in *.
  destruct (elem n (skip_ws_comments s)) as [v s1| | | |] eqn:E; try (rewrite (elem_mono n m _ _ L E) by discriminate; exact H); [|subst x; congruence].
  rewrite (elem_mono n m _ _ L E) by discriminate.
  apply (sep_loop_mono or_join (fun t => elem n (skip_ws_comments t)) (fun t => elem m (skip_ws_comments t))) with (f1 := n); try assumption.
  intros t y Hy Hny. now apply (elem_mono n m).
Qed.

Lemma cnf_loop_mono : forall n m acc s x, n <= m -> cnf_loop elem n acc s = x -> x <> POof -> cnf_loop elem m acc s = x.
Proof.
  induction n as [|n IH]; intros m acc s x L H Hx; [cbn in H; congruence|].
  destruct m as [|m]; [lia|]. cbn [cnf_loop] in *.
  destruct (disjunction elem n s) as [d r| | | |] eqn:E; try (rewrite (disjunction_mono n m s _ ltac:(lia) E) by discriminate; exact H); [|congruence].
  rewrite (disjunction_mono n m s _ ltac:(lia) E) by discriminate. apply IH; [lia|exact H|exact Hx].
Qed.
End Cnf.

Lemma filter_elem_mono n m s x : n <= m -> filter_elem rv n s = x -> x <> POof -> filter_elem rv m s = x.
Proof.
  intros L H Hx. unfold filter_elem in *. destruct (alt_tags kw_when (skip_ws_comments s)); [exact H|].
  destruct (clause rv n (skip_ws_comments s)) as [c r| | | |] eqn:E; try (rewrite (clause_mono n m _ _ L E) by discriminate; exact H); [|subst x; congruence].
  rewrite (clause_mono n m _ _ L E) by discriminate.
  destruct (call_like (skip_ws_comments s)); try exact H.
  destruct (access n (skip_ws_comments s)) as [q r1| | | |] eqn:Ea; try (rewrite (access_mono n m _ _ L Ea) by discriminate; exact H).
  subst x. congruence.
Qed.

Lemma keys_match_mono n m s x : n <= m -> keys_match rv n s = x -> x <> POof -> keys_match rv m s = x.
Proof.
  intros L H Hx. unfold keys_match in *. destruct (capture s) as [name s2| | | |]; try exact H.
  destruct (alt_tags kw_keys (skip_ws_comments s2)) as [s3|]; [|exact H].
  destruct (keys_cmp (skip_ws_comments s3)) as [c s4| | | |]; try exact H.
  destruct (parse_value rv n s4) as [l s5| | | |] eqn:Ep; try (rewrite (parse_value_fuel_mono rv n m s4 _ L Ep) by discriminate; exact H); [|subst x; congruence].
  rewrite (parse_value_fuel_mono rv n m s4 _ L Ep) by discriminate.
  destruct (access n (skip_ws_comments s4)) as [q s5| | | |] eqn:Ea; try (rewrite (access_mono n m _ _ L Ea) by discriminate; exact H).
  subst x. congruence.
Qed.

Lemma filter_mono n m s x : n <= m -> filter rv n s = x -> x <> POof -> filter rv m s = x.
Proof.
  intros L H Hx. unfold filter, cnf in *. destruct (capture s) as [name s2| | | |]; try exact H.
  destruct (cnf_loop (filter_elem rv) n [] s2) as [l r| | | |] eqn:E;
    try (rewrite (cnf_loop_mono (filter_elem rv) filter_elem_mono n m [] s2 _ L E) by discriminate; exact H).
  subst x. congruence.
Qed.

Lemma part_f_mono n m s x : n <= m -> part_f rv n s = x -> x <> POof -> part_f rv m s = x.
Proof.
  intros L H Hx. unfold part_f in *. destruct (dotted_property s); try exact H. destruct (ws_char "[" s) as [s1|]; [|exact H].
  destruct (pmap FP (all_indices_body s1)); cbn [palt] in *; try exact H.
  destruct (pmap FP (array_index_body s1)); cbn [palt] in *; try exact H.
  destruct (pmap FP (map_key_lookup_body s1)); cbn [palt] in *; try exact H.
  destruct (keys_match rv n s1) as [p r| | | |] eqn:Ek; cbn [palt] in *;
    try (rewrite (keys_match_mono n m s1 _ L Ek) by discriminate; cbn [palt]; exact H); [|subst x; congruence].
  rewrite (keys_match_mono n m s1 _ L Ek) by discriminate. cbn [palt]. now apply (filter_mono n m).
Qed.

Lemma parts_loop_f_mono : forall n m acc s x, n <= m -> parts_loop_f rv n acc s = x -> x <> POof -> parts_loop_f rv m acc s = x.
Proof.
  induction n as [|n IH]; intros m acc s x L H Hx; [cbn in H; congruence|].
  destruct m as [|m]; [lia|]. cbn [parts_loop_f] in *.
  destruct (part_f rv n s) as [p r| | | |] eqn:E; try (rewrite (part_f_mono n m s _ ltac:(lia) E) by discriminate; exact H); [|congruence].
  rewrite (part_f_mono n m s _ ltac:(lia) E) by discriminate. apply IH; [lia|exact H|exact Hx].
Qed.

Theorem access_f_mono : forall n m s x, n <= m -> access_f rv n s = x -> x <> POof -> access_f rv m s = x.
Proof.
  intros n m s x L H Hx. unfold access_f in *.
  destruct (match some_keyword s with Some r => (false, r) | None => (true, s) end) as [all s1].
  destruct (match this_keyword s1 with Some r => POk QThis r | None => pmap QKey (palt (var_access s1) (property_name s1)) end) as [f r| | | |]; try exact H.
  destruct n as [|n]; [congruence|]. destruct m as [|m]; [lia|].
  destruct (part_f rv n r) as [p r1| | | |] eqn:E; try (rewrite (part_f_mono n m r _ ltac:(lia) E) by discriminate; exact H); [|subst x; cbn in Hx; congruence].
  rewrite (part_f_mono n m r _ ltac:(lia) E) by discriminate.
  destruct (parts_loop_f rv n [p] r1) as [parts r'| | | |] eqn:El; try (rewrite (parts_loop_f_mono n m [p] r1 _ ltac:(lia) El) by discriminate; exact H).
  subst x. cbn in Hx. congruence.
Qed.

Theorem clause_f_mono : forall n m s x, n <= m -> clause_f rv n s = x -> x <> POof -> clause_f rv m s = x.
Proof.
  intros n m s x L H Hx. unfold clause_f, gclause_parse in *.
  destruct (match not_kw (skip_ws_comments s) with Some r => (true, r) | None => (false, skip_ws_comments s) end) as [neg s1].
  destruct (access_f rv n s1) as [q r1| | | |] eqn:Ea; try (rewrite (access_f_mono n m s1 _ L Ea) by discriminate; exact H); [|subst x; cbn in Hx; congruence].
  rewrite (access_f_mono n m s1 _ L Ea) by discriminate.
  destruct (value_cmp (skip_ws_comments r1)) as [c r2| | | |]; try exact H.
  destruct (is_unary (fst c)); [exact H|].
  destruct (parse_value rv n r2) as [l r3| | | |] eqn:Ep; try (rewrite (parse_value_fuel_mono rv n m r2 _ L Ep) by discriminate; exact H); [|subst x; cbn in Hx; congruence].
  rewrite (parse_value_fuel_mono rv n m r2 _ L Ep) by discriminate.
  destruct (function_like (skip_ws_comments r2)); try exact H.
  destruct (access_f rv n (skip_ws_comments r2)) as [q2 r3| | | |] eqn:Ea2; try (rewrite (access_f_mono n m _ _ L Ea2) by discriminate; exact H).
  subst x. cbn in Hx. congruence.
Qed.

End Mono.
