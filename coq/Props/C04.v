(* C04 — verdicts do not depend on the order or repetition of clauses and rules. Pinned statements only.
   `transparent f g xs`: every clause x of xs has one status g x in every state and gives the state back (records
   may be emitted). For such clauses the theorems hold for bodies of any shape; that memoised variables and cached
   rule statuses keep clauses transparent is the part carried by the permutation differential on the
   implementation (see DESIGN.md, C04).
   For the VARIABLE-FREE fragment (pure_clause: queries, filters, blocks, when blocks, type blocks that mention no variable,
   no capture, no function and no other rule) the hypothesis is discharged: C04_pure_* below hold of the evaluator model
   itself, for bodies of any shape, whenever every clause of the body evaluates (no error, no panic site, enough fuel). *)
From Coq Require Import Permutation.
From GV.Model Require Import SEval PEval.
From GV.Proofs Require Import StatusProps EvalLaws OrderProps FrameProps PureProps MemoProps RuleOrderProps.

Theorem C04_perm_lines : forall T (f : T -> M status) g cnf cnf' s,
  Permutation cnf cnf' -> transparent f g (List.concat cnf) ->
  status_of (cnf_body f cnf s) = status_of (cnf_body f cnf' s).
Proof. exact @perm_lines. Qed.
Print Assumptions C04_perm_lines.

Theorem C04_perm_alternatives : forall T (f : T -> M status) g line line' rest s,
  Permutation line line' -> transparent f g (List.concat (line :: rest)) ->
  status_of (cnf_body f (line :: rest) s) = status_of (cnf_body f (line' :: rest) s).
Proof. exact @perm_alternatives. Qed.
Print Assumptions C04_perm_alternatives.

Theorem C04_dup_line : forall T (f : T -> M status) g line rest s,
  In line rest -> transparent f g (List.concat rest) ->
  status_of (cnf_body f (line :: rest) s) = status_of (cnf_body f rest s).
Proof. exact @dup_line. Qed.
Print Assumptions C04_dup_line.

(* the combinators themselves, for status lists of any length *)
Theorem C04_conj_status_perm_lines : forall lines lines',
  Permutation lines lines' -> conj_status lines = conj_status lines'.
Proof. exact conj_status_perm_lines. Qed.
Print Assumptions C04_conj_status_perm_lines.

Theorem C04_conj_status_perm_alternatives : forall l l' rest,
  Permutation l l' -> conj_status (l :: rest) = conj_status (l' :: rest).
Proof. exact conj_status_perm_alternatives. Qed.
Print Assumptions C04_conj_status_perm_alternatives.

Theorem C04_conj_status_dup_line : forall l rest, In l rest -> conj_status (l :: rest) = conj_status rest.
Proof. exact conj_status_dup_line. Qed.
Print Assumptions C04_conj_status_dup_line.

(* a rule has the same definitions whether it is written before or after its user *)
Theorem C04_rules_named_swap : forall lets prs l1 a b l2 name,
  rule_name a <> rule_name b ->
  rules_named (mkRulesFile lets (l1 ++ a :: b :: l2) prs) name
  = rules_named (mkRulesFile lets (l1 ++ b :: a :: l2) prs) name.
Proof. exact rules_named_swap. Qed.
Print Assumptions C04_rules_named_swap.

Theorem C04_file_status_perm : forall sts sts',
  Permutation sts sts' -> fold_fail_pass_skip sts = fold_fail_pass_skip sts'.
Proof. exact file_status_perm. Qed.
Print Assumptions C04_file_status_perm.

(* ... and whether or not it was already evaluated: a cached status is what every later reference gets *)
Theorem C04_cached_status_is_returned : forall prog r name st s,
  (exists f, frames s = [f]) ->
  assoc name (statuses s) = Some st ->
  rule_status_body prog r name s = Done (st, [], s).
Proof. exact cached_status_is_returned. Qed.
Print Assumptions C04_cached_status_is_returned.

(* ---- the variable-free fragment: no hypothesis on the clause evaluator ---- *)

(* an evaluation in the fragment hands back exactly the state it was given *)
Theorem C04_pure_clause_gives_state_back : forall re conv prog fuel s x st recs s',
  pure_clause x = true -> ev_clause (evalN re conv prog fuel) x s = Done (st, recs, s') -> s' = s.
Proof. exact pure_clause_gives_state_back. Qed.
Print Assumptions C04_pure_clause_gives_state_back.

Theorem C04_pure_body_status : forall re conv prog fuel cnf s,
  pure_cnf cnf = true ->
  (forall x, In x (List.concat cnf) -> evaluates (ev_clause (evalN re conv prog fuel)) s x) ->
  exists recs, cnf_body (ev_clause (evalN re conv prog fuel)) cnf s
               = Done (conj_status (map (map (status_in (ev_clause (evalN re conv prog fuel)) s)) cnf), recs, s).
Proof. exact pure_body_status. Qed.
Print Assumptions C04_pure_body_status.

Theorem C04_pure_perm_lines : forall re conv prog fuel cnf cnf' s,
  pure_cnf cnf = true ->
  (forall x, In x (List.concat cnf) -> evaluates (ev_clause (evalN re conv prog fuel)) s x) ->
  Permutation cnf cnf' ->
  status_of (cnf_body (ev_clause (evalN re conv prog fuel)) cnf s)
  = status_of (cnf_body (ev_clause (evalN re conv prog fuel)) cnf' s).
Proof. exact pure_perm_lines. Qed.
Print Assumptions C04_pure_perm_lines.

Theorem C04_pure_perm_alternatives : forall re conv prog fuel line line' rest s,
  pure_cnf (line :: rest) = true ->
  (forall x, In x (List.concat (line :: rest)) -> evaluates (ev_clause (evalN re conv prog fuel)) s x) ->
  Permutation line line' ->
  status_of (cnf_body (ev_clause (evalN re conv prog fuel)) (line :: rest) s)
  = status_of (cnf_body (ev_clause (evalN re conv prog fuel)) (line' :: rest) s).
Proof. exact pure_perm_alternatives. Qed.
Print Assumptions C04_pure_perm_alternatives.

Theorem C04_pure_dup_line : forall re conv prog fuel line rest s,
  pure_cnf rest = true ->
  (forall x, In x (List.concat rest) -> evaluates (ev_clause (evalN re conv prog fuel)) s x) ->
  In line rest ->
  status_of (cnf_body (ev_clause (evalN re conv prog fuel)) (line :: rest) s)
  = status_of (cnf_body (ev_clause (evalN re conv prog fuel)) rest s).
Proof. exact pure_dup_line. Qed.
Print Assumptions C04_pure_dup_line.

(* the body of a rule: clauses, when blocks and type blocks at rule level *)
Theorem C04_pure_rule_perm_lines : forall re conv prog fuel cnf cnf' s,
  forallb (forallb pure_rule_clause) cnf = true ->
  (forall x, In x (List.concat cnf) -> evaluates (rule_clause_body re prog (evalN re conv prog fuel)) s x) ->
  Permutation cnf cnf' ->
  status_of (cnf_body (rule_clause_body re prog (evalN re conv prog fuel)) cnf s)
  = status_of (cnf_body (rule_clause_body re prog (evalN re conv prog fuel)) cnf' s).
Proof. exact pure_rule_perm_lines. Qed.
Print Assumptions C04_pure_rule_perm_lines.

(* ---- capture-free programs WITH memoised variables, cached rule statuses and parameterised calls ----
   Valid s: the memos and the rule-status cache of s hold what the memo-free evaluator PEval computes for those names
   (true of the initial state, kept by every evaluation: C15_caches_stay_valid). Two evaluations of a body from the same
   valid state - the lines permuted, the alternatives of a line permuted, a line repeated - give the same status,
   whatever was memoised or cached on the way. No hypothesis on the clause evaluator; any fuel; bodies of any shape. *)

Theorem C04_memo_perm_lines : forall re conv prog, nc_prog prog = true ->
  forall n cnf cnf' s st st' recs recs' s1 s2,
  nc_cnf cnf = true -> Valid prog (evalP re conv prog) s -> Permutation cnf cnf' ->
  cnf_body (ev_clause (evalN re conv prog n)) cnf s = Done (st, recs, s1) ->
  cnf_body (ev_clause (evalN re conv prog n)) cnf' s = Done (st', recs', s2) -> st = st'.
Proof. exact memo_perm_lines. Qed.
Print Assumptions C04_memo_perm_lines.

(* ... also from two different valid states with the same scope stack (different histories) *)
Theorem C04_memo_perm_lines_any_history : forall re conv prog, nc_prog prog = true ->
  forall n cnf cnf' s s0 st st' recs recs' s1 s2,
  nc_cnf cnf = true -> Valid prog (evalP re conv prog) s -> Valid prog (evalP re conv prog) s0 -> erase s = erase s0 ->
  Permutation cnf cnf' ->
  cnf_body (ev_clause (evalN re conv prog n)) cnf s = Done (st, recs, s1) ->
  cnf_body (ev_clause (evalN re conv prog n)) cnf' s0 = Done (st', recs', s2) -> st = st'.
Proof. exact memo_perm_lines_any_cache. Qed.
Print Assumptions C04_memo_perm_lines_any_history.

Theorem C04_memo_perm_alternatives : forall re conv prog, nc_prog prog = true ->
  forall n line line' rest s st st' recs recs' s1 s2,
  nc_cnf (line :: rest) = true -> Valid prog (evalP re conv prog) s -> Permutation line line' ->
  cnf_body (ev_clause (evalN re conv prog n)) (line :: rest) s = Done (st, recs, s1) ->
  cnf_body (ev_clause (evalN re conv prog n)) (line' :: rest) s = Done (st', recs', s2) -> st = st'.
Proof. exact memo_perm_alternatives. Qed.
Print Assumptions C04_memo_perm_alternatives.

Theorem C04_memo_dup_line : forall re conv prog, nc_prog prog = true ->
  forall n line rest s st st' recs recs' s1 s2,
  nc_cnf rest = true -> Valid prog (evalP re conv prog) s -> In line rest ->
  cnf_body (ev_clause (evalN re conv prog n)) (line :: rest) s = Done (st, recs, s1) ->
  cnf_body (ev_clause (evalN re conv prog n)) rest s = Done (st', recs', s2) -> st = st'.
Proof. exact memo_dup_line. Qed.
Print Assumptions C04_memo_dup_line.

Theorem C04_initial_state_is_valid : forall re conv prog doc,
  nc_prog prog = true -> Valid prog (evalP re conv prog) (init_state prog doc).
Proof. exact init_state_valid. Qed.
Print Assumptions C04_initial_state_is_valid.

(* ---- the order of the rules of a file ----
   capture-free program, distinct rule names, the rules written in any other order (forward references, rules that were
   already evaluated and cached when they are referenced, ... ): the file status is the same, and every rule has the
   same status - both runs compute, for each rule, the value rule_den gives it (the memo-free evaluation of that rule
   from the initial state), which is a function of the rule alone. Any two fuels. *)
Theorem C04_rule_order_file_status : forall re conv lets prs rules rules',
  nc_prog (mkRulesFile lets rules prs) = true -> NoDup (map rule_name rules) -> Permutation rules rules' ->
  forall n n' doc st st' recs recs' s1 s2,
  eval_file re conv (mkRulesFile lets rules prs) n doc = Done (st, recs, s1) ->
  eval_file re conv (mkRulesFile lets rules' prs) n' doc = Done (st', recs', s2) -> st = st'.
Proof. exact rule_order_file_status. Qed.
Print Assumptions C04_rule_order_file_status.

Theorem C04_rule_order_rule_statuses : forall re conv lets prs rules rules',
  nc_prog (mkRulesFile lets rules prs) = true -> NoDup (map rule_name rules) -> Permutation rules rules' ->
  forall n n' doc st st' recs recs' s1 s2,
  eval_file re conv (mkRulesFile lets rules prs) n doc = Done (st, recs, s1) ->
  eval_file re conv (mkRulesFile lets rules' prs) n' doc = Done (st', recs', s2) ->
  exists sts sts',
    Forall2 (rule_den re conv lets prs rules doc) rules sts /\
    Forall2 (rule_den re conv lets prs rules doc) rules' sts' /\
    st = fold_fail_pass_skip sts /\ st' = fold_fail_pass_skip sts'.
Proof. exact rule_order_rule_status. Qed.
Print Assumptions C04_rule_order_rule_statuses.

Theorem C04_rule_den_is_a_function : forall re conv lets prs rules doc x a b,
  rule_den re conv lets prs rules doc x a -> rule_den re conv lets prs rules doc x b -> a = b.
Proof. exact rule_den_fun. Qed.
Print Assumptions C04_rule_den_is_a_function.
