(* PathProps.v — paths attached to loaded values point into the document (C10).
   TryFrom<(&Value, Path)> (path_value.rs 359-478, Value.annotate) gives every sub-value the slash-joined pointer of the
   segments that lead to it; resolving those segments in the document gives back exactly that sub-value. *)
From Coq Require Import Lia.
From GV.Model Require Import Value.

(* induction over nested values *)
Lemma value_ind2 : forall (P : value -> Prop),
  P VNull -> (forall s, P (VString s)) -> (forall s, P (VRegex s)) -> (forall b, P (VBool b)) ->
  (forall z, P (VInt z)) -> (forall f, P (VFloat f)) -> (forall c, P (VChar c)) ->
  (forall l, Forall P l -> P (VList l)) ->
  (forall m, Forall (fun kv => P (snd kv)) m -> P (VMap m)) ->
  (forall a b i, P (VRangeInt a b i)) -> (forall a b i, P (VRangeFloat a b i)) -> (forall a b i, P (VRangeChar a b i)) ->
  forall v, P v.
Proof.
  intros P Hn Hs Hr Hb Hi Hf Hc Hl Hm Hri Hrf Hrc. fix IH 1. intros v.
  destruct v as [|s|s|b|z|f|c|l|m|a b i|a b i|a b i].
  - exact Hn. - apply Hs. - apply Hr. - apply Hb. - apply Hi. - apply Hf. - apply Hc.
  - apply Hl. induction l as [|x l IHl]; constructor; [apply IH|exact IHl].
  - apply Hm. induction m as [|[k x] m IHm]; constructor; [apply IH|exact IHm].
  - apply Hri. - apply Hrf. - apply Hrc.
Qed.

(* a pointer as typed segments; its printed form joins the segments with "/" (list indices in decimal) *)
Inductive seg := SKey (k : string) | SIdx (i : nat).
Definition seg_text (s : seg) : string := match s with SKey k => k | SIdx i => N_to_string (N.of_nat i) end.
Definition pointer (prefix : string) (segs : list seg) : string :=
  fold_left (fun acc s => acc +++ "/" +++ seg_text s) segs prefix.

(* resolution in the plain document: a key of a map (first binding), an index into a list *)
Definition step (v : value) (s : seg) : option value :=
  match v, s with
  | VMap m, SKey k => assoc k m
  | VList l, SIdx i => nth_error l i
  | _, _ => None
  end.
Fixpoint resolve (v : value) (segs : list seg) : option value :=
  match segs with
  | [] => Some v
  | s :: r => match step v s with Some x => resolve x r | None => None end
  end.

(* the same walk through an annotated value, returning the annotated sub-value *)
Definition pstep (v : pv) (s : seg) : option pv :=
  match v, s with
  | PMap _ _ vals, SKey k => assoc k vals
  | PList _ l, SIdx i => nth_error l i
  | _, _ => None
  end.
Fixpoint presolve (v : pv) (segs : list seg) : option pv :=
  match segs with
  | [] => Some v
  | s :: r => match pstep v s with Some x => presolve x r | None => None end
  end.

Lemma assoc_map_strip : forall k (m : list (string * pv)),
  assoc k (map (fun kv => (fst kv, strip (snd kv))) m) = option_map strip (assoc k m).
Proof.
  induction m as [|[k' x] m IH]; cbn; [reflexivity|]. destruct (String.eqb k k'); [reflexivity|exact IH].
Qed.

(* what a pointer reaches in a loaded value is, paths forgotten, what it reaches in the plain document *)
Theorem presolve_strip : forall segs v x,
  presolve v segs = Some x -> resolve (strip v) segs = Some (strip x).
Proof.
  induction segs as [|s segs IH]; intros v x H; cbn in *.
  - inversion H. reflexivity.
  - destruct (pstep v s) as [y|] eqn:E; [|discriminate].
    assert (Hs : step (strip v) s = Some (strip y)).
    { destruct v; destruct s; cbn in *; try discriminate.
      - now rewrite nth_error_map, E.
      - now rewrite assoc_map_strip, E. }
    rewrite Hs. now apply IH.
Qed.

(* the children annotate builds *)
Lemma annotate_list_nth : forall p l i0 i y,
  nth_error ((fix go (i : N) (l : list value) : list pv :=
                match l with
                | [] => []
                | x :: r => annotate (path_extend p (N_to_string i)) x :: go (N.succ i) r
                end) i0 l) i = Some y ->
  exists x, nth_error l i = Some x /\ y = annotate (path_extend p (N_to_string (i0 + N.of_nat i))) x.
Proof.
  intros p l. induction l as [|x l IH]; intros i0 i y H; [destruct i; discriminate|].
  destruct i as [|i]; cbn in H.
  - inversion H; subst. exists x. split; [reflexivity|]. now rewrite N.add_0_r.
  - destruct (IH (N.succ i0) i y H) as (x' & Hx & Hy). exists x'. split; [exact Hx|].
    rewrite Hy. do 3 f_equal. lia.
Qed.

Lemma annotate_map_assoc : forall p m k y,
  assoc k ((fix go (m : list (string * value)) : list (string * pv) :=
              match m with
              | [] => []
              | (k, x) :: r => (k, annotate (path_extend p k) x) :: go r
              end) m) = Some y ->
  exists x, assoc k m = Some x /\ y = annotate (path_extend p k) x.
Proof.
  intros p m k y. induction m as [|[k' x] m IH]; cbn; [discriminate|].
  destruct (String.eqb k k') eqn:E.
  - intros H. inversion H; subst. apply String.eqb_eq in E. subst. eauto.
  - exact IH.
Qed.

Lemma pstep_annotate : forall p v s y,
  pstep (annotate p v) s = Some y ->
  exists x, step v s = Some x /\ y = annotate (path_extend p (seg_text s)) x.
Proof.
  intros p v s y H. destruct v; destruct s; cbn in H; try discriminate.
  - apply annotate_list_nth in H as (x & Hx & Hy). exists x. split; [exact Hx|]. rewrite Hy. reflexivity.
  - apply annotate_map_assoc in H as (x & Hx & Hy). exists x. split; [exact Hx|exact Hy].
Qed.

Lemma self_path_annotate : forall p v, self_path (annotate p v) = p.
Proof. intros p v. destruct v; reflexivity. Qed.

(* forgetting the paths gives the document back *)
Lemma strip_go_list : forall p l,
  Forall (fun x => forall p, strip (annotate p x) = x) l ->
  forall i0, map strip ((fix go (i : N) (l : list value) : list pv :=
                           match l with
                           | [] => []
                           | x :: r => annotate (path_extend p (N_to_string i)) x :: go (N.succ i) r
                           end) i0 l) = l.
Proof.
  intros p l H. induction H as [|x l Hx Hl IHl]; intros i0; [reflexivity|].
  cbn [map]. rewrite Hx. f_equal. apply IHl.
Qed.

Lemma strip_go_map : forall p m,
  Forall (fun kv : string * value => forall p, strip (annotate p (snd kv)) = snd kv) m ->
  map (fun kv : string * pv => (fst kv, strip (snd kv)))
      ((fix go (m : list (string * value)) : list (string * pv) :=
          match m with
          | [] => []
          | (k, x) :: r => (k, annotate (path_extend p k) x) :: go r
          end) m) = m.
Proof.
  intros p m H. induction H as [|[k x] m Hx Hm IHm]; [reflexivity|].
  cbn [map fst snd] in *. rewrite Hx, IHm. reflexivity.
Qed.

Theorem strip_annotate : forall v p, strip (annotate p v) = v.
Proof.
  induction v using value_ind2; intros p; try reflexivity.
  - cbn [annotate strip]. f_equal. now apply strip_go_list.
  - cbn [annotate strip]. f_equal. now apply strip_go_map.
Qed.

(* every value reachable in a loaded document carries the slash-joined pointer of the segments that lead to it,
   and that pointer resolves, in the plain document, to exactly that value *)
Theorem annotate_paths_sound : forall segs p v y,
  presolve (annotate p v) segs = Some y ->
  pstr (self_path y) = pointer (pstr p) segs /\
  resolve v segs = Some (strip y) /\
  pline (self_path y) = pline p /\ pcol (self_path y) = pcol p.
Proof.
  induction segs as [|s segs IH]; intros p v y H; cbn in H.
  - inversion H; subst. rewrite self_path_annotate, strip_annotate. cbn. repeat split.
  - destruct (pstep (annotate p v) s) as [z|] eqn:E; [|discriminate].
    apply pstep_annotate in E as (x & Hx & Hz). subst z.
    destruct (IH _ _ _ H) as (H1 & H2 & H3 & H4). cbn [resolve]. rewrite Hx.
    split; [rewrite H1; reflexivity|]. split; [exact H2|]. split; [exact H3|exact H4].
Qed.

(* ---- the traversal steps of a query stay inside the document ---- *)
Definition reachable (d x : pv) : Prop := exists segs, presolve d segs = Some x.

Lemma presolve_app : forall a b d y, presolve d a = Some y -> presolve d (a ++ b) = presolve y b.
Proof.
  induction a as [|s a IH]; intros b d y H; cbn in *.
  - now inversion H.
  - destruct (pstep d s); [|discriminate]. now apply IH.
Qed.

Theorem reachable_refl : forall d, reachable d d.
Proof. intros d. exists []. reflexivity. Qed.

(* a key lookup, an index, every member taken by `*` / `[*]` / a filter *)
Theorem reachable_key : forall d p keys vals k x,
  reachable d (PMap p keys vals) -> assoc k vals = Some x -> reachable d x.
Proof.
  intros d p keys vals k x (segs & H) Hk. exists (segs ++ [SKey k]).
  rewrite (presolve_app _ _ _ _ H). cbn. now rewrite Hk.
Qed.

Theorem reachable_index : forall d p l i x,
  reachable d (PList p l) -> nth_error l i = Some x -> reachable d x.
Proof.
  intros d p l i x (segs & H) Hi. exists (segs ++ [SIdx i]).
  rewrite (presolve_app _ _ _ _ H). cbn. now rewrite Hi.
Qed.

Theorem reachable_member : forall d p l x, reachable d (PList p l) -> In x l -> reachable d x.
Proof.
  intros d p l x Hr Hin. apply In_nth_error in Hin as (i & Hi). eapply reachable_index; eauto.
Qed.

Lemma assoc_in_nodup : forall (vals : list (string * pv)) k x,
  NoDup (map fst vals) -> In (k, x) vals -> assoc k vals = Some x.
Proof.
  induction vals as [|[k' y] vals IH]; intros k x Hnd Hin; [destruct Hin|].
  cbn in *. inversion Hnd as [|? ? Hnot Hnd']; subst.
  destruct Hin as [E|Hin].
  - inversion E; subst. now rewrite String.eqb_refl.
  - destruct (String.eqb k k') eqn:Ek.
    + apply String.eqb_eq in Ek. subst. exfalso. apply Hnot. apply in_map_iff. exists (k', x). auto.
    + now apply IH.
Qed.

Theorem reachable_map_value : forall d p keys vals k x,
  NoDup (map fst vals) -> reachable d (PMap p keys vals) -> In (k, x) vals -> reachable d x.
Proof.
  intros d p keys vals k x Hnd Hr Hin. apply (reachable_key d p keys vals k x Hr). apply assoc_in_nodup; assumption.
Qed.

(* so a reported path is the pointer of the value it is reported with: for a document loaded from `v` at the root
   path, anything reachable carries the pointer that resolves to it *)
Theorem reported_path_resolves : forall v x,
  reachable (annotate root_path v) x ->
  exists segs, pstr (self_path x) = pointer "" segs /\ resolve v segs = Some (strip x).
Proof.
  intros v x (segs & H). exists segs. destruct (annotate_paths_sound _ _ _ _ H) as (H1 & H2 & _). auto.
Qed.
