#!/bin/sh
# independent re-check of the compiled Props libraries and everything they depend on; prints the axioms they rely on
cd "$(dirname "$0")/../coq" || exit 2
LIBS=$(ls Props/C*.v | sed 's#Props/\(C[0-9]*\)\.v#GV.Props.\1#')
timeout 3600 coqchk -silent -o -Q Model GV.Model -Q Proofs GV.Proofs -Q Props GV.Props -Q Generated GV.Generated $LIBS > ../inventory/coqchk.txt 2>&1
echo "exit=$?" >> ../inventory/coqchk.txt
tail -15 ../inventory/coqchk.txt
