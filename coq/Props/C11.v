(* C11 — a document means the same however it is written or loaded (partial). Pinned statements only.
   Proved: the typing of scalars by the libyaml loader (quoted => string; decimal integers over all of i64; keywords;
   core tags), the short-form tag tables (regenerated from the source), path-free structure preservation
   (strip . annotate = id); and - new - that EVALUATION LOOKS AT A DOCUMENT ONLY THROUGH ITS CONTENT: two documents that are
   equal up to paths and source positions (`er`, Model/Erase.v) get the same verdict and the same rule statuses from every
   rules file (EraseProps.v: the whole evaluator commutes with erasure, by induction on the fuel). NOT modelled: tokenisation by libyaml / serde_yaml / serde_json - agreement of the three
   loaders on whole documents is checked by correspondence (tools/gv/props/c11.py). *)
From GV.Model Require Import Value Scalar Tags Erase.
From GV.Proofs Require Import PathProps DecimalProps ScalarProps TagProps EraseProps.
Open Scope Z_scope.

Theorem C11_quoted_is_string : forall s, load_scalar TNone Quoted s = KStr s.
Proof. exact quoted_is_string. Qed.
Print Assumptions C11_quoted_is_string.

Theorem C11_plain_integer_is_integer : forall z,
  i64_min <= z <= i64_max -> load_scalar TNone Plain (Z_to_string z) = KInt z.
Proof. exact plain_integer_is_integer. Qed.
Print Assumptions C11_plain_integer_is_integer.

Theorem C11_parse_print_Z : forall z, parse_int_str (Z_to_string z) = Some z.
Proof. exact parse_print_Z. Qed.
Print Assumptions C11_parse_print_Z.

Theorem C11_plain_keywords :
  load_scalar TNone Plain "true" = KBool true /\ load_scalar TNone Plain "false" = KBool false /\
  load_scalar TNone Plain "null" = KNull /\ load_scalar TNone Plain "~" = KNull.
Proof. exact plain_keywords. Qed.
Print Assumptions C11_plain_keywords.

Theorem C11_tagged_str_is_string : forall st s, load_scalar TStrTag st s = KStr s.
Proof. exact tagged_str_is_string. Qed.
Print Assumptions C11_tagged_str_is_string.

(* key order, list order and every value are kept by the path annotation *)
Theorem C11_strip_annotate : forall v p, strip (annotate p v) = v.
Proof. exact strip_annotate. Qed.
Print Assumptions C11_strip_annotate.

(* short-form tags, over the tables the source defines now *)
Theorem C11_every_tag_has_a_long_form :
  forallb (fun t => match long_of t with Some _ => true | None => false end)
          (single_value_tags ++ sequence_value_tags) = true.
Proof. exact every_tag_has_a_long_form. Qed.
Print Assumptions C11_every_tag_has_a_long_form.

Theorem C11_single_value_short_is_long : forall P t (p : P),
  mem t single_value_tags = true ->
  exists l, long_of t = Some l /\ cli_scalar t p = AsMap l p /\ serde_tagged t p = AsMap l p.
Proof. exact single_value_short_is_long. Qed.
Print Assumptions C11_single_value_short_is_long.

Theorem C11_sequence_value_short_is_long : forall P t (p : P),
  mem t sequence_value_tags = true ->
  exists l, long_of t = Some l /\ cli_sequence t p = AsMap l p /\ serde_tagged t p = AsMap l p.
Proof. exact sequence_value_short_is_long. Qed.
Print Assumptions C11_sequence_value_short_is_long.

Theorem C11_documented_long_forms :
  long_of "Ref" = Some "Ref" /\ long_of "GetAtt" = Some "Fn::GetAtt" /\ long_of "Join" = Some "Fn::Join" /\
  long_of "Sub" = Some "Fn::Sub" /\ long_of "Select" = Some "Fn::Select" /\ long_of "If" = Some "Fn::If" /\
  mem "Ref" single_value_tags = true /\ mem "GetAtt" single_value_tags = true /\ mem "GetAtt" sequence_value_tags = true /\
  mem "Join" sequence_value_tags = true.
Proof. exact documented_long_forms. Qed.
Print Assumptions C11_documented_long_forms.

(* recorded deviations, as theorems about the model *)
Theorem C11_plain_scalar_oddities :
  plain_scalar "True" = KStr "True" /\ plain_scalar "TRUE" = KStr "TRUE" /\ plain_scalar "Null" = KNull /\
  plain_scalar "nan" = KFloat /\ plain_scalar "inf" = KFloat /\ plain_scalar "-Infinity" = KFloat /\
  plain_scalar "0x10" = KStr "0x10" /\ plain_scalar "007" = KInt 7 /\ plain_scalar "+5" = KInt 5 /\
  plain_scalar "1_000" = KStr "1_000" /\ plain_scalar ".5" = KFloat /\ plain_scalar "5." = KFloat /\
  plain_scalar "1e3" = KFloat /\ plain_scalar ".inf" = KStr ".inf" /\ plain_scalar "yes" = KStr "yes" /\
  plain_scalar "" = KStr "" /\ plain_scalar "9223372036854775808" = KFloat /\ plain_scalar "-" = KStr "-".
Proof. exact plain_scalar_oddities. Qed.
Print Assumptions C11_plain_scalar_oddities.

(* whatever the payload kind, both loading paths treat a tagged node alike (a deviation at the pinned commit, repaired) *)
Theorem C11_cli_agrees_with_serde : forall P t (p : P),
  cli_scalar t p = serde_tagged t p /\ cli_sequence t p = serde_tagged t p.
Proof. exact cli_agrees_with_serde. Qed.
Print Assumptions C11_cli_agrees_with_serde.

(* ---- evaluation looks at a document only through its content ---- *)

(* the evaluator commutes with forgetting paths and positions: the erased program on the erased document gives the erased result *)
Theorem C11_evaluation_commutes_with_erasure : forall re conv prog fuel doc,
  dropR (eval_file re conv (er_prog prog) fuel (er doc)) = erO (fun x => x) (eval_file re conv prog fuel doc).
Proof. exact eval_file_commutes_with_erasure. Qed.
Print Assumptions C11_evaluation_commutes_with_erasure.

(* however a document was written or loaded - JSON or YAML, any layout, any base path - if the content is the same the
   verdict (status, or which error) is the same, for every rules file, oracle and fuel *)
Theorem C11_verdict_depends_on_content_only : forall re conv prog fuel d1 d2,
  er d1 = er d2 -> verdict (eval_file re conv prog fuel d1) = verdict (eval_file re conv prog fuel d2).
Proof. exact verdict_depends_on_content_only. Qed.
Print Assumptions C11_verdict_depends_on_content_only.

Theorem C11_rule_statuses_depend_on_content_only : forall re conv prog fuel d1 d2 st1 recs1 s1 st2 recs2 s2,
  er d1 = er d2 ->
  eval_file re conv prog fuel d1 = Done (st1, recs1, s1) -> eval_file re conv prog fuel d2 = Done (st2, recs2, s2) ->
  st1 = st2 /\ statuses s1 = statuses s2.
Proof. exact rule_statuses_depend_on_content_only. Qed.
Print Assumptions C11_rule_statuses_depend_on_content_only.

(* what a loader attaches to a plain value (the base path, lines and columns) does not matter *)
Theorem C11_paths_and_positions_do_not_matter : forall re conv prog fuel v p q,
  verdict (eval_file re conv prog fuel (annotate p v)) = verdict (eval_file re conv prog fuel (annotate q v)).
Proof. exact verdict_of_a_loaded_value. Qed.
Print Assumptions C11_paths_and_positions_do_not_matter.

(* nor does it matter where the literals of the rules file were written *)
Theorem C11_literal_positions_do_not_matter : forall re conv p1 p2 fuel doc,
  er_prog p1 = er_prog p2 -> verdict (eval_file re conv p1 fuel doc) = verdict (eval_file re conv p2 fuel doc).
Proof. exact verdict_depends_on_literal_content_only. Qed.
Print Assumptions C11_literal_positions_do_not_matter.

(* the premise is met by documents that differ: the same content at other paths, lines and columns *)
Theorem C11_erasure_instance :
  let d1 := PMap (mkPath "" 1 1) [PString (mkPath "/a" 1 2) "a"] [("a", PList (mkPath "/a" 1 7) [PInt (mkPath "/a/0" 1 8) 1; PString (mkPath "/a/1" 1 11) "x"])] in
  let d2 := PMap (mkPath "/doc" 7 3) [PString (mkPath "/doc/a" 7 3) "a"] [("a", PList (mkPath "/doc/a" 8 5) [PInt (mkPath "/doc/a/0" 8 7) 1; PString (mkPath "/doc/a/1" 9 7) "x"])] in
  d1 <> d2 /\ er d1 = er d2.
Proof. exact erasure_instance. Qed.
Print Assumptions C11_erasure_instance.
