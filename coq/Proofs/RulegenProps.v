(* RulegenProps.v — generated rules describe their template (C19), the data-structure half. *)
From Coq Require Import Lia.
From GV.Model Require Import Rulegen.

Lemma in_set_add : forall v w s, In w (set_add v s) <-> w = v \/ In w s.
Proof.
  intros v w s. unfold set_add. destruct (existsb (String.eqb v) s) eqn:E.
  - split; [auto|]. intros [->|H]; [|assumption].
    apply existsb_exists in E as (x & Hx & Ex). apply String.eqb_eq in Ex. now subst.
  - rewrite in_app_iff. cbn. split.
    + intros [H|[H|[]]]; auto.
    + intros [H|H]; auto.
Qed.

Lemma assoc_prop_add : forall p v m q,
  assoc q (prop_add p v m) =
  if String.eqb q p then Some (set_add v (match assoc p m with Some s => s | None => [] end)) else assoc q m.
Proof.
  intros p v m q. induction m as [|[k s] m IH]; cbn.
  - destruct (String.eqb q p); reflexivity.
  - destruct (String.eqb k p) eqn:Ekp; cbn.
    + apply String.eqb_eq in Ekp. subst k. rewrite String.eqb_refl.
      destruct (String.eqb q p) eqn:Eqp; reflexivity.
    + rewrite IH. destruct (String.eqb q k) eqn:Eqk.
      * apply String.eqb_eq in Eqk. subst q. rewrite Ekp. reflexivity.
      * destruct (String.eqb q p) eqn:Eqp; [|reflexivity].
        apply String.eqb_eq in Eqp. subst q. rewrite String.eqb_sym, Ekp. reflexivity.
Qed.

Lemma assoc_type_add : forall t p v m u,
  assoc u (type_add t p v m) =
  if String.eqb u t then Some (prop_add p v (match assoc t m with Some pm => pm | None => [] end)) else assoc u m.
Proof.
  intros t p v m u. induction m as [|[k pm] m IH]; cbn.
  - destruct (String.eqb u t); reflexivity.
  - destruct (String.eqb k t) eqn:Ekt; cbn.
    + apply String.eqb_eq in Ekt. subst k. rewrite String.eqb_refl.
      destruct (String.eqb u t) eqn:Eut; reflexivity.
    + rewrite IH. destruct (String.eqb u k) eqn:Euk.
      * apply String.eqb_eq in Euk. subst u. rewrite Ekt. reflexivity.
      * destruct (String.eqb u t) eqn:Eut; [|reflexivity].
        apply String.eqb_eq in Eut. subst u. rewrite String.eqb_sym, Ekt. reflexivity.
Qed.

(* membership in the value set after one insertion *)
Lemma values_type_add : forall t p v m u q w,
  In w (values_of (type_add t p v m) u q) <-> (u = t /\ q = p /\ w = v) \/ In w (values_of m u q).
Proof.
  intros t p v m u q w. unfold values_of. rewrite assoc_type_add.
  destruct (String.eqb u t) eqn:Eut.
  - apply String.eqb_eq in Eut. subst u. rewrite assoc_prop_add.
    destruct (String.eqb q p) eqn:Eqp.
    + apply String.eqb_eq in Eqp. subst q. rewrite in_set_add.
      destruct (assoc t m) as [pm|]; cbn; [destruct (assoc p pm); cbn|]; intuition congruence.
    + apply String.eqb_neq in Eqp. destruct (assoc t m) as [pm|]; cbn; [|intuition congruence].
      destruct (assoc q pm); intuition congruence.
  - apply String.eqb_neq in Eut. intuition congruence.
Qed.

Lemma values_add_resource : forall r m u q w,
  In w (values_of (add_resource m r) u q) <->
  (fst r = Some u /\ In (q, w) (snd r)) \/ In w (values_of m u q).
Proof.
  intros [[t|] props] m u q w; unfold add_resource; cbn [fst snd].
  - revert m. induction props as [|[p v] props IH]; intros m; cbn [fold_left].
    + cbn. intuition.
    + rewrite IH, values_type_add. cbn. split.
      * intros [[Ht Hin]|[(-> & -> & ->)|H]]; auto.
      * intros [[Ht [E|Hin]]|H]; auto. inversion Ht; inversion E; subst. auto.
  - intuition discriminate.
Qed.

(* the value set of (type, property) is exactly the set of values some resource of that type gives that property:
   every value of the template is covered, and nothing else is *)
Theorem values_exactly_the_template : forall rs u q w,
  In w (values_of (gen_rules rs) u q) <-> exists r, In r rs /\ fst r = Some u /\ In (q, w) (snd r).
Proof.
  intros rs u q w. unfold gen_rules.
  assert (G : forall rs m, In w (values_of (fold_left add_resource rs m) u q) <->
              (exists r, In r rs /\ fst r = Some u /\ In (q, w) (snd r)) \/ In w (values_of m u q)).
  { induction rs0 as [|r rs0 IH]; intros m; cbn [fold_left].
    - split; [auto|]. intros [(r & [] & _)|H]; assumption.
    - rewrite IH, values_add_resource. split.
      + intros [(r' & Hin & H)|[[H1 H2]|H]]; [left; exists r'; cbn; auto|left; exists r; cbn; auto|auto].
      + intros [(r' & [<-|Hin] & H1 & H2)|H]; [right; left; auto|left; exists r'; auto|auto]. }
  rewrite G. cbn. split; [intros [H|[]]; exact H|auto].
Qed.

(* the clause printed for a set accepts exactly the members of the set *)
Theorem clause_accepts_members : forall p s v,
  clause_accepts (clause_of (p, s)) v = existsb (String.eqb v) s.
Proof.
  intros p s v. unfold clause_of. cbn [snd fst]. destruct s as [|a [|b s]]; cbn; try reflexivity.
  now rewrite Bool.orb_false_r.
Qed.

(* == for a single value, IN for several *)
Theorem operator_choice : forall p s,
  (exists v, s = [v] /\ clause_of (p, s) = GEq p v) \/ (List.length s <> 1%nat /\ clause_of (p, s) = GIn p s).
Proof.
  intros p s. unfold clause_of. cbn [snd fst]. destruct s as [|a [|b s]].
  - right. split; [cbn; lia|reflexivity].
  - left. eauto.
  - right. split; [cbn; lia|reflexivity].
Qed.

(* one rule per resource type that has at least one property; none for a type without properties *)
Theorem rule_for_type_iff : forall rs t,
  (exists pm, assoc t (gen_rules rs) = Some pm) <-> exists r p v, In r rs /\ fst r = Some t /\ In (p, v) (snd r).
Proof.
  intros rs t. unfold gen_rules.
  assert (A : forall t p v m, exists pm, assoc t (type_add t p v m) = Some pm).
  { intros. rewrite assoc_type_add, String.eqb_refl. eauto. }
  assert (G : forall rs m, (exists pm, assoc t (fold_left add_resource rs m) = Some pm) <->
              (exists r p v, In r rs /\ fst r = Some t /\ In (p, v) (snd r)) \/ exists pm, assoc t m = Some pm).
  { induction rs0 as [|r rs0 IH]; intros m; cbn [fold_left].
    - split; [auto|]. intros [(r & p & v & [] & _)|H]; assumption.
    - rewrite IH. clear IH. split.
      + intros [(r' & p & v & Hin & H)|H]; [left; exists r', p, v; cbn; tauto|].
        destruct r as [[u|] props]; unfold add_resource in H; cbn [fst snd] in H; [|auto].
        revert m H. induction props as [|[p v] props IHp]; intros m H; cbn [fold_left] in H; [auto|].
        destruct (IHp _ H) as [(r' & p' & v' & [E|Hin] & H1 & H2)|H'].
        * inversion E; subst. left. exists (Some u, (p, v) :: props), p', v'. cbn in *. auto.
        * left. exists r', p', v'. cbn. auto.
        * rewrite assoc_type_add in H'. destruct (String.eqb t u) eqn:Etu; [|auto].
          apply String.eqb_eq in Etu. subst. left. exists (Some u, (p, v) :: props), p, v. cbn. auto.
      + intros [(r' & p & v & [<-|Hin] & H1 & H2)|H].
        * right. destruct r as [[u|] props]; cbn in H1; [|discriminate]. inversion H1; subst.
          unfold add_resource. cbn [fst snd]. clear H1.
          revert m. induction props as [|[p' v'] props IHp]; intros m; [destruct H2|].
          cbn [fold_left]. destruct H2 as [E|H2].
          -- inversion E; subst.
             assert (K : forall props m, (exists pm, assoc t m = Some pm) ->
                         exists pm, assoc t (fold_left (fun acc pv => type_add t (fst pv) (snd pv) acc) props m) = Some pm).
             { clear. induction props as [|[a b] props IHq]; intros m H; cbn [fold_left]; [assumption|].
               apply IHq. rewrite assoc_type_add, String.eqb_refl. eauto. }
             apply K. apply A.
          -- apply IHp. exact H2.
        * left. exists r', p, v. auto.
        * right. destruct r as [[u|] props]; unfold add_resource; cbn [fst snd]; [|assumption].
          revert m H. induction props as [|[p' v'] props IHp]; intros m H; cbn [fold_left]; [assumption|].
          apply IHp. rewrite assoc_type_add. destruct (String.eqb t u); eauto. }
  rewrite G. cbn. split; [intros [H|[pm H]]; [exact H|discriminate]|auto].
Qed.

(* the two halves of the property, at the level of the value sets: every value the template gives a property of a type is accepted
   by the clause generated for that type and property; a value the template does not give it is rejected *)
Corollary template_passes_its_own_clauses rs r t p v :
  In r rs -> fst r = Some t -> In (p, v) (snd r) ->
  clause_accepts (clause_of (p, values_of (gen_rules rs) t p)) v = true.
Proof.
  intros Hr Ht Hp. rewrite clause_accepts_members. apply existsb_exists. exists v. split; [|apply String.eqb_refl].
  apply values_exactly_the_template. exists r. auto.
Qed.

Corollary foreign_value_is_rejected rs t p w :
  (forall r, In r rs -> fst r = Some t -> ~ In (p, w) (snd r)) ->
  clause_accepts (clause_of (p, values_of (gen_rules rs) t p)) w = false.
Proof.
  intros H. rewrite clause_accepts_members. apply Bool.not_true_is_false. intros E. apply existsb_exists in E as (x & Hx & Ex).
  apply String.eqb_eq in Ex. subst x. apply values_exactly_the_template in Hx as (r & Hr & Ht & Hp). exact (H r Hr Ht Hp).
Qed.
