"""C15 — variables and parameterised rules are transparent abstractions.

proof   : Props/C15.v (resolution mechanism: literal variables, bare %v queries, memo, unused definitions, shadowing,
          outer scopes, value scopes, parameter bindings)
tie     : SEval vs implementation on generated programs that use variables at all three scope levels, functions and
          parameterised rules (status, error kind, whole record tree)
monitor : on the implementation: program vs abstracted program for every abstraction site - a literal or query right-hand
          side bound to a `let` at block / rule / file level and referenced as %v, a left-hand query bound to a variable
          (except the documented emptiness test), literal variables inlined, unused variables added at every level (also
          ones whose evaluation would be an error), parameterised-rule calls replaced by their body with the arguments
          substituted. Rule and file statuses must be equal.
"""
import json, random, copy, re
from .. import corr, gen, e2e
from ..common import *
from .c04 import blocks_of, statuses


def clause_sites(prog):
    """(block index, line, alt) of every cmp clause"""
    out = []
    for bi, (label, b) in enumerate(blocks_of(prog)):
        if label.endswith(':filter'):
            continue
        for li, line in enumerate(b['cnf']):
            for ci, c in enumerate(line):
                if c[0] == 'cmp':
                    out.append((bi, li, ci, label))
    return out


def fresh(prog, rng):
    return 'av%d' % rng.randrange(10 ** 6)


def is_root_level(label):
    # a clause directly in a rule body is evaluated against the document root
    return re.fullmatch(r'rule:[^/]+', label) is not None


def variants(prog, rng, budget):
    out = []
    sites = clause_sites(prog)
    rng.shuffle(sites)
    for (bi, li, ci, label) in sites[:budget]:
        c = blocks_of(prog)[bi][1]['cnf'][li][ci]
        _, neg, q, op, opnot, rhs, msg = c
        # 1. right-hand side bound to a variable at the clause's own block
        if rhs is not None and rhs[0] in ('lit', 'q'):
            levels = ['block']
            if rhs[0] == 'lit' or is_root_level(label):
                levels += ['file'] if (rhs[0] == 'lit' or is_root_level(label)) else []
                if label.startswith('rule:'):
                    levels.append('rule')
            for level in levels:
                v = copy.deepcopy(prog)
                name = fresh(prog, rng)
                blk = blocks_of(v)[bi][1]
                cc = blk['cnf'][li][ci]
                blk['cnf'][li][ci] = ('cmp', neg, cc[2], op, opnot, ('q', {'some': False, 'parts': [('var', name)]}), msg)
                binding = (name, rhs if rhs[0] == 'lit' else ('q', dict(rhs[1], some=False)))
                if level == 'block':
                    blk['lets'].append(binding)
                elif level == 'file':
                    v['lets'].append(binding)
                else:
                    rn = label.split('/')[0][5:]
                    for r in v['rules']:
                        if r['name'] == rn and not r.get('params'):
                            r['block']['lets'].append(binding)
                            break
                    else:
                        continue
                out.append(('rhs of clause %d.%d of %s bound to %%%s at %s level' % (li, ci, label, name, level), v))
        # 2. left-hand query bound to a variable (not for the emptiness test, the documented exception)
        if op != 'empty' and q['parts'] and q['parts'][0][0] != 'var' and not q.get('some'):
            v = copy.deepcopy(prog)
            name = fresh(prog, rng)
            blk = blocks_of(v)[bi][1]
            blk['lets'].append((name, ('q', dict(copy.deepcopy(q), some=False))))
            blk['cnf'][li][ci] = ('cmp', neg, {'some': False, 'parts': [('var', name)]}, op, opnot, rhs, msg)
            out.append(('lhs of clause %d.%d of %s bound to %%%s' % (li, ci, label, name), v))
    # 3. unused variables at every level
    v = copy.deepcopy(prog)
    junk = [('unused_a', ('lit', ('int', 7))), ('unused_b', ('q', {'some': False, 'parts': [('key', 'no_such_key'), ('key', 'deeper')]})),
            ('unused_c', ('fn', 'parse_int', [('lit', ('str', 'not a number'))])),
            ('unused_d', ('fn', 'join', [('q', {'some': False, 'parts': [('key', 'no_such_key')]}), ('lit', ('str', ','))]))]
    v['lets'] = list(v['lets']) + [rng.choice(junk)]
    for label, b in blocks_of(v):
        if not label.endswith(':filter') and rng.random() < 0.7:
            n, val = rng.choice(junk)
            b['lets'].append((n + '_%d' % rng.randrange(1000), val))
    out.append(('unused variables added at every level', v))
    # 4. literal variables inlined where they are used as a bare right-hand side
    lits = {}
    for n, val in prog['lets']:
        if val[0] == 'lit':
            lits[n] = val
    if lits:
        v = copy.deepcopy(prog)
        shadowed = set()
        for label, b in blocks_of(v):
            for n, _ in b['lets']:
                shadowed.add(n)
        done = 0
        for label, b in blocks_of(v):
            for line in b['cnf']:
                for ci, c in enumerate(line):
                    if c[0] == 'cmp' and c[5] is not None and c[5][0] == 'q' and len(c[5][1]['parts']) == 1 and c[5][1]['parts'][0][0] == 'var':
                        n = c[5][1]['parts'][0][1]
                        if n in lits and n not in shadowed:
                            line[ci] = c[:5] + (lits[n],) + c[6:]
                            done += 1
        if done:
            out.append(('%d references to file-level literal variables inlined' % done, v))
    # 5. parameterised-rule calls replaced by the body with the arguments substituted
    prules = {r['name']: r for r in prog['rules'] if r.get('params')}
    if prules:
        v = copy.deepcopy(prog)
        done = 0
        for label, b in blocks_of(v):
            if label.endswith(':filter'):
                continue
            for line in b['cnf']:
                for ci, c in enumerate(line):
                    if c[0] == 'call' and c[1] in prules:
                        pr = prules[c[1]]
                        body = pr['block']['cnf']
                        if len(body) != 1 or len(body[0]) != 1 or body[0][0][0] != 'cmp':
                            continue
                        bc = body[0][0]
                        env = dict(zip(pr['params'], c[2]))
                        lhs_name = bc[2]['parts'][0][1]
                        a0 = env.get(lhs_name)
                        if a0 is None or a0[0] != 'q':
                            continue
                        rhs = bc[5]
                        if rhs is not None and rhs[0] == 'q' and rhs[1]['parts'][0][0] == 'var' and rhs[1]['parts'][0][1] in env:
                            rhs = env[rhs[1]['parts'][0][1]]
                            if rhs[0] == 'q':
                                rhs = ('q', dict(rhs[1], some=False))
                        line[ci] = ('cmp', bc[1], dict(copy.deepcopy(a0[1]), some=False), bc[3], bc[4], rhs, None)
                        done += 1
        if done:
            out.append(('%d parameterised-rule calls replaced by the body with arguments substituted' % done, v))
    return out


def run_diff(ctx, nprog, budget):
    rng = random.Random(ctx.seed * 223 + 15)
    feats = {'cycles': 0.0, 'captures': False, 'params': True}
    base, pairs, owner = [], [], []
    for k in range(nprog):
        doc, prog = gen.gen_pair(rng, feats)
        vs = variants(prog, rng, budget)
        base.append({'prog': prog, 'doc': doc, 'variants': vs})
        pairs.append((gen.render_file(prog), json.dumps(doc)))
        owner.append((k, None))
        for vi, (desc, v) in enumerate(vs):
            pairs.append((gen.render_file(v), json.dumps(doc)))
            owner.append((k, vi))
    outs, raw = e2e.pair_outcomes(pairs, ctx.wd, 'c15pairs', loader='cli')
    res = {}
    for key, o, r in zip(owner, outs, raw):
        res[key] = statuses(o, r)
    compared, kinds, skipped = 0, {}, 0
    for k, b in enumerate(base):
        o0, s0 = res[(k, None)]
        for vi, (desc, v) in enumerate(b['variants']):
            o1, s1 = res[(k, vi)]
            kind = re.sub(r'\d+', 'N', desc.split(' of ')[0])[:40] + (' @' + desc.rsplit(' at ', 1)[1] if ' at ' in desc else '')
            info = {'class': 'abstraction', 'transformation': desc, 'rules': gen.render_file(b['prog']), 'variant': gen.render_file(v), 'data': json.dumps(b['doc'])}
            if o0 in ('PANIC', 'ABORT') or o1 in ('PANIC', 'ABORT'):
                continue
            if o1 == 'PARSE_ERR' and o0 != 'PARSE_ERR':
                skipped += 1      # the transformation produced a text the grammar rejects (e.g. a literal form not allowed in a let)
                continue
            if s0 is None and s1 is None:
                skipped += 1
                continue
            if s0 is None or s1 is None:
                if 'unused' in desc:
                    ctx.failing('%s: outcome %s becomes %s' % (desc, o0, o1), info, found=True)
                else:
                    skipped += 1   # an abstraction may move an evaluation error (the variable is evaluated once, eagerly for parameters)
                continue
            compared += 1
            kinds[kind] = kinds.get(kind, 0) + 1
            if o0 != o1:
                ctx.failing('%s: file status %s becomes %s' % (desc, o0, o1), info, found=True)
                continue
            for name, sts in s0.items():
                if name in ('chk',):
                    continue
                got = s1.get(name)
                if got is None or sorted(got) != sorted(sts):
                    ctx.failing('%s: rule %s has status %s, before %s' % (desc, name, got, sts), info, found=True)
                    break
    ctx.coverage['programs'] = nprog
    ctx.coverage['variants_compared'] = compared
    ctx.coverage['variants_skipped'] = skipped
    ctx.coverage['transformation_kinds'] = kinds
    ctx.coverage['evaluations'] += len(pairs)
    b = next((x for x in base if x['variants']), base[0])
    if b['variants']:
        ctx.sample({'rules': gen.render_file(b['prog']), 'transformation': b['variants'][0][0], 'variant': gen.render_file(b['variants'][0][1]), 'data': json.dumps(b['doc'])})
    return compared, [(gen.render_file(b['prog']), json.dumps(b['doc'])) for b in base]


W = 'rule within(limit) {\n  %limit <= 50\n}\n'
SHADOW = [
    # (label, program with the abstraction, the same program with the names resolved by hand)
    ('parameter vs file-level variable of the same name', 'let limit = big\n' + W + 'rule r {\n  within(small)\n}\n', 'rule r {\n  small <= 50\n}\n'),
    ('parameter vs rule-level variable of the same name around the call', W + 'rule r {\n  let limit = big\n  within(small)\n}\n', 'rule r {\n  small <= 50\n}\n'),
    ('parameter vs block-level variable of the same name around the call', W + 'rule r {\n  o {\n    let limit = b\n    within(a)\n  }\n}\n', 'rule r {\n  o {\n    a <= 50\n  }\n}\n'),
    ('nested calls with the same parameter name', 'rule g(p) {\n  %p <= 50\n}\nrule f(p) {\n  g(small)\n  %p >= 100\n}\nrule r {\n  f(big)\n}\n', 'rule r {\n  small <= 50\n  big >= 100\n}\n'),
    ('nested calls, inner parameter bound to the outer one', 'rule g(q) {\n  %q <= 50\n}\nrule f(p, q) {\n  g(%p)\n  %q >= 100\n}\nrule r {\n  f(small, big)\n}\n', 'rule r {\n  small <= 50\n  big >= 100\n}\n'),
    ('two parameters, one named like a file-level variable', 'let q = small\nrule f(p, q) {\n  %p <= 50\n  %q >= 100\n}\nrule r {\n  f(small, big)\n}\n', 'rule r {\n  small <= 50\n  big >= 100\n}\n'),
    ('the parameter is used after the callee defines a variable', 'let x = big\nrule f(x) {\n  let y = %x\n  %y <= 50\n}\nrule r {\n  f(small)\n}\n', 'rule r {\n  small <= 50\n}\n'),
    ('rule-level variable shadows a file-level one', 'let v = big\nrule r {\n  let v = small\n  %v <= 50\n}\nrule s {\n  %v >= 100\n}\n', 'rule r {\n  small <= 50\n}\nrule s {\n  big >= 100\n}\n'),
    ('block-level variable shadows a rule-level one, the outer one is back after the block', 'rule r {\n  let v = big\n  o {\n    let v = a\n    %v <= 50\n  }\n  %v >= 100\n}\n', 'rule r {\n  o {\n    a <= 50\n  }\n  big >= 100\n}\n'),
    ('when-block variable shadows a file-level one', 'let v = big\nrule r {\n  when small exists {\n    let v = small\n    %v <= 50\n  }\n  %v >= 100\n}\n', 'rule r {\n  when small exists {\n    small <= 50\n  }\n  big >= 100\n}\n'),
    ('the condition of a when block is written outside the block: a variable the block defines does not reach it (file level)', 'let v = big\nrule r {\n  when %v >= 100 {\n    let v = small\n    %v <= 50\n  }\n}\n', 'rule r {\n  when big >= 100 {\n    small <= 50\n  }\n}\n'),
    ('the condition of a when block is written outside the block: a variable the block defines does not reach it (rule level)', 'rule r {\n  let v = big\n  when %v >= 100 {\n    let v = small\n    %v <= 50\n  }\n  %v >= 100\n}\n', 'rule r {\n  when big >= 100 {\n    small <= 50\n  }\n  big >= 100\n}\n'),
    ('the condition of a when block inside a value block sees the value block\'s variable, not the when block\'s', 'rule r {\n  o {\n    let v = b\n    when %v >= 100 {\n      let v = a\n      %v <= 50\n    }\n  }\n}\n', 'rule r {\n  o {\n    when b >= 100 {\n      a <= 50\n    }\n  }\n}\n'),
    ('a variable used as a key in the middle of a query, followed by [*]: the list under that key is iterated', 'let which = "a"\nrule r {\n  g.%which[*] <= 50\n}\n', 'rule r {\n  g.a[*] <= 50\n}\n'),
    ('a variable used as a key in the middle of a query, followed by [*] and a key', 'rule r {\n  let which = "b"\n  h.%which[*].p >= 100\n}\n', 'rule r {\n  h.b[*].p >= 100\n}\n'),
    ('the tail of a variable-headed query sees the variables of the block it is written in (filter)', 'let hs = h.*\nlet lim = 5000\nrule r {\n  let lim = 50\n  %hs[*][ p <= %lim ] !empty\n  %hs[*][ p >= %lim ] !empty\n}\n',
     'rule r {\n  h.*[*][ p <= 50 ] !empty\n  h.*[*][ p >= 50 ] !empty\n}\n'),
    ('the tail of a variable-headed query sees the variables of the block it is written in (interpolated key)', 'let top = h\nrule r {\n  let which = "b"\n  %top.%which[*].p >= 100\n}\n', 'rule r {\n  h.b[*].p >= 100\n}\n'),
    ('the tail of a variable-headed query sees the variables of a when block', 'let top = h\nlet which = "a"\nrule r {\n  when small exists {\n    let which = "b"\n    %top.%which[*].p >= 100\n  }\n}\n',
     'rule r {\n  when small exists {\n    h.b[*].p >= 100\n  }\n}\n'),
    ('a file-level variable is a query on the root also inside a block', 'let v = small\nrule r {\n  o {\n    %v <= 50\n    a <= 50\n  }\n}\n', 'rule r {\n  small <= 50\n  o {\n    a <= 50\n  }\n}\n'),
    ('a rule-level variable keeps its value inside a filter', 'rule r {\n  let v = small\n  l[ this <= %v ] !empty\n}\n', 'rule r {\n  l[ this <= 10 ] !empty\n}\n'),
    ('a call is its body written at the call site: other names are looked up from there', 'let v = small\nrule f(p) {\n  %v <= 50\n  %p >= 100\n}\nrule r {\n  let v = big\n  f(big)\n}\n', 'rule r {\n  let v = big\n  %v <= 50\n  big >= 100\n}\n'),
]
# the recorded deviation next to them: an index or a filter directly after an interpolated key is applied to the VALUES OF THE VARIABLE
SHADOW_KNOWN = [
    ('a variable used as a key, followed by an index', 'let which = "a"\nrule r {\n  g.%which[1] <= 50\n}\n', 'rule r {\n  g.a[1] <= 50\n}\n', 'index-after-interpolated-key'),
    ('a variable used as a key, followed by a filter', 'let which = "a"\nrule r {\n  h.%which[ p <= 50 ] !empty\n}\n', 'rule r {\n  h.a[ p <= 50 ] !empty\n}\n', 'index-after-interpolated-key'),
]
SHADOW_DOCS = [{'small': s_, 'big': b_, 'o': {'a': a_, 'b': bb_}, 'l': [5, 10, 500], 'g': {'a': [s_, a_], 'b': [b_, bb_]}, 'h': {'a': [{'p': s_}, {'p': a_}], 'b': [{'p': b_}, {'p': bb_}]}} for (s_, b_, a_, bb_) in
               [(10, 100, 10, 100), (100, 10, 100, 10), (10, 10, 10, 10), (100, 100, 100, 100), (10, 100, 100, 10), (100, 10, 10, 100)]]


def run_shadowing(ctx):
    """directed: every shadowing relation the statement names (block over rule over file, parameter over everything) written out
    by hand with its resolved form, on documents that make each side of every comparison pass and fail"""
    pairs, meta = [], []
    classes = {}
    for lab, a, b, *cls in [tuple(x) for x in SHADOW] + [tuple(x) for x in SHADOW_KNOWN]:
        if cls:
            classes[lab] = cls[0]
        for d in SHADOW_DOCS:
            if 'l[ this <= 10 ]' in b and d['small'] != 10:
                continue
            pairs.append((a, json.dumps(d))); meta.append((lab, 'abs', a, b, d))
            pairs.append((b, json.dumps(d))); meta.append((lab, 'res', a, b, d))
    outs, raw = e2e.pair_outcomes(pairs, ctx.wd, 'c15shadow', loader='cli')
    n = 0
    for i in range(0, len(pairs), 2):
        lab, _, a, b, d = meta[i]
        oa, sa = statuses(outs[i], raw[i])
        ob, sb = statuses(outs[i + 1], raw[i + 1])
        n += 1
        info = {'class': classes.get(lab, 'abstraction'), 'kind': lab, 'rules': a, 'variant': b, 'data': json.dumps(d)}
        if ob not in ('PASS', 'FAIL', 'SKIP'):
            raise ToolingError('shadowing scenario does not evaluate: %s %s' % (lab, ob))
        if oa != ob:
            ctx.failing('%s: file status %s, with the names resolved by hand %s' % (lab, oa, ob), info, found=True)
            continue
        for name in ('r', 's'):
            if name in sb and sorted(sa.get(name) or []) != sorted(sb[name]):
                ctx.failing('%s: rule %s has status %s, with the names resolved by hand %s' % (lab, name, sa.get(name), sb[name]), info, found=True)
                break
    out, errs = corr.run([{'rules': a, 'data': d} for (a, d) in pairs[::2]], ctx.wd, 'c15shcorr', loader='cli')
    if errs:
        raise ToolingError('model evaluation failed: %r' % (errs[:1],))
    for o, (a, d) in zip(out, pairs[::2]):
        if o['kind'] == 'compared' and re.search(r'VDis|VModelOOF|NoModelOutput', o['verdict']):
            ctx.failing('model and implementation disagree on a shadowing scenario (%s)' % o['verdict'],
                        {'class': 'eval-correspondence', 'verdict': o['verdict'], 'rules': a, 'data': d}, found=False)
    ctx.coverage['shadowing_scenarios'] = n
    ctx.coverage['evaluations'] += len(pairs) + len(pairs) // 2
    return n


EMPT_DOCS = [
    {"l": [1, 2], "e": [], "m": {"k": 1}, "em": {}, "s": "ab", "es": "", "lm": [{"tags": [], "k": 1}, {"tags": [1], "k": []}, {"k": ""}], "ee": [[], {}, ""]},
    {"l": [], "e": [[]], "m": {}, "em": {"k": {}}, "s": "", "es": "x", "lm": [], "ee": []},
]
EMPT_QUERIES = ['l', 'e', 'm', 'em', 's', 'es', 'lm[*].tags', 'lm[*].k', 'zz', 'ee', 'lm']
EMPT_SUFFIXES = ['[*]', '.*', '[0]', '[*].k', '.k', '[ k exists ]', '[*][ k exists ]']
EMPT_OPS = ['empty', '!empty', 'exists', '!exists', 'is_list', '== []']


def consistent_suffix(suf):
    """the in-place spelling of what the implementation does with `%v<suf>`: a `[*]` directly after a variable (written, or inserted
    by the parser in front of a filter) ranges over the VALUES of the variable, not over the elements of a list / struct value"""
    if suf.startswith('[*]'):
        rest = suf[3:]
        return None if rest.startswith('[ ') else rest
    if suf.startswith('[ '):
        return None     # a filter on each value: on the elements of a list value, on a struct value itself - no single in-place spelling
    return suf


def run_emptiness(ctx):
    """directed: a query bound to a variable and continued (`%v[*]`, `%v.*`, `%v[0]`, `%v.k`, filters) under the unary tests that look at
    emptiness and existence, against the same query written in place, at file and at rule level. Only the bare `%v empty` is the
    documented exception. Where the strict reading (`Q<suffix>` in place) and the implementation's reading of a `[*]` after a variable
    differ, both are compared: the second must hold, a difference with the first is the recorded finding."""
    combos = [(suf, op, some) for suf in EMPT_SUFFIXES for op in EMPT_OPS for some in ('', 'some ')]
    progs, meta = [], []
    for d in EMPT_DOCS:
        for q in EMPT_QUERIES:
            for level in ('file', 'rule'):
                strict = ''.join('rule r%d {\n  %s%s%s %s\n}\n' % (i, some, q, suf, op) for i, (suf, op, some) in enumerate(combos))
                cons = ''.join('rule r%d {\n  %s%s%s %s\n}\n' % (i, some, q, consistent_suffix(suf) if consistent_suffix(suf) is not None else suf, op) for i, (suf, op, some) in enumerate(combos))
                if level == 'file':
                    viavar = 'let v = %s\n' % q + ''.join('rule r%d {\n  %s%%v%s %s\n}\n' % (i, some, suf, op) for i, (suf, op, some) in enumerate(combos))
                else:
                    viavar = ''.join('rule r%d {\n  let v = %s\n  %s%%v%s %s\n}\n' % (i, q, some, suf, op) for i, (suf, op, some) in enumerate(combos))
                for text in (viavar, strict, cons):
                    progs.append((text, json.dumps(d)))
                meta.append((q, level, viavar, strict, cons, d))
    outs, raw = e2e.pair_outcomes(progs, ctx.wd, 'c15empt', loader='cli')
    n = 0
    for j, (q, level, a, b, c, d) in enumerate(meta):
        (oa, sa), (ob, sb), (oc, sc) = (statuses(outs[3 * j + t], raw[3 * j + t]) for t in range(3))
        ok = ('PASS', 'FAIL', 'SKIP')
        if (oa in ok) != (oc in ok):
            ctx.failing('%s bound to a %s-level variable: %s, written in place: %s' % (q, level, oa, oc),
                        {'class': 'abstraction', 'kind': 'continued variable under an emptiness test', 'rules': a, 'variant': c, 'data': json.dumps(d)}, found=True)
            continue
        if (oa in ok) != (ob in ok):
            ctx.failing('%s bound to a %s-level variable: %s, written in place with [*] / filters kept: %s' % (q, level, oa, ob),
                        {'class': 'star-after-variable', 'kind': 'a [*] (or filter) directly after a variable ranges over the values of the variable',
                         'rules': a, 'variant': b, 'data': json.dumps(d)}, found=True)
        if oa not in ok:
            continue      # an evaluation error in one rule hides the others
        if ob not in ok:
            sb = sa       # nothing to compare with on the strict side
        for k, (suf, op, some) in enumerate(combos):
            name = 'r%d' % k
            n += 1
            va, vb, vc = sorted(sa.get(name) or []), sorted(sb.get(name) or []), sorted(sc.get(name) or [])
            if consistent_suffix(suf) is not None and va != vc:
                ctx.failing('`%s%%v%s %s` with v = %s (%s level) is %s, `%s%s%s %s` in place is %s' % (some, suf, op, q, level, va, some, q, consistent_suffix(suf), op, vc),
                            {'class': 'abstraction', 'kind': 'continued variable under an emptiness test', 'rules': a, 'variant': c, 'data': json.dumps(d), 'rule': name}, found=True)
            elif va != vb:
                ctx.failing('`%s%%v%s %s` with v = %s (%s level) is %s, `%s%s%s %s` in place is %s' % (some, suf, op, q, level, va, some, q, suf, op, vb),
                            {'class': 'star-after-variable', 'kind': 'a [*] (or filter) directly after a variable ranges over the values of the variable',
                             'rules': a, 'variant': b, 'data': json.dumps(d), 'rule': name}, found=True)
    ctx.coverage['emptiness_scenarios'] = n
    ctx.coverage['evaluations'] += len(progs)
    return n


def run_variable_filters(ctx):
    """directed: a filter - plain, and with a key capture `[ k | clauses ]` - written directly after a variable whose values are structs,
    at file, rule and block level, against the same filter written in place after the query, under comparisons, emptiness tests, blocks
    and `some`. (For struct values the two readings of the inserted `[*]` coincide: recorded finding C15-star-after-variable is about
    list values.)"""
    docs = [{'Resources': {'a': {'Type': 'T', 'Properties': {'Size': 50}}, 'b': {'Type': 'U', 'Properties': {'Size': 5}}, 'c': {'Type': 'T', 'Properties': {'Size': 5}}}},
            {'Resources': {'a': {'Type': 'T', 'Properties': {'Size': 50}}, 'b': {'Type': 'U', 'Properties': {'Size': 5}}}},
            {'Resources': {'b': {'Type': 'U', 'Properties': {'Size': 5}}}}, {'Resources': {}}]
    filters = ["[ Type == 'T' ]", "[ k | Type == 'T' ]", "[ name | Type == 'T' or Type == 'U' ]", "[ k | Properties.Size >= 10 ]", "[ k | Type == 'T' ][ Properties.Size >= 10 ]"]
    tails = ['.Properties.Size >= 10', ' !empty', ' empty', '.Properties.Size exists', ' {\n    Properties.Size >= 10\n  }']
    progs, meta = [], []
    for d in docs:
        for flt in filters:
            for tail in tails:
                for some in ('', 'some '):
                    if some and tail.startswith(' {'):
                        continue
                    inplace = 'rule r {\n  %sResources.*%s%s\n}\n' % (some, flt, tail)
                    forms = {'file': 'let res = Resources.*\nrule r {\n  %s%%res%s%s\n}\n' % (some, flt, tail),
                             'rule': 'rule r {\n  let res = Resources.*\n  %s%%res%s%s\n}\n' % (some, flt, tail),
                             'block': 'rule r {\n  Resources {\n    let res = this.*\n    %s%%res%s%s\n  }\n}\n' % (some, flt, tail.replace('\n  ', '\n    ')),
                             'used-before': 'let res = Resources.*\nrule first {\n  %%res exists\n}\nrule r {\n  %s%%res%s%s\n}\n' % (some, flt, tail)}
                    progs.append((inplace, json.dumps(d)))
                    for lv, text in forms.items():
                        progs.append((text, json.dumps(d)))
                    meta.append((inplace, forms, d))
    outs, raw = e2e.pair_outcomes(progs, ctx.wd, 'c15vflt', loader='cli')
    n, k = 0, 0
    for inplace, forms, d in meta:
        o0, s0 = statuses(outs[k], raw[k]); k += 1
        for lv, text in forms.items():
            o1, s1 = statuses(outs[k], raw[k]); k += 1
            n += 1
            v0, v1 = (o0, sorted((s0 or {}).get('r') or [])), (o1, sorted((s1 or {}).get('r') or []))
            if v0[1] != v1[1] or ((o0 in ('PASS', 'FAIL', 'SKIP')) != (o1 in ('PASS', 'FAIL', 'SKIP'))):
                ctx.failing('a filter after a %s-level variable bound to Resources.*: rule r is %s, with the filter written in place %s' % (lv, v1, v0),
                            {'class': 'abstraction', 'kind': 'filter directly after a variable with struct values', 'rules': text, 'variant': inplace, 'data': json.dumps(d)}, found=True)
    ctx.coverage['variable_filter_scenarios'] = n
    ctx.coverage['evaluations'] += len(progs)
    return n


CALL_BODIES = {
    'indep': '%p exists or %p !exists\n  Settings.Mode == "strict"',
    'guarded': 'when %p == %q {\n    Settings.Level >= 2\n  }',
    'size': '%p.Size >= 10',
    'empty': '%p empty',
    'not_empty': '%p !empty\n  %q exists',
    'some_tag': 'some %p.Tags[*] == %q',
    'block': '%p {\n    Size exists\n  }',
    'only_q': '%q == "strict"',
}
CALL_ARGS = ["Resources.*[ Type == 'Custom::Thing' ]", 'Resources.*', "Resources.*[ Type == 'AWS::S3::Bucket' ].Properties", 'Settings.Mode', 'Missing.path', '"strict"', 'Settings', 'Resources.*.Properties.Tags[*]']
CALL_DOCS = [
    {'Settings': {'Mode': 'strict', 'Level': 3}, 'Resources': {'b': {'Type': 'AWS::S3::Bucket', 'Properties': {'Size': 50, 'Tags': ['strict', 'x']}}}},
    {'Settings': {'Mode': 'lax', 'Level': 1}, 'Resources': {'b': {'Type': 'AWS::S3::Bucket', 'Properties': {'Size': 5, 'Tags': []}}, 'c': {'Type': 'Custom::Thing', 'Size': 20}}},
    {'Settings': {'Mode': 'lax', 'Level': 1}, 'Resources': {}},
    {'Settings': {'Mode': 'strict'}, 'Resources': {'c': {'Type': 'Custom::Thing', 'Properties': {'Size': 1}}}},
]


def run_calls(ctx):
    """directed: a call `f(A, B)` against the body of f with the parameters bound by rule-level `let`s to the same arguments
    (the statement: a call is its body with the parameters replaced by the arguments), for bodies that ignore a parameter, are
    guarded by a condition that does not hold, test emptiness, iterate - and arguments that select nothing, one value, many,
    an unresolved path, a literal. Also as an alternative of an or-line and under a when condition."""
    import itertools
    pairs, meta = [], []
    combos = list(itertools.product(sorted(CALL_BODIES), range(len(CALL_ARGS)), range(len(CALL_ARGS))))
    rng = random.Random(ctx.seed * 977 + 15)
    if ctx.tier != 'thorough':
        must = [c for c in combos if c[1] in (0, 4) or c[2] in (0, 5)]
        combos = [c for i, c in enumerate(must) if i % 2 == ctx.seed % 2] + rng.sample(combos, 40)
    for body, ai, bi in combos:
        a, b = CALL_ARGS[ai], CALL_ARGS[bi]
        for site, call_t, let_t in (
                ('line', 'rule f(p, q) {\n  %s\n}\nrule r {\n  f(%s, %s)\n}\n', 'rule r {\n  let p = %s\n  let q = %s\n  %s\n}\n'),
                ('or', 'rule f(p, q) {\n  %s\n}\nrule r {\n  Settings.Level == 0 or\n  f(%s, %s)\n}\n', None),
                # the i-th argument goes to the i-th DECLARED name, whatever the names are: declared (q, p), called (b, a)
                ('declared-order', 'rule f(q, p) {\n  %s\n}\nrule r {\n  f(%s, %s)\n}\n', 'rule r {\n  let p = %s\n  let q = %s\n  %s\n}\n')):
            if site == 'declared-order':
                if a == b:
                    continue
                call = call_t % (CALL_BODIES[body], b, a)
            else:
                call = call_t % (CALL_BODIES[body], a, b)
            if let_t is not None:
                ref = let_t % (a, b, CALL_BODIES[body])
            else:
                # the same call on a line of its own decides the alternative: PASS iff the call passes (Level == 0 never holds)
                ref = 'rule f(p, q) {\n  %s\n}\nrule r {\n  f(%s, %s)\n}\n' % (CALL_BODIES[body], a, b)
            for d in CALL_DOCS:
                pairs.append((call, json.dumps(d))); meta.append((body, a, b, site, 'call'))
                pairs.append((ref, json.dumps(d))); meta.append((body, a, b, site, 'ref'))
    outs, raw = e2e.pair_outcomes(pairs, ctx.wd, 'c15calls', loader='cli')
    n = 0
    for i in range(0, len(pairs), 2):
        body, a, b, site, _ = meta[i]
        oa, sa = statuses(outs[i], raw[i])
        ob, sb = statuses(outs[i + 1], raw[i + 1])
        if oa in ('PANIC', 'ABORT') or ob in ('PANIC', 'ABORT'):
            continue
        n += 1
        info = {'class': 'abstraction', 'kind': 'call vs body (%s, %s)' % (body, site), 'rules': pairs[i][0], 'variant': pairs[i + 1][0], 'data': pairs[i][1]}
        ra = (sa or {}).get('r')
        rb = (sb or {}).get('r')
        if site == 'or' and ra is not None and rb is not None:
            # FAIL and SKIP of the call both leave the or-line without a PASS: compare PASS-ness only
            ra = ['PASS' if x == 'PASS' else 'not-PASS' for x in ra]; rb = ['PASS' if x == 'PASS' else 'not-PASS' for x in rb]
            if oa not in ('PASS', 'FAIL', 'SKIP') or ob not in ('PASS', 'FAIL', 'SKIP'):
                continue
        elif oa != ob:
            ctx.failing('call f(%s, %s) with body `%s`: file outcome %s, the body with its parameters bound by let gives %s' % (a, b, body, oa, ob), info, found=True)
            continue
        if ra != rb:
            ctx.failing('call f(%s, %s) with body `%s` (%s): rule r is %s, the body with its parameters bound by let gives %s' % (a, b, body, site, ra, rb), info, found=True)
    ctx.coverage['call_scenarios'] = n
    ctx.coverage['evaluations'] += len(pairs)
    return n


def run(ctx):
    ctx.build()
    pr = ctx.proofs('C15')
    thorough = ctx.tier == 'thorough'
    n, originals = run_diff(ctx, 500 if thorough else 70, 6 if thorough else 4)
    # SEval vs implementation (status, error kind, record tree) AND the memo-free evaluator PEval vs the implementation's status:
    # C15_verdict_is_memo_free says they coincide on capture-free programs
    out, errs = corr.run([{'rules': r, 'data': d} for r, d in originals[:300]], ctx.wd, 'c15corr', loader='cli',
                         expr='({check}, check_peval 120 rt{i} ct{i} p{i} d{i} i{i})',
                         header='From GV.Model Require Import Check CheckP.\n')
    if errs:
        raise ToolingError('model evaluation failed: %r' % (errs[:1],))
    stats, pstats = {}, {}
    for o, (r, d) in zip(out, originals):
        if o['kind'] != 'compared':
            stats[o['kind']] = stats.get(o['kind'], 0) + 1
            continue
        m = re.match(r'\(?\s*(\w+)\s*,\s*(\w+)\s*\)?', o['verdict'])
        v, pv_ = (m.group(1), m.group(2)) if m else (o['verdict'], 'NoModelOutput')
        stats[v] = stats.get(v, 0) + 1
        pstats[pv_] = pstats.get(pv_, 0) + 1
        if re.search(r'VDis|VModelOOF|NoModelOutput', v):
            ctx.failing('model and implementation disagree on a generated program (%s)' % v,
                        {'class': 'eval-correspondence', 'verdict': v, 'rules': r, 'data': d}, found=False)
        if pv_ in ('PDisStatus', 'PNotDone', 'POutOfFuel', 'NoModelOutput'):
            ctx.failing('the memo-free evaluator and the implementation disagree on a capture-free program (%s)' % pv_,
                        {'class': 'memo-free-correspondence', 'verdict': pv_, 'rules': r, 'data': d}, found=False)
    ctx.coverage['correspondence_verdicts'] = stats
    ctx.coverage['memo_free_verdicts'] = pstats
    n += run_shadowing(ctx)
    n += run_calls(ctx)
    n += run_emptiness(ctx)
    n += run_variable_filters(ctx)
    ctx.coverage['distinct_nontrivial'] = n
    ctx.coverage['rule'] = ('variant = generated program with one abstraction step (rhs literal/query -> %v at block, rule or file level; lhs query -> %v; unused variables at every '
                            'level incl. erroring ones; literal variables inlined; parameterised calls replaced by their body) x its document; counted when both evaluate')
    ctx.coverage['trusted_base'] = [
        'Coq 8.16.1 kernel (coqc), vm_compute for case evaluation; no axioms',
        'hand-written model SEval.v (modelled, not verified); correspondence hook eval_dump + tools/gv glue',
    ]
    ctx.assumptions = ['the emptiness test on a bare variable is the documented exception and is not abstracted',
                       'an abstraction that moves where an evaluation error is raised (eager parameter evaluation, a variable evaluated once) is not counted']
    if not pr['ok']:
        ctx.failing('proof obligations of Props/C15.v no longer check: %s' % (pr.get('problems') or pr.get('log', '')[-500:]),
                    {'class': 'proof', 'theorems': pr['theorems']}, found=False)


def replay(ctx, path):
    j = json.load(open(path))
    for v in j.get('violations', []):
        print(json.dumps(v, indent=1)[:3000])
    return 0
