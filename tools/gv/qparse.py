"""Correspondence of Model/QueryParse.v (the query grammar) with rules/parser.rs `access`: the hook `paccess` runs `access` on a text
and reports the query and the byte offset where it stopped, or the class of the nom error; the model parses the same bytes
inside Coq (vm_compute) and `access_obs` compares query, match_all, offset and error class.  Plus: spellings of one abstract
query (the statement of C14 on queries) must give one AST in the implementation."""
import json, random, re
from . import coqterm as ct
from . import impl, model
from .common import *

HEADER = 'From Coq Require Import String ZArith NArith List.\nFrom GV.Model Require Import Ast.\nFrom GV.Model Require Import QueryParse.\nImport ListNotations.\n'

LAYOUTS = ['', '', '', ' ', '  ', '\t', '\n', '\r\n', ' # c\n', '#\n', ' #x # y\n  ', '\n\n\t ']
NAMES = ['a', 'b', 'Resources', 'Properties', 'x1', 'a_b', 'Zz9', 'this', 'thisx', 'some', 'keys', 'when', 'or', 'in', 'not', 'null', 'true', 'A', 'é', 'aé', 'a-b', '_a', '9a', 'a__', 'THIS', 'SOME', 'somex']
KEYSTR = ['a', 'a b', '', 'x.y', "it's", 'q"r', 'é', '*', '0', 'a\\', '[', ']', '%v', 'this']
INTS = ['0', '1', '7', '007', '42', '-1', '-0', '-12', '2147483647', '2147483648', '-2147483648', '-2147483649', '4294967296', '4294967297', '9223372036854775807',
        '9223372036854775808', '-9223372036854775807', '-9223372036854775808', '99999999999999999999']
HEADS = ['a', 'Resources', 'this', 'THIS', 'This', '%v', '%var_1', '%', '%9', "'a b'", '"q"', "'open", '', ' a', 'a1', 'thisx', 'this_', 'é', '%é', '%vé', 'x-y', '*', '[0]', '.a', '1', '-1', 'some', 'somea']
TAILS = ['', ' ', ' == 1', ' exists', '\n', ' # c', '.', '[', ']', ' .a', '\n.a', ' [0]', '{', ' {', ' or', 'é', '-', '_', '1', '%', '.é', '.1e', '<<m>>', ' !empty', '!empty', ' in [1]']


def quote(s, rng):
    q = rng.choice('\'"')
    return q + s.replace(q, '\\' + q) + q


def gen_part_text(rng):
    lay = lambda: rng.choice(LAYOUTS)
    k = rng.random()
    if k < 0.18:
        return lay() + '.' + rng.choice(NAMES)
    if k < 0.28:
        return lay() + '.' + quote(rng.choice(KEYSTR), rng)
    if k < 0.38:
        return lay() + '.' + rng.choice(INTS)
    if k < 0.44:
        return lay() + '.*'
    if k < 0.5:
        return lay() + '.%' + rng.choice(NAMES)
    if k < 0.6:
        return lay() + '[' + lay() + '*' + lay() + ']'
    if k < 0.7:
        return lay() + '[' + rng.choice(['', '', ' ', '\n']) + rng.choice(INTS) + lay() + ']'
    if k < 0.78:
        return lay() + '[' + rng.choice(['', '', ' ']) + quote(rng.choice(KEYSTR), rng) + lay() + ']'
    if k < 0.86:
        return lay() + '[' + lay() + rng.choice(NAMES) + lay() + ']'
    if k < 0.9:
        return lay() + '[' + lay() + rng.choice(['keys == "a"', 'keys in ["a"]', 'KEYS == /x/', 'n | keys == "a"', 'a == 1', 'a exists', 'x | a == 1', 'this == 1', 'a == 1 or b == 2', '']) + lay() + ']'
    return lay() + rng.choice(['.', '..a', '[', ']', '[]', '[ ]', '.[0]', '[0', '[0 x]', '[*', '[*x]', "['a'", "['a' x]", '[a b]', '.-', '.+1', '.1.2', '[1.5]', '[%v]', '.%', '.**', "['a']]", '[[0]]'])


def gen_query_text(rng):
    t = ''
    if rng.random() < 0.2:
        t += rng.choice(LAYOUTS) + rng.choice(['some', 'SOME', 'Some', 'some', 'SOME']) + rng.choice([' ', '  ', '\n', ' # c\n', '', '\t'])
    t += rng.choice(['', '', '', ' ']) + rng.choice(HEADS)
    for _ in range(rng.choice([0, 1, 1, 2, 3, 4])):
        t += gen_part_text(rng)
    return t + rng.choice(TAILS)


def mutate(text, rng):
    if not text:
        return text
    b = list(text)
    k = rng.randrange(len(b))
    op = rng.random()
    alphabet = list('[]{}.*%"\'\\# \n-1ax_é')
    if op < 0.4:
        del b[k]
    elif op < 0.7:
        b.insert(k, rng.choice(alphabet))
    elif op < 0.85:
        b[k] = rng.choice(alphabet)
    else:
        b = b[:k]
    return ''.join(b)


def corpus(seed, n):
    rng = random.Random(seed * 6007 + 14)
    texts = []
    for h in HEADS:
        texts += [h, h + ' ', h + '.a', h + '[0]', h + '[*]', h + '.*', 'some ' + h, 'some ' + h + '.a', h + ' == 1', h + '\n.a']
    for nm in NAMES:
        texts += ['a.' + nm, 'a[' + nm + ']', 'a[ ' + nm + ' ]', 'a[' + nm + ' ]', 'a[ ' + nm + ']', '%' + nm, '%' + nm + '.x', 'a.%' + nm, nm, nm + '.b', 'a.' + nm + '.b', 'a[' + nm + '].b', 'a[' + nm + '|x == 1]']
    for i in INTS:
        texts += ['a.' + i, 'a[' + i + ']', 'a[ ' + i + ']', 'a[' + i + ' ]', 'a[' + i + '\n]', 'a[' + i + '#c\n]', 'a.' + i + '.b', 'a[' + i + '].b', 'a.' + i + 'x', 'a[' + i + 'x]', 'a[' + i, '%v.' + i, '%v[' + i + ']', 'this.' + i]
    for k in KEYSTR:
        for q in '\'"':
            qs = q + k.replace(q, '\\' + q) + q
            texts += ['a.' + qs, 'a[' + qs + ']', 'a[ ' + qs + ' ]', 'a[' + qs + ' ]', qs, qs + '.b', '%v.' + qs, 'a.' + qs + '[0]', 'a[' + qs, 'a.' + qs[:-1]]
    texts += ['%v', '%v.a', '%v[*]', '%v[*].a', '%v[0]', '%v[ * ]', '%v.*', '%v[x]', '%v[ x ]', "%v['k']", '%v .a', '%v\n[*]', '%v[ keys == "a" ]', '%v[ a == 1 ]',
              'a . b', 'a. b', 'a .b', 'a\n  .b\n  .c', 'a # c\n.b', 'a.b # c\n[0]', 'a [0]', 'a[ 0 ]', 'a[0 ]', 'a[ 0]', 'a[*]', 'a[ *]', 'a[* ]', 'a[\n*\n]', 'a[#c\n*]', 'a[*#c\n]',
              'some a', 'SOME a', 'somea', 'some  a', 'some\na', 'some#c\na', 'some # c\n a.b', ' some a', '\nsome a', 'some some', 'some this', 'some %v', 'Some a', 'some', 'some ', 'some .a',
              'this', 'this.a', 'THIS.a', 'this[0]', 'this[*]', 'this.*', ' this', '\n this.a', '#c\nthis.a', 'thisa', 'this_a', 'this.this', 'this .a', 'thiS.a',
              '', ' ', '.', '[', 'a.', 'a[', 'a.[', 'a[]', 'a[ ]', 'a..b', 'a.b.', 'a.*.*', 'a[*][*]', 'a.*[*].*', 'a' + '.b' * 60, 'a' + '[0]' * 60, 'a' + ' .b' * 30,
              'a.b.c == 1', 'a.b.c exists', 'a.b.c{', 'a.b.c {', 'a.b.c <<m>>', 'a.b.c!empty', 'a.b c', 'a.b-c', 'a.b_c', 'a.b1', 'a.1b', 'a.b.1.c', 'a.-1', 'a[-1]', 'a.-', 'a[-]']
    while len(texts) < n:
        t = gen_query_text(rng)
        texts.append(t)
        if rng.random() < 0.5:
            texts.append(mutate(t, rng))
    seen, out = set(), []
    for t in texts:
        if t not in seen:
            seen.add(t); out.append(t)
    return out


def has_filter(j):
    return any(p[0] in ('Filter', 'MapKeyFilter') for p in ct.L(j[1]))


def impl_term(res):
    if res[0] == 'Ok':
        if has_filter(res[1]):
            return 'IAOther'
        return '(IAOk %s %d%%N)' % (ct.access_query(res[1]), res[2])
    return {'Error': 'IAError', 'Failure': 'IAFailure'}.get(res[0], 'IAOther')


def run(texts, wd, tag='qparse'):
    """-> list of (text, verdict, impl result); verdict in PAAgree | PAAgreeReject | PANotModelled | PADisagree | crash"""
    res = impl.run_ops_parallel([{'op': 'paccess', 'text': t} for t in texts], wd, tag + '.pa')
    cases, out = [], [None] * len(texts)
    for i, (t, r) in enumerate(zip(texts, res)):
        if 'res' not in r:
            out[i] = (t, 'crash', r)
            continue
        try:
            it = impl_term(r['res'])
        except ct.TranslateError:
            it = 'IAOther'
        cases.append((i, '', 'access_obs %s %s' % (ct.cstr(t), it)))
        out[i] = (t, None, r['res'])
    verdicts, errors = model.eval_cases(cases, wd, tag, header=HEADER, per_file=200)
    if errors:
        raise ToolingError('model evaluation failed: %r' % (errors[:1],))
    for i, _, _ in cases:
        out[i] = (out[i][0], verdicts.get(i, 'NoModelOutput'), out[i][2])
    return out


# ------------------------------------------------------------------ spellings of one query (the statement of C14 on queries)
def gen_abstract(rng):
    head = rng.choice([('this',), ('var', rng.choice(['v', 'var_1', 'Zz'])), ('key', rng.choice(['a', 'Resources', 'x1', 'a b', "it's", 'q"r']))])
    parts = []
    for _ in range(rng.choice([0, 1, 2, 3, 4])):
        k = rng.random()
        if k < 0.3:
            parts.append(('key', rng.choice(['a', 'b', 'Properties', 'a b', 'x.y', "it's", 'q"r', '0', '*'])))
        elif k < 0.55:
            parts.append(('index', rng.choice([0, 1, 7, 42, -1, -12, 2147483647, -2147483648])))
        elif k < 0.7:
            parts.append(('allidx',))
        elif k < 0.8:
            parts.append(('allval',))
        elif k < 0.9:
            parts.append(('var', rng.choice(['k', 'name_2'])))
        else:
            parts.append(('capture', rng.choice(['n', 'idx'])))
    return (rng.random() < 0.25, head, parts)


def spell(q, rng, plain=False):
    lay = (lambda: '') if plain else (lambda: rng.choice(LAYOUTS))
    some, head, parts = q
    t = ''
    if some:
        t += lay() + ('some' if plain else rng.choice(['some', 'SOME'])) + (' ' if plain else rng.choice([' ', '  ', '\n', ' # c\n', '\t']))
    if head[0] == 'this':
        t += ('' if some else lay()) + ('this' if plain else rng.choice(['this', 'THIS']))
    elif head[0] == 'var':
        t += '%' + head[1]
    else:
        bare = re.fullmatch(r'[A-Za-z][A-Za-z0-9_]*', head[1]) and (plain or rng.random() < 0.6)
        t += head[1] if bare else quote(head[1], rng)
    for p in parts:
        if p[0] == 'key':
            bare = re.fullmatch(r'[A-Za-z][A-Za-z0-9_]*', p[1]) and (plain or rng.random() < 0.5)
            if bare:
                t += lay() + '.' + p[1]
            elif plain or rng.random() < 0.5:
                t += lay() + '.' + quote(p[1], rng)
            else:
                t += lay() + '[' + quote(p[1], rng) + lay() + ']'
        elif p[0] == 'index':
            z = '' if plain or rng.random() < 0.7 else rng.choice(['0', '00'])
            digits = ('-' if p[1] < 0 else '') + z + str(abs(p[1]))
            if plain or rng.random() < 0.5:
                t += lay() + '.' + digits
            else:
                t += lay() + '[' + digits + lay() + ']'
        elif p[0] == 'allidx':
            t += lay() + '[' + lay() + '*' + lay() + ']'
        elif p[0] == 'allval':
            t += lay() + '.*'
        elif p[0] == 'var':
            t += lay() + '.%' + p[1]
        else:
            t += lay() + '[' + p[1] + lay() + ']'
    return t


def spelling_groups(seed, n, per=6):
    rng = random.Random(seed * 4099 + 5)
    groups = []
    for _ in range(n):
        q = gen_abstract(rng)
        tail = rng.choice([' == 1', ' exists', '', ' {', '\n', ' <<m>>', ' !empty'])
        groups.append([spell(q, rng, plain=True) + tail] + [spell(q, rng) + tail for _ in range(per)])
    return groups
