"""C17 — input parameters are merged into the data without loss or silent override.

proof   : Props/C17.v over Model/Merge.v (PathAwareValue::merge, the -i fold, the per-data-file merge)
tie     : PathAwareValue::merge through the hook on every ordered pair of a document universe (disjoint,
          overlapping, list/map/scalar mixes), compared inside Coq with Merge.merge (value, keys vector, paths)
monitor : the real binary: documents split at random into 1..3 parameter files + data, validated with -i in every
          order, plain and --structured, against the pre-merged document: per-rule statuses and exit code equal;
          overlapping splits must fail with an error exit and a diagnostic, in both modes
"""
import json, random, os, itertools
from .. import coqterm as ct
from .. import impl, model, gen, e2e
from ..common import *

HEADER = 'From Coq Require Import String.\nFrom GV.Model Require Import Merge.\n'
UNIVERSE = [
    {}, {"a": 1}, {"b": 2}, {"a": 1, "b": 2}, {"b": 3, "c": [1]}, {"c": {"a": 1}, "d": None},
    {"a": {"x": 1}}, {"x y": "s", "é": 1}, [], [1], [1, {"a": 2}], 5, "s", None, True,
    {"d": 1.5, "e": "", "f": [[]]}, {"a": [1, 2]},
    # the same key holding maps with disjoint sub-keys, lists, nulls: still a clash
    {"c": {"b": 2}}, {"a": {"y": 2}}, {"c": [2]}, {"d": None}, {"d": 0},
]


def hook_universe(ctx):
    ops, meta = [], []
    for a in UNIVERSE:
        for b in UNIVERSE:
            ops.append({'op': 'merge', 'a': json.dumps(a), 'b': json.dumps(b), 'loader': 'cli'})
            meta.append((a, b))
    dops = [{'op': 'doc', 'data': json.dumps(a), 'loader': 'cli'} for a in UNIVERSE]
    res = impl.run_ops_parallel(ops, ctx.wd, 'c17merge')
    dres = impl.run_ops_parallel(dops, ctx.wd, 'c17docs')
    terms = [ct.pv(r['res'][1]) for r in dres]
    cases = []
    n = 0
    for i, ((a, b), r) in enumerate(zip(meta, res)):
        if 'res' not in r:
            ctx.failing('merge crashed on %r , %r' % (a, b), {'class': 'merge-crash', 'a': a, 'b': b}, found=True)
            continue
        rr = r['res']
        if rr[0] == 'Ok':
            obs = '(MOk %s)' % ct.pv(rr[1])
        elif rr[1] == 'MultipleValues':
            obs = 'MErrMultiple'
        elif rr[1] == 'IncompatibleError':
            obs = 'MErrIncompatible'
        else:
            obs = 'MErrOther'
        ia, ib = UNIVERSE.index(a), UNIVERSE.index(b)
        cases.append((i, '', 'merge_agrees %s %s %s' % (terms[ia], terms[ib], obs)))
    verdicts, errors = model.eval_cases(cases, ctx.wd, 'c17m', header=HEADER, per_file=60)
    if errors:
        raise ToolingError('model evaluation failed: %r' % (errors[:1],))
    for i, _, _ in cases:
        if verdicts.get(i) != 'true':
            a, b = meta[i]
            rr = res[i]['res']
            # the statement: overlap must be an error, disjoint maps must give the union
            found = False
            if isinstance(a, dict) and isinstance(b, dict):
                if set(a) & set(b):
                    found = rr[0] == 'Ok'
                else:
                    found = rr[0] != 'Ok'
            ctx.failing('merge(%s, %s): implementation %s differs from the model' % (json.dumps(a), json.dumps(b), str(rr)[:200]),
                        {'class': 'merge-kernel', 'a': a, 'b': b, 'impl': str(rr)[:500]}, found=found)
    ctx.coverage['merge_pairs'] = len(cases)
    ctx.coverage['evaluations'] += len(cases)
    return len(cases)


def structured_statuses(stdout):
    try:
        j = json.loads(stdout.decode())
    except Exception:
        return None
    out = []
    for fr in j:
        d = {}
        for n in fr.get('compliant', []):
            d[n] = 'PASS'
        for n in fr.get('not_applicable', []):
            d[n] = 'SKIP'
        for r in fr.get('not_compliant', []):
            if 'Rule' in r:
                d[r['Rule']['name']] = 'FAIL'
        out.append((fr.get('status'), d))
    return out


def run_e2e(ctx, n):
    rng = random.Random(ctx.seed * 17 + 17)
    jobs, meta = [], []
    scen = []
    k = 0
    while len(scen) < n:
        doc, prog = gen.gen_pair(rng, {'cycles': 0.0})
        if not isinstance(doc, dict) or len(doc) < 2:
            continue
        keys = list(doc.keys())
        nparts = rng.choice([1, 2, 2, 3])
        assign = {key: rng.randrange(nparts + 1) for key in keys}      # part 0 = data
        parts = [{key: doc[key] for key in keys if assign[key] == i} for i in range(nparts + 1)]
        overlap = rng.random() < 0.25
        dup_key = None
        if overlap:
            src = rng.randrange(nparts + 1)
            if not parts[src]:
                overlap = False
            else:
                dup_key = rng.choice(list(parts[src].keys()))
                dst = rng.choice([i for i in range(nparts + 1) if i != src])
                parts[dst] = dict(parts[dst])
                orig = doc[dup_key]
                alt = {'other_sub_key_%d' % k: 1} if isinstance(orig, dict) else ([] if isinstance(orig, list) else (None if orig is not None else 0))
                parts[dst][dup_key] = rng.choice([orig, 12345, alt, alt])
        d = os.path.join(ctx.wd, 'i%d' % k)
        files = {'r.guard': gen.render_file(prog), 'whole.json': json.dumps(doc), 'data.json': json.dumps(parts[0])}
        # the union in the order the tool builds it: P1 .. Pn, then D
        merged_order = {}
        for i in list(range(1, nparts + 1)) + [0]:
            for key, v in parts[i].items():
                merged_order.setdefault(key, v)
        files['union.json'] = json.dumps(merged_order)
        for i in range(1, nparts + 1):
            files['p%d.json' % i] = json.dumps(parts[i])
            files['q%d/params.json' % i] = json.dumps(parts[i])      # the same base name in different directories
        files['nothing/README'] = 'no parameter file here\n'          # an -i argument that contributes no file
        files['data_copy.json'] = files['data.json']                  # a second data file: every data file gets the parameters
        files['empty.json'] = '{}'                                    # a data file that is an empty map: everything comes from -i
        e2e.write_files(d, files)
        sc = {'k': k, 'dir': d, 'doc': doc, 'parts': parts, 'overlap': overlap, 'dup_key': dup_key, 'rules': files['r.guard'], 'nparts': nparts}
        scen.append(sc)
        orders = list(itertools.permutations(range(1, nparts + 1)))
        for mode, flags in (('plain', ['-o', 'json']), ('structured', ['--structured', '-o', 'json', '-S', 'none'])):
            for ref in ('whole.json', 'union.json'):
                jobs.append({'args': ['validate', '-r', 'r.guard', '-d', ref] + flags, 'cwd': d})
                meta.append((k, mode, 'ref:' + ref))
            for od in orders:
                args = ['validate', '-r', 'r.guard', '-d', 'data.json'] + flags
                for i in od:
                    args += ['-i', 'p%d.json' % i]
                jobs.append({'args': args, 'cwd': d})
                meta.append((k, mode, od))
                # layouts: same base name under different directories; an argument without any file at every position
                args = ['validate', '-r', 'r.guard', '-d', 'data.json'] + flags
                for i in od:
                    args += ['-i', 'q%d/params.json' % i]
                jobs.append({'args': args, 'cwd': d})
                meta.append((k, mode, ('same-base-name',) + od))
                if od == orders[0]:
                    # several data files in one run (each must be merged with the parameters), and an empty data document
                    for lab, dlist in (('two-data-files', ['data.json', 'data_copy.json']), ('two-data-files-rev', ['data_copy.json', 'data.json'])):
                        args = ['validate', '-r', 'r.guard'] + flags
                        for x in dlist:
                            args += ['-d', x]
                        for i in od:
                            args += ['-i', 'p%d.json' % i]
                        jobs.append({'args': args, 'cwd': d})
                        meta.append((k, mode, (lab,) + od))
                    jobs.append({'args': ['validate', '-r', 'r.guard', '-d', 'empty.json', '-i', 'whole.json'] + flags, 'cwd': d})
                    meta.append((k, mode, ('empty-data-all-from-parameters',)))
                if od == orders[0] or len(scen) % 3 == 0:
                    for pos in range(len(od) + 1):
                        names = ['p%d.json' % i for i in od]
                        names.insert(pos, 'nothing')
                        args = ['validate', '-r', 'r.guard', '-d', 'data.json'] + flags
                        for nm in names:
                            args += ['-i', nm]
                        jobs.append({'args': args, 'cwd': d})
                        meta.append((k, mode, ('empty-argument-at-%d' % pos,) + od))
        k += 1
    res = e2e.run_many(jobs)
    by = {}
    for m, r in zip(meta, res):
        by.setdefault(m[0], {})[(m[1], m[2])] = r
    distinct = 0
    dist = {'disjoint': 0, 'overlap': 0, 'orders': 0, 'ref_err': 0}
    for sc in scen:
        runs = by[sc['k']]
        info = {'class': 'merge-e2e', 'rules': sc['rules'], 'doc': sc['doc'], 'parts': sc['parts']}
        for mode in ('plain', 'structured'):
            ref_code, ref_out, ref_err = runs[(mode, 'ref:whole.json')]
            u_code, u_out, u_err = runs[(mode, 'ref:union.json')]
            refst = structured_statuses(ref_out) if mode == 'structured' else None
            ust = structured_statuses(u_out) if mode == 'structured' else None
            for key, (code, so, se) in runs.items():
                if key[0] != mode or isinstance(key[1], str):
                    continue
                dist['orders'] += 1
                if not isinstance(code, int) or code < 0 or code == 101:
                    ctx.failing('validate -i (%s, order %s) crashed: %s' % (mode, key[1], code), dict(info, mode=mode, order=key[1], stderr=se[-400:].decode('utf-8', 'replace')), found=True)
                    continue
                if sc['overlap'] and not (key[1] and key[1][0] == 'empty-data-all-from-parameters'):
                    if code in (0, 19):
                        ctx.failing('top-level key %r is defined by two sources but validate -i (%s, order %s) exits %s instead of failing with an error'
                                    % (sc['dup_key'], mode, key[1], code), dict(info, mode=mode, order=key[1], dup=sc['dup_key']), found=True)
                    elif b'already exists' not in se and b'Conflicting' not in se:
                        ctx.failing('conflicting key %r: no diagnostic on stderr (%s)' % (sc['dup_key'], mode), dict(info, mode=mode, stderr=se[-300:].decode('utf-8', 'replace')), found=True)
                    continue
                if ref_code not in (0, 19):
                    dist['ref_err'] += 1
                    if code in (0, 19) and u_code not in (0, 19):
                        ctx.failing('pre-merged document gives an error exit %s but -i run exits %s' % (ref_code, code), dict(info, mode=mode, order=key[1]), found=True)
                    continue
                if code != ref_code:
                    ctx.failing('validate -i (%s, order %s) exits %s, the pre-merged document exits %s' % (mode, key[1], code, ref_code),
                                dict(info, mode=mode, order=key[1], stderr=se[-300:].decode('utf-8', 'replace')), found=(u_code == ref_code))
                    continue
                if mode == 'structured':
                    st = structured_statuses(so)
                    if st is None or refst is None:
                        ctx.failing('structured output is not JSON', dict(info, mode=mode), found=True)
                    elif key[1] and isinstance(key[1][0], str) and key[1][0].startswith('two-data-files'):
                        half = len(st) // 2
                        if len(st) != 2 * len(refst) or any([x[1] for x in part] != [x[1] for x in refst] for part in (st[:half], st[half:])):
                            ctx.failing('validate -i with two data files reports %s, each file pre-merged gives %s' % (st, refst),
                                        dict(info, mode=mode, order=key[1]), found=(ust == refst))
                    elif [x[1] for x in st] != [x[1] for x in refst] or [x[0] for x in st] != [x[0] for x in refst]:
                        ctx.failing('validate -i (order %s) reports %s, the pre-merged document %s' % (key[1], st, refst),
                                    dict(info, mode=mode, order=key[1]), found=(ust == refst))
        dist['overlap' if sc['overlap'] else 'disjoint'] += 1
        distinct += 1
    ctx.coverage['e2e_scenarios'] = len(scen)
    ctx.coverage['e2e_distribution'] = dist
    ctx.coverage['evaluations'] += dist['orders']
    ctx.sample({'rules': scen[0]['rules'], 'parts(data first)': scen[0]['parts'], 'overlap': scen[0]['overlap']})
    return distinct


WHOLE_RULES = """let approved = [
    { "region": "eu-west-1", "stage": "prod", "replicas": 3 },
    { "region": "eu-west-1", "stage": "test", "replicas": 1 }
]
rule approved_configuration {
    this IN %approved
}
rule exactly {
    this == { "region": "eu-west-1", "stage": "prod", "replicas": 3 } or
    this == { "region": "eu-west-1", "stage": "test", "replicas": 1 }
}
rule not_rejected {
    this not in [ { "stage": "prod", "replicas": 2, "region": "eu-west-1" } ]
}
rule reads_each_source {
    region == "eu-west-1"
    stage IN ["prod", "test"]
    replicas >= 1
}
"""


def run_whole_document(ctx):
    """directed: rules that look at the merged document AS A WHOLE (membership in a list of approved structs, equality with a struct
    literal) - the merged top-level map lists its keys in the order the sources were given, so every one of the 6 key orders of a
    three-key document is produced (which source is the data file x the order of the two -i files); the verdicts are those of the
    pre-merged document whatever that order."""
    vals_good = {'region': 'eu-west-1', 'stage': 'prod', 'replicas': 3}
    vals_bad = {'region': 'eu-west-1', 'stage': 'prod', 'replicas': 2}
    jobs, meta = [], []
    k = 0
    for lab, vals, want in (('good', vals_good, 0), ('bad', vals_bad, 19)):
        for data_key in vals:
            d = os.path.join(ctx.wd, 'wd%d' % k); k += 1
            others = [x for x in vals if x != data_key]
            files = {'r.guard': WHOLE_RULES, 'data.json': json.dumps({data_key: vals[data_key]}), 'whole.json': json.dumps(vals)}
            for x in others:
                files['p_%s.json' % x] = json.dumps({x: vals[x]})
            e2e.write_files(d, files)
            for mode, flags in (('plain', []), ('structured', ['--structured', '-o', 'json', '-S', 'none'])):
                jobs.append({'args': ['validate', '-r', 'r.guard', '-d', 'whole.json'] + flags, 'cwd': d}); meta.append((lab, want, data_key, 'pre-merged', mode))
                for od in (others, others[::-1]):
                    args = ['validate', '-r', 'r.guard', '-d', 'data.json'] + flags
                    for x in od:
                        args += ['-i', 'p_%s.json' % x]
                    jobs.append({'args': args, 'cwd': d}); meta.append((lab, want, data_key, tuple(od), mode))
    n = 0
    sts = {}
    for (lab, want, data_key, od, mode), (code, so, se) in zip(meta, e2e.run_many(jobs)):
        n += 1
        info = {'class': 'merge-whole-document', 'rules': WHOLE_RULES, 'document': lab, 'data_holds': data_key, 'parameter_order': od, 'mode': mode,
                'stdout': so[:500].decode('utf-8', 'replace'), 'stderr': se[-300:].decode('utf-8', 'replace')}
        if code != want:
            ctx.failing('whole-document rules on the %s document (data holds %r, -i order %s, %s): exit %s, expected %d' % (lab, data_key, od, mode, code, want), info, found=True)
            continue
        if mode == 'structured':
            st = structured_statuses(so)
            ref = sts.setdefault(lab, st)
            if st is None or st != ref:
                ctx.failing('whole-document rules on the %s document: statuses %s with data=%r / -i order %s, %s with the first layout' % (lab, st, data_key, od, ref), info, found=True)
    ctx.coverage['whole_document_runs'] = n
    ctx.coverage['evaluations'] += n
    return n


CFN_RULES = """let max_size = Limits.MaxVolumeSize
rule volumes_within_limit when Resources exists {
    Resources.*[ Type == "AWS::EC2::Volume" ] {
        Properties.Size <= %max_size
        Properties.Encrypted == true
    }
}
rule limits_present {
    Limits.MaxVolumeSize exists
}
"""


def run_cfn_console(ctx):
    """directed: the default console output (the CloudFormation-aware reporter prints a `Code:` excerpt by line number) for a
    template and a limits document given as data / parameter file either way round, as multi-line YAML and JSON of very different
    lengths: the failing values come from the source the excerpt is NOT taken from. Exit code and crash-freedom against the
    pre-merged document."""
    import yaml
    jobs, meta = [], []
    k = 0
    for nres in (1, 2, 6):
        for bad in (None, 0, nres - 1):
            res = {}
            for i in range(nres):
                res['Vol%d' % i] = {'Type': 'AWS::EC2::Volume', 'Properties': {'AvailabilityZone': 'eu-west-1a', 'Size': 4000 if bad == i else 100 + i, 'Encrypted': True}}
            tpl = {'Resources': res}
            lim = {'Limits': {'MaxVolumeSize': 500}}
            want = 0 if bad is None else 19
            for fmt in ('yaml', 'json'):
                dump = (lambda x: yaml.safe_dump(x, default_flow_style=False)) if fmt == 'yaml' else (lambda x: json.dumps(x, indent=2) + '\n')
                d = os.path.join(ctx.wd, 'cc%d' % k); k += 1
                e2e.write_files(d, {'r.guard': CFN_RULES, 'tpl.' + fmt: dump(tpl), 'lim.' + fmt: dump(lim), 'union.' + fmt: dump(dict(tpl, **lim))})
                for lab, args in (('pre-merged', ['-d', 'union.' + fmt]), ('data=template', ['-d', 'tpl.' + fmt, '-i', 'lim.' + fmt]), ('data=limits', ['-d', 'lim.' + fmt, '-i', 'tpl.' + fmt])):
                    for mode, flags in (('console', []), ('console-verbose', ['--show-summary', 'all']), ('structured', ['--structured', '-o', 'json', '-S', 'none'])):
                        jobs.append({'args': ['validate', '-r', 'r.guard'] + args + flags, 'cwd': d}); meta.append((nres, bad, fmt, lab, mode, want))
    n = 0
    for (nres, bad, fmt, lab, mode, want), (code, so, se) in zip(meta, e2e.run_many(jobs)):
        n += 1
        if code != want:
            ctx.failing('template with %d volumes (%s over the limit, %s) as %s, %s output: exit %s, expected %d' % (nres, 'none' if bad is None else 'volume %d' % bad, fmt, lab, mode, code, want),
                        {'class': 'merge-cfn-console', 'rules': CFN_RULES, 'volumes': nres, 'bad': bad, 'format': fmt, 'layout': lab, 'mode': mode,
                         'stdout': so[:400].decode('utf-8', 'replace'), 'stderr': se[-400:].decode('utf-8', 'replace')}, found=True)
    ctx.coverage['cfn_console_runs'] = n
    ctx.coverage['evaluations'] += n
    return n


def run_param_layouts(ctx):
    """how the parameter files are given: a directory of parameter files some of which are symbolic links, a link to a parameter
    file, sources that are an empty struct (`{}` as a parameter file, first or last, or as the data file), a parameter directory
    with sub-directories - the verdicts are those of the union document in every case"""
    rules = 'rule within {\n  size <= Limits.max <<too big>>\n}\nrule named {\n  Names.owner exists\n}\n'
    d = os.path.join(ctx.wd, 'pl')
    files = {'r.guard': rules, 'data.json': '{"size": 5}', 'bad.json': '{"size": 50}', 'empty.json': '{}', 'empty.yaml': '{}\n',
             'outside/limits.json': '{"Limits": {"max": 10}}', 'outside/names.yaml': 'Names:\n  owner: me\n',
             'pdir/limits.json': '{"Limits": {"max": 10}}', 'pcopy/limits.json': '{"Limits": {"max": 10}}', 'pcopy/names.yaml': 'Names:\n  owner: me\n',
             'pnest/a/limits.json': '{"Limits": {"max": 10}}', 'pnest/b/names.yaml': 'Names:\n  owner: me\n',
             'union_ok.json': '{"Limits": {"max": 10}, "Names": {"owner": "me"}, "size": 5}', 'union_bad.json': '{"Limits": {"max": 10}, "Names": {"owner": "me"}, "size": 50}',
             'all.json': '{"Limits": {"max": 10}, "Names": {"owner": "me"}, "size": 5}',
             # file names: a leading dot, several dots, a blank, a leading dash-like character - a parameter file is a parameter file
             '.limits.json': '{"Limits": {"max": 10}}', '.names.yaml': 'Names:\n  owner: me\n', 'pdot/.limits.json': '{"Limits": {"max": 10}}', 'pdot/names.yaml': 'Names:\n  owner: me\n',
             # a parameter directory that also holds files that are no documents (no extension, .txt, .md), sorted before, between and after the parameter files
             'pstray/0README': 'read me\n', 'pstray/a_notes.txt': 'notes\n', 'pstray/limits.json': '{"Limits": {"max": 10}}', 'pstray/m_notes.md': '# notes\n',
             'pstray/names.yaml': 'Names:\n  owner: me\n', 'pstray/z.txt': 'z\n',
             'pstray2/a_notes.txt': 'notes\n', 'pstray2/sub/limits.json': '{"Limits": {"max": 10}}', 'pstray2/sub/b.txt': 'b\n', 'pstray2/sub/names.yaml': 'Names:\n  owner: me\n',
             'pstraydup/a_notes.txt': 'notes\n', 'pstraydup/limits.json': '{"Limits": {"max": 10}}', 'pstraydup/limits_again.json': '{"Limits": {"max": 99}}', 'pstraydup/names.yaml': 'Names:\n  owner: me\n',
             'limits_again.json': '{"Limits": {"max": 99}}',
             'limits.v2.json': '{"Limits": {"max": 10}}', 'my names.yaml': 'Names:\n  owner: me\n', '_limits.json': '{"Limits": {"max": 10}}', '~names.yaml': 'Names:\n  owner: me\n'}
    e2e.write_files(d, files)
    for link, target in (('pdir/names.yaml', '../outside/names.yaml'), ('linked_limits.json', 'outside/limits.json')):
        p_ = os.path.join(d, link)
        if os.path.lexists(p_):
            os.remove(p_)
        os.symlink(target, p_)
    layouts = {
        'directory with a symbolic link': ['-i', 'pdir'],
        'directory with copies': ['-i', 'pcopy'],
        'nested directories': ['-i', 'pnest'],
        'a link to a parameter file': ['-i', 'linked_limits.json', '-i', 'outside/names.yaml'],
        'an empty struct as the last parameter file': ['-i', 'outside/limits.json', '-i', 'outside/names.yaml', '-i', 'empty.json'],
        'an empty struct as the first parameter file': ['-i', 'empty.yaml', '-i', 'outside/limits.json', '-i', 'outside/names.yaml'],
        'dot-named parameter files': ['-i', '.limits.json', '-i', '.names.yaml'],
        'a dot-named parameter file and an ordinary one': ['-i', 'outside/names.yaml', '-i', '.limits.json'],
        'a dot-named file in a parameter directory': ['-i', 'pdot'],
        'names with several dots and a blank': ['-i', 'limits.v2.json', '-i', 'my names.yaml'],
        'names starting with _ and ~': ['-i', '_limits.json', '-i', '~names.yaml'],
        'a parameter directory with files that are no documents in between': ['-i', 'pstray'],
        'nested parameter directories with files that are no documents': ['-i', 'pstray2'],
    }
    jobs, meta = [], []
    for mlab, flags in (('plain', []), ('structured', ['--structured', '-o', 'json', '-S', 'none'])):
        for ref in ('union_ok.json', 'union_bad.json'):
            jobs.append({'args': ['validate', '-r', 'r.guard', '-d', ref] + flags, 'cwd': d}); meta.append((mlab, 'ref', ref))
        for lab, iargs in layouts.items():
            for data, ref in (('data.json', 'union_ok.json'), ('bad.json', 'union_bad.json')):
                jobs.append({'args': ['validate', '-r', 'r.guard', '-d', data] + iargs + flags, 'cwd': d}); meta.append((mlab, lab, ref))
        jobs.append({'args': ['validate', '-r', 'r.guard', '-d', 'empty.json', '-i', 'all.json'] + flags, 'cwd': d}); meta.append((mlab, 'an empty struct as the data file', 'union_ok.json'))
        # two parameter files defining one key: an error whether they are named one by one or sit in a directory next to files that are no documents
        jobs.append({'args': ['validate', '-r', 'r.guard', '-d', 'data.json', '-i', 'outside/limits.json', '-i', 'limits_again.json', '-i', 'outside/names.yaml'] + flags, 'cwd': d}); meta.append((mlab, 'dup', 'named'))
        jobs.append({'args': ['validate', '-r', 'r.guard', '-d', 'data.json', '-i', 'pstraydup'] + flags, 'cwd': d}); meta.append((mlab, 'dup', 'directory'))
    res = dict(zip(meta, e2e.run_many(jobs)))
    n = 0
    for (mlab, lab, ref), (code, so, se) in res.items():
        if lab == 'ref':
            continue
        if lab == 'dup':
            n += 1
            if code in (0, 19):
                ctx.failing('two parameter files define the same key (%s, given as %s): exit %s - a verdict instead of an error' % (mlab, ref, code),
                            {'class': 'merge-layout', 'layout': 'duplicate key, ' + ref, 'mode': mlab, 'stdout': so[:500].decode('utf-8', 'replace'), 'stderr': se[-300:].decode('utf-8', 'replace')}, found=True)
            continue
        n += 1
        rc, rso, rse = res[(mlab, 'ref', ref)]
        info = {'class': 'merge-layout', 'layout': lab, 'mode': mlab, 'reference': ref, 'stdout': so[:500].decode('utf-8', 'replace'), 'stderr': se[-300:].decode('utf-8', 'replace')}
        if code != rc:
            ctx.failing('parameters given as %s (%s): exit %s, the union document exits %s' % (lab, mlab, code, rc), info, found=True)
        elif mlab == 'structured':
            a, b = structured_statuses(so), structured_statuses(rso)
            if a is None or b is None or [x[1] for x in a] != [x[1] for x in b]:
                ctx.failing('parameters given as %s: verdicts %s, the union document %s' % (lab, a, b), info, found=True)
    ctx.coverage['parameter_layout_runs'] = n
    ctx.coverage['evaluations'] += n
    return n


def run(ctx):
    ctx.build(cli=True)
    pr = ctx.proofs('C17')
    thorough = ctx.tier == 'thorough'
    n1 = hook_universe(ctx)
    n2 = run_e2e(ctx, 150 if thorough else 30) + run_whole_document(ctx) + run_cfn_console(ctx) + run_param_layouts(ctx)
    ctx.coverage['distinct_nontrivial'] = n1 + n2
    ctx.coverage['rule'] = ('merge kernel: every ordered pair of a %d-document universe (maps with disjoint / overlapping keys, lists, scalars, nested), all distinct; '
                            'end-to-end: generated (rules, document) with the top-level keys split at random into 1..3 parameter files + data, 25%% with a key defined '
                            'twice, every order of the -i files, plain and structured; distinct = scenarios' % len(UNIVERSE))
    ctx.coverage['trusted_base'] = [
        'Coq 8.16.1 kernel (coqc), vm_compute for case evaluation; no axioms',
        'hand-written model Merge.v of path_value.rs merge / validate.rs / structured.rs (modelled, not verified)',
        'hook merge/doc_dump; CLI runs; python comparison of the structured reports',
    ]
    ctx.assumptions = ['"same verdicts" is observed on rule statuses, file status and exit code; messages that print paths or key order are not compared',
                       'that evaluation depends on a document only through its content (not on paths / positions) is a theorem (EraseProps.v) about the MODELLED evaluator; for the implementation it rests on the model correspondence and on the end-to-end comparison here']
    if not pr['ok']:
        ctx.failing('proof obligations of Props/C17.v no longer check: %s' % (pr.get('problems') or pr.get('log', '')[-500:]),
                    {'class': 'proof', 'theorems': pr['theorems']}, found=False)


def replay(ctx, path):
    j = json.load(open(path))
    for v in j.get('violations', []):
        print(json.dumps(v, indent=1)[:3000])
    return 0
