(* FullCondsProps.v — the conditions of a `when`, read by the whole-grammar parser (FullParse.xwhen_conds), are the conditions the
   proved layer reads (CnfParse.single_clauses): so every spelling of conditions (CnfSpellProps) is read by the whole-grammar parser to
   the tree of those conditions. *)
From Coq Require Import Lia.
From GV.Model Require Import Ast.
From GV.Model Require Import ValueParse QueryParse OpParse ClauseParse CnfParse FilterParse ClauseFParse LetParse CallParse FullParse.
From GV.Proofs Require Import LexProps ValueParseProps QueryParseProps ClauseParseProps CnfParseProps FullLinkProps.
Local Open Scope string_scope.
Local Open Scope nat_scope.

(* lines and conjunctions: a fuel-indexed element parser against one that is fixed, below a bound on the fuel *)
Section Bounded.
Context {A B : Type}.
Variable elem1 : nat -> string -> pres A.
Variable elem2 : string -> pres B.
Variable f : A -> B.
Variable bound : nat.
Hypothesis Hext : forall n s x, n <= bound -> elem1 n s = x -> x <> PUnk -> x <> POof -> elem2 s = pmap f x.

Lemma sep_loop_bounded n : n <= bound -> forall k acc s x,
  sep_loop or_join (fun t => elem1 n (skip_ws_comments t)) k acc s = x -> x <> PUnk -> x <> POof ->
  forall k', k <= k' -> sep_loop or_join (fun t => elem2 (skip_ws_comments t)) k' (map f acc) s = pmap (map f) x.
Proof.
  intros Ln. induction k as [|k IH]; intros acc s x H H1 H2 k' Lk; [cbn in H; congruence|].
  destruct k' as [|k']; [lia|]. cbn [sep_loop] in *. destruct (or_join s) as [s1|]; [|subst x; reflexivity].
  destruct (elem1 n (skip_ws_comments s1)) as [v s2| | | |] eqn:E.
  - rewrite (Hext n _ _ Ln E ltac:(discriminate) ltac:(discriminate)). cbn [pmap].
    replace (map f acc ++ [f v])%list with (map f (acc ++ [v])) by (now rewrite map_app). apply IH; [exact H|exact H1|exact H2|lia].
  - rewrite (Hext n _ _ Ln E ltac:(discriminate) ltac:(discriminate)). subst x. reflexivity.
  - rewrite (Hext n _ _ Ln E ltac:(discriminate) ltac:(discriminate)). subst x. reflexivity.
  - congruence.
  - congruence.
Qed.

Lemma disjunction_bounded n m s x : n <= bound -> n <= m -> disjunction elem1 n s = x -> x <> PUnk -> x <> POof ->
  disjunction (fun _ t => elem2 t) m s = pmap (map f) x.
Proof.
  intros Ln L H H1 H2. unfold disjunction in *. destruct (elem1 n (skip_ws_comments s)) as [v s1| | | |] eqn:E; try (subst x; congruence).
  - rewrite (Hext n _ _ Ln E ltac:(discriminate) ltac:(discriminate)). cbn [pmap]. apply (sep_loop_bounded n Ln n [v] s1 x H H1 H2 m L).
  - rewrite (Hext n _ _ Ln E ltac:(discriminate) ltac:(discriminate)). subst x. reflexivity.
  - rewrite (Hext n _ _ Ln E ltac:(discriminate) ltac:(discriminate)). subst x. reflexivity.
Qed.

Lemma cnf_loop_bounded : forall k acc s x, k <= S bound -> cnf_loop elem1 k acc s = x -> x <> PUnk -> x <> POof ->
  forall k', k <= k' -> cnf_loop (fun _ t => elem2 t) k' (map (map f) acc) s = pmap (map (map f)) x.
Proof.
  induction k as [|n IH]; intros acc s x Lb H H1 H2 k' L; [cbn in H; congruence|].
  destruct k' as [|m]; [lia|]. cbn [cnf_loop] in *.
  destruct (disjunction elem1 n s) as [d r| | | |] eqn:E.
  - rewrite (disjunction_bounded n m s _ ltac:(lia) ltac:(lia) E ltac:(discriminate) ltac:(discriminate)). cbn [pmap].
    replace (map (map f) acc ++ [map f d])%list with (map (map f) (acc ++ [d])) by (now rewrite map_app). apply IH; [lia|exact H|exact H1|exact H2|lia].
  - rewrite (disjunction_bounded n m s _ ltac:(lia) ltac:(lia) E ltac:(discriminate) ltac:(discriminate)). cbn [pmap]. subst x. destruct acc; reflexivity.
  - rewrite (disjunction_bounded n m s _ ltac:(lia) ltac:(lia) E ltac:(discriminate) ltac:(discriminate)). subst x. reflexivity.
  - congruence.
  - congruence.
Qed.
End Bounded.

Section Conds.
Variable rv : string -> bool.

Definition when_tree (w : pwhen) : tree := match w with PWClause c => clause_tree c | PWNamed n => named_tree n end.

(* the element of the conditions inside FullParse.xwhen_conds, at inner fuel N *)
Definition full_elem (N : nat) (t : string) : pres tree :=
  palt (xaccess_clause rv N t) (palt (xparam_call rv N t) (pmap named_tree (rule_clause t))).

Lemma no_param_call k t : call_like t = PErr -> xparam_call rv (S (S k)) t = PErr.
Proof.
  unfold call_like. cbn [xparam_call xcall_expr]. destruct (not_kw t) as [r|]; unfold function_like;
  (match goal with |- context [var_name ?u] => destruct (var_name u) as [name r0| | | |]; try discriminate; cbn [pbind]; [|reflexivity] end);
  (destruct r0 as [|c r0]; [reflexivity|]); cbn [expect]; (destruct (Ascii.eqb c "("); [discriminate|reflexivity]).
Qed.

Lemma full_elem_extends N : forall n s x, n + 4 <= N -> when_elem rv n s = x -> x <> PUnk -> x <> POof -> full_elem N s = pmap when_tree x.
Proof.
  intros n s x L H H1 H2. unfold when_elem in H. unfold full_elem.
  destruct N as [|[|[|[|N']]]]; try lia.
  destruct (clause rv n s) as [c r| | | |] eqn:E; cbn [pmap] in H.
  - rewrite (xaccess_clause_extends_all rv n s _ E ltac:(discriminate) ltac:(discriminate) N' ltac:(lia)). subst x. reflexivity.
  - rewrite (xaccess_clause_extends_all rv n s _ E ltac:(discriminate) ltac:(discriminate) N' ltac:(lia)). cbn [pmap palt].
    destruct (call_like s) eqn:Ec; cbn [pmap] in H; try (subst x; congruence).
    + exfalso. unfold call_like in Ec. eapply function_like_not_ok. exact Ec.
    + rewrite (no_param_call _ _ Ec). cbn [palt]. subst x. destruct (rule_clause s); reflexivity.
    + subst x. exfalso. (* a failure of call_like comes from var_name, which never fails hard *)
      unfold call_like, function_like in Ec. destruct (not_kw s);
      match type of Ec with context [var_name ?u] => pose proof (var_name_nooof u); destruct (var_name u) as [? r0| | | |] eqn:Ev; try discriminate end;
      try (destruct r0 as [|c0 r0]; [discriminate|]; destruct (Ascii.eqb c0 "("); discriminate);
      unfold var_name in Ev; destruct (span_while is_alpha _) as [a r1]; destruct a; try discriminate; destruct (span_while name_char r1) as [b r2]; destruct r2 as [|c2 r2]; try discriminate; destruct (is_ascii c2); discriminate.
  - rewrite (xaccess_clause_extends_all rv n s _ E ltac:(discriminate) ltac:(discriminate) N' ltac:(lia)). subst x. reflexivity.
  - subst x. congruence.
  - subst x. congruence.
Qed.

(* the conjunction of conditions *)
Theorem full_conditions_extend : forall k s x N K, k + 4 <= N -> k <= K -> single_clauses rv k s = x -> x <> PUnk -> x <> POof ->
  cnf (fun _ t => full_elem N t) K s = pmap (map (map when_tree)) x.
Proof.
  intros k s x N K LN LK H H1 H2. unfold single_clauses, cnf in *.
  change (@nil (list tree)) with (map (map when_tree) []).
  apply (cnf_loop_bounded (when_elem rv) (full_elem N) when_tree k
           (fun n s0 x0 Ln H0 Hu Ho => full_elem_extends N n s0 x0 ltac:(lia) H0 Hu Ho) k [] s x ltac:(lia) H H1 H2 K LK).
Qed.

End Conds.

From GV.Proofs Require Import ValueSpellProps QuerySpellProps ClauseSpellProps CnfSpellProps.

Section WhenSpelled.
Variable rv : string -> bool.

Lemma cnf_skip {A} (elem : nat -> string -> pres A) k s : cnf elem k (skip_ws_comments s) = cnf elem k s.
Proof. unfold cnf. destruct k as [|n]; [reflexivity|]. cbn [cnf_loop]. unfold disjunction. now rewrite skip_idem. Qed.

Lemma xwhen_conds_S n s : xwhen_conds rv (S n) s =
  match alt_tags kw_when (skip_ws_comments s) with
  | None => PErr
  | Some r =>
      match ws1 r with
      | None => PFail
      | Some r1 => pmap (fun l => T "cnf" (map tor l)) (pcut (cnf (fun _ t => full_elem rv n t) n r1))
      end
  end.
Proof. reflexivity. Qed.

(* `when` / `WHEN`, at least one blank, line break or comment, then the conditions: read by the whole-grammar parser to the tree of
   the conditions the proved layer reads *)
Theorem xwhen_conds_reads_conditions : forall kw w0 w1 X l r N,
  In kw kw_when -> layout w0 -> layout w1 -> w1 <> EmptyString ->
  single_clauses_top rv X = POk l r -> len X + 6 <= N ->
  xwhen_conds rv (S N) (w0 +++ (kw +++ (w1 +++ X))) = POk (T "cnf" (map tor (map (map (when_tree)) l))) r.
Proof.
  intros kw w0 w1 X l r N Hk Hw0 Hw1 Hne H LN. rewrite xwhen_conds_S. rewrite (skip_layout w0 _ Hw0).
  assert (Ek : alt_tags kw_when (skip_ws_comments (kw +++ (w1 +++ X))) = Some (w1 +++ X)).
  { unfold kw_when in *. destruct Hk as [<-|[<-|[]]]; cbn [append]; rewrite skip_solid by reflexivity; reflexivity. }
  rewrite Ek. unfold ws1. rewrite (layout_nonempty_starts w1 X Hw1 Hne). rewrite (skip_layout w1 X Hw1). rewrite cnf_skip.
  unfold single_clauses_top in H.
  rewrite (full_conditions_extend rv (S (S (len X))) X _ N N ltac:(lia) ltac:(lia) H ltac:(discriminate) ltac:(discriminate)). reflexivity.
Qed.

(* every spelling of the conditions of a when (CnfSpellProps), behind any spelling of the keyword *)
Corollary whole_grammar_reads_every_conditions_spelling : forall kw w0 w1 l0 ls tail N,
  In kw kw_when -> layout w0 -> layout w1 -> w1 <> EmptyString -> lines_ok rv (l0 :: ls) tail ->
  or_join (after (final_alt ls (last_alt l0)) tail) = None ->
  (forall m, when_elem rv m (skip_ws_comments (after (final_alt ls (last_alt l0)) tail)) = PErr) ->
  len (render_conds rv (l0 :: ls) +++ tail) + 6 <= N ->
  xwhen_conds rv (S N) (w0 +++ (kw +++ (w1 +++ (render_conds rv (l0 :: ls) +++ tail)))) =
  POk (T "cnf" (map tor (map (map when_tree) (map denote_line (l0 :: ls))))) (after (final_alt ls (last_alt l0)) tail).
Proof.
  intros kw w0 w1 l0 ls tail N Hk Hw0 Hw1 Hne Hok Hor Hend LN.
  apply xwhen_conds_reads_conditions; try assumption. now apply conditions_spelling_parses.
Qed.

End WhenSpelled.
