(* FullParse.v — the whole rules-file grammar of rules/parser.rs as one recursive parser: queries with filters of any depth, values
   and function calls, access clauses, references to named rules, parameterised calls, block clauses, when blocks, blocks with
   assignments, type blocks (with the single-clause short form), rules, parameterised rules and the file with its default rule
   (`rules_file`, 1840-1932).  The result is a generic tree (constructor tags as strings), so that one comparison function serves
   every node kind; literals appear as the `lit` of ValueParse (positions are not part of the tree).  The lower, proved layers
   (QueryParse .. CallParse) are reused for the leaves; the recursion is on one fuel.  Outside the model (PUnk): floats, non-ASCII
   letters right after a name.  No proofs here. *)
From GV.Model Require Import Ast.
From GV.Model Require Import ValueParse QueryParse OpParse ClauseParse CnfParse FilterParse ClauseFParse LetParse CallParse.
Local Open Scope string_scope.

Inductive tree := Leaf (s : string) | T (tag : string) (kids : list tree).

Fixpoint tree_eqb (a b : tree) {struct a} : bool :=
  match a, b with
  | Leaf x, Leaf y => String.eqb x y
  | T t ks, T u ls =>
      String.eqb t u &&
      (fix go (xs ys : list tree) : bool :=
         match xs, ys with
         | [], [] => true
         | x :: xs', y :: ys' => tree_eqb x y && go xs' ys'
         | _, _ => false
         end) ks ls
  | _, _ => false
  end.

Definition tbool (b : bool) : tree := Leaf (if b then "true" else "false").
Definition topt (o : option tree) : tree := match o with Some t => T "some" [t] | None => T "none" [] end.
Definition tostr (o : option string) : tree := topt (option_map Leaf o).

Fixpoint lit_tree (l : lit) : tree :=
  match l with
  | VNull => T "null" []
  | VStr s => T "str" [Leaf s]
  | VRegex s => T "regex" [Leaf s]
  | VBool b => T "bool" [tbool b]
  | VInt z => T "int" [Leaf (Z_to_string z)]
  | VChar a => T "char" [Leaf (String a EmptyString)]
  | VList xs => T "list" (map lit_tree xs)
  | VMap kvs => T "map" (map (fun kv => T "kv" [Leaf (fst kv); lit_tree (snd kv)]) kvs)
  | VRangeInt lo hi i => T "rint" [Leaf (Z_to_string lo); Leaf (Z_to_string hi); Leaf (N_to_string i)]
  | VRangeChar lo hi i => T "rchar" [Leaf (String lo EmptyString); Leaf (String hi EmptyString); Leaf (N_to_string i)]
  end.

Definition op_name (o : cmp_op) : string :=
  match o with
  | OEq => "Eq" | OIn => "In" | OGt => "Gt" | OLt => "Lt" | OLe => "Le" | OGe => "Ge" | OExists => "Exists" | OEmpty => "Empty"
  | OIsString => "IsString" | OIsList => "IsList" | OIsMap => "IsMap" | OIsBool => "IsBool" | OIsInt => "IsInt" | OIsFloat => "IsFloat" | OIsNull => "IsNull"
  end.
Definition tcmp (c : cmp_op * bool) : tree := T "cmp" [Leaf (op_name (fst c)); tbool (snd c)].
Definition fn_label (f : fn_name) : string :=
  match f with
  | FCount => "Count" | FJoin => "Join" | FJsonParse => "JsonParse" | FNow => "Now" | FParseBoolean => "ParseBoolean" | FParseChar => "ParseChar"
  | FParseEpoch => "ParseEpoch" | FParseFloat => "ParseFloat" | FParseInt => "ParseInt" | FParseString => "ParseString" | FRegexReplace => "RegexReplace"
  | FSubstring => "Substring" | FToLower => "ToLower" | FToUpper => "ToUpper" | FUrlDecode => "UrlDecode"
  end.

Definition part_tree (p : query_part) : tree :=
  match p with
  | QThis => T "This" []
  | QKey k => T "Key" [Leaf k]
  | QAllValues n => T "AllValues" [tostr n]
  | QAllIndices n => T "AllIndices" [tostr n]
  | QIndex i => T "Index" [Leaf (Z_to_string i)]
  | _ => T "?" []
  end.
Definition tquery (all : bool) (parts : list tree) : tree := T "Q" [tbool all; T "parts" parts].
Definition named_tree (n : pnamed) : tree := T "Named" [Leaf (pn_name n); tbool (pn_neg n); tostr (pn_msg n)].
Definition tblock (lets cnf : list tree) : tree := T "Block" [T "lets" lets; T "cnf" cnf].
Definition tor (alts : list tree) : tree := T "or" alts.

Definition pbind {A B} (x : pres A) (f : A -> string -> pres B) : pres B :=
  match x with POk a r => f a r | PErr => PErr | PFail => PFail | PUnk => PUnk | POof => POof end.
Definition pcut {A} (x : pres A) : pres A := match x with PErr => PFail | other => other end.
Definition popt {A} (x : pres A) (s : string) : pres (option A) :=
  match x with POk a r => POk (Some a) r | PErr => POk None s | PFail => PFail | PUnk => PUnk | POof => POof end.

Definition ws1 (s : string) : option string := if starts_layout s then Some (skip_ws_comments s) else None.

(* after a variable head the parser inserts [*] unless one is written *)
Definition after_var (f : query_part) (parts : list tree) : list tree :=
  if part_is_variable f then
    match parts with
    | T tag _ :: _ => if String.eqb tag "AllIndices" then parts else T "AllIndices" [tostr None] :: parts
    | _ => T "AllIndices" [tostr None] :: parts
    end
  else parts.

(* fold_many1 over a part parser *)
Fixpoint loop_parts (pf : string -> pres tree) (k : nat) (acc : list tree) (s : string) : pres (list tree) :=
  match k with
  | O => POof
  | S k' =>
      match pf s with
      | POk p r => loop_parts pf k' (acc ++ [p]) r
      | PErr => POk acc s
      | PFail => PFail
      | PUnk => PUnk
      | POof => POof
      end
  end.

(* the items of a block: assignments and lines, in any order, at least one *)
Fixpoint block_items (asg dis : string -> pres tree) (k : nat) (lets cnf : list tree) (s : string) : pres (list tree * list tree) :=
  match k with
  | O => POof
  | S k' =>
      match asg (skip_ws_comments s) with
      | POk a r => block_items asg dis k' (lets ++ [a]) cnf r
      | PErr =>
          match dis s with
          | POk d r => block_items asg dis k' lets (cnf ++ [d]) r
          | PErr => match lets, cnf with [], [] => PErr | _, _ => POk (lets, cnf) s end
          | PFail => PFail
          | PUnk => PUnk
          | POof => POof
          end
      | PFail => PFail
      | PUnk => PUnk
      | POof => POof
      end
  end.

(* type_name: three names joined by `::` (an optional `::MODULE` behind), else two *)
Definition name_then_colons (s : string) : pres string :=
  pbind (var_name s) (fun n r => match alt_tags ["::"] r with Some r' => POk n r' | None => PErr end).
Definition type_name (s : string) : pres string :=
  let three := pbind (name_then_colons s) (fun a r1 => pbind (name_then_colons r1) (fun b r2 => pbind (var_name r2) (fun c r3 =>
                 POk (a +++ "::" +++ b +++ "::" +++ c) (match alt_tags ["::MODULE"] r3 with Some r4 => r4 | None => r3 end)))) in
  match three with
  | PErr => pbind (name_then_colons s) (fun a r1 => pbind (var_name r1) (fun b r2 => POk (a +++ "::" +++ b) r2))
  | other => other
  end.

Section WithRegex.
Variable regex_valid : string -> bool.
Variable file_name : string.

Fixpoint xaccess (fuel : nat) (s : string) : pres tree :=
  match fuel with
  | O => POof
  | S n =>
      let '(all, s1) := match some_keyword s with Some r => (false, r) | None => (true, s) end in
      let first : pres query_part :=
        match this_keyword s1 with
        | Some r => POk QThis r
        | None => pmap QKey (palt (var_access s1) (property_name s1))
        end in
      pbind first (fun f r =>
        match xpart n r with
        | POk p r1 => pbind (loop_parts (xpart n) n [p] r1) (fun parts r' => POk (tquery all (part_tree f :: after_var f parts)) r')
        | PErr => POk (tquery all [part_tree f]) r
        | PFail => PFail
        | PUnk => PUnk
        | POof => POof
        end)
  end

with xpart (fuel : nat) (s : string) : pres tree :=
  match fuel with
  | O => POof
  | S n =>
      match dotted_property s with
      | PErr =>
          match ws_char "[" s with
          | None => PErr
          | Some s1 =>
              let keys : pres tree :=
                pbind (capture s1) (fun name s2 =>
                  match alt_tags kw_keys (skip_ws_comments s2) with
                  | None => PErr
                  | Some s3 =>
                      pbind (pcut (keys_cmp (skip_ws_comments s3))) (fun c s4 =>
                        let closing (w : tree) (s5 : string) : pres tree :=
                          match ws_char "]" s5 with Some r => POk (T "Keys" [tostr name; tcmp c; w]) r | None => PErr end in
                        match parse_value regex_valid n s4 with
                        | POk l s5 => closing (T "Lit" [lit_tree l]) s5
                        | PErr => pbind (pcut (xaccess n (skip_ws_comments s4))) (fun q s5 => closing (T "Query" [q]) s5)
                        | PFail => PFail
                        | PUnk => PUnk
                        | POof => POof
                        end)
                  end) in
              let filter : pres tree :=
                pbind (capture s1) (fun name s2 =>
                  pbind (cnf (fun _ t => xclause n t) n s2) (fun l r =>
                    match ws_char "]" r with
                    | Some r' => POk (T "Filter" [tostr name; T "cnf" (map tor l)]) r'
                    | None => PFail
                    end)) in
              palt (pmap part_tree (all_indices_body s1)) (palt (pmap part_tree (array_index_body s1)) (palt (pmap part_tree (map_key_lookup_body s1))
                   (palt keys filter)))
          end
      | other => pmap part_tree other
      end
  end

(* let_value: a value literal, else a function call, else a query *)
with xvalue (fuel : nat) (s : string) : pres tree :=
  match fuel with
  | O => POof
  | S n =>
      let t := skip_ws_comments s in
      match parse_value regex_valid n t with
      | POk l r => POk (T "Lit" [lit_tree l]) r
      | PErr =>
          match xfunction n t with
          | PErr => pmap (fun q => T "Query" [q]) (xaccess n t)
          | other => other
          end
      | PFail => PFail
      | PUnk => PUnk
      | POof => POof
      end
  end

(* call_expr: a name, `(`, arguments separated by bare commas, `)` *)
with xcall_expr (fuel : nat) (t : string) : pres (string * list tree) :=
  match fuel with
  | O => POof
  | S n =>
      let arg (u : string) : pres tree :=
        match xvalue n (skip_ws_only u) with
        | POk v r => POk v (skip_ws_only r)
        | other => other
        end in
      pbind (var_name t) (fun name r =>
        match expect "(" r with
        | None => PErr
        | Some r1 =>
            pbind (sep_list0 (expect ",") arg n r1) (fun args r2 =>
              match expect ")" r2 with
              | None => PErr
              | Some r3 => POk (name, args) r3
              end)
        end)
  end

(* function_expr: a call of a built-in function with its number of arguments *)
with xfunction (fuel : nat) (t : string) : pres tree :=
  match fuel with
  | O => POof
  | S n =>
      pbind (xcall_expr n t) (fun na r =>
        match assoc (fst na) fn_table with
        | Some (f, k) => if Nat.eqb (List.length (snd na)) k then POk (T "Call" [Leaf (fn_label f); T "args" (snd na)]) r else PErr
        | None => PErr
        end)
  end

(* the access clause *)
with xaccess_clause (fuel : nat) (s : string) : pres tree :=
  match fuel with
  | O => POof
  | S n =>
      let s0 := skip_ws_comments s in
      let '(neg, s1) := match not_kw s0 with Some r => (true, r) | None => (false, s0) end in
      pbind (xaccess n s1) (fun q r1 =>
        pbind (value_cmp (skip_ws_comments r1)) (fun c r2 =>
          if is_unary (fst c) then pmap (fun m => T "Clause" [tbool neg; q; tcmp c; topt None; tostr m]) (opt_message r2)
          else pbind (pcut (xvalue n r2)) (fun w r3 => pmap (fun m => T "Clause" [tbool neg; q; tcmp c; topt (Some w); tostr m]) (opt_message r3))))
  end

(* parameterized_rule_call_clause *)
with xparam_call (fuel : nat) (s : string) : pres tree :=
  match fuel with
  | O => POof
  | S n =>
      let '(neg, s1) := match not_kw s with Some r => (true, r) | None => (false, s) end in
      pbind (xcall_expr n s1) (fun na r =>
        (* opt(preceded(layout, custom_message)) *)
        match custom_message (skip_ws_comments r) with
        | POk m r' => POk (T "PCall" [tbool neg; Leaf (fst na); T "args" (snd na); tostr (Some m)]) r'
        | PErr => POk (T "PCall" [tbool neg; Leaf (fst na); T "args" (snd na); tostr None]) r
        | PFail => PFail
        | PUnk => PUnk
        | POof => POof
        end)
  end

(* the conditions after `when`: layout, the keyword, at least one blank, the lines (cut) *)
with xwhen_conds (fuel : nat) (s : string) : pres tree :=
  match fuel with
  | O => POof
  | S n =>
      match alt_tags kw_when (skip_ws_comments s) with
      | None => PErr
      | Some r =>
          match ws1 r with
          | None => PFail
          | Some r1 =>
              let elem (t : string) : pres tree :=
                palt (xaccess_clause n t) (palt (xparam_call n t) (pmap named_tree (rule_clause t))) in
              pmap (fun l => T "cnf" (map tor l)) (pcut (cnf (fun _ t => elem t) n r1))
          end
      end
  end

(* a block over a given kind of element: 0 = clause, 1 = clause or rule reference, 2 = rule-level clause *)
with xblock (fuel : nat) (kind : nat) (s : string) : pres tree :=
  match fuel with
  | O => POof
  | S n =>
      match ws_char "{" s with
      | None => PErr
      | Some s1 =>
          let elem (t : string) : pres tree :=
            match kind with
            | O => xclause n t
            | S O => palt (xclause n t) (pmap named_tree (rule_clause t))
            | _ => xrule_clause n t
            end in
          let dis (t : string) : pres tree := pmap tor (disjunction (fun _ u => elem u) n t) in
          pbind (block_items (xassignment n) dis n [] [] s1) (fun lc r =>
            match ws_char "}" r with
            | Some r' => POk (tblock (fst lc) (snd lc)) r'
            | None => PFail
            end)
      end
  end

(* assignment: see LetParse / CallParse *)
with xassignment (fuel : nat) (s : string) : pres tree :=
  match fuel with
  | O => POof
  | S n =>
      match alt_tags kw_let_keyword s with
      | None => PErr
      | Some s1 =>
          match ws1 s1 with
          | None => PErr
          | Some s1' =>
              pbind (var_name s1') (fun name s2 =>
                match alt_tags kw_assign (skip_ws_comments s2) with
                | None => PFail
                | Some s3 =>
                    match parse_value regex_valid n s3 with
                    | POk l r => POk (T "Let" [Leaf name; T "Lit" [lit_tree l]]) r
                    | PErr =>
                        let t := skip_ws_comments s3 in
                        let query : pres tree := pmap (fun q => T "Let" [Leaf name; T "Query" [q]]) (pcut (xaccess n t)) in
                        match xfunction n t with
                        | POk v r => POk (T "Let" [Leaf name; v]) r
                        | PErr => query
                        | PFail => query
                        | PUnk => PUnk
                        | POof => POof
                        end
                    | PFail => PFail
                    | PUnk => PUnk
                    | POof => POof
                    end
                end)
          end
      end
  end

(* clause: a when block, a block clause, a parameterised call, an access clause *)
with xclause (fuel : nat) (s : string) : pres tree :=
  match fuel with
  | O => POof
  | S n =>
      let when_block : pres tree :=
        pbind (xwhen_conds n s) (fun conds r => pmap (fun b => T "When" [conds; b]) (xblock n 0 r)) in
      let block_clause : pres tree :=
        pbind (xaccess n s) (fun q r =>
          let '(ne, r1) :=
            match not_kw (skip_ws_comments r) with
            | Some r' => match alt_tags kw_empty r' with Some r'' => (true, r'') | None => (false, r) end
            | None => (false, r)
            end in
          pmap (fun b => T "BlockClause" [q; tbool ne; b]) (xblock n 0 r1)) in
      palt when_block (palt block_clause (palt (xparam_call n s) (xaccess_clause n s)))
  end

(* type block *)
with xtype_block (fuel : nat) (s : string) : pres tree :=
  match fuel with
  | O => POof
  | S n =>
      pbind (type_name s) (fun name r =>
        match ws1 r with
        | None => PFail
        | Some r1 =>
            pbind (popt (xwhen_conds n r1) r1) (fun conds r2 =>
              match conds with
              | Some c => pmap (fun b => T "Type" [Leaf name; topt (Some c); b]) (pcut (xblock n 0 r2))
              | None =>
                  match xblock n 0 r2 with
                  | PErr => pmap (fun c => T "Type" [Leaf name; topt None; tblock [] [tor [c]]]) (pcut (xclause n (skip_ws_comments r2)))
                  | other => pmap (fun b => T "Type" [Leaf name; topt None; b]) other
                  end
              end)
        end)
  end

(* rule_block_clause: a type block, a when block, a clause or a rule reference *)
with xrule_clause (fuel : nat) (s : string) : pres tree :=
  match fuel with
  | O => POof
  | S n =>
      let s0 := skip_ws_comments s in
      let when_block : pres tree :=
        pbind (xwhen_conds n s0) (fun conds r => pmap (fun b => T "RWhen" [conds; b]) (xblock n 1 r)) in
      palt (pmap (fun t => T "RType" [t]) (xtype_block n s0))
           (palt when_block (pmap (fun c => T "RClause" [c]) (palt (xclause n s0) (pmap named_tree (rule_clause s0)))))
  end.

(* ---------------------------------------------------------------- rules and the file *)
Definition rule_keyword (s : string) : option string :=
  match alt_tags ["rule"] (skip_ws_comments s) with Some r => ws1 r | None => None end.

Definition xrule (n : nat) (s : string) : pres tree :=
  match rule_keyword s with
  | None => PErr
  | Some r =>
      pbind (pcut (var_name r)) (fun name r1 =>
        pbind (popt (xwhen_conds n r1) r1) (fun conds r2 =>
          pmap (fun b => T "Rule" [Leaf name; topt conds; b]) (pcut (xblock n 2 r2))))
  end.

Definition param_name (u : string) : pres tree :=
  match var_name (skip_ws_only u) with
  | POk v r => POk (Leaf v) (skip_ws_only r)
  | PErr => PFail
  | PFail => PFail
  | PUnk => PUnk
  | POof => POof
  end.

Definition xprule (n : nat) (s : string) : pres tree :=
  match rule_keyword s with
  | None => PErr
  | Some r =>
      pbind (pcut (var_name r)) (fun name r1 =>
        match expect "(" r1 with
        | None => PErr
        | Some r2 =>
            pbind (param_name r2) (fun p0 r3 =>
              pbind (sep_loop (expect ",") param_name n [p0] r3) (fun params r4 =>
                match expect ")" r4 with
                | None => PFail
                | Some r5 => pmap (fun b => T "PRule" [T "params" params; T "Rule" [Leaf name; topt None; b]]) (pcut (xblock n 2 r5))
                end))
        end)
  end.

(* one top-level expression, tagged by its kind *)
Definition xexpr (n : nat) (s : string) : pres tree :=
  let s0 := skip_ws_comments s in
  let body_elem (t : string) : pres tree := palt (xclause n t) (pmap named_tree (rule_clause t)) in
  let default_when : pres tree :=
    pbind (xwhen_conds n s0) (fun conds r => pmap (fun b => T "DWhen" [conds; b]) (xblock n 1 r)) in
  pmap (fun t => t)
    (palt (pmap (fun a => T "EAssign" [a]) (xassignment n s0))
    (palt (pmap (fun p => T "EPRule" [p]) (xprule n s0))
    (palt (pmap (fun r => T "ERule" [r]) (xrule n s0))
    (palt (pmap (fun l => T "DType" l) (disjunction (fun _ u => xtype_block n u) n s0))
    (palt default_when
          (pmap (fun l => T "DClause" l) (disjunction (fun _ u => xclause n u) n s0))))))).

Fixpoint exprs_loop (n k : nat) (acc : list tree) (s : string) : pres (list tree) :=
  match k with
  | O => POof
  | S k' =>
      match xexpr n s with
      | POk e r => exprs_loop n k' (acc ++ [e]) (skip_ws_comments r)
      | PErr => match acc with [] => PErr | _ => POk acc s end
      | PFail => PFail
      | PUnk => PUnk
      | POof => POof
      end
  end.

Definition kids_of (tag : string) (e : tree) : option (list tree) :=
  match e with T t ks => if String.eqb t tag then Some ks else None | Leaf _ => None end.
Definition pick (tag : string) (es : list tree) : list tree :=
  flat_map (fun e => match kids_of tag e with Some [x] => [x] | _ => [] end) es.
Definition default_lines (es : list tree) : list tree :=
  flat_map (fun e =>
    match e with
    | T tag ks =>
        if String.eqb tag "DClause" then [tor (map (fun c => T "RClause" [c]) ks)]
        else if String.eqb tag "DType" then [tor (map (fun t => T "RType" [t]) ks)]
        else if String.eqb tag "DWhen" then [tor [T "RWhen" ks]]
        else []
    | Leaf _ => []
    end) es.

(* rules_file: Empty for a file of layout only; all input must be consumed *)
Inductive file_result := FEmpty | FOk (t : tree) | FErr | FUnk | FOof.

Definition rules_file (s : string) : file_result :=
  let s0 := skip_ws_comments s in
  match s0 with
  | EmptyString => FEmpty
  | _ =>
      let n := (3 * String.length s + 8)%nat in
      match exprs_loop n n [] s0 with
      | POk es EmptyString =>
          let dl := default_lines es in
          let rules := pick "ERule" es in
          let rules' := match dl with
                        | [] => rules
                        | _ => T "Rule" [Leaf (file_name +++ "/default"); topt None; tblock [] dl] :: rules
                        end in
          FOk (T "File" [T "lets" (pick "EAssign" es); T "rules" rules'; T "prules" (pick "EPRule" es)])
      | POk _ _ => FErr
      | PErr => FErr
      | PFail => FErr
      | PUnk => FUnk
      | POof => FOof
      end
  end.
End WithRegex.

(* ---------------------------------------------------------------- the tie *)
Inductive impl_file := IFileOk (t : tree) | IFileEmpty | IFileErr.
Inductive file_verdict := FVAgree | FVAgreeReject | FVNotModelled | FVDisagree | FVOutOfFuel.

Definition rules_file_obs (regex_valid : string -> bool) (name : string) (text : string) (i : impl_file) : file_verdict :=
  match rules_file regex_valid name text, i with
  | FUnk, _ => FVNotModelled
  | FOof, _ => FVOutOfFuel
  | FOk t, IFileOk t' => if tree_eqb t t' then FVAgree else FVDisagree
  | FEmpty, IFileEmpty => FVAgree
  | FErr, IFileErr => FVAgreeReject
  | _, _ => FVDisagree
  end.
