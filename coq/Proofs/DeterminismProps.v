(* DeterminismProps.v — ordering facts behind C05: where the code iterates an ordered container the order is a
   function of the evaluation record; where it iterates a hash container (console reporters only) any two
   iteration orders give the same blocks up to permutation. *)
From Coq Require Import Permutation.
From GV.Model Require Import TestCmd.

(* first-occurrence de-duplication *)
Fixpoint dedup (l : list string) : list string :=
  match l with
  | [] => []
  | x :: r => x :: filter (fun y => negb (String.eqb y x)) (dedup r)
  end.

Lemma group_insert_keys : forall name st acc,
  map fst (group_insert name st acc) =
  if existsb (String.eqb name) (map fst acc) then map fst acc else map fst acc ++ [name].
Proof.
  intros name st acc. induction acc as [|[k l] acc IH]; cbn; [reflexivity|].
  destruct (String.eqb k name) eqn:E.
  - apply String.eqb_eq in E. subst. now rewrite String.eqb_refl.
  - rewrite String.eqb_sym, E. cbn. rewrite IH. now destruct (existsb _ _).
Qed.

Fixpoint add_keys (acc : list string) (names : list string) : list string :=
  match names with
  | [] => acc
  | n :: r => add_keys (if existsb (String.eqb n) acc then acc else acc ++ [n]) r
  end.

Lemma get_by_rules_keys_acc : forall rules acc,
  map fst (fold_left (fun acc r => group_insert (fst r) (snd r) acc) rules acc) =
  add_keys (map fst acc) (map fst rules).
Proof.
  induction rules as [|[n st] rules IH]; intros acc; cbn; [reflexivity|].
  rewrite IH, group_insert_keys. reflexivity.
Qed.

(* the rule names of a test case are listed in the order in which the rules first appear in the evaluation
   record: a function of the record alone (no hash seed) *)
Theorem get_by_rules_order : forall rules,
  map fst (get_by_rules rules) = add_keys [] (map fst rules).
Proof. intros. unfold get_by_rules. now rewrite get_by_rules_keys_acc. Qed.

(* console reporters: a hash container is iterated and one block of lines is printed per entry. Whatever the
   iteration orders, the printed blocks are the same up to permutation. *)
Theorem blocks_perm_invariant : forall A B (render : A -> B) (entries : list A) (order1 order2 : list A -> list A),
  (forall l, Permutation (order1 l) l) -> (forall l, Permutation (order2 l) l) ->
  Permutation (map render (order1 entries)) (map render (order2 entries)).
Proof.
  intros A B render entries o1 o2 H1 H2. apply Permutation_map.
  eapply Permutation_trans; [apply H1|]. apply Permutation_sym. apply H2.
Qed.

(* ... and a reporter that sorts the keys before printing (print_test_case_report, the summary table's BTreeSets)
   prints the same sequence for every iteration order *)
Theorem sorted_order_invariant : forall A (sort : list A -> list A) (order1 order2 : list A -> list A) entries,
  (forall l l', Permutation l l' -> sort l = sort l') ->
  (forall l, Permutation (order1 l) l) -> (forall l, Permutation (order2 l) l) ->
  sort (order1 entries) = sort (order2 entries).
Proof.
  intros A sort o1 o2 entries Hs H1 H2. apply Hs.
  eapply Permutation_trans; [apply H1|]. apply Permutation_sym. apply H2.
Qed.
