"""C08 — no input crashes the tool; bad input is reported as an error (partial).

proof   : Props/C08.v (the guarded invariants of the modelled panic sites; executable witnesses for reference cycles)
tie     : panic-site inventory regenerated from the source (unreachable!/unimplemented!/panic!/unwrap()/expect() against
          the reviewed list: a new or changed site is reported; SEval vs implementation on programs that include the
          shapes the quantifier names (type-mismatched function arguments, literal left-hand sides, chained filters,
          self-referential rules): where the model predicts a panic or non-termination the implementation crashes
search  : grammar-generated then mutated (truncation, deletion, duplication, splice, unicode insertion) rule texts,
          documents, test files, payloads and parameter files through validate, test, parse-tree, rulegen and
          run_checks: any panic, abort, or hang is a failing input; a rules file the parser rejects must produce a
          diagnostic that names a line and a column, and none of its rules may be evaluated
not provable here: the nom parser as a whole, libyaml, serde, clap, stack depth - fuzzing is a search, not a proof.
"""
import json, random, os, re
from .. import coqterm as ct
from .. import impl, model, corr, gen, e2e, inventory
from ..common import *

CRASH_CODES = (101, 134, -6, -11, 139)

KNOWN_WITNESSES = [
    ('reference-cycle', 'rule r {\n  r\n}\n', '{}'),
    ('reference-cycle', 'rule a {\n  b\n}\nrule b {\n  a\n}\n', '{}'),
    ('reference-cycle', 'let a = %b\nlet b = %a\nrule r {\n  %a == 1\n}\n', '{}'),
]


def reference_cycle(ast):
    """does the parsed rules file (hook dump) contain a rule-reference or variable-reference cycle?"""
    if not ast or ast[0] != 'RulesFile':
        return False
    graph = {}
    def names_in(j, kind):
        out = set()
        def f(x):
            if isinstance(x, list) and x and x[0] == kind and len(x) > 1:
                out.add(ct.S(x[1]) if not isinstance(x[1], str) else x[1])
        ct.walk(j, f)
        return out
    for r in ct.L(ast[2]):
        graph.setdefault('R:' + ct.S(r[1]), set()).update('R:' + n for n in names_in(r, 'GuardNamedRuleClause'))
    def var_refs(j):
        out = set()
        def f(x):
            if isinstance(x, list) and x and x[0] == 'Key' and len(x) > 1:
                k = ct.S(x[1])
                if k.startswith('%'):
                    out.add(k[1:])
        ct.walk(j, f)
        return out
    def collect_lets(j):
        def f(x):
            if isinstance(x, list) and x and x[0] == 'LetExpr':
                graph.setdefault('V:' + ct.S(x[1]), set()).update('V:' + n for n in var_refs(x[2]))
        ct.walk(j, f)
    collect_lets(ast)
    color = {}
    def dfs(n):
        color[n] = 1
        for m in graph.get(n, ()):
            if color.get(m) == 1:
                return True
            if m in graph and color.get(m) is None and dfs(m):
                return True
        color[n] = 2
        return False
    return any(color.get(n) is None and dfs(n) for n in list(graph))


def classify_crash(ctx, what, info, rules_text=None, certified=False):
    cls = 'crash'
    if certified:
        what += ' [the program is stratified: Strat.terminates_within certifies a fuel bound, C08_terminates_within_sound]'
    if rules_text is not None and not certified:
        r = impl.run_ops([{'op': 'ast', 'rules': rules_text}], ctx.wd, 'c08ast')[0]
        a = r.get('res')
        if a and a[0] == 'Ok' and reference_cycle(a[1]):
            cls = 'reference-cycle'
    ctx.failing(what, dict(info, **{'class': cls}), found=True)


def model_correspondence(ctx, n):
    rng = random.Random(ctx.seed * 307 + 8)
    feats = {'cycles': 0.04, 'captures': True}
    pairs = [{'rules': r, 'data': d} for _, r, d in KNOWN_WITNESSES]
    for i in range(n):
        doc, prog = gen.gen_pair(rng, feats)
        text = gen.render_file(prog)
        if rng.random() < 0.3:
            # shapes the quantifier names: a function argument that selects nothing / of the wrong type, a literal on the
            # left through a variable, chained filters, a filter after `this` or an index
            text += rng.choice([
                'let jn = join(Resources.*[ Type == "nothing" ].Name, zz[ k == 1 ].d)\nrule fx1 {\n  %jn == "a"\n}\n',
                'let sb = substring(name, zz.from, 3)\nrule fx2 {\n  %sb == "a"\n}\n',
                'let lit = [1, 2]\nrule fx3 {\n  %lit[ this == 1 ] !empty\n  %lit[0][ this == 1 ] empty\n}\n',
                'rule fx4 {\n  this[ a exists ][ b exists ][ c exists ] empty\n  l[-2147483648] !exists\n}\n',
                'let rr = regex_replace(name, zz.a, zz.b)\nrule fx5 {\n  %rr exists\n}\n',
                'let up = to_upper(l)\nlet pi = parse_int(m)\nrule fx6 {\n  %up !exists or\n  %pi !exists\n}\n',
            ])
        pairs.append({'rules': text, 'data': json.dumps(doc)})
    # every case also runs the proven termination test on the AST the implementation parsed: `Some w` = the program is
    # stratified and fuel w is enough for every document (TermProps.terminates_within_sound), `None` = not certified
    out, errs = corr.run(pairs, ctx.wd, 'c08corr', loader='cli', expr='({check}, pwf_prog p{i} && vwf_prog p{i} && wfv d{i}, terminates_within p{i} 12)',
                         header='From GV.Model Require Import Check Strat.\n')
    if errs:
        raise ToolingError('model evaluation failed: %r' % (errs[:1],))
    stats = {}
    strat = {'certified': 0, 'not_certified': 0, 'max_bound': 0, 'certified_but_python_sees_a_cycle': 0, 'uncertified_without_python_cycle': 0}
    for o, p in zip(out, pairs):
        cert = None
        if o['kind'] == 'compared':
            m = re.match(r'\((.*), (true|false), (Some (\d+)%nat|None)\)$', o['verdict'])
            if not m:
                raise ToolingError('unexpected case output %r' % o['verdict'][:200])
            o['verdict'] = m.group(1)
            cert = int(m.group(4)) if m.group(4) else None
            strat['parser_shaped'] = strat.get('parser_shaped', 0) + int(m.group(2) == 'true')
            if m.group(2) != 'true':
                # the hypothesis of C08_no_panic_site_is_reached is a claim about the parser: an accepted rules file whose AST is
                # not parser-shaped takes the theorem away (and the model then says which panic site is reached, if any)
                ctx.failing('the parser accepted a rules file whose AST is not parser-shaped, or the loader built a struct whose key list names a key it does not hold (Strat.pwf_prog && Strat.vwf_prog && Strat.wfv = false): the premises of C08_evaluation_never_panics do not hold of the pair',
                            {'class': 'parser-shape', 'rules': p['rules'], 'data': p['data'], 'model': o['verdict']}, found=('Panic' in o['verdict'] or 'panic' in str(o.get('impl'))))
            o['certified'] = cert
            pyc = reference_cycle(o['ast'])
            if cert is not None:
                strat['certified'] += 1; strat['max_bound'] = max(strat['max_bound'], cert)
                strat['certified_but_python_sees_a_cycle'] += int(pyc)
                if o['verdict'] in ('VAgreeNonTerm', 'VModelOOF') and cert <= corr.FUEL:
                    raise ToolingError('the model ran out of fuel %d on a program certified for fuel %d: impossible by C08_terminates_within_sound' % (corr.FUEL, cert))
            else:
                strat['not_certified'] += 1
                strat['uncertified_without_python_cycle'] += int(not pyc)
        key = o['kind'] if o['kind'] != 'compared' else o['verdict']
        stats[key] = stats.get(key, 0) + 1
        if o['kind'] == 'died_unparsed':
            ctx.failing('the implementation crashed on an input that does not even parse/load', {'class': 'crash', 'rules': p['rules'], 'data': p['data'], 'raw': str(o.get('raw'))[:300]}, found=True)
            continue
        if o['kind'] != 'compared':
            continue
        v = o['verdict']
        if v in ('VAgreePanic', 'VAgreeNonTerm') or 'panic' in str(o.get('impl')) or o.get('impl') == 'abort':
            classify_crash(ctx, 'evaluation crashes (%s; model: %s)' % (o.get('impl'), v), {'rules': p['rules'], 'data': p['data'], 'impl': o.get('impl'), 'model': v}, p['rules'],
                           certified=(o.get('certified') is not None and o.get('impl') == 'abort'))
        elif re.search(r'VDis|VModelOOF|NoModelOutput', v):
            ctx.failing('model and implementation disagree on a generated program (%s)' % v,
                        {'class': 'eval-correspondence', 'verdict': v, 'rules': p['rules'], 'data': p['data']}, found=False)
    ctx.coverage['stratification'] = strat
    ctx.coverage['correspondence_verdicts'] = stats
    ctx.coverage['evaluations'] += len(pairs)
    return len(pairs)


MB_STRINGS = ['h\u00e9llo-w\u00f6rld', '\u0130', '\u65e5\u672c\u8a9e', 'a\U0001f600b', 'abc', '']


def directed_shapes():
    """crash-prone shapes enumerated rather than sampled: substring with every offset pair on strings with multi-byte
    characters; parameterised rules called with every arity 0..3 against 1..2 declared names, also a repeated name"""
    out = []
    doc = {'s': MB_STRINGS, 'one': MB_STRINGS[0], 'o': {'a': 1, 'b': 2}, 'n': 3}
    d = json.dumps(doc, ensure_ascii=False)
    for i in range(0, 7):
        for j in range(0, 9):
            out.append(('substring', 'let sb = substring(s[*], %d, %d)\nlet sc = substring(one, %d, %d)\nrule r {\n  %%sb exists\n  %%sc !empty\n}\n' % (i, j, i, j), d))
    decls = ['rule f(p) {\n  %p exists\n}\n', 'rule f(p, q) {\n  %p exists\n  %q exists\n}\n', 'rule f(p, p) {\n  %p exists\n}\n',
             'rule f(p, q, p) {\n  %p exists\n  %q exists\n}\n']
    calls = ['f()', 'f(o)', 'f(o, n)', 'f(o, n, 1)', 'f(o, n, 1, "x")', 'f(o.a, o.a)']
    for dcl in decls:
        for c in calls:
            out.append(('arity', dcl + 'rule r {\n  %s\n}\n' % c, d))
            out.append(('arity', dcl + 'rule r {\n  n == 3\n  o {\n    %s or a == 1\n  }\n}\n' % c.replace('(o', '(this').replace('n', 'a'), d))
    # `keys` filters: every operator against right-hand sides that are a literal, a list, a regex, a variable / query with
    # several values, one value, NO value at all, an unresolved path
    kdoc = json.dumps({'Resources': {'bucket': {'Type': 'T', 'n': 1}, 'queue': {'Type': 'U', 'n': 2}}, 'Allowed': [{'Kind': 'bucket', 'Name': 'bucket'}, {'Kind': 'q', 'Name': 'queue'}],
                       'Empty': [], 'One': 'bucket'})
    rhss = ['"bucket"', '["bucket", "queue"]', '/^b/', '%wanted', '%none', '%one', 'Allowed[*].Name', "Allowed[ Kind == 'zzz' ].Name", 'Missing.path', 'Empty[*]', '%lit']
    for op in ('==', '!=', 'in', 'not in', '>', '<='):
        for rhs in rhss:
            rules = ("let wanted = Allowed[ Kind == 'bucket' ].Name\nlet none = Allowed[ Kind == 'zzz' ].Name\nlet one = One\nlet lit = \"queue\"\n"
                     "rule r {\n  Resources[ keys %s %s ].Type == 'T'\n}\nrule s {\n  some Resources[ keys %s %s ].n >= 1\n  Resources[ keys %s %s ] !empty\n}\n" % (op, rhs, op, rhs, op, rhs))
            out.append(('keys-filter', rules, kdoc))
    # patterns that exhaust the regex engine's backtracking budget: an error (or no match), never a hang
    hdoc = json.dumps({'s': 'a' * 40, 'l': ['a' * 30, 'b']})
    for pat in ('(a+)+\\1b', '(a*)*\\1c', '(?=(a+)+b)a'):
        out.append(('regex-limit', 'let r = regex_replace(s, "%s", "x")\nrule t {\n  %%r exists\n}\n' % pat, hdoc))
        out.append(('regex-limit', 'rule t {\n  s == /%s/\n}\nrule u {\n  l[*] != /%s/\n  s in [/%s/]\n}\n' % (pat.replace('\\\\', '\\'), pat.replace('\\\\', '\\'), pat.replace('\\\\', '\\')), hdoc))
    return out


def run_directed(ctx):
    shapes = directed_shapes()
    pairs = [{'rules': r, 'data': d} for _, r, d in shapes]
    out, errs = corr.run(pairs, ctx.wd, 'c08dir', loader='cli')
    if errs:
        raise ToolingError('model evaluation failed: %r' % (errs[:1],))
    stats = {}
    for o, p, sh in zip(out, pairs, shapes):
        key = sh[0] + ':' + (o['kind'] if o['kind'] != 'compared' else o['verdict'])
        stats[key] = stats.get(key, 0) + 1
        if o['kind'] == 'died_unparsed':
            ctx.failing('the implementation crashed on an input that does not even parse/load', {'class': 'crash', 'rules': p['rules'], 'data': p['data'], 'raw': str(o.get('raw'))[:300]}, found=True)
            continue
        if o['kind'] != 'compared':
            continue
        v = o['verdict']
        if v in ('VAgreePanic', 'VAgreeNonTerm') or 'panic' in str(o.get('impl')) or o.get('impl') == 'abort':
            classify_crash(ctx, '%s: evaluation crashes (%s; model: %s)' % (sh[0], str(o.get('impl'))[:200], v), {'rules': p['rules'], 'data': p['data'], 'impl': o.get('impl'), 'model': v}, p['rules'])
        elif re.search(r'VDis|VModelOOF|NoModelOutput', v):
            ctx.failing('model and implementation disagree on a directed %s program (%s)' % (sh[0], v),
                        {'class': 'eval-correspondence', 'verdict': v, 'rules': p['rules'], 'data': p['data']}, found=False)
    # the same programs through the binary (plain and structured)
    jobs, meta = [], []
    for k, (kind, r, d) in enumerate(shapes):
        dd = os.path.join(ctx.wd, 'dir%d' % k)
        e2e.write_files(dd, {'r.guard': r, 'd.json': d})
        jobs.append({'args': ['validate', '-r', 'r.guard', '-d', 'd.json'], 'cwd': dd}); meta.append(k)
        jobs.append({'args': ['validate', '-r', 'r.guard', '-d', 'd.json', '--structured', '-o', 'json', '-S', 'none'], 'cwd': dd}); meta.append(k)
    for k, (code, so, se) in zip(meta, e2e.run_many(jobs, timeout=30)):
        if code == 'timeout' or code in CRASH_CODES or (isinstance(code, int) and code < 0):
            classify_crash(ctx, '%s: validate crashes with status %s: %s' % (shapes[k][0], code, se.decode('utf-8', 'replace').split('\n')[0][:160]),
                           {'rules': shapes[k][1], 'data': shapes[k][2], 'stderr': se[:600].decode('utf-8', 'replace')}, shapes[k][1])
    ctx.coverage['directed_shapes'] = stats
    ctx.coverage['evaluations'] += len(pairs) + len(jobs)
    return len(pairs)


def run_variable_keys(ctx):
    """a variable used as a map key (`Resources.%names`), continued by an index, [*], a key - for variables that hold no value at all
    (a filter that selects nothing, an empty list, a missing path), one, two, a value that is no string: a verdict or an error, never a crash"""
    doc = json.dumps({'Resources': {'web': {'Type': 'T', 'n': 1}, 'db': {'Type': 'U', 'n': 2}}, 'Names': ['web', 'db'], 'One': 'web', 'Empty': [], 'Num': 3, 'Mixed': ['web', 7, None]})
    lets = ("let none = Resources.*[ Type == 'zzz' ].Name\nlet names = Names[*]\nlet one = One\nlet emp = Empty[*]\nlet num = Num\nlet gone = Nope.x\nlet mixed = Mixed[*]\n")
    jobs, meta = [], []
    k = 0
    for var in ('none', 'names', 'one', 'emp', 'num', 'gone', 'mixed'):
        for cont in ('', '[0]', '[1]', '[5]', '[*]', '.n', '[0].n', '[*].n', '[ n == 1 ]'):
            rules = lets + 'rule r {\n  Resources.%%%s%s exists\n}\nrule s {\n  some Resources.%%%s%s !empty\n}\nrule t when Resources.%%%s%s exists {\n  Num == 3\n}\n' % (var, cont, var, cont, var, cont)
            dd = os.path.join(ctx.wd, 'vk%d' % k); k += 1
            e2e.write_files(dd, {'r.guard': rules, 'd.json': doc})
            for flags in ([], ['--structured', '-o', 'json', '-S', 'none']):
                jobs.append({'args': ['validate', '-r', 'r.guard', '-d', 'd.json'] + flags, 'cwd': dd}); meta.append(rules)
    n = 0
    for rules, (code, so, se) in zip(meta, e2e.run_many(jobs, timeout=30)):
        n += 1
        if code == 'timeout' or code in CRASH_CODES or (isinstance(code, int) and code < 0):
            classify_crash(ctx, 'variable as a map key: validate crashes with status %s: %s' % (code, se.decode('utf-8', 'replace').split('\n')[0][:160]),
                           {'rules': rules, 'data': doc, 'stderr': se[:600].decode('utf-8', 'replace')}, rules)
    ctx.coverage['variable_key_runs'] = n
    ctx.coverage['evaluations'] += n
    return n


def run_cli_directed(ctx):
    """command-line shapes enumerated rather than sampled: a failing CloudFormation resource that comes from an input-parameter file
    longer than the data file (console excerpts), test-data directories that mix well-formed, truncated and empty files in every
    order, rules directories with an unparsable file among good ones"""
    import itertools
    jobs, meta = [], []
    rules = 'rule sized {\n  Resources.*[ Type == "AWS::S3::Bucket" ].Properties.Size >= 10 <<too small>>\n}\n'
    params = {'Resources': {'b%d' % i: {'Type': 'AWS::S3::Bucket', 'Properties': {'Size': i, 'Name': 'n%d' % i}} for i in range(6)}}
    for ptext, pname in ((json.dumps(params, indent=2), 'p.json'), (json.dumps(params), 'p1.json')):
        for dtext in ('{"Other": 1}', '{}', '{"Other":\n 1}\n'):
            d = os.path.join(ctx.wd, 'cli%d' % len(jobs))
            files = {'r.guard': rules, 'd.json': dtext, pname: ptext}
            e2e.write_files(d, files)
            for extra in ([], ['-v'], ['-S', 'all', '-o', 'yaml'], ['--structured', '-o', 'json', '-S', 'none'], ['-p']):
                jobs.append({'args': ['validate', '-r', 'r.guard', '-d', 'd.json', '-i', pname] + extra, 'cwd': d}); meta.append(('params-longer-than-data', jobs[-1]['args'], files))
    good = json.dumps([{'name': 'c', 'input': {'x': 1}, 'expectations': {'rules': {'t': 'PASS'}}}])
    kinds = {'good': good, 'truncated': good[:25], 'empty': '', 'notalist': '{"a": 1}', 'badyaml': 'a: [1, 2\n'}
    for combo in itertools.permutations(['good', 'truncated', 'empty', 'notalist', 'badyaml', 'good'], 2):
        d = os.path.join(ctx.wd, 'cli%d' % len(jobs))
        files = {'r.guard': 'rule t {\n  x == 1\n}\n'}
        for i, kd in enumerate(combo):
            files['tests/r_%d_tests.yaml' % i] = kinds[kd]
        e2e.write_files(d, files)
        for fmt in ([], ['-o', 'json'], ['-o', 'yaml'], ['-o', 'junit']):
            jobs.append({'args': ['test', '-a', '-r', 'r.guard', '-t', 'tests'] + fmt, 'cwd': d}); meta.append(('test-files %s' % (combo,), jobs[-1]['args'], files))
    for combo in itertools.permutations(['rule a {\n  x == 1\n}\n', 'rule b {\n  x == \n', '', 'rule c {\n  x == 2\n}\n'], 3):
        d = os.path.join(ctx.wd, 'cli%d' % len(jobs))
        files = {'d.json': '{"x": 1}'}
        for i, t in enumerate(combo):
            files['rules/r%d.guard' % i] = t
        e2e.write_files(d, files)
        for extra in ([], ['--structured', '-o', 'json', '-S', 'none'], ['--structured', '-o', 'junit', '-S', 'none'], ['-o', 'yaml']):
            jobs.append({'args': ['validate', '-a', '-r', 'rules', '-d', 'd.json'] + extra, 'cwd': d}); meta.append(('rules-dir', jobs[-1]['args'], files))
    # console reporters on CloudFormation-shaped documents: a failing value at depth 1..4 under `Resources` and under sibling
    # top-level keys that sort before and after "Resources" (the cfn reporter walks every failing path >= "/Resources"; a
    # path outside a resource hit unreachable!() in get_resource_name - fixed in /repo), resource names with odd characters
    res = {'b': {'Type': 'AWS::S3::Bucket', 'Properties': {'Size': 1, 'Deep': {'a': {'b': {'c': 1}}}}},
           'q/r': {'Type': 'AWS::SQS::Queue', 'Properties': {'Size': 1}}, 'notype': {'Properties': {'Size': 1}}}
    sib = {'a': {'b': {'c': {'d': 1}}}, 'l': [{'x': [1, {'y': 1}]}], 's': 1}
    cfn_docs = {'siblings': {'Outputs': sib, 'Resources': res, 'Transform': sib, 'resources': sib, 'Zz': sib},
                'only-after': {'Resources': res, 'Transform': sib},
                'no-resources': {'Transform': sib, 'Parameters': sib},
                'resources-not-a-map': {'Resources': [1, 2], 'Transform': sib},
                'empty-resources': {'Resources': {}, 'Zz': sib}}
    queries = ['%s.s == 2', '%s.a.b == 2', '%s.a.b.c == 2', '%s.a.b.c.d == 2', '%s.l[0].x[1].y == 2', '%s.l[*].x[*] == 2', '%s.missing.k exists', '%s.a.b.c.missing == 1']
    for dname, docj in cfn_docs.items():
        lines = []
        for top in docj:
            if top == 'Resources':
                continue
            lines += [qq % top for qq in queries]
        lines += ['Resources.b.Properties.Size == 2', 'Resources.b.Properties.Deep.a.b.c == 2', 'Resources.*.Properties.Size == 2',
                  'Resources."q/r".Properties.Size == 2', 'Resources.notype.Properties.Size == 2', 'Resources.b.Properties.Deep.a.missing exists',
                  'Resources[0] == 3']
        for group in (lines, ) + tuple([l] for l in lines):
            d = os.path.join(ctx.wd, 'cli%d' % len(jobs))
            files = {'r.guard': ''.join('rule t%d {\n  %s\n}\n' % (i, l) for i, l in enumerate(group)), 'd.json': json.dumps(docj, indent=1), 'd.yaml': json.dumps(docj)}
            e2e.write_files(d, files)
            for extra in ([], ['-S', 'all'], ['-v'], ['-S', 'fail', '-o', 'yaml'], ['-d', 'd.yaml']):
                jobs.append({'args': ['validate', '-r', 'r.guard', '-d', 'd.json'] + extra, 'cwd': d}); meta.append(('console-cfn %s' % dname, jobs[-1]['args'], files))
    # data documents in which a mapping repeats a key (a duplicated line or block; the loader keeps both entries, the value model
    # one): every way a rule can walk all entries of that mapping
    dup_docs = {'d.yaml': 'm:\n  a:\n    v: 1\n  b:\n    v: 2\n  a:\n    v: 3\nl:\n  - k: 1\n    k: 2\nt: x\nt: y\n',
                'd.json': '{"m": {"a": {"v": 1}, "b": {"v": 2}, "a": {"v": 3}}, "l": [{"k": 1, "k": 2}], "t": "x", "t": "y"}',
                'e.yaml': 'Resources:\n  r:\n    Type: T\n    Properties: {p: 1}\n  r:\n    Type: T\n    Properties: {p: 2}\n',
                'e.json': '{"Resources": {"r": {"Type": "T", "Properties": {"p": 1}}, "r": {"Type": "T", "Properties": {"p": 2, "p": 3}}}}'}
    dup_rules = ['m.* exists', 'm.*.v >= 1', 'm[*].v exists', 'm[ k | v >= 1 ] !empty', 'm[ v == 1 ] !empty', 'm[ keys == "a" ] exists', 'm { a exists }', 'm.* { v exists }', 'this.* exists', 'l[*].* exists',
                 'l[*][ k | this >= 1 ] !empty', 't exists', 'Resources.*.Properties.* exists', 'Resources[ n | Type == "T" ].Properties.p >= 1', 'Resources.*[ Type == "T" ] { Properties.* >= 1 }',
                 'some m.*.v == 3', 'm.a.v == 1 or m.a.v == 3', 'let e = m.*\n  %e.v exists', 'm.*.v in [1, 2, 3]', 'm empty', 'm.* !empty']
    d = os.path.join(ctx.wd, 'cli%d' % len(jobs))
    files = dict(dup_docs)
    for i, r_ in enumerate(dup_rules):
        files['r%d.guard' % i] = 'rule t {\n  %s\n}\n' % r_
    files['all.guard'] = ''.join('rule t%d {\n  %s\n}\n' % (i, r_) for i, r_ in enumerate(dup_rules))
    e2e.write_files(d, files)
    for dn in dup_docs:
        for i in list(range(len(dup_rules))) + ['all']:
            rn = 'all.guard' if i == 'all' else 'r%d.guard' % i
            for extra in ([], ['--structured', '-o', 'json', '-S', 'none'], ['-v']):
                if extra and i != 'all' and i % 4:
                    continue
                jobs.append({'args': ['validate', '-r', rn, '-d', dn] + extra, 'cwd': d}); meta.append(('repeated mapping key in %s' % dn, jobs[-1]['args'], {rn: files[rn], dn: files[dn]}))
        jobs.append({'args': ['rulegen', '-t', dn], 'cwd': d}); meta.append(('repeated mapping key in %s (rulegen)' % dn, jobs[-1]['args'], {dn: files[dn]}))
    # custom messages that are empty, or only separators, once the console reporters split them on ';' / newline and trim the
    # parts (emit_messages indexed part 0 of an empty list - fixed in /repo): on every kind of failing clause of a template
    msgs = ['<< ; >>', '<<;>>', '<< >>', '<<>>', '<<\n>>', '<< \n \n >>', '<<;;>>', '<< ;a >>', '<< a; >>', '<< a;;b >>', '<<\n a\n\n b\n>>', '<< é;中 >>', '<<\t;\t>>']
    clause_forms = ['Resources.*.Properties.Size == 2 %s', 'Resources.*.Properties.Size in [2, 3] %s', 'Resources.*.Properties.Missing exists %s',
                    'Resources.*.Properties.Missing == 1 %s', 'Resources.*.Properties.Size is_string %s', 'Resources.*.Properties.Size == Resources.*.Properties.Nope %s',
                    'Resources.*.Properties {\n    Size == 2 %s\n  }', 'some Resources.*.Properties.Size == 2 %s', 'Resources.*.Properties.Size == 2 %s or Resources.*.Properties.Size == 3 %s']
    tf_doc = {'resource_changes': [{'address': 'a.b', 'type': 'aws_s3_bucket', 'name': 'b', 'change': {'after': {'Size': 1}}}], 'terraform_version': '1.0'}
    for mi, mtext in enumerate(msgs):
        d = os.path.join(ctx.wd, 'cli%d' % len(jobs))
        body = ''.join('rule m%d {\n  %s\n}\n' % (i, cf.replace('%s', mtext)) for i, cf in enumerate(clause_forms))
        files = {'r.guard': body, 'd.json': json.dumps(cfn_docs['only-after'], indent=1), 'plain.json': json.dumps({'Other': {'Size': 1}}),
                 'tf.json': json.dumps(tf_doc, indent=1), 'rtf.guard': 'rule t {\n  resource_changes[*].change.after.Size == 2 %s\n}\n' % mtext,
                 'rplain.guard': 'rule t {\n  Other.Size == 2 %s\n  Other.Nope exists %s\n}\n' % (mtext, mtext)}
        e2e.write_files(d, files)
        for args in (['validate', '-r', 'r.guard', '-d', 'd.json'], ['validate', '-r', 'r.guard', '-d', 'd.json', '-S', 'all', '-v'],
                     ['validate', '-r', 'r.guard', '-d', 'd.json', '-o', 'yaml'], ['validate', '-r', 'r.guard', '-d', 'd.json', '--structured', '-o', 'sarif', '-S', 'none'],
                     ['validate', '-r', 'r.guard', '-d', 'd.json', '--structured', '-o', 'junit', '-S', 'none'],
                     ['validate', '-r', 'rtf.guard', '-d', 'tf.json'], ['validate', '-r', 'rplain.guard', '-d', 'plain.json'], ['validate', '-r', 'rplain.guard', '-d', 'plain.json', '-S', 'all'],
                     ['validate', '-r', 'rplain.guard', '-d', 'plain.json', '-p']):
            jobs.append({'args': args, 'cwd': d}); meta.append(('custom message %r' % mtext, args, files))
    # every short-form tag the source tables name (rules/mod.rs, read by the translator; the reviewed copy when that fails),
    # some the tables do not name, with a scalar and a sequence payload, as data of validate, as an input-parameter file and
    # as the input of a test spec: the two tag sets and the short->long mapping must stay in sync (a miss is unreachable!())
    try:
        from .. import tables as _tables
        _pairs, _sets = _tables.tag_tables()
        tag_names = sorted(set(_sets['SINGLE_VALUE_FUNC_REF']) | set(_sets['SEQUENCE_VALUE_FUNC_REF']) | set(a for a, b in _pairs))
    except Exception:
        _j = json.load(open(os.path.join(VERIF, 'inventory', 'tag_tables.json')))
        tag_names = sorted(set(str(x) for x in re.findall(r'[A-Z][A-Za-z]+', json.dumps(_j))))
    tag_names += ['Cidr', 'Length', 'ToJsonString', 'Unknown', 'ref', 'Fn::Sub']
    for t in tag_names:
        for payload in ('!%s [a, b]' % t, '!%s a.b' % t, '!%s {k: v}' % t, '!%s' % t):
            d = os.path.join(ctx.wd, 'cli%d' % len(jobs))
            ytext = 'x:\n  v: %s\ny: 1\n' % payload
            spec = '- name: c\n  input:\n    x:\n      v: %s\n  expectations:\n    rules:\n      t: PASS\n' % payload
            files = {'r.guard': 'rule t {\n  x exists\n}\n', 'd.yaml': ytext, 'p.yaml': 'z:\n  w: %s\n' % payload, 'spec.yaml': spec}
            e2e.write_files(d, files)
            for args in (['validate', '-r', 'r.guard', '-d', 'd.yaml'], ['validate', '-r', 'r.guard', '-d', 'd.yaml', '-i', 'p.yaml', '--structured', '-o', 'json', '-S', 'none'],
                         ['test', '-r', 'r.guard', '-t', 'spec.yaml'], ['test', '-r', 'r.guard', '-t', 'spec.yaml', '-o', 'json']):
                jobs.append({'args': args, 'cwd': d}); meta.append(('tag %s' % payload, args, files))
    # numbers at and beyond the edges of i64 / u64 / f64 in every place a document is read: data and parameter files (libyaml
    # loader), test-spec inputs (serde_yaml / serde_json), strings given to json_parse and parse_int / parse_float
    edge = ['9223372036854775807', '9223372036854775808', '18446744073709551615', '18446744073709551616', '-9223372036854775808',
            '-9223372036854775809', '1e400', '-1e400', '1.7976931348623157e308', '5e-324', '0.1e-400', '123456789012345678901234567890']
    for num in edge:
        d = os.path.join(ctx.wd, 'cli%d' % len(jobs))
        files = {'r.guard': 'let j = json_parse(s)\nlet a = parse_int(s2)\nlet b = parse_float(s2)\nrule t {\n  n exists\n  %j.n exists\n}\nrule u {\n  %a exists or %b exists\n}\n',
                 'd.json': '{"n": %s, "l": [%s], "s": "{\\"n\\": %s}", "s2": "%s"}' % (num, num, num, num),
                 'd.yaml': 'n: %s\nl: [%s]\ns: \'{"n": %s}\'\ns2: "%s"\n' % (num, num, num, num),
                 'spec.json': '[{"name": "c", "input": {"n": %s, "s": "{\\"n\\": %s}", "s2": "%s"}, "expectations": {"rules": {"t": "PASS"}}}]' % (num, num, num),
                 'spec.yaml': '- name: c\n  input:\n    n: %s\n    s: \'{"n": %s}\'\n    s2: "%s"\n  expectations:\n    rules:\n      t: PASS\n' % (num, num, num)}
        e2e.write_files(d, files)
        for args in (['validate', '-r', 'r.guard', '-d', 'd.json'], ['validate', '-r', 'r.guard', '-d', 'd.yaml', '--structured', '-o', 'json', '-S', 'none'],
                     ['validate', '-r', 'r.guard', '-d', 'd.json', '-i', 'd.yaml'],
                     ['test', '-r', 'r.guard', '-t', 'spec.json'], ['test', '-r', 'r.guard', '-t', 'spec.yaml', '-o', 'junit'], ['rulegen', '-t', 'd.json']):
            jobs.append({'args': args, 'cwd': d}); meta.append(('edge number %s' % num, args, files))
    # files that are not valid UTF-8 in every role, alone and next to healthy files (the order of a directory walk decides
    # which error code meets which fold): rules, data, parameter and test-spec files through validate / test / parse-tree / rulegen
    bad_bytes = b'rule x {\n  a == "\xff\xfe" \xc3\x28\n}\n'
    good_rule = 'rule t {\n  x == 1\n}\n'
    spec_ok = json.dumps([{'name': 'c', 'input': {'x': 1}, 'expectations': {'rules': {'t': 'PASS'}}}])
    for layout in ('bad-first', 'bad-last', 'bad-only', 'bad-middle'):
        d = os.path.join(ctx.wd, 'cli%d' % len(jobs))
        names = {'bad-first': ['a_bad', 'b_good', 'c_good'], 'bad-last': ['a_good', 'b_good', 'z_bad'], 'bad-only': ['a_bad'], 'bad-middle': ['a_good', 'b_bad', 'c_good']}[layout]
        files = {'d.json': '{"x": 1}', 'bad.json': b'{"x": "\xff"}', 'bad.yaml': b'x: \xc3\x28\n'}
        for nm in names:
            files['t/%s.guard' % nm] = bad_bytes if nm.endswith('bad') else good_rule
            files['t/tests/%s_tests.yaml' % nm] = spec_ok
        files['t/tests/zz_bad_tests.yaml'] = b'- name: c\n  input: {x: "\xff"}\n'
        e2e.write_files(d, files)
        for args in (['test', '-d', 't'], ['test', '-d', 't', '-o', 'json'], ['test', '-d', 't', '-o', 'yaml'], ['test', '-d', 't', '-o', 'junit'],
                     ['validate', '-r', 't', '-d', 'd.json'], ['validate', '-r', 't', '-d', 'd.json', '--structured', '-o', 'json', '-S', 'none'],
                     ['validate', '-r', 't', '-d', 'd.json', '--structured', '-o', 'junit', '-S', 'none'],
                     ['validate', '-r', 't/%s.guard' % names[0], '-d', 'bad.json'], ['validate', '-r', 't/%s.guard' % names[-1], '-d', 'bad.yaml', '--structured', '-o', 'json', '-S', 'none'],
                     ['validate', '-r', 't', '-d', 'd.json', '-i', 'bad.yaml'], ['parse-tree', '-r', 't/%s.guard' % names[0]], ['rulegen', '-t', 'bad.json'],
                     ['test', '-r', 't/%s.guard' % names[-1], '-t', 't/tests/zz_bad_tests.yaml'], ['test', '-r', 't/%s.guard' % names[-1], '-t', 't/tests/zz_bad_tests.yaml', '-o', 'json']):
            jobs.append({'args': args, 'cwd': d}); meta.append(('non-UTF-8 files (%s)' % layout, args, {k: (v if isinstance(v, str) else repr(v)) for k, v in files.items()}))
    n = 0
    for (what, args, files), (code, so, se) in zip(meta, e2e.run_many(jobs, timeout=30)):
        n += 1
        if code == 'timeout' or code in CRASH_CODES or (isinstance(code, int) and code < 0):
            classify_crash(ctx, '%s: crashes with status %s: %s' % (what, code, se.decode('utf-8', 'replace').split('\n')[0][:200]),
                           {'command': what, 'args': args, 'files': files, 'rules': files.get('r.guard', ''), 'data': files.get('d.json', ''), 'stderr': se[:600].decode('utf-8', 'replace')}, None)
    ctx.coverage['directed_cli_runs'] = n
    ctx.coverage['evaluations'] += n
    return n


PREFIX_TEXTS = [
    'let a = Resources.*[ Type == "AWS::S3::Bucket" ]\nrule r when %a !empty {\n  %a.Properties.Name == /^b/ <<named \'b\'>>\n  %a.Properties {\n    Size in r[1, 10) or\n    Tags[*].Key == "k\\"q"\n  }\n}\n',
    "rule chk(p, q) {\n  %p in ['a', \"b\"]\n  some %q[ keys == /x/ ] !empty\n}\nrule s {\n  chk(a.b, \"lit\")\n  not r or\n  AWS::X::Y when x exists {\n    y == {a: 1, 'b': [1.5, null, true]}\n  }\n}\n",
    'a.b[0].*.c[*] == 1 << msg\n two >>\nlet v := count(a."q r")\n# comment "x\nx IN [1,2] |OR| y !EXISTS\nz is_string\n',
]


def run_prefixes(ctx):
    """every prefix of a few rule texts that use all the token classes: the parser accepts it or rejects it with a line and a
    column (and never crashes)"""
    ops, meta = [], []
    for t in PREFIX_TEXTS:
        for i in range(len(t) + 1):
            ops.append({'op': 'ast', 'rules': t[:i]}); meta.append(t[:i])
            if i < len(t):
                ops.append({'op': 'ast', 'rules': t[:i] + t[i + 1:]}); meta.append(t[:i] + t[i + 1:])      # one character deleted
    res = impl.run_ops_parallel(ops, ctx.wd, 'c08pre')
    nrej = 0
    for text, r in zip(meta, res):
        a = r.get('res') if isinstance(r, dict) else None
        if not a:
            classify_crash(ctx, 'the parser crashes on a truncated rules file: %s' % str(r)[:200], {'rules': text, 'data': '', 'command': 'parse'}, None)
        elif a[0] == 'Err':
            nrej += 1
            msg = ct.S(a[2]) if not isinstance(a[2], str) else a[2]
            if not re.search(r'at line \d+ at column \d+', msg):
                ctx.failing('a rules file the grammar rejects is reported without a line and column: %s' % msg[:200], {'class': 'parse-diagnostic', 'rules': text, 'message': msg[:400]}, found=True)
    ctx.coverage['prefix_and_deletion_texts'] = len(ops)
    ctx.coverage['prefix_and_deletion_rejected'] = nrej
    ctx.coverage['evaluations'] += len(ops)
    return len(ops)


def fuzz(ctx, n):
    rng = random.Random(ctx.seed * 307 + 9)
    jobs, meta = [], []
    texts = []
    for k in range(n):
        if rng.random() < 0.5:
            doc = gen.gen_cfn(rng)
            prog = gen.ProgGen(rng, doc, {'cycles': 0.0}).gen_file()
        else:
            doc, prog = gen.gen_pair(rng, {'cycles': 0.0})
        rules = gen.render_file(prog)
        data = json.dumps(doc, indent=rng.choice([None, 1, 2]))
        spec = json.dumps([{'name': 'c', 'input': doc, 'expectations': {'rules': {'r0': 'PASS'}}}])
        kind = rng.choice(['rules', 'rules', 'rules', 'data', 'data', 'spec', 'payload', 'params'])
        for _ in range(rng.choice([1, 1, 2, 3])):
            if kind == 'rules':
                rules = gen.mutate_text(rng, rules)
            elif kind == 'data':
                data = gen.mutate_text(rng, data)
            elif kind == 'spec':
                spec = gen.mutate_text(rng, spec)
        payload = json.dumps({'rules': [rules], 'data': [data]})
        params = '{"extra_param": 1}'
        if kind == 'payload':
            payload = gen.mutate_text(rng, payload)
        if kind == 'params':
            params = gen.mutate_text(rng, data if rng.random() < 0.5 else params)
        d = os.path.join(ctx.wd, 'z%d' % k)
        os.makedirs(os.path.join(d, 'tests'), exist_ok=True)
        for name, t in (('r.guard', rules), ('d.json', data), ('tests/r_t.yaml', spec), ('p.json', params)):
            with open(os.path.join(d, name), 'w', encoding='utf-8', errors='surrogateescape') as f:
                f.write(t)
        texts.append({'kind': kind, 'rules': rules, 'data': data, 'spec': spec})
        runs = [('validate', ['validate', '-r', 'r.guard', '-d', 'd.json']),
                ('validate-s', ['validate', '-r', 'r.guard', '-d', 'd.json', '--structured', '-o', rng.choice(['json', 'yaml', 'junit', 'sarif']), '-S', 'none']),
                ('validate-v', ['validate', '-r', 'r.guard', '-d', 'd.json', '-v', '-p', '-S', 'all']),
                ('parse-tree', ['parse-tree', '-r', 'r.guard', rng.choice(['-p', '-y'])]),
                ('test', ['test', '-r', 'r.guard', '-t', 'tests', '-o', rng.choice(['single-line-summary', 'json', 'junit'])]),
                ('rulegen', ['rulegen', '-t', 'd.json'])]
        if kind == 'params':
            runs.append(('validate-i', ['validate', '-r', 'r.guard', '-d', 'd.json', '-i', 'p.json']))
        for lab, args in runs:
            jobs.append({'args': args, 'cwd': d})
            meta.append((k, lab))
        jobs.append({'args': ['validate', '--payload'], 'cwd': d, 'stdin': payload.encode('utf-8', 'surrogateescape')})
        meta.append((k, 'payload'))
    res = e2e.run_many(jobs, timeout=30)
    # which rules texts does the parser reject?
    aops = [{'op': 'ast', 'rules': t['rules']} for t in texts]
    ares = impl.run_ops_parallel(aops, ctx.wd, 'c08fuzzast')
    # the library entry point on the same inputs
    lops = [{'op': 'runchecks', 'rules': t['rules'], 'data': t['data'], 'rules_name': 'r.guard', 'data_name': 'd.json', 'verbose': (i % 2 == 0)} for i, t in enumerate(texts)]
    lres = impl.run_ops_parallel(lops, ctx.wd, 'c08fuzzlib')
    dist = {}
    for (k, lab), (code, so, se) in zip(meta, res):
        t = texts[k]
        info = {'mutated': t['kind'], 'command': lab, 'rules': t['rules'], 'data': t['data'][:2000]}
        if lab == 'test':
            info['spec'] = t['spec'][:2000]
        dist[(lab, str(code))] = dist.get((lab, str(code)), 0) + 1
        if code == 'timeout':
            classify_crash(ctx, '%s hangs (no result within 30 s)' % lab, dict(info, stderr=''), t['rules'])
        elif code in CRASH_CODES or (isinstance(code, int) and code < 0):
            classify_crash(ctx, '%s crashes with status %s: %s' % (lab, code, se.decode('utf-8', 'replace').split('\n')[0][:160]),
                           dict(info, stderr=se[:600].decode('utf-8', 'replace')), t['rules'])
        elif lab.startswith('validate') and lab != 'validate-i':
            a = ares[k].get('res')
            if a and a[0] == 'Err':
                msg = se.decode('utf-8', 'replace')
                if code not in (5, 255):
                    pass      # data errors come first: an upfront error exit is also fine
                if code == 5 and not re.search(r'at line \d+ at column \d+', msg):
                    ctx.failing('a rules file the grammar rejects is reported without a line and column', dict(info, stderr=msg[:400]), found=True)
                evaluated = bool(re.search(r'Status = (PASS|FAIL|SKIP)', so.decode('utf-8', 'replace')))
                if b'"not_compliant"' in so:
                    try:
                        for fr in json.loads(so.decode()):
                            if fr.get('compliant') or fr.get('not_applicable') or fr.get('not_compliant'):
                                evaluated = True
                    except Exception:
                        pass
                if evaluated:
                    ctx.failing('a rules file the grammar rejects was nevertheless evaluated', dict(info, stdout=so[:400].decode('utf-8', 'replace')), found=True)
    # the premise of C08_no_panic_site_is_reached on what the parser really accepts: every mutated rules text that still parses
    # must give a parser-shaped AST (Strat.pwf_prog, evaluated by Coq)
    pcases = []
    for k, a in enumerate(ares):
        rr = a.get('res')
        if rr and rr[0] == 'Ok':
            try:
                pcases.append((k, 'Definition p%d : rules_file := %s.' % (k, ct.rules_file(rr[1])), 'pwf_prog p%d && vwf_prog p%d' % (k, k)))
            except Exception:
                continue
    if pcases:
        pv, perrs = model.eval_cases(pcases, ctx.wd, 'c08pwf', header='From GV.Model Require Import Check Strat.\n')
        if perrs:
            raise ToolingError('model evaluation failed: %r' % (perrs[:1],))
        bad = [k for k, _, _ in pcases if pv.get(k) != 'true']
        for k in bad:
            ctx.failing('the parser accepted a (mutated) rules file whose AST is not parser-shaped (Strat.pwf_prog = %s)' % pv.get(k),
                        {'class': 'parser-shape', 'rules': texts[k]['rules'], 'data': texts[k]['data'][:500]}, found=False)
        ctx.coverage['mutated_rules_texts_parser_shaped'] = len(pcases) - len(bad)
    for t, r in zip(texts, lres):
        if 'panic' in r or 'abort' in r or 'timeout' in r:
            classify_crash(ctx, 'run_checks crashes: %s' % str(r)[:200], {'mutated': t['kind'], 'command': 'run_checks', 'rules': t['rules'], 'data': t['data'][:2000]}, t['rules'])
    ctx.coverage['fuzz_inputs'] = n
    ctx.coverage['fuzz_runs'] = len(jobs) + len(lops)
    ctx.coverage['fuzz_exit_distribution'] = {'%s:%s' % k: v for k, v in sorted(dist.items())}
    ctx.coverage['rules_texts_rejected_by_the_parser'] = sum(1 for a in ares if a.get('res') and a['res'][0] == 'Err')
    ctx.coverage['evaluations'] += len(jobs) + len(lops)
    ctx.sample({'mutated': texts[0]['kind'], 'rules': texts[0]['rules'], 'data': texts[0]['data'][:400]})
    return n


def run(ctx):
    ctx.build(cli=True)
    pr = ctx.proofs('C08')
    thorough = ctx.tier == 'thorough'
    cur, problems, rev = inventory.compare('panic')
    ctx.coverage['inventory_panic_sites'] = len(cur)
    n1 = model_correspondence(ctx, 2500 if thorough else 300)
    n2 = fuzz(ctx, 1500 if thorough else 150)
    n3 = run_directed(ctx)
    n4 = run_prefixes(ctx) + run_cli_directed(ctx) + run_variable_keys(ctx)
    from .. import fullparse as _fp
    n4 += _fp.check_files(ctx, 'c08file', 2500 if thorough else 500)      # acceptance / rejection of whole files: Model/FullParse.v against rules_file
    ctx.coverage['distinct_nontrivial'] = n1 + n2 + n3 + n4
    ctx.coverage['rule'] = ('correspondence: generated programs with every feature on (rule-reference cycles 4%, captures, functions with arguments that select nothing or have the '
                            'wrong type, literal left-hand sides, chained filters, filters after this/index) x documents; fuzz: generated (rules, data, test spec, payload, parameter '
                            'file) with 1..3 text mutations applied to one of them, each through validate (3 modes), parse-tree, test, rulegen, --payload and run_checks')
    ctx.coverage['trusted_base'] = [
        'Coq 8.16.1 kernel (coqc), vm_compute for case evaluation and the divergence witnesses; no axioms',
        'hand-written model SEval.v/Operators.v/Functions.v, FullParse.v for the acceptance of whole files (modelled, not verified; hooks eval_dump, ast_dump); panic-site inventory tools/gv/inventory.py vs /verif/inventory/panic.json',
        'fuzzing and child-process exit statuses: a search, never counted as an obligation',
    ]
    ctx.assumptions = ['nesting depth of generated inputs is bounded; stack exhaustion on deeply nested input is not searched for',
                       'rule-reference and variable-reference cycles overflow the stack: recorded finding (KNOWN-FINDING), replayed on every run']
    if problems:
        ctx.failing('the panic-site inventory of the source changed: %s' % problems[:4], {'class': 'inventory', 'problems': problems}, found=False)
    if not pr['ok']:
        ctx.failing('proof obligations of Props/C08.v no longer check: %s' % (pr.get('problems') or pr.get('log', '')[-500:]),
                    {'class': 'proof', 'theorems': pr['theorems']}, found=False)


def replay(ctx, path):
    j = json.load(open(path))
    for v in j.get('violations', []):
        print(json.dumps(v, indent=1)[:3000])
    return 0
