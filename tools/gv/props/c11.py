"""C11 — a document means the same however it is written or loaded (partial).

proof   : Props/C11.v (typing of scalars by the libyaml loader, decimal round trip over all of i64, core tags, short-form tag
          tables regenerated from the source, strip . annotate = id)
tie     : the model's scalar classifier (Scalar.plain_scalar / load_scalar) against the libyaml loader on a universe of plain
          and quoted spellings (inside Coq); the tag tables by the translator
monitor : generated documents x serialisations {JSON compact / pretty, flow YAML, block YAML, random quoting / indentation}
          x loaders {validate (libyaml), test (serde_yaml), library (serde_json then serde_yaml)}: the loaded values must be
          equal (type, value, key order, list order); a document equals itself written as a Guard value literal (this == lit
          is PASS); every short-form tag x {scalar, sequence} payload against its long form in every loader; malformed text
          and maps with a non-string key are rejected by every loader
not modelled: tokenisation (libyaml, serde_yaml, serde_json).
"""
import json, random, os, re, math
from .. import coqterm as ct
from .. import impl, model, gen, tables, e2e
from ..common import *
from . import c10

HEADER = 'From Coq Require Import String.\nFrom GV.Model Require Import Scalar.\n'

PLAIN_UNIVERSE = ['0', '1', '-1', '007', '+5', '-0', '42', '9223372036854775807', '-9223372036854775808', '9223372036854775808',
                  '1.5', '-2.5', '.5', '5.', '1e3', '1E3', '1e+3', '1.5e-3', '1e', 'e3', '1.2.3', '1_000', '0x10', '0o17', '0b1',
                  'true', 'false', 'True', 'TRUE', 'False', 'null', 'Null', 'NULL', '~', 'nan', 'NaN', '.nan', 'inf', '-inf', '+inf',
                  'Infinity', '-infinity', '.inf', '-.inf', 'yes', 'no', 'on', 'off', 'y', 'n', 'abc', 'a b', '-', '+', '.', 'e', '1a', 'a1',
                  '12:30', '2020-01-01', 'ab-cd', '1,5', '- 1', 'nul', 'tru', 'truee', '00', '-007', '1.', '-.5', '+.5', '--1', '1-1']


def strip_dump(j):
    """hook pv dump -> plain comparable structure (type tags kept)"""
    t = j[0]
    if t == 'PNull':
        return ('null',)
    if t == 'PString':
        return ('str', ct.S(j[2]))
    if t == 'PBool':
        return ('bool', j[2])
    if t == 'PInt':
        return ('int', int(j[2]))
    if t == 'PFloat':
        return ('float', j[2]['F'])
    if t == 'PList':
        return ('list', tuple(strip_dump(x) for x in ct.L(j[2])))
    if t == 'PMap':
        return ('map', tuple((ct.S(kv[1]), strip_dump(kv[2])) for kv in ct.L(j[2][2])))
    return (t, json.dumps(j[2:], sort_keys=True))


def of_python(v):
    import struct
    if v is None:
        return ('null',)
    if isinstance(v, bool):
        return ('bool', v)
    if isinstance(v, int):
        return ('int', v)
    if isinstance(v, float):
        return ('float', str(struct.unpack('<Q', struct.pack('<d', v))[0]))
    if isinstance(v, str):
        return ('str', v)
    if isinstance(v, list):
        return ('list', tuple(of_python(x) for x in v))
    return ('map', tuple((k, of_python(x)) for k, x in v.items()))


def classify_universe(ctx):
    """model classifier vs the libyaml loader, plain and quoted"""
    ops, meta = [], []
    for s in PLAIN_UNIVERSE:
        for style in ('plain', 'single', 'double'):
            if style == 'plain':
                if s in ('', '-', '- 1', '~') or s.startswith('- '):
                    text = 'k: %s\n' % s
                else:
                    text = 'k: %s\n' % s
            elif style == 'single':
                text = "k: '%s'\n" % s
            else:
                text = 'k: "%s"\n' % s
            ops.append({'op': 'doc', 'data': text, 'loader': 'cli'})
            meta.append((s, style, text))
    res = impl.run_ops_parallel(ops, ctx.wd, 'c11cls')
    cases, info = [], {}
    for i, ((s, style, text), r) in enumerate(zip(meta, res)):
        rr = r.get('res')
        if not rr or rr[0] != 'Ok':
            continue            # not a mapping with that scalar (e.g. "k: - 1" is a sequence): skip
        d = strip_dump(rr[1])
        if d[0] != 'map' or len(d[1]) != 1 or d[1][0][0] != 'k':
            continue
        v = d[1][0][1]
        if v[0] == 'str' and style == 'plain' and v[1] != s:
            continue            # libyaml trimmed or re-tokenised the text: not the scalar we meant
        obs = {'int': lambda: '(KInt (%d))' % v[1], 'float': lambda: 'KFloat', 'bool': lambda: '(KBool %s)' % ct.cbool(v[1]),
               'null': lambda: 'KNull', 'str': lambda: '(KStr %s)' % ct.cstr(v[1])}.get(v[0])
        if obs is None:
            continue
        cases.append((i, '', 'sclass_eqb (load_scalar TNone %s %s) %s' % ('Plain' if style == 'plain' else 'Quoted', ct.cstr(s), obs())))
        info[i] = (s, style, v)
    verdicts, errors = model.eval_cases(cases, ctx.wd, 'c11cls', header=HEADER, per_file=120)
    if errors:
        raise ToolingError('model evaluation failed: %r' % (errors[:1],))
    for i, _, _ in cases:
        if verdicts.get(i) != 'true':
            s, style, v = info[i]
            ctx.failing('scalar %r (%s) is loaded as %s by validate\'s loader; the model of the cascade says otherwise' % (s, style, v),
                        {'class': 'scalar-classification', 'text': s, 'style': style, 'loaded': str(v)}, found=(style != 'plain' and v[0] != 'str'))
    ctx.coverage['scalar_spellings_classified'] = len(cases)
    ctx.coverage['evaluations'] += len(cases)
    return len(cases)


def json_compatible(s):
    return re.fullmatch(r'-?(0|[1-9]\d*)(\.\d+)?([eE][+-]?\d+)?|true|false|null', s) is not None


def loaders_on_scalars(ctx):
    """the three loaders on every spelling: they must agree on JSON-compatible plain scalars and on quoted scalars; the other
    plain spellings are the recorded finding"""
    ops, meta = [], []
    for s in PLAIN_UNIVERSE:
        for style, text in (('plain', 'k: %s\n' % s), ('double', 'k: "%s"\n' % s)):
            for ld in ('cli', 'test', 'lib'):
                ops.append({'op': 'doc', 'data': text, 'loader': ld})
                meta.append((s, style, ld))
    res = impl.run_ops_parallel(ops, ctx.wd, 'c11ld')
    by = {}
    for (s, style, ld), r in zip(meta, res):
        rr = r.get('res')
        by.setdefault((s, style), {})[ld] = strip_dump(rr[1]) if rr and rr[0] == 'Ok' else ('error',)
    n = 0
    odd = []
    for (s, style), d in by.items():
        n += 1
        vals = set(d.values())
        if len(vals) == 1:
            continue
        info = {'text': s, 'style': style, 'loaded': {k: str(v) for k, v in d.items()}}
        big = re.fullmatch(r'-?\d+', s) and not (-2 ** 63 <= int(s) < 2 ** 63)
        if style == 'double' or (json_compatible(s) and not big):
            ctx.failing('the loaders disagree on the %s scalar %r: %s' % (style, s, info['loaded']), dict(info, **{'class': 'loader-disagreement'}), found=True)
        else:
            odd.append(s)
            ctx.failing('plain scalar %r is typed differently by validate and by test/library: %s' % (s, info['loaded']),
                        dict(info, **{'class': 'plain-scalar-outside-json'}), found=True)
    # every non-plain style (single / double quoted, literal and folded block scalars) is a string, whatever it looks like
    ops, meta = [], []
    for s in PLAIN_UNIVERSE:
        if not s or s != s.strip():
            continue
        forms = [('single', "k: '%s'\n" % s, s), ('double', 'k: "%s"\n' % s, s), ('literal-strip', 'k: |-\n  %s\n' % s, s), ('folded-strip', 'k: >-\n  %s\n' % s, s),
                 ('literal-keep', 'k: |\n  %s\n' % s, s + '\n'), ('folded-keep', 'k: >\n  %s\n' % s, s + '\n'),
                 ('literal-in-list', 'k:\n  - |-\n    %s\n' % s, None)]
        for style, text, want in forms:
            for ld in ('cli', 'test', 'lib'):
                ops.append({'op': 'doc', 'data': text, 'loader': ld}); meta.append((s, style, ld, text, want))
    res = impl.run_ops_parallel(ops, ctx.wd, 'c11quoted')
    nq = 0
    for (s, style, ld, text, want), r in zip(meta, res):
        rr = r.get('res')
        got = strip_dump(rr[1]) if rr and rr[0] == 'Ok' else ('error', str(rr)[:100])
        exp = of_python({'k': [s]} if want is None else {'k': want})
        nq += 1
        if got != exp:
            ctx.failing('the %s scalar %r is not loaded as that string by the %s loader: %s' % (style, s, ld, str(got)[:160]),
                        {'class': 'non-plain-scalar-typed', 'text': text, 'style': style, 'loader': ld, 'loaded': str(got)[:300]}, found=True)
    n += nq
    ctx.coverage['non_plain_scalar_loadings'] = nq
    ctx.coverage['evaluations'] += len(ops)
    ctx.coverage['scalar_spellings_across_loaders'] = n
    ctx.coverage['plain_spellings_typed_differently'] = sorted(odd)
    ctx.coverage['evaluations'] += len(ops)
    return n


def documents(ctx, n):
    rng = random.Random(ctx.seed * 503 + 11)
    ops, meta = [], []
    lits = []
    # strings and keys with characters a C string or a line-oriented scanner would mishandle (U+0000, other controls, DEL,
    # non-BMP, the byte-order mark inside a string), as JSON with and without \u escapes
    HAND = [{'s': 'ab\u0000cd', 'k\u0000a': 1, 'k\u0000b': 2, 'l': ['\u0000', 'x\u0000', '']},
            {'s': 'tab\there', 'n': 'line\nbreak', 'c': '\u0001\u001f\u007f', 'k\ty': {'\u0001': [1]}},
            {'s': 'five \U0001f600', '\U0001f600': '\ufeffbom', 'e': '\u00e9\u0301', 'q': '"quoted" \\ back'},
            # integers that are not exact doubles, at the edges of i64, next to floats of the same magnitude
            {'big': 9007199254740993, 'neg': -9007199254740993, 'max': 9223372036854775807, 'min': -9223372036854775808,
             'l': [4611686018427387905, 1e18, 123456789012345678], 'f': 9007199254740992.0}]
    for k in range(n + len(HAND)):
        hand = k >= n
        doc = HAND[k - n] if hand else (gen.gen_doc(rng) if rng.random() < 0.7 else gen.gen_cfn(rng))
        if not isinstance(doc, (dict, list)):
            doc = {'v': doc}
        texts = [('json-compact', json.dumps(doc, ensure_ascii=False)), ('json-pretty', json.dumps(doc, indent=2, ensure_ascii=False))]
        if hand:
            texts.append(('json-escaped', json.dumps(doc, ensure_ascii=True)))
        for name, em in ([] if hand else c10.EMITTERS):
            texts.append((name, em(rng, doc)[0]))
        for name, text in texts:
            for ld in ('cli', 'test', 'lib'):
                ops.append({'op': 'doc', 'data': text, 'loader': ld})
                meta.append((k, name, ld, text))
        lits.append(doc)
    res = impl.run_ops_parallel(ops, ctx.wd, 'c11docs')
    want = {}
    cmp_n = 0
    docs_by_k = {}
    for (k, name, ld, text), r in zip(meta, res):
        docs_by_k.setdefault(k, []).append((name, ld, text, r))
    for k, entries in docs_by_k.items():
        ref = of_python(lits[k])
        for name, ld, text, r in entries:
            cmp_n += 1
            rr = r.get('res')
            info = {'class': 'document-loading', 'serialisation': name, 'loader': ld, 'text': text[:1500], 'doc': lits[k]}
            if not rr or rr[0] != 'Ok':
                if ld in ('cli', 'test') and re.search(r'\\u[dD][89abAB][0-9a-fA-F]{2}\\u[dD][c-fC-F][0-9a-fA-F]{2}|[\x7f-\x9f]', text):
                    # JSON that is not YAML 1.1 (recorded finding): a surrogate-pair escape, a raw DEL / C1 control in a string
                    info = dict(info, **{'class': 'json-not-yaml'})
                ctx.failing('%s loader rejects the %s form of a generated document: %s' % (ld, name, str(rr)[:160]), info, found=True)
                continue
            got = strip_dump(rr[1])
            if got != ref:
                ctx.failing('%s loader, %s form: the loaded value differs from the document' % (ld, name), dict(info, loaded=str(got)[:600], expected=str(ref)[:600]), found=True)
    # a document equals itself written as a Guard value literal
    eops = []
    for doc in lits:
        lit = gen.render_lit(gen.lit_from_py(doc))
        eops.append({'op': 'eval', 'rules': 'rule self_equal {\n  this == %s\n}\n' % lit, 'data': json.dumps(doc), 'loader': 'cli'})
    eres = impl.run_ops_parallel(eops, ctx.wd, 'c11lit')
    nl = 0
    for doc, op, r in zip(lits, eops, eres):
        d = r.get('res')
        if not isinstance(d, dict) or d.get('ast', [None])[0] != 'Ok' or d.get('doc', [None])[0] != 'Ok':
            continue
        nl += 1
        if d['result'][0] != 'Ok' or d['result'][1] != 'PASS':
            ctx.failing('a document does not equal itself written as a Guard value literal (%s)' % str(d['result'][:2]),
                        {'class': 'literal-self-equality', 'rules': op['rules'], 'data': op['data']}, found=True)
    ctx.coverage['documents'] = n + len(HAND)
    ctx.coverage['document_loadings_compared'] = cmp_n
    ctx.coverage['literal_self_equalities'] = nl
    ctx.coverage['evaluations'] += len(ops) + len(eops)
    ctx.sample({'doc': lits[0], 'block_yaml': [t for (k, nm, ld, t) in meta if k == 0 and nm == 'block-yaml'][0][:500]})
    return cmp_n + nl


BLOCK_TEXTS = [
    ("s: |\n  first\n  \tsecond line starts with a tab\n  third\nn: 1\n", {'s': 'first\n\tsecond line starts with a tab\nthird\n', 'n': 1}),
    ("recipe: |-\n  all:\n  \tcc -o x x.c\n  \t\tdeeper\nm: {a: 1}\n", {'recipe': 'all:\n\tcc -o x x.c\n\t\tdeeper', 'm': {'a': 1}}),
    ("l:\n  - |\n    a\n    \tb\n    c\td\n  - plain\n", {'l': ['a\n\tb\nc\td\n', 'plain']}),
    ("outer:\n  inner: |+\n    x\n     one more space\n    \ttab\n\nlast: 2\n", {'outer': {'inner': 'x\n one more space\n\ttab\n\n'}, 'last': 2}),
    ("q: \"tab\\there\"\nr: 'raw\ttab'\n", {'q': 'tab\there', 'r': 'raw\ttab'}),
]


def wide_and_blocks(ctx):
    """(a) block scalars whose content lines start with a tab, contain tabs, are more indented (content, not layout), next to the
    same strings written with escapes; (b) documents that are WIDE rather than deep: a struct of 70 / 150 / 300 entries whose last
    entries hold structs and lists, a list of 130 / 400 scalars followed by nested lists, a template with 120 resources. Every
    loader, every spelling: the loaded value is the document."""
    import yaml
    ops, meta = [], []
    for text, want in BLOCK_TEXTS:
        if yaml.safe_load(text) != want:
            raise ToolingError('block-scalar fixture disagrees with its expected value: %r' % text)
        for name, tx in (('block-yaml', text), ('json', json.dumps(want)), ('flow-yaml-escaped', json.dumps(want, ensure_ascii=True))):
            for ld in ('cli', 'test', 'lib'):
                ops.append({'op': 'doc', 'data': tx, 'loader': ld}); meta.append((name, ld, tx, want))
    wides = []
    for n_ in (70, 150, 300):
        d = {'k%03d' % i: (i if i % 3 else 's%d' % i) for i in range(n_)}
        d['zz_map'] = {'a': [1, {'b': 2}], 'c': {}}
        d['zz_list'] = [[1], [2, [3]], {'x': []}]
        wides.append(d)
    for n_ in (130, 400):
        wides.append({'l': list(range(n_)) + [[1, 2], {'k': [3]}], 'after': {'m': 1}})
        wides.append(list(range(n_)) + [[1, [2]], {'k': {'j': 1}}])
    wides.append({'Resources': {'r%03d' % i: {'Type': 'AWS::S3::Bucket', 'Properties': {'Size': i, 'Tags': [{'Key': 'k', 'Value': 'v'}]}} for i in range(120)}, 'Outputs': {'o': {'Value': 1}}})
    for d in wides:
        for name, tx in (('json-compact', json.dumps(d)), ('json-pretty', json.dumps(d, indent=1)), ('block-yaml', yaml.safe_dump(d, default_flow_style=False, sort_keys=False)),
                         ('flow-yaml', yaml.safe_dump(d, default_flow_style=True, width=10**6, sort_keys=False))):
            for ld in ('cli', 'test', 'lib'):
                ops.append({'op': 'doc', 'data': tx, 'loader': ld}); meta.append((name, ld, tx, d))
    res = impl.run_ops_parallel(ops, ctx.wd, 'c11wide')
    n = 0
    for (name, ld, tx, want), r in zip(meta, res):
        n += 1
        rr = r.get('res')
        info = {'class': 'document-loading', 'serialisation': name, 'loader': ld, 'text': tx[:600], 'entries': len(want) if hasattr(want, '__len__') else None}
        if not rr or rr[0] != 'Ok':
            ctx.failing('%s loader rejects the %s form of a %s document: %s' % (ld, name, 'wide' if len(tx) > 400 else 'block-scalar', str(rr)[:160]), info, found=True)
        elif strip_dump(rr[1]) != of_python(want):
            ctx.failing('%s loader, %s form: the loaded value differs from the document' % (ld, name), dict(info, loaded=str(strip_dump(rr[1]))[:400], expected=str(of_python(want))[:400]), found=True)
    ctx.coverage['wide_and_block_scalar_loadings'] = n
    ctx.coverage['evaluations'] += n
    return n


def through_the_binary(ctx):
    """the same texts through `cfn-guard validate` itself (the hook loaders do not pass through build_data_file): block YAML whose
    top-level collection is indented, leading and trailing blank lines, a leading comment, CRLF, a byte-order mark - the document the
    rules see is the document the library loader gives: a rule `this == <the value as a literal>` PASSes"""
    import yaml
    texts = {
        'flush': 'a:\n  - alpha\n  - beta\nn: 1\n',
        'indented-mapping': '    a:\n      - alpha\n      - beta\n    n: 1\n',
        'indented-sequence': '  - alpha\n  - beta\n  - gamma\n',
        'indented-sequence-of-maps': '   - k: 1\n     j: x\n   - k: 2\n',
        'leading-blank-lines': '\n\n  a:\n    - alpha\n  n: 1\n',
        'leading-comment': '# c\n  a: [alpha]\n  n: 1\n',
        'trailing-blanks': 'a: [alpha]\nn: 1\n\n   \n',
        'crlf': 'a:\r\n  - alpha\r\nn: 1\r\n',
        'json-indented': '   {"a": ["alpha"],\n      "n": 1}\n',
        'tabs-in-block-scalar': BLOCK_TEXTS[0][0],
    }
    jobs, meta = [], []
    for lab, text in texts.items():
        want = yaml.safe_load(text)
        lit = gen.render_lit(gen.lit_from_py(want))
        d = os.path.join(ctx.wd, 'bin_' + lab)
        e2e.write_files(d, {'self.guard': 'rule self_equal {\n  this == %s\n}\n' % lit, 'doc.yaml': text, 'tests/self_tests.yaml': json.dumps([{'name': 'c', 'input': want, 'expectations': {'rules': {'self_equal': 'PASS'}}}])})
        jobs.append({'args': ['validate', '-r', 'self.guard', '-d', 'doc.yaml'], 'cwd': d}); meta.append((lab, 'file'))
        jobs.append({'args': ['validate', '-r', 'self.guard', '-d', 'doc.yaml', '--structured', '-o', 'json', '-S', 'none'], 'cwd': d}); meta.append((lab, 'file-structured'))
        jobs.append({'args': ['validate', '-r', 'self.guard'], 'cwd': d, 'stdin': text.encode()}); meta.append((lab, 'stdin'))
        jobs.append({'args': ['validate', '--payload'], 'cwd': d, 'stdin': json.dumps({'rules': [open(os.path.join(d, 'self.guard')).read()], 'data': [text]}).encode()}); meta.append((lab, 'payload'))
    n = 0
    for (lab, how), (code, so, se) in zip(meta, e2e.run_many(jobs)):
        n += 1
        if code != 0:
            ctx.failing('validate (%s) on the %s text: the document does not equal the value the text denotes (exit %s)' % (how, lab, code),
                        {'class': 'document-loading', 'layout': lab, 'entry': how, 'text': texts[lab], 'stdout': so[:400].decode('utf-8', 'replace'), 'stderr': se[-300:].decode('utf-8', 'replace')}, found=True)
    ctx.coverage['texts_through_the_binary'] = n
    ctx.coverage['evaluations'] += n
    return n


def core_tags(ctx):
    """explicit core-schema tags on scalars whose text is of another class (`!!float 3`, `!!int "12"`, `!!str 5`) and on text
    the tag cannot read (`!!int 1.5`, `!!bool 5`): the three loaders give the same typed value, or all reject the document"""
    cases = ['!!float 3', '!!float "7"', '!!float 2.5', '!!float -0', '!!int "12"', '!!int 12', '!!int -7', '!!str 5', '!!str true', '!!str null', '!!str 1.5',
             '!!bool "true"', '!!bool false', '!!null ""', '!!null null', '!!int 1.5', '!!int abc', '!!float abc', '!!bool 5', '!!int 1e3', '!!float 1e3',
             '!!int 9223372036854775808', '!!float .5', '!!seq [1]', '!!map {a: 1}']
    ops, meta = [], []
    for c in cases:
        for shape in ('n: %s\n', 'l: [%s, 1]\n'):
            for ld in ('cli', 'test', 'lib'):
                ops.append({'op': 'doc', 'data': shape % c, 'loader': ld}); meta.append((c, shape, ld))
    res = impl.run_ops_parallel(ops, ctx.wd, 'c11coretags')
    by = {}
    for (c, shape, ld), r in zip(meta, res):
        rr = r.get('res')
        by.setdefault((c, shape), {})[ld] = ('Ok', json.dumps(strip_dump(rr[1]), sort_keys=True)) if rr and rr[0] == 'Ok' else ('Err',)
    n = 0
    for (c, shape), d in by.items():
        n += 1
        if len(set(d.values())) != 1:
            info = {'class': 'core-tag', 'text': shape % c, 'loaded': {k: str(v)[:200] for k, v in d.items()}}
            # integers beyond i64 and the YAML-only spellings are the recorded plain-scalar finding
            if re.search(r'9223372036854775808|1e3|\.5|-0', c):
                info['class'] = 'plain-scalar-outside-json'
            if c in ('!!null ""', '!!bool 5'):
                info['class'] = 'core-tag-oddity'      # recorded finding
            ctx.failing('the loaders disagree on an explicitly tagged scalar %r: %s' % (c, {k: str(v)[:80] for k, v in d.items()}), info, found=True)
    ctx.coverage['core_tag_cases'] = n
    ctx.coverage['evaluations'] += len(ops)
    return n


def tags(ctx):
    try:
        pairs, sets = tables.tag_tables()
    except tables.TableError as e:
        # the translator no longer recognises the shape of the tables (possibly a harmless rewrite): the reviewed copy is used
        # and compared below, tag by tag and payload by payload, with what the three loaders DO. The tie then holds by that
        # exhaustive correspondence - unless the source names a tag the reviewed copy does not know, which only the translator
        # could have told apart
        j = json.load(open(os.path.join(VERIF, 'inventory', 'tag_tables.json')))
        pairs, sets = [tuple(x) for x in j['pairs']], j['sets']
        okb, detail = tables.behavioural_check('tag_tables', os.path.join(ctx.wd, 'tables_tags_c11'))
        if not okb:
            ctx.failing('the short-form tag tables can no longer be regenerated from rules/mod.rs (%s) and the loader does not behave as the reviewed copy says: %s' % (e, detail),
                        {'class': 'translator', 'problem': str(e), 'detail': detail}, found=False)
        else:
            ctx.notes['tag_tables_confirmed_behaviourally'] = 'translator: %s; %s' % (e, detail)
    long_of = dict(pairs)
    single, seq = sets['SINGLE_VALUE_FUNC_REF'], sets['SEQUENCE_VALUE_FUNC_REF']
    ops, meta = [], []
    for t in sorted(set(single) | set(seq) | set(long_of)):
        for kind, short, longf in (('scalar', 'k: !%s val.ue\n' % t, 'k: {"%s": "val.ue"}\n' % long_of.get(t, t)),
                                   ('sequence', 'k: !%s [a, b]\n' % t, 'k: {"%s": [a, b]}\n' % long_of.get(t, t)),
                                   ('nested', 'k: !%s [!%s x, b]\n' % (t if t in seq else 'Join', t if t in single else 'Ref'),
                                    'k: {"%s": [{"%s": x}, b]}\n' % (long_of.get(t if t in seq else 'Join'), long_of.get(t if t in single else 'Ref'))),
                                   # sequences of every size and style: empty (as a map value, as a list element, last in the document), one
                                   # element, written as a block
                                   ('sequence/empty', 'k: !%s []\nz: 1\n' % t, 'k: {"%s": []}\nz: 1\n' % long_of.get(t, t)),
                                   ('sequence/empty-last', 'a: 1\nk: !%s []\n' % t, 'a: 1\nk: {"%s": []}\n' % long_of.get(t, t)),
                                   ('sequence/empty-element', 'k:\n  - !%s []\n  - b\n  - !%s []\n' % (t, t), 'k: [{"%s": []}, b, {"%s": []}]\n' % (long_of.get(t, t), long_of.get(t, t))),
                                   ('sequence/one', 'k: !%s [a]\n' % t, 'k: {"%s": [a]}\n' % long_of.get(t, t)),
                                   ('sequence/block', 'k: !%s\n  - a\n  - [b, c]\n  - []\nz: 1\n' % t, 'k: {"%s": [a, [b, c], []]}\nz: 1\n' % long_of.get(t, t)),
                                   ('scalar/empty', 'k: !%s ""\nz: 1\n' % t, 'k: {"%s": ""}\nz: 1\n' % long_of.get(t, t))):
            for ld in ('cli', 'test', 'lib'):
                ops.append({'op': 'doc', 'data': short, 'loader': ld})
                meta.append((t, kind, ld, 'short', short))
                ops.append({'op': 'doc', 'data': longf, 'loader': ld})
                meta.append((t, kind, ld, 'long', longf))
    res = impl.run_ops_parallel(ops, ctx.wd, 'c11tags')
    by = {}
    for m, r in zip(meta, res):
        rr = r.get('res')
        by.setdefault((m[0], m[1]), {})[(m[2], m[3])] = (strip_dump(rr[1]) if rr and rr[0] == 'Ok' else ('error', str(rr)[:80]), m[4])
    n = 0
    for (t, kind), d in by.items():
        base = kind.split('/')[0]
        matched = (base == 'scalar' and t in single) or (base == 'sequence' and t in seq) or kind == 'nested'
        for ld in ('cli', 'test', 'lib'):
            n += 1
            s_val, s_text = d[(ld, 'short')]
            l_val, l_text = d[(ld, 'long')]
            info = {'tag': t, 'payload': kind, 'loader': ld, 'short': s_text, 'long': l_text, 'short_loaded': str(s_val)[:300], 'long_loaded': str(l_val)[:300]}
            if s_val != l_val:
                if matched:
                    ctx.failing('!%s with a %s payload is not loaded like its long form by the %s loader' % (t, kind, ld), dict(info, **{'class': 'short-form-tag'}), found=True)
                else:
                    ctx.failing('!%s with a %s payload (a payload kind the tag table does not list) is not loaded like its long form by the %s loader' % (t, kind, ld),
                                dict(info, **{'class': 'short-form-tag-kind-mismatch'}), found=True)
    ctx.coverage['tag_payload_loader_combinations'] = n
    ctx.coverage['evaluations'] += len(ops)
    return n


def rejects(ctx):
    bad = ['{"a": [', 'a: b: c\n', 'a: [1, 2\n', '{1: a}\n', '? [a, b]\n: c\n', '{true: 1}\n', '{null: 1}\n', 'a: &x 1\nb: *x\n', '\t- a\n- b', '{"a": 1,}', '[1, 2', '"unterminated', '{a: 1}}',
           '- {1: a}\n', 'a: [{1: b}]\n', 'a:\n  - 443: open\n    name: x\n', '[[{true: 1}]]\n', 'a: [1, {null: 2}, 3]\n', 'a:\n  b:\n    - c:\n        - 1.5: x\n',
           'a: {b: {2: c}}\n', '- - - {[1]: 2}\n']
    # a key that carries a short-form tag stands for a map ({Ref: a}), not for a string: every loader rejects it, for every tag
    # of the tables, in flow maps, block maps, explicit keys and below sequences
    try:
        _pairs, _sets = tables.tag_tables()
        tagnames = sorted(set(_sets['SINGLE_VALUE_FUNC_REF']) | set(_sets['SEQUENCE_VALUE_FUNC_REF']))
    except Exception:
        _j = json.load(open(os.path.join(VERIF, 'inventory', 'tag_tables.json')))
        tagnames = sorted(set(_j['sets']['SINGLE_VALUE_FUNC_REF']) | set(_j['sets']['SEQUENCE_VALUE_FUNC_REF']))
    tagged = []
    for tn in tagnames:
        tagged += ['{!%s a: 1}\n' % tn, 'Settings: {!%s a: 1, b: 2}\n' % tn, '!%s a: 1\n' % tn, '? !%s a\n: 1\n' % tn, 'x:\n  - !%s k: v\n' % tn, '? !%s [a, b]\n: 1\n' % tn]
    bad = bad + tagged
    ops, meta = [], []
    for t in bad:
        for ld in ('cli', 'test', 'lib'):
            ops.append({'op': 'doc', 'data': t, 'loader': ld})
            meta.append((t, ld))
    res = impl.run_ops_parallel(ops, ctx.wd, 'c11bad')
    for (t, ld), r in zip(meta, res):
        rr = r.get('res')
        if 'panic' in r or 'abort' in r:
            continue      # C08
        if rr and rr[0] == 'Ok':
            v = strip_dump(rr[1])
            cls = 'accepted-by-some-loader'
            # aliases, a trailing comma in flow YAML and such are legal YAML for serde_yaml: what must never happen is a
            # non-string key or broken syntax being loaded as something else
            nonstring_key = t.startswith(('{1:', '? [', '{true:', '{null:')) or bool(re.search(r'\{(1|true|null|2|\[1\]): |443: |1\.5: ', t))
            broken = t in ('{"a": [', 'a: [1, 2\n', '[1, 2', '"unterminated', 'a: b: c\n')
            nonstring_key = nonstring_key or t in tagged
            if nonstring_key or broken:
                ctx.failing('the %s loader accepts %r as %s' % (ld, t, str(v)[:120]), {'class': 'accepts-bad-document', 'text': t, 'loader': ld, 'loaded': str(v)[:300]}, found=True)
    ctx.coverage['malformed_documents'] = len(bad)
    ctx.coverage['evaluations'] += len(ops)
    return len(bad)


def run(ctx):
    ctx.build(cli=True)
    pr = ctx.proofs('C11')
    thorough = ctx.tier == 'thorough'
    n = classify_universe(ctx) + loaders_on_scalars(ctx) + documents(ctx, 400 if thorough else 60) + tags(ctx) + core_tags(ctx) + rejects(ctx) + wide_and_blocks(ctx) + through_the_binary(ctx)
    ctx.coverage['distinct_nontrivial'] = n
    ctx.coverage['rule'] = ('a universe of %d scalar spellings (plain / single / double quoted) through every loader; generated documents in 5 serialisations x 3 loaders; every tag of the '
                            'regenerated tables x {scalar, sequence, nested} x 3 loaders, short vs long form; 13 malformed or non-string-key texts' % len(PLAIN_UNIVERSE))
    ctx.coverage['trusted_base'] = [
        'Coq 8.16.1 kernel (coqc), vm_compute for the classification cases and the table lemmas; no axioms',
        'hand-written model Scalar.v / Tags.v (modelled, not verified); translator tools/gv/tables.py for the tag tables',
        'hook doc_dump with the three loading paths; emitters of tools/gv/props/c10.py',
    ]
    ctx.assumptions = ['decimal-to-binary conversion of floats is the implementation\'s own (bit patterns are compared between loaders, not with the model)',
                       'plain scalars outside the JSON-compatible spellings and tags used with a payload kind their table does not list are recorded findings']
    if not pr['ok']:
        ctx.failing('proof obligations of Props/C11.v no longer check: %s' % (pr.get('problems') or pr.get('log', '')[-500:]),
                    {'class': 'proof', 'theorems': pr['theorems']}, found=False)


def replay(ctx, path):
    j = json.load(open(path))
    for v in j.get('violations', []):
        print(json.dumps(v, indent=1)[:3000])
    return 0
