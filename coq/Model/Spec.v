(* Spec.v — an independent reading of the DOCUMENTED semantics of the core language (docs/CLAUSES.md,
   QUERY_AND_FILTERING.md, CONTEXTAWARE_EVALUATIONS_AND_LOOPS.md): a total, stateless evaluator.
   No scope stack with memo, no rule-status cache, no records, no reporting machinery: a variable is re-derived at
   every use, a named rule at every reference. Outside the core fragment (functions, key captures, `keys` filters,
   interpolation, parameterised rules, type blocks, query right-hand sides, names defined twice in one scope) the
   answer is SOut: "not covered", never a verdict.
   Only the scalar comparison kernels of Compare.v (C13's subject) are shared with the model of the implementation. *)
From GV.Model Require Export Ast Compare.

(* a selected value (was it written as a literal in the rules file?) or "nothing at this path" *)
Inductive sval := SV (lit : bool) (v : pv) | SMiss.

Inductive sres (A : Type) := SOk (a : A) | SUndef | SOut.
Arguments SOk {A} a.
Arguments SUndef {A}.
Arguments SOut {A}.

Definition sbind {A B} (m : sres A) (f : A -> sres B) : sres B :=
  match m with SOk a => f a | SUndef => SUndef | SOut => SOut end.
Notation "x <~ m ;; f" := (sbind m (fun x => f)) (at level 100, m at next level, right associativity).

Fixpoint smap {A B} (f : A -> sres B) (l : list A) : sres (list B) :=
  match l with
  | [] => SOk []
  | x :: r => y <~ f x ;; ys <~ smap f r ;; SOk (y :: ys)
  end.
Definition sflat {A B} (f : A -> sres (list B)) (l : list A) : sres (list B) :=
  r <~ smap f l ;; SOk (List.concat r).

(* a scope: the value it is evaluated against and its `let` definitions *)
Definition frame := (pv * list let_expr)%type.
Definition senv := list frame.          (* innermost first *)

Definition cur_value (env : senv) : sres pv :=
  match env with (v, _) :: _ => SOk v | [] => SOut end.

Fixpoint count_name (name : string) (lets : list let_expr) : nat :=
  match lets with
  | [] => O
  | (n, _) :: r => (if String.eqb n name then 1 else 0) + count_name name r
  end.
Fixpoint find_let (name : string) (lets : list let_expr) : option let_value :=
  match lets with
  | [] => None
  | (n, v) :: r => if String.eqb n name then Some v else find_let name r
  end.

Section Spec.
Variable re : re_oracle.
(* which literal values of `let` variables the reading covers: everything in the monitor (CheckSpec.v); the refinement
   theorem (Proofs/RefineProps.v) restricts it to the values it can speak about, the rest is "not covered" *)
Variable lit_ok : pv -> bool.
Variable prog : rules_file.
Variable doc : pv.

(* ---------------------------------------------------------------- per-value checks *)

Definition of_cmp (o : outcome bool) (neg : bool) : sres status :=
  match o with
  | Done b => SOk (if xorb b neg then PASS else FAIL)
  | Err ENotComparable => SOk FAIL          (* incomparable: FAIL, also under negation *)
  | _ => SOut                               (* a regular expression that fails at run time: not a documented case *)
  end.

Definition str_in (l r : pv) : option bool :=
  match l, r with
  | PString _ ls, PString _ rs => Some (str_contains rs ls)
  | _, _ => None
  end.

Definition all_in (xs ys : list pv) : sres bool :=
  (fix go (xs : list pv) : sres bool :=
     match xs with
     | [] => SOk true
     | x :: r =>
         match contains_pv re ys x with
         | Done c => b <~ go r ;; SOk (c && b)
         | _ => SOut                   (* membership uses ==, which always answers *)
         end
     end) xs.
Definition none_in (xs ys : list pv) : sres bool :=
  (fix go (xs : list pv) : sres bool :=
     match xs with
     | [] => SOk true
     | x :: r =>
         match contains_pv re ys x with
         | Done c => b <~ go r ;; SOk (negb c && b)
         | _ => SOut                   (* membership uses ==, which always answers *)
         end
     end) xs.

(* X in R for one value X: a list is in a list when all its elements are (or, for a list of lists, when it is one of
   them); a scalar is in a list when it equals a member; against anything else `in` is equality (ranges, regexes) *)
Definition value_in (neg : bool) (l r : pv) : sres status :=
  match l, r with
  | PList _ lhsl, PList _ rhsl =>
      if (match rhsl with x :: _ => is_list x | [] => false end) then
        match contains_pv re rhsl l with
        | Done c => SOk (if xorb c neg then PASS else FAIL)
        | _ => SOut
        end
      else if neg then
        (* `not in`: no element may be in the list; an `in` that held never turns into a PASS *)
        a <~ all_in lhsl rhsl ;;
        if a then SOk FAIL else (b <~ none_in lhsl rhsl ;; SOk (if b then PASS else FAIL))
      else (b <~ all_in lhsl rhsl ;; SOk (if b then PASS else FAIL))
  | PList _ _, _ => SOk FAIL
  | _, PList _ rhsl =>
      match contains_pv re rhsl l with
      | Done c => SOk (if xorb c neg then PASS else FAIL)
      | _ => SOut
      end
  | _, _ => of_cmp (compare_eq re l r) neg
  end.

Definition elements (v : pv) : list pv := match v with PList _ l => l | other => [other] end.

Definition ordering (o : cmp_op) : option (pv -> pv -> outcome bool) :=
  match o with
  | OLt => Some compare_lt | OLe => Some compare_le | OGt => Some compare_gt | OGe => Some compare_ge
  | _ => None
  end.

(* the outcomes of `X op r` for one selected value X against the literal r *)
Definition check_value (o : cmp_op) (neg : bool) (x : sval) (r : pv) : sres (list status) :=
  match x with
  | SMiss => SOk [FAIL]                     (* an unresolved path fails every comparison *)
  | SV _ v =>
      match o with
      | OEq =>
          match r with
          | PList _ [single] =>
              if is_scalar v then (s <~ of_cmp (compare_eq re v single) neg ;; SOk [s])
              else (s <~ of_cmp (compare_eq re v r) neg ;; SOk [s])
          | PList _ _ => s <~ of_cmp (compare_eq re v r) neg ;; SOk [s]
          | _ =>
              match v with
              | PList _ l => smap (fun e => of_cmp (compare_eq re e r) neg) l
              | _ => s <~ of_cmp (compare_eq re v r) neg ;; SOk [s]
              end
          end
      | OIn =>
          match r with
          | PString _ _ =>
              smap (fun e => match str_in e r with
                             | Some b => SOk (if xorb b neg then PASS else FAIL)
                             | None => SOk FAIL
                             end) (elements v)
          | _ => s <~ value_in neg v r ;; SOk [s]
          end
      | _ =>
          match ordering o with
          | Some f => sflat (fun l => smap (fun rr => of_cmp (f l rr) neg) (elements r)) (elements v)
          | None => SOut
          end
      end
  end.

(* a single value written as a literal on the left (a literal-valued variable): compared as it is *)
Definition check_literal (o : cmp_op) (neg : bool) (l r : pv) : sres (list status) :=
  match o with
  | OEq => s <~ of_cmp (compare_eq re l r) neg ;; SOk [s]
  | OIn =>
      match str_in l r with
      | Some true => SOk [if neg then FAIL else PASS]
      | _ => s <~ value_in neg l r ;; SOk [s]
      end
  | _ =>
      match ordering o with
      | Some f => sflat (fun x => smap (fun rr => of_cmp (f x rr) neg) (elements r)) (elements l)
      | None => SOut
      end
  end.

Definition unary_value (o : cmp_op) (x : sval) : sres bool :=
  match o, x with
  | OExists, SMiss => SOk false
  | OExists, SV _ _ => SOk true
  | OEmpty, SMiss => SOk true
  | OEmpty, SV _ v =>
      match v with
      | PList _ l => SOk (match l with [] => true | _ => false end)
      | PMap _ _ vals => SOk (match vals with [] => true | _ => false end)
      | PString _ s => SOk (str_is_empty s)
      | PBool _ _ => SOk false
      | _ => SUndef                 (* `empty` on a number, null, ...: undefined *)
      end
  | _, SMiss => SOk false
  | OIsString, SV _ v => SOk (match v with PString _ _ => true | _ => false end)
  | OIsList, SV _ v => SOk (match v with PList _ _ => true | _ => false end)
  | OIsMap, SV _ v => SOk (match v with PMap _ _ _ => true | _ => false end)
  | OIsBool, SV _ v => SOk (match v with PBool _ _ => true | _ => false end)
  | OIsInt, SV _ v => SOk (match v with PInt _ _ => true | _ => false end)
  | OIsFloat, SV _ v => SOk (match v with PFloat _ _ => true | _ => false end)
  | OIsNull, SV _ v => SOk (match v with PNull _ => true | _ => false end)
  | _, _ => SOut
  end.

Definition aggregate (all : bool) (l : list status) : status :=
  if all then (if existsb (status_eqb FAIL) l then FAIL else PASS)
  else (if existsb (status_eqb PASS) l then PASS else FAIL).

Definition body_status (l : list status) : status :=
  if existsb (status_eqb FAIL) l then FAIL else if existsb (status_eqb PASS) l then PASS else SKIP.
Definition some_status (l : list status) : status :=
  if existsb (status_eqb PASS) l then PASS else if existsb (status_eqb FAIL) l then FAIL else SKIP.

Definition is_filter_part (p : query_part) : bool := match p with QFilter _ _ | QMapKeyFilter _ _ _ => true | _ => false end.

(* one `or` line: alternatives left to right, nothing after the first PASS; a body: every line *)
Fixpoint or_line {T} (f : T -> sres status) (l : list T) (failed : bool) : sres status :=
  match l with
  | [] => SOk (if failed then FAIL else SKIP)
  | x :: r => st <~ f x ;;
              match st with PASS => SOk PASS | FAIL => or_line f r true | SKIP => or_line f r failed end
  end.
Definition and_body {T} (f : T -> sres status) (cnf : list (list T)) : sres status :=
  sts <~ smap (fun l => or_line f l false) cnf ;; SOk (body_status sts).

(* ---------------------------------------------------------------- the evaluator (fuel only bounds nesting) *)

(* the three mutually dependent entry points; written in open-recursion style (bodies over a record of callees, one
   Fixpoint on the fuel) so that the refinement proof (Proofs/RefineProps.v) can treat each body on its own *)
Record sev := mkSev {
  sv_query : senv -> query -> sres (list sval);               (* a query in the current scope *)
  sv_cnf : senv -> list (list guard_clause) -> sres status;   (* a body / filter condition *)
  sv_rule : string -> sres status }.                          (* a rule by name *)

Definition not_miss (x : sval) : bool := match x with SMiss => false | _ => true end.
Definition is_lit (x : sval) : bool := match x with SV true _ => true | _ => false end.

Section Bodies.
Variable r : sev.

(* walk the remaining parts from value v; prev is the part just before *)
Fixpoint walk (env : senv) (prev : option query_part) (q : query) (v : pv) {struct q} : sres (list sval) :=
  match q with
  | [] => SOk [SV false v]
  | part :: rest =>
      let next := walk env (Some part) rest in
      match part with
      | QThis => next v
      | QKey k =>
          match key_variable k with
          | Some _ => SOut
          | None =>
              match parse_i32 k with
              | Some idx =>
                  match v with
                  | PList _ l => match nth_error l (Z.to_nat (Z.abs idx)) with Some e => next e | None => SOk [SMiss] end
                  | _ => SOk [SMiss]
                  end
              | None =>
                  match v with
                  | PMap _ _ vals => match assoc k vals with Some x => next x | None => SOk [SMiss] end
                  | _ => SOk [SMiss]
                  end
              end
          end
      | QIndex i =>
          match v with
          | PList _ l => match nth_error l (Z.to_nat (Z.abs i)) with Some e => next e | None => SOk [SMiss] end
          | _ => SOk [SMiss]
          end
      | QAllValues None =>
          match v with
          | PList _ [] => SOk [SMiss]
          | PList _ l => sflat next l
          | PMap _ _ [] => SOk [SMiss]
          | PMap _ _ vals => sflat next (map snd vals)
          | _ => next v
          end
      | QAllIndices None =>
          match v with
          | PList _ [] => SOk [SMiss]
          | PList _ l => sflat next l
          | _ => next v
          end
      | QFilter None cnf =>
          let keep (e : pv) : sres (list sval) :=
            st <~ sv_cnf r ((e, []) :: env) cnf ;;
            match st with PASS => next e | _ => SOk [] end in
          match v with
          | PList _ l => sflat keep l
          | PMap _ _ vals =>
              match prev with
              | Some (QAllValues _) | Some (QAllIndices _) => keep v
              | Some (QKey _) => sflat keep (map snd vals)
              | _ => SOut
              end
          | _ =>
              match prev with
              | Some (QAllIndices _) => keep v
              | Some _ => SOk [SMiss]
              | None => SOut
              end
          end
      | _ => SOut
      end
  end.

(* a variable: found in the innermost scope that defines it, evaluated against that scope *)
Fixpoint resolve (env : senv) (name : string) {struct env} : sres (list sval) :=
  match env with
  | [] => SUndef
  | (v, lets) :: outer =>
      match count_name name lets with
      | O => resolve outer name
      | S O =>
          match find_let name lets with
          | Some (LValue lit) => if lit_ok lit then SOk [SV true lit] else SOut
          | Some (LAccess aq) =>
              res <~ sv_query r env (aq_query aq) ;;
              (* `some`: the values that are there; over values written as literals it is not covered *)
              if aq_all aq then SOk res else if existsb is_lit res then SOut else SOk (filter not_miss res)
          | _ => SOut
          end
      | _ => SOut
      end
  end.

(* a query: from the current value, or - when it starts with %name - from every value of the variable; the `[*]` that
   follows a variable stands for "each of its values", so a filter written directly after %name tests each value *)
Definition query_s (env : senv) (q : query) : sres (list sval) :=
  match q with
  | [] => SOut
  | QKey k :: rest =>
      match key_variable k with
      | Some name =>
          vals <~ resolve env name ;;
          let '(prev, rest') := match rest with
                                | QAllIndices n :: rr => (QAllIndices n, rr)
                                | _ => (QKey k, rest)
                                end in
          match rest' with
          | [] => SOk vals
          | _ =>
              sflat (fun x => match x with
                              | SMiss => SOk [SMiss]
                              | SV _ v => walk ((v, []) :: env) (Some prev) rest' v
                              end) vals
          end
      | None => v <~ cur_value env ;; walk env None q v
      end
  | _ => v <~ cur_value env ;; walk env None q v
  end.

Definition polarity (b neg prefix_not : bool) : status := if xorb (xorb b neg) prefix_not then PASS else FAIL.

Definition access_s (env : senv) (c : access_clause) : sres status :=
  match c with
  | GuardAccessClause aq (o, neg) w _ prefix_not =>
      lhs <~ query_s env (aq_query aq) ;;
      if is_unary o then
        let last_is_filter := match rev (aq_query aq) with p :: _ => is_filter_part p | [] => false end in
        let bare_variable := match aq_query aq with [p] => part_is_variable p | _ => false end in
        if cmp_op_eqb o OEmpty && (last_is_filter || bare_variable) then
          (* `empty` on a filtered selection or a bare variable tests the result set *)
          match lhs with
          | [] => SOk (if xorb (negb neg) prefix_not then PASS else FAIL)
          | _ =>
              SOk (aggregate (aq_all aq)
                     (map (fun x => let b := match x with SMiss => true | SV _ v => is_null v end in
                                    polarity b neg prefix_not) lhs))
          end
        else
          match lhs with
          | [] => SOk SKIP
          | _ =>
              sts <~ smap (fun x => b <~ unary_value o x ;; SOk (polarity b neg prefix_not)) lhs ;;
              SOk (aggregate (aq_all aq) sts)
          end
      else
        (* the right-hand side: a literal, or a bare variable bound to a literal *)
        rhs <~ match w with
               | Some (LValue rv) => SOk rv
               | Some (LAccess (AccessQuery [QKey k] _)) =>
                   match key_variable k with
                   | Some name =>
                       vals <~ resolve env name ;;
                       match vals with [SV true lit] => SOk lit | _ => SOut end
                   | None => SOut
                   end
               | _ => SOut
               end ;;
        let neg' := xorb neg prefix_not in
        match lhs with
        | [] => SOk SKIP
        | [SV true l] => sts <~ check_literal o neg' l rhs ;; SOk (aggregate (aq_all aq) sts)
        | _ => sts <~ sflat (fun x => check_value o neg' x rhs) lhs ;; SOk (aggregate (aq_all aq) sts)
        end
  end.

Definition named_s (n : named_clause) : sres status :=
  match n with
  | GuardNamedRuleClause dep neg _ =>
      st <~ sv_rule r dep ;;
      SOk (match st with PASS => if neg then FAIL else PASS | _ => if neg then PASS else FAIL end)
  end.

Definition when_clause_s (env : senv) (w : when_clause) : sres status :=
  match w with
  | WClause c => access_s env c
  | WNamedRule n => named_s n
  | WParameterizedNamedRule _ _ => SOut
  end.

Definition block_s (env : senv) (b : gblock) : sres status :=
  match b with
  | Block lets cnf => v <~ cur_value env ;; sv_cnf r ((v, lets) :: env) cnf
  end.

Definition when_block_s (env : senv) (conds : when_conditions) (b : gblock) : sres status :=
  c <~ and_body (when_clause_s env) conds ;;
  match c with PASS => block_s env b | _ => SOk SKIP end.

Definition clause_s (env : senv) (g : guard_clause) : sres status :=
  match g with
  | GClause c => access_s env c
  | GNamedRule n => named_s n
  | GParameterizedNamedRule _ _ => SOut
  | GBlockClause aq b not_empty =>
      vals <~ query_s env (aq_query aq) ;;
      match vals with
      | [] => SOk (if not_empty then FAIL else SKIP)
      | _ =>
          sts <~ smap (fun x => match x with
                                | SMiss => SOk FAIL
                                | SV _ v => block_s ((v, []) :: env) b
                                end) vals ;;
          SOk (if aq_all aq then body_status sts else some_status sts)
      end
  | GWhenBlock conds b => when_block_s env conds b
  end.

Definition cnf_s (env : senv) (c : list (list guard_clause)) : sres status := and_body (clause_s env) c.

Definition file_env : senv := [(doc, rf_lets prog)].

(* a type block `AWS::X::Y [when conds] { body }`: the parser turns the type name into the selection
   `Resources.*[ Type == "AWS::X::Y" ]` (q); the body is run on every selected resource and all of them have to pass.
   No resource of the type: SKIP.  A selection that cannot be made at all (no `Resources`, an empty `Resources`, a
   resource that is not a map) is an error in the implementation (known finding C14-type-block-unresolved-selection:
   the documentation reads it as "no resources of this type"); the specification records what the code does. *)
Definition type_block_s (env : senv) (conds : option when_conditions) (b : gblock) (q : query) : sres status :=
  go <~ match conds with
        | Some c => st <~ and_body (when_clause_s env) c ;; SOk (status_eqb st PASS)
        | None => SOk true
        end ;;
  if go then
    vals <~ query_s env q ;;
    match vals with
    | [] => SOk SKIP
    | _ =>
        sts <~ smap (fun x => match x with
                              | SMiss => SUndef
                              | SV _ v => block_s ((v, []) :: env) b
                              end) vals ;;
        SOk (body_status sts)
    end
  else SOk SKIP.

Definition rule_clause_s (env : senv) (c : rule_clause) : sres status :=
  match c with
  | RClause g => clause_s env g
  | RWhenBlock conds b => when_block_s env conds b
  | RTypeBlock _ conds b q => type_block_s env conds b q
  end.

Definition rule_eval_s (x : rule) : sres status :=
  go <~ match rule_conditions x with
        | Some conds => c <~ and_body (when_clause_s file_env) conds ;; SOk (status_eqb c PASS)
        | None => SOk true
        end ;;
  if go then and_body (rule_clause_s ((doc, rule_lets x) :: file_env)) (rule_cnf x) else SOk SKIP.

Definition rule_status_s (name : string) : sres status :=
  match filter (fun x => String.eqb (rule_name x) name) (rf_rules prog) with
  | [x] => rule_eval_s x
  | [] => SUndef
  | _ => SOut
  end.

End Bodies.

Definition sev_bottom : sev := mkSev (fun _ _ => SOut) (fun _ _ => SOut) (fun _ => SOut).

Fixpoint run (n : nat) : sev :=
  match n with
  | O => sev_bottom
  | S n' => let r := run n' in mkSev (query_s r) (cnf_s r) (rule_status_s r)
  end.

Definition spec_rule (n : nat) (name : string) : sres status := sv_rule (run n) name.

(* the verdict table of a file: every rule (distinct names), and the file status *)
Definition spec_file (n : nat) : sres (status * list (string * status)) :=
  let names := map rule_name (rf_rules prog) in
  if negb (Nat.eqb (List.length (nodup string_dec names)) (List.length names)) then SOut
  else match rf_param_rules prog with
       | _ :: _ => SOut
       | [] =>
           sts <~ smap (fun x => st <~ spec_rule n (rule_name x) ;; SOk (rule_name x, st)) (rf_rules prog) ;;
           SOk (body_status (map snd sts), sts)
       end.

End Spec.
