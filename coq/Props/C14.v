(* C14 — alternative spellings, layout and comments do not change a rule file's meaning (partial). Pinned statements only.
   Proved: the lexical layer (keyword synonym classes over tables regenerated from parser.rs, white space and comments,
   quoted strings). NOT modelled: the nom grammar as a whole - that a synonym is accepted identically in EVERY context is
   checked by correspondence (pretty-printing generated ASTs under all spellings/layouts and comparing the parser's
   ASTs and the verdicts; tools/gv/props/c14.py). *)
From GV.Model Require Import Lex.
From GV.Proofs Require Import LexProps.

Theorem C14_keyword_tables_are_the_documented_ones :
  set_eqb kw_in_keyword ["in"; "IN"] = true /\ set_eqb kw_keys ["keys"; "KEYS"] = true /\
  set_eqb kw_exists ["exists"; "EXISTS"] = true /\ set_eqb kw_empty ["empty"; "EMPTY"] = true /\
  set_eqb kw_is_list ["is_list"; "IS_LIST"] = true /\ set_eqb kw_is_struct ["is_struct"; "IS_STRUCT"] = true /\
  set_eqb kw_is_string ["is_string"; "IS_STRING"] = true /\ set_eqb kw_is_bool ["is_bool"; "IS_BOOL"] = true /\
  set_eqb kw_is_int ["is_int"; "IS_INT"] = true /\ set_eqb kw_is_float ["is_float"; "IS_FLOAT"] = true /\
  set_eqb kw_is_null ["is_null"; "IS_NULL"] = true /\ set_eqb kw_some_keyword ["some"; "SOME"] = true /\
  set_eqb kw_this_keyword ["this"; "THIS"] = true /\ set_eqb kw_when ["when"; "WHEN"] = true /\
  set_eqb kw_or_term ["or"; "OR"; "|OR|"] = true /\ set_eqb kw_parse_null ["null"; "NULL"] = true /\
  set_eqb kw_not_words ["not"; "NOT"] = true /\ set_eqb kw_not_chars ["!"] = true /\
  set_eqb kw_assign ["="; ":="] = true /\ set_eqb kw_let_keyword ["let"] = true /\
  set_eqb kw_bool_true ["true"; "True"] = true /\ set_eqb kw_bool_false ["false"; "False"] = true.
Proof. exact keyword_tables_are_the_documented_ones. Qed.
Print Assumptions C14_keyword_tables_are_the_documented_ones.

Theorem C14_synonyms_same_token : forall T (x : T) tags s r1,
  alt_tags tags s = Some r1 -> keyword x tags s = Some (x, r1).
Proof. exact synonyms_same_token. Qed.
Print Assumptions C14_synonyms_same_token.

Theorem C14_tag_accepted : forall tags t rest,
  In t tags -> (forall u, In u tags -> u <> t -> str_prefix u (t +++ rest) = false) ->
  alt_tags tags (t +++ rest) = Some rest.
Proof. exact tag_accepted. Qed.
Print Assumptions C14_tag_accepted.

(* indentation, blank lines, trailing spaces, line breaks and # comments: consumed down to the same remainder *)
Theorem C14_ws_comment_absorbing : forall w rest, layout w -> solid rest -> skip_ws_comments (w +++ rest) = rest.
Proof. exact ws_comment_absorbing. Qed.
Print Assumptions C14_ws_comment_absorbing.

Theorem C14_layouts_are_interchangeable : forall w1 w2 rest,
  layout w1 -> layout w2 -> solid rest -> skip_ws_comments (w1 +++ rest) = skip_ws_comments (w2 +++ rest).
Proof. exact layouts_are_interchangeable. Qed.
Print Assumptions C14_layouts_are_interchangeable.

(* single vs double quoted strings *)
Theorem C14_string_quote_roundtrip : forall q s rest,
  q <> "\"%char -> ends_with_backslash s = false ->
  parse_quoted q (quote q s +++ rest) = Some (s, rest).
Proof. exact string_quote_roundtrip. Qed.
Print Assumptions C14_string_quote_roundtrip.

Theorem C14_single_and_double_quotes_agree : forall s rest,
  ends_with_backslash s = false ->
  parse_quoted "'" (quote "'" s +++ rest) = parse_quoted """" (quote """" s +++ rest).
Proof. exact single_and_double_quotes_agree. Qed.
Print Assumptions C14_single_and_double_quotes_agree.
