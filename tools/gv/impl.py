"""Build and run the implementation: the hook harness (library, --cfg guard_verif)
and the real cfn-guard binary, both from /repo's current working tree."""
import os, json, subprocess, tempfile
from .common import *

HARNESS_DIR = os.path.join(VERIF, 'harness')
HARNESS_BIN = os.path.join(CACHE, 'target', 'debug', 'guard-verif-harness')
CLI_BIN = os.path.join(CACHE, 'target-cli', 'debug', 'cfn-guard')

def build_harness():
    lock = os.path.join(HARNESS_DIR, 'Cargo.lock')
    if not os.path.exists(lock):
        shutil.copy(os.path.join(REPO, 'Cargo.lock'), lock)
    sh(['cargo', TOOLCHAIN, 'build', '--offline'], cwd=HARNESS_DIR,
       env={'RUSTFLAGS': '--cfg guard_verif', 'CARGO_TARGET_DIR': os.path.join(CACHE, 'target')},
       timeout=1800)
    return HARNESS_BIN

def build_cli():
    sh(['cargo', TOOLCHAIN, 'build', '--offline', '-p', 'cfn-guard', '--bin', 'cfn-guard'], cwd=REPO,
       env={'CARGO_TARGET_DIR': os.path.join(CACHE, 'target-cli')}, timeout=1800)
    return CLI_BIN

def run_ops(ops, wd, tag='ops', timeout_per_run=600):
    """Run a list of op dicts through the harness. Returns a list of results
    aligned with ops: {'res':..} | {'panic':..} | {'abort':True} | {'timeout':True}."""
    opsf = os.path.join(wd, tag + '.jsonl')
    outf = os.path.join(wd, tag + '.out.jsonl')
    with open(opsf, 'w') as f:
        for op in ops:
            f.write(json.dumps(op) + '\n')
    if os.path.exists(outf):
        os.remove(outf)
    results = [None] * len(ops)
    start = 0
    while start < len(ops):
        try:
            subprocess.run([HARNESS_BIN, opsf, outf, str(start)], timeout=timeout_per_run,
                           stdout=subprocess.DEVNULL, stderr=subprocess.DEVNULL)
            timed_out = False
        except subprocess.TimeoutExpired:
            timed_out = True
        last_started = None
        with open(outf) as f:
            for line in f:
                line = line.strip()
                if not line:
                    continue
                try:
                    j = json.loads(line)
                except ValueError:
                    continue
                i = j['i']
                if j.get('start'):
                    last_started = i
                elif 'res' in j:
                    results[i] = {'res': j['res']}
                elif 'panic' in j:
                    results[i] = {'panic': j['panic']}
                else:
                    results[i] = {'harness_error': j.get('harness_error')}
        if last_started is None:
            raise ToolingError('harness produced no output')
        if results[last_started] is None:
            results[last_started] = {'timeout': True} if timed_out else {'abort': True}
            start = last_started + 1
        else:
            start = last_started + 1
            if start >= len(ops):
                break
            # all done up to here but process ended: should not happen
            if not timed_out and all(r is not None for r in results):
                break
    for i, r in enumerate(results):
        if r is None:
            results[i] = {'harness_error': 'no result'}
    return results

def run_ops_parallel(ops, wd, tag='ops', jobs=NPROC):
    """Shard ops over several harness processes."""
    from concurrent.futures import ThreadPoolExecutor
    if len(ops) < 64 or jobs <= 1:
        return run_ops(ops, wd, tag)
    n = min(jobs, (len(ops) + 31) // 32)
    shards = [list(range(k, len(ops), n)) for k in range(n)]
    out = [None] * len(ops)
    def work(k):
        rs = run_ops([ops[i] for i in shards[k]], wd, '%s.%d' % (tag, k))
        for i, r in zip(shards[k], rs):
            out[i] = r
    with ThreadPoolExecutor(max_workers=n) as ex:
        list(ex.map(work, range(n)))
    return out

def cli(args, stdin=None, timeout=60, cwd=None):
    """Run the real binary. Returns (exit_code or -signal, stdout, stderr)."""
    try:
        p = subprocess.run([CLI_BIN] + list(args), input=stdin, cwd=cwd, timeout=timeout,
                           stdout=subprocess.PIPE, stderr=subprocess.PIPE)
        return p.returncode, p.stdout, p.stderr
    except subprocess.TimeoutExpired:
        return 'timeout', b'', b''
