(* ValueInv.v — the one panic site PanicProps leaves open (P_map_key_missing: `map.values.get(key).unwrap()` in the `keys` filter,
   eval_context.rs 878) is unreachable when the document and every literal of the rules file are key-consistent
   (Strat.wfv: the key list of a struct names only keys the struct holds - what TryFrom<(&Value, Path)> builds).
   A Hoare-style pass over the interpreter: every value held in a scope, a memo, a parameter binding or a query result is
   key-consistent; the keys a `keys` filter selects are members of the key list of the struct it walks.
   With PanicProps.eval_file_no_panic: for a parser-shaped program whose literals are key-consistent and a key-consistent
   document, NO panic site of the modelled evaluator is reached, whatever the fuel and the oracles. *)
From GV.Model Require Import SEval Strat.
From GV.Proofs Require Import EvalLaws FrameProps MkPure PanicProps.
From Coq Require Import Lia.
Local Open Scope nat_scope.

Notation mk := P_map_key_missing.

Definition wfq (q : qres) : Prop := match q with QLiteral v | QResolved v => wfv v = true | QUnResolved _ => True end.
Definition memo_ok (m : list (string * list qres)) : Prop := Forall (fun kv => Forall wfq (snd kv)) m.
Definition frame_ok (f : frame) : Prop :=
  match f with
  | FRoot root lets memo | FBlock root lets memo => wfv root = true /\ vwf_lets lets = true /\ memo_ok memo
  | FValue root => wfv root = true
  | FParams b _ _ => memo_ok b
  end.
Definition SInv (s : state) : Prop := Forall frame_ok (frames s).

Definition safe {A} (P : A -> Prop) (m : M A) : Prop :=
  forall s, SInv s -> m s <> Panic mk /\ (forall a recs s', m s = Done (a, recs, s') -> P a /\ SInv s').

Notation top := (fun _ => True).

(* ---------------------------------------------------------------- key-consistent values *)
Lemma wfv_vals_go vals : (fix go (l : list (string * pv)) : bool := match l with [] => true | (_, x) :: r => wfv x && go r end) vals = true ->
  forall k v, In (k, v) vals -> wfv v = true.
Proof.
  induction vals as [|[k0 x] vals IH]; intros H k v Hin; [destruct Hin|]. apply andb_prop in H as [Hx Hr].
  destruct Hin as [E|Hin]; [inversion E; subst; exact Hx|exact (IH Hr k v Hin)].
Qed.

Lemma wfv_map_get p keys vals k v : wfv (PMap p keys vals) = true -> map_get k vals = Some v -> wfv v = true.
Proof.
  cbn [wfv]. intros H Hg. apply andb_prop in H as [_ H]. unfold map_get in Hg.
  assert (Hin : In (k, v) vals).
  { clear H. induction vals as [|[k0 x] vals IH]; cbn in Hg; [discriminate|]. destruct (String.eqb k k0) eqn:E; [|right; exact (IH Hg)].
    apply String.eqb_eq in E. inversion Hg; subst. left; reflexivity. }
  exact (wfv_vals_go vals H k v Hin).
Qed.

Lemma wfv_map_snd p keys vals v : wfv (PMap p keys vals) = true -> In v (map snd vals) -> wfv v = true.
Proof.
  cbn [wfv]. intros H Hin. apply andb_prop in H as [_ H]. apply in_map_iff in Hin as ([k x] & <- & Hin). exact (wfv_vals_go vals H k x Hin).
Qed.

Lemma wfv_key_present p keys vals pk kn : wfv (PMap p keys vals) = true -> In (PString pk kn) keys -> map_get kn vals <> None.
Proof.
  cbn [wfv]. intros H Hin. apply andb_prop in H as [H _]. rewrite forallb_forall in H. specialize (H _ Hin). cbn in H.
  unfold map_get. destruct (assoc kn vals); [discriminate|discriminate].
Qed.

Lemma wfv_key_wf p keys vals key : wfv (PMap p keys vals) = true -> In key keys -> wfv key = true.
Proof.
  cbn [wfv]. intros H Hin. apply andb_prop in H as [H _]. rewrite forallb_forall in H. specialize (H _ Hin). destruct key; try discriminate. reflexivity.
Qed.

Lemma wfv_list_in p l x : wfv (PList p l) = true -> In x l -> wfv x = true.
Proof. cbn [wfv]. intros H Hin. rewrite forallb_forall in H. exact (H x Hin). Qed.

Lemma wfv_list_nth p l i x : wfv (PList p l) = true -> nth_error l i = Some x -> wfv x = true.
Proof. intros H Hn. eapply wfv_list_in; [exact H|eapply nth_error_In; exact Hn]. Qed.

Definition scalarv (v : pv) : bool := match v with PList _ _ | PMap _ _ _ => false | _ => true end.
Lemma scalarv_wfv v : scalarv v = true -> wfv v = true.
Proof. destruct v; try discriminate; reflexivity. Qed.

(* ---------------------------------------------------------------- combinators *)
Lemma safe_ret {A} (P : A -> Prop) a : P a -> safe P (ret a).
Proof. intros H s Hs. split; [discriminate|]. intros b recs s' E. apply ret_inv in E as (-> & _ & ->). auto. Qed.
Lemma safe_failM {A} (P : A -> Prop) e : safe P (failM e).
Proof. intros s _. split; discriminate. Qed.
Lemma safe_unknownM {A} (P : A -> Prop) : safe P unknownM.
Proof. intros s _. split; discriminate. Qed.
Lemma safe_oofM {A} (P : A -> Prop) : safe P oofM.
Proof. intros s _. split; discriminate. Qed.
Lemma safe_panicM {A} (P : A -> Prop) p : p <> mk -> safe P (panicM p).
Proof. intros H s _. split; [|discriminate]. intros E. inversion E. contradiction. Qed.

Lemma safe_weaken {A} (P Q : A -> Prop) m : (forall a, P a -> Q a) -> safe P m -> safe Q m.
Proof. intros H Hm s Hs. destruct (Hm s Hs) as [H1 H2]. split; [exact H1|]. intros a recs s' E. destruct (H2 a recs s' E). auto. Qed.

Lemma safe_lift {A} (P : A -> Prop) (o : outcome A) : nk o -> (forall a, o = Done a -> P a) -> safe P (lift o).
Proof.
  intros Hn Hp s Hs. unfold lift. destruct o as [a|e|p| |]; try (split; discriminate).
  - split; [discriminate|]. intros b recs s' E. inversion E; subst. split; [apply Hp; reflexivity|exact Hs].
  - split; [|discriminate]. intros E. apply Hn. inversion E. reflexivity.
Qed.

Lemma safe_bind {A B} (P : A -> Prop) (Q : B -> Prop) (m : M A) (f : A -> M B) :
  safe P m -> (forall a, P a -> safe Q (f a)) -> safe Q (bind m f).
Proof.
  intros Hm Hf s Hs. destruct (Hm s Hs) as [Hn Hd]. unfold bind.
  destruct (m s) as [[[a r1] s1]|e|p| |] eqn:E; try (split; discriminate).
  - destruct (Hd a r1 s1 eq_refl) as [Hp Hs1]. destruct (Hf a Hp s1 Hs1) as [Hn2 Hd2].
    destruct (f a s1) as [[[b r2] s2]|e|p| |] eqn:E2; try (split; discriminate).
    + split; [discriminate|]. intros b' recs s' H. inversion H; subst. exact (Hd2 _ _ _ eq_refl).
    + split; [|discriminate]. intros H. apply Hn2. inversion H. reflexivity.
  - split; [|discriminate]. intros H. apply Hn. inversion H. reflexivity.
Qed.

Lemma safe_mapM {A B} (Q : B -> Prop) (f : A -> M B) l : (forall x, In x l -> safe Q (f x)) -> safe (Forall Q) (mapM f l).
Proof.
  induction l as [|x l IH]; intros Hf; cbn [mapM]; [apply safe_ret; constructor|].
  eapply safe_bind; [apply Hf; left; reflexivity|]. intros y Hy.
  eapply safe_bind; [apply IH; intros z Hz; apply Hf; right; exact Hz|]. intros ys Hys. apply safe_ret. constructor; assumption.
Qed.

Lemma safe_concatMapM {A B} (Q : B -> Prop) (f : A -> M (list B)) l :
  (forall x, In x l -> safe (Forall Q) (f x)) -> safe (Forall Q) (concatMapM f l).
Proof.
  intros Hf. unfold concatMapM. eapply safe_bind; [apply (safe_mapM (Forall Q)); exact Hf|]. intros r Hr. apply safe_ret.
  induction Hr; cbn; [constructor|apply Forall_app; split; assumption].
Qed.

Lemma safe_node {A} (P : A -> Prop) (m : M A) mkc : safe P m -> safe P (node m mkc).
Proof.
  intros Hm s Hs. destruct (Hm s Hs) as [Hn Hd]. unfold node.
  destruct (m s) as [[[a r1] s1]|e|p| |] eqn:E; try (split; discriminate).
  - split; [discriminate|]. intros b recs s' H. inversion H; subst. exact (Hd _ _ _ eq_refl).
  - split; [|discriminate]. intros H. apply Hn. inversion H. reflexivity.
Qed.
Lemma safe_leaf c : safe top (leaf c).
Proof. unfold leaf. apply safe_node. apply safe_ret. exact I. Qed.

Lemma SInv_tl s1 f fs sts : SInv s1 -> frames s1 = f :: fs -> SInv (mkState (tl (frames s1)) sts).
Proof. unfold SInv. intros H E. rewrite E in *. cbn. inversion H; assumption. Qed.

Lemma safe_with_frame {A} (P : A -> Prop) f (m : M A) : frame_ok f -> safe P m -> safe P (with_frame f m).
Proof.
  intros Hf Hm s Hs. unfold with_frame.
  assert (Hs' : SInv (mkState (f :: frames s) (statuses s))) by (constructor; assumption).
  destruct (Hm _ Hs') as [Hn Hd].
  destruct (m (mkState (f :: frames s) (statuses s))) as [[[a r1] s1]|e|p| |] eqn:E; try (split; discriminate).
  - split; [discriminate|]. intros b recs s' H. inversion H; subst. destruct (Hd _ _ _ eq_refl) as [Hp Hs1]. split; [exact Hp|].
    unfold SInv in *. cbn. destruct (frames s1) as [|g gs]; [constructor|]. cbn. inversion Hs1; assumption.
  - split; [|discriminate]. intros H. apply Hn. inversion H. reflexivity.
Qed.

Lemma safe_with_parent {A} (P : A -> Prop) (m : M A) : safe P m -> safe P (with_parent m).
Proof.
  intros Hm s Hs. unfold with_parent. destruct s as [fs st]. unfold SInv in Hs. cbn in *.
  destruct fs as [|f rest]; [split; discriminate|]. inversion Hs as [|? ? Hf Hrest]; subst.
  destruct (Hm (mkState rest st) Hrest) as [Hn Hd].
  destruct (m (mkState rest st)) as [[[a r1] s1]|e|p| |] eqn:E; try (split; discriminate).
  - split; [discriminate|]. intros b recs s' H. inversion H; subst. destruct (Hd _ _ _ eq_refl) as [Hp Hs1]. split; [exact Hp|].
    unfold SInv. cbn. constructor; assumption.
  - split; [|discriminate]. intros H. apply Hn. inversion H. reflexivity.
Qed.

Lemma safe_at_root {A} (P : A -> Prop) (m : M A) : safe P m -> safe P (at_root m).
Proof.
  intros Hm s Hs. unfold at_root. destruct (List.length (frames s)) as [|k] eqn:El; [split; discriminate|].
  assert (Hsplit : Forall frame_ok (firstn k (frames s)) /\ Forall frame_ok (skipn k (frames s))).
  { unfold SInv in Hs. rewrite <- (firstn_skipn k (frames s)) in Hs. apply Forall_app in Hs. exact Hs. }
  destruct Hsplit as [Hup Hlow].
  destruct (Hm (mkState (skipn k (frames s)) (statuses s)) Hlow) as [Hn Hd].
  destruct (m (mkState (skipn k (frames s)) (statuses s))) as [[[a r1] s1]|e|p| |] eqn:E; try (split; discriminate).
  - split; [discriminate|]. intros b recs s' H. inversion H; subst. destruct (Hd _ _ _ eq_refl) as [Hp Hs1]. split; [exact Hp|].
    unfold SInv. cbn. apply Forall_app. split; assumption.
  - split; [|discriminate]. intros H. apply Hn. inversion H. reflexivity.
Qed.

Lemma root_of_ok fs root : Forall frame_ok fs -> root_of fs = Some root -> wfv root = true.
Proof.
  induction 1 as [|f fs Hf _ IH]; cbn; [discriminate|]. destruct f as [r l m|r l m|r|b n msg]; cbn in Hf; intros E; try (inversion E; subst; tauto).
Qed.

Lemma safe_ctx_root : safe (fun r => wfv r = true) ctx_root.
Proof.
  intros s Hs. unfold ctx_root. destruct (root_of (frames s)) as [root|] eqn:E; split; try discriminate.
  intros a recs s' H. inversion H; subst. split; [eapply root_of_ok; eassumption|exact Hs].
Qed.

Lemma memo_ok_set name vals memo : Forall wfq vals -> memo_ok memo -> memo_ok (assoc_set name vals memo).
Proof.
  intros Hv. unfold memo_ok. induction 1 as [|[k v] memo Hk Hm IH]; cbn [assoc_set]; [constructor; [exact Hv|constructor]|].
  destruct (String.eqb name k); constructor; cbn [snd]; auto.
Qed.

Lemma memo_ok_assoc name memo vals : memo_ok memo -> assoc name memo = Some vals -> Forall wfq vals.
Proof.
  induction 1 as [|[k v] memo Hk _ IH]; cbn; [discriminate|]. destruct (String.eqb name k); [intros E; inversion E; subst; exact Hk|exact IH].
Qed.

Lemma safe_set_top_memo name vals : Forall wfq vals -> safe top (set_top_memo name vals).
Proof.
  intros Hv s Hs. unfold set_top_memo. unfold SInv in Hs.
  destruct (frames s) as [|[r l memo|r l memo|r|b n m] rest] eqn:E; split; try discriminate;
    intros a recs s' H; inversion H; subst; (split; [exact I|]); unfold SInv; cbn; inversion Hs as [|? ? Hf Hr]; subst;
    (constructor; [|exact Hr]); cbn in *; destruct Hf as (H1 & H2 & H3); repeat split; auto; apply memo_ok_set; assumption.
Qed.

Lemma capture_in_ok name key : wfv key = true -> forall fs fs', Forall frame_ok fs -> capture_in name key fs = Some fs' -> Forall frame_ok fs'.
Proof.
  intros Hk. induction fs as [|f fs IH]; intros fs' Hfs H; [discriminate|].
  inversion Hfs as [|? ? Hf Hrest]; subst.
  destruct fs as [|g fs2].
  - destruct f as [r l memo|r l memo|r|b n m]; cbn in H; try discriminate. inversion H; subst. constructor; [|constructor].
    cbn in *. destruct Hf as (H1 & H2 & H3). repeat split; auto. apply memo_ok_set; [|exact H3].
    apply Forall_app. split; [|constructor; [exact Hk|constructor]].
    destruct (assoc name memo) as [old|] eqn:Eo; [eapply memo_ok_assoc; eassumption|constructor].
  - assert (E : capture_in name key (f :: g :: fs2) = option_map (cons f) (capture_in name key (g :: fs2))) by (destruct f; reflexivity).
    rewrite E in H. destruct (capture_in name key (g :: fs2)) as [fs0|] eqn:E0; [|discriminate]. cbn in H. inversion H; subst.
    constructor; [exact Hf|]. apply IH; [exact Hrest|reflexivity].
Qed.

Lemma safe_add_capture name key : wfv key = true -> safe top (add_capture name key).
Proof.
  intros Hk s Hs. unfold add_capture. destruct (capture_in name key (frames s)) as [fs|] eqn:E; split; try discriminate.
  intros a recs s' H. inversion H; subst. split; [exact I|]. unfold SInv. cbn. eapply capture_in_ok; eassumption.
Qed.

(* ---------------------------------------------------------------- the generic clause combinators *)
Lemma safe_disj_body {T} (f : T -> M status) l failed : (forall x, In x l -> safe top (f x)) -> safe top (disj_body f l failed).
Proof.
  revert failed. induction l as [|x l IH]; intros failed Hf; cbn [disj_body]; [apply safe_ret; exact I|].
  eapply safe_bind; [apply Hf; left; reflexivity|]. intros st _.
  assert (Hl : forall z, In z l -> safe top (f z)) by (intros z Hz; apply Hf; right; exact Hz).
  destruct st; [apply safe_ret; exact I|apply IH; exact Hl|apply IH; exact Hl].
Qed.
Lemma safe_line_body {T} (f : T -> M status) line : (forall x, In x line -> safe top (f x)) -> safe top (line_body f line).
Proof.
  intros Hf. unfold line_body. destruct line as [|x [|y l]]; try (apply safe_disj_body; exact Hf).
  apply safe_node. apply safe_disj_body; exact Hf.
Qed.
Lemma safe_cnf_body {T} (f : T -> M status) cnf : (forall line x, In line cnf -> In x line -> safe top (f x)) -> safe top (cnf_body f cnf).
Proof.
  intros Hf. unfold cnf_body. eapply safe_bind; [|intros sts _; apply safe_ret; exact I].
  apply (safe_mapM top). intros l Hl. apply safe_line_body. intros x Hx. eapply Hf; eassumption.
Qed.

(* ---------------------------------------------------------------- literals of the rules file *)
Lemma forallb_in2 {A} (p : A -> bool) l x : forallb p l = true -> In x l -> p x = true.
Proof. intros H Hx. rewrite forallb_forall in H. exact (H x Hx). Qed.

Lemma vwf_query_part q qi part : vwf_query q = true -> nth_error q qi = Some part -> vwf_part part = true.
Proof. intros H Hn. eapply forallb_in2; [exact H|eapply nth_error_In; exact Hn]. Qed.
Lemma vwf_aq_query a : vwf_aq a = true -> vwf_query (aq_query a) = true.
Proof. destruct a; exact (fun H => H). Qed.
Lemma vwf_cnf_in cnf line x : vwf_cnf cnf = true -> In line cnf -> In x line -> vwf_clause x = true.
Proof. intros H Hl Hx. eapply forallb_in2; [eapply forallb_in2; [exact H|exact Hl]|exact Hx]. Qed.
Lemma vwf_conds_in cnf line x : vwf_conds cnf = true -> In line cnf -> In x line -> vwf_wc x = true.
Proof. intros H Hl Hx. eapply forallb_in2; [eapply forallb_in2; [exact H|exact Hl]|exact Hx]. Qed.

Lemma find_literal_vwf name lets v : vwf_lets lets = true -> find_literal name lets = Some v -> wfv v = true.
Proof.
  induction lets as [|[n x] lets IH]; cbn; [discriminate|]. intros H. apply andb_prop in H as [Hx Hr].
  destruct (find_literal name lets) as [y|]; [intros E; inversion E; subst; exact (IH Hr eq_refl)|].
  destruct x; try discriminate. destruct (String.eqb n name); [intros E; inversion E; subst; exact Hx|discriminate].
Qed.
Lemma find_query_vwf name lets aq : vwf_lets lets = true -> find_query name lets = Some aq -> vwf_aq aq = true.
Proof.
  induction lets as [|[n x] lets IH]; cbn; [discriminate|]. intros H. apply andb_prop in H as [Hx Hr].
  destruct (find_query name lets) as [y|]; [intros E; inversion E; subst; exact (IH Hr eq_refl)|].
  destruct x; try discriminate. destruct (String.eqb n name); [intros E; inversion E; subst; exact Hx|discriminate].
Qed.
Lemma find_function_vwf name lets ps f : vwf_lets lets = true -> find_function name lets = Some (ps, f) -> forallb vwf_lv ps = true.
Proof.
  induction lets as [|[n x] lets IH]; cbn; [discriminate|]. intros H. apply andb_prop in H as [Hx Hr].
  destruct (find_function name lets) as [y|]; [intros E; inversion E; subst; exact (IH Hr eq_refl)|].
  destruct x; try discriminate. destruct (String.eqb n name); [intros E; inversion E; subst; exact Hx|discriminate].
Qed.

(* ---------------------------------------------------------------- pure layer: what built-in functions return; whose results a `keys` filter keeps *)
From GV.Proofs Require Import PanicPure.

Definition owf (o : option pv) : Prop := match o with Some v => wfv v = true | None => True end.

Lemma post_map_strings f args : (forall p s, post owf (f p s)) -> post (Forall owf) (map_strings f args).
Proof.
  intros H. unfold map_strings. apply (post_omapM owf). intros q. destruct q as [v|v|u]; try (apply post_done; exact I);
    destruct v; try (apply post_done; exact I); apply H.
Qed.

Lemma call_fn_wf name args : post (Forall owf) (call_fn name args).
Proof.
  unfold call_fn.
  assert (Hj : forall a d, post (Forall owf) (obind (fn_join a d) (fun r => Done [Some r]))).
  { intros a d. eapply (post_obind (fun v => wfv v = true)).
    - unfold fn_join. eapply post_obind; [apply post_true|]. intros l _. apply post_done. reflexivity.
    - intros r Hr. apply post_done. constructor; [exact Hr|constructor]. }
  destruct name; try (intros a E; discriminate).
  - destruct (nth_error args 0) as [a|]; [|intros x E; discriminate]. apply post_done. constructor; [|constructor].
    unfold fn_count. destruct a; reflexivity.
  - destruct (nth_error args 0) as [a0|], (nth_error args 1) as [a1|]; try (intros x E; discriminate).
    eapply post_obind; [apply post_true|]. intros d _. destruct d as [[]|]; try (intros x E; discriminate); [apply Hj|].
    destruct (N.ltb c 128); [apply Hj|intros x E; discriminate].
  - destruct (nth_error args 0) as [a|]; [|intros x E; discriminate]. apply (post_omapM owf). intros q.
    unfold parse_bool_one. destruct q as [v|v|u]; try (apply post_done; exact I); destruct v; try (apply post_done; exact I); try (apply post_done; reflexivity).
    all: destruct (is_ascii_str s); [|intros x E; discriminate]; destruct (String.eqb _ "true"); [apply post_done; reflexivity|];
      destruct (String.eqb _ "false"); [apply post_done; reflexivity|intros x E; discriminate].
  - destruct (nth_error args 0) as [a|]; [|intros x E; discriminate]. apply (post_omapM owf). intros q.
    unfold parse_int_one. destruct q as [v|v|u]; try (apply post_done; exact I); destruct v; try (apply post_done; exact I); try (apply post_done; reflexivity);
      try (intros x E; discriminate).
    all: try (destruct (parse_i64 s); [apply post_done; reflexivity|intros x E; discriminate]).
    all: destruct (N.leb 48 c && N.leb c 57); [apply post_done; reflexivity|intros x E; discriminate].
  - destruct (nth_error args 0) as [a|]; [|intros x E; discriminate]. apply (post_omapM owf). intros q.
    unfold parse_str_one. destruct q as [v|v|u]; try (apply post_done; exact I); destruct v; try (apply post_done; exact I); try (apply post_done; reflexivity);
      try (intros x E; discriminate).
    all: destruct (N.ltb c 128); [apply post_done; reflexivity|intros x E; discriminate].
  - destruct (nth_error args 0) as [a0|], (nth_error args 1) as [a1|], (nth_error args 2) as [a2|]; try (intros x E; discriminate).
    eapply post_obind; [apply post_true|]. intros f _. destruct f as [[]|]; try (intros x E; discriminate).
    eapply post_obind; [apply post_true|]. intros t _. destruct t as [[]|]; try (intros x E; discriminate).
    unfold fn_substring. apply post_map_strings. intros ? s.
    destruct (negb (str_is_empty s) && Nat.ltb _ _ && Nat.leb _ _ && Nat.leb _ _); [|apply post_done; exact I].
    destruct (is_char_boundary s _ && is_char_boundary s _); apply post_done; [reflexivity|exact I].
  - destruct (nth_error args 0) as [a|]; [|intros x E; discriminate]. unfold fn_to_lower. apply post_map_strings. intros p s.
    destruct (is_ascii_str s); [apply post_done; reflexivity|intros x E; discriminate].
  - destruct (nth_error args 0) as [a|]; [|intros x E; discriminate]. unfold fn_to_upper. apply post_map_strings. intros p s.
    destruct (is_ascii_str s); [apply post_done; reflexivity|intros x E; discriminate].
Qed.

(* the lhs of every result of the per-value kernel is the value it was asked about (when that is not a list) *)
Definition old_lhs (x : old_cmp_result) : pv := match x with OComparable _ l _ | ONotComparable l _ | OUnResolvedRhs _ l => l end.

Lemma each_lhs_compare_lhs cmpf l rhs : is_list l = false -> post (Forall (fun x => old_lhs x = l)) (each_lhs_compare cmpf l rhs).
Proof.
  intros Hl. unfold each_lhs_compare. eapply post_obind.
  - apply (post_omapM (Forall (fun x => old_lhs x = l))). intros q.
    destruct q as [rv|rv|u]; [| |apply post_done; constructor; [reflexivity|constructor]].
    + eapply post_obind; [apply post_true|]. intros o _. destruct o as [b|]; [apply post_done; constructor; [reflexivity|constructor]|].
      destruct l; try discriminate; cbn [is_scalar is_list is_map negb andb];
        try (destruct rv as [| | | | | | |? [|single [|? ?]]| | | |]; try (apply post_done; constructor; [reflexivity|constructor]);
             eapply post_obind; [apply post_true|]; intros o' _; apply post_done; constructor; [destruct o'; reflexivity|constructor]);
        try (apply post_done; constructor; [reflexivity|constructor]).
    + eapply post_obind; [apply post_true|]. intros o _. destruct o as [b|]; [apply post_done; constructor; [reflexivity|constructor]|].
      destruct l; try discriminate; cbn [is_scalar is_list is_map negb andb];
        try (destruct rv; apply post_done; constructor; [reflexivity|constructor]);
        try (apply post_done; constructor; [reflexivity|constructor]).
  - intros r Hr. apply post_done. induction Hr; cbn; [constructor|apply Forall_app; split; assumption].
Qed.

(* ---------------------------------------------------------------- the bodies *)
Definition ev_safe (r : ev) : Prop :=
  (forall qi q cur cv, wfv cur = true -> vwf_query q = true -> safe (Forall wfq) (ev_query r qi q cur cv)) /\
  (forall g, vwf_clause g = true -> safe top (ev_clause r g)) /\
  (forall x, vwf_rule x = true -> safe top (ev_rule r x)) /\
  (forall name, safe (Forall wfq) (ev_resolve r name)) /\
  (forall n ps, forallb vwf_lv ps = true -> safe (Forall wfq) (ev_fn r n ps)).

Section Bodies.
Variable re : re_oracle.
Variable conv : conv_oracle.
Variable prog : rules_file.
Hypothesis Hprog : vwf_prog prog = true.
Variable r : ev.
Hypothesis Hev : ev_safe r.

Let Hq := proj1 Hev.
Let Hc := proj1 (proj2 Hev).
Let Hrule := proj1 (proj2 (proj2 Hev)).
Let Hres := proj1 (proj2 (proj2 (proj2 Hev))).
Let Hfn := proj2 (proj2 (proj2 (proj2 Hev))).

Notation Qs := (Forall wfq).

Lemma safe_ctx_query_fs fs q : vwf_query q = true -> Forall frame_ok fs -> safe Qs (ctx_query_fs r fs q).
Proof.
  intros Hqv. induction 1 as [|f fs Hf Hfs IH]; cbn [ctx_query_fs]; [apply safe_unknownM|].
  destruct f as [root l m|root l m|root|b n m]; cbn in Hf.
  - apply Hq; tauto.
  - apply Hq; tauto.
  - apply safe_with_parent. apply Hq; tauto.
  - apply safe_with_parent. exact IH.
Qed.

Lemma safe_ctx_query q : vwf_query q = true -> safe Qs (ctx_query r q).
Proof. intros Hqv s Hs. unfold ctx_query. apply safe_ctx_query_fs; assumption. Qed.

Lemma safe_arg (p : let_value) : vwf_lv p = true ->
  safe Qs (match p with LValue v => ret [QLiteral v] | LAccess a => ctx_query r (aq_query a) | LFunction ps n => ev_fn r n ps end).
Proof.
  destruct p as [v|a|ps n]; cbn [vwf_lv]; intros H.
  - apply safe_ret. constructor; [exact H|constructor].
  - apply safe_ctx_query. apply vwf_aq_query. exact H.
  - apply Hfn. exact H.
Qed.

Lemma safe_fn_body name params : forallb vwf_lv params = true -> safe Qs (fn_body r name params).
Proof.
  intros Hp. unfold fn_body. eapply (safe_bind (Forall Qs)).
  - apply (safe_mapM Qs). intros p Hin. apply safe_arg. eapply forallb_in2; eassumption.
  - intros args _. eapply (safe_bind (Forall owf)); [apply safe_lift; [apply nk_call_fn|intros a E; exact (call_fn_wf name args a E)]|].
    intros res Hres0. apply safe_ret. induction Hres0 as [|o res Ho _ IH]; cbn; [constructor|].
    destruct o; [constructor; [exact Ho|exact IH]|exact IH].
Qed.

Lemma filter_wfq l : Qs l -> Qs (filter is_resolved l).
Proof. induction 1; cbn; [constructor|]. destruct (is_resolved x); [constructor; assumption|assumption]. Qed.

Lemma safe_resolve_scope is_root root lets memo name : wfv root = true -> vwf_lets lets = true -> memo_ok memo ->
  safe Qs (resolve_scope r is_root root lets memo name).
Proof.
  intros Hroot Hl Hm. unfold resolve_scope.
  destruct (find_literal name lets) as [v|] eqn:E1; [apply safe_ret; constructor; [eapply find_literal_vwf; eassumption|constructor]|].
  destruct (assoc name memo) as [vals|] eqn:E2; [apply safe_ret; eapply memo_ok_assoc; eassumption|].
  destruct (find_function name lets) as [[ps f]|] eqn:E3.
  - eapply (safe_bind Qs); [apply Hfn; eapply find_function_vwf; eassumption|]. intros result Hr.
    eapply (safe_bind top); [apply safe_set_top_memo; exact Hr|]. intros _ _. apply safe_ret. exact Hr.
  - destruct (find_query name lets) as [aq|] eqn:E4.
    + eapply (safe_bind Qs); [apply Hq; [exact Hroot|apply vwf_aq_query; eapply find_query_vwf; eassumption]|]. intros result Hr.
      assert (Hr' : Qs (if aq_all aq then result else filter is_resolved result)) by (destruct (aq_all aq); [exact Hr|apply filter_wfq; exact Hr]).
      eapply (safe_bind top); [apply safe_set_top_memo; exact Hr'|]. intros _ _. apply safe_ret. exact Hr'.
    + destruct is_root; [apply safe_failM|apply safe_with_parent, Hres].
Qed.

Lemma safe_resolve_body name : safe Qs (resolve_body r name).
Proof.
  intros s Hs. unfold resolve_body. unfold SInv in Hs. destruct (frames s) as [|f rest] eqn:E; [split; discriminate|].
  assert (Hs' : SInv s) by (unfold SInv; rewrite E; exact Hs). inversion Hs as [|? ? Hf Hrest]; subst.
  destruct f as [root lets memo|root lets memo|root|b n m]; cbn in Hf.
  - apply safe_resolve_scope; tauto.
  - apply safe_resolve_scope; tauto.
  - exact (safe_with_parent Qs _ (Hres name) s Hs').
  - destruct (assoc name b) as [res|] eqn:Ea; [exact (safe_ret Qs res (memo_ok_assoc name b res Hf Ea) s Hs')|exact (safe_with_parent Qs _ (Hres name) s Hs')].
Qed.

(* queries *)
Lemma wfq_unres cur q : wfq (unresolved_at cur q).
Proof. exact I. Qed.

Lemma safe_unres cur q : safe Qs (ret [unresolved_at cur q]).
Proof. apply safe_ret. constructor; [exact I|constructor]. Qed.

Lemma safe_rq qi q cur cv : wfv cur = true -> vwf_query q = true -> safe Qs (rq r qi q cur cv).
Proof. apply Hq. Qed.

Lemma safe_accumulate parent qi q elements cv : Forall (fun e => wfv e = true) elements -> vwf_query q = true ->
  safe Qs (accumulate r parent qi q elements cv).
Proof.
  intros He Hqv. unfold accumulate. destruct elements as [|e es]; [apply safe_unres|].
  apply (safe_concatMapM wfq). intros each Hin. apply safe_rq; [|exact Hqv]. rewrite Forall_forall in He. exact (He each Hin).
Qed.

Lemma in_combine_r' {A B} (l : list A) (l' : list B) x y : In (x, y) (combine l l') -> In y l'.
Proof. apply in_combine_r. Qed.

Lemma safe_accumulate_map parent p keys vals qi q cv func :
  wfv (PMap p keys vals) = true ->
  (forall index key value cv0, In key keys -> wfv value = true -> safe Qs (func index q key value cv0)) ->
  safe Qs (accumulate_map parent keys vals qi q cv func).
Proof.
  intros Hm H. unfold accumulate_map. destruct vals as [|kv vals]; [apply safe_unres|].
  apply (safe_concatMapM wfq). intros x Hin. destruct x as [key value]. cbn [fst snd].
  assert (Hv : wfv value = true) by (eapply wfv_map_snd; [exact Hm|eapply in_combine_r; exact Hin]).
  apply safe_with_frame; [exact Hv|]. apply H; [eapply in_combine_l; exact Hin|exact Hv].
Qed.

Lemma safe_eval_filter_cnf cnf : vwf_cnf cnf = true -> safe top (eval_filter_cnf r cnf).
Proof. intros H. unfold eval_filter_cnf. apply safe_cnf_body. intros line x Hl Hx. apply Hc. eapply vwf_cnf_in; eassumption. Qed.

Lemma safe_check_and_delegate cnf name index q key value cv : vwf_cnf cnf = true -> vwf_query q = true -> wfv key = true -> wfv value = true ->
  safe Qs (check_and_delegate r cnf name index q key value cv).
Proof.
  intros H1 H2 H3 H4. unfold check_and_delegate. eapply (safe_bind top); [apply safe_node, safe_eval_filter_cnf; exact H1|]. intros st _.
  eapply (safe_bind top).
  - destruct name as [n|]; [destruct st; try (apply safe_ret; exact I); apply safe_add_capture; exact H3|apply safe_ret; exact I].
  - intros _ _. destruct st; [apply safe_rq; assumption|apply safe_ret; constructor|apply safe_ret; constructor].
Qed.

Lemma safe_lookup_key p keys vals cur k qi q cv : wfv (PMap p keys vals) = true -> vwf_query q = true ->
  safe Qs (lookup_key conv r vals cur k qi q cv).
Proof.
  intros Hm Hqv. unfold lookup_key.
  destruct (map_get k vals) as [v|] eqn:E; [apply safe_rq; [eapply wfv_map_get; eassumption|exact Hqv]|].
  destruct cv as [c|].
  - destruct (conv c k) as [converted|]; [|apply safe_unknownM].
    destruct (map_get converted vals) as [v|] eqn:E2; [apply safe_rq; [eapply wfv_map_get; eassumption|exact Hqv]|apply safe_unres].
  - repeat (match goal with
            | |- safe _ (match conv ?c k with _ => _ end) =>
                destruct (conv c k) as [?|]; [|apply safe_unknownM];
                match goal with |- safe _ (match map_get ?x vals with _ => _ end) =>
                  let E := fresh "E" in destruct (map_get x vals) eqn:E; [apply safe_rq; [eapply wfv_map_get; eassumption|exact Hqv]|] end
            end).
    apply safe_unres.
Qed.

Lemma safe_interpolate var p keys vals cur qi q cv : wfv (PMap p keys vals) = true -> vwf_query q = true ->
  safe Qs (interpolate r var vals cur qi q cv).
Proof.
  intros Hm Hqv. unfold interpolate. eapply (safe_bind Qs); [apply Hres|]. intros keys0 Hk. cbv zeta.
  assert (Hkey : forall k0, safe Qs (match map_get k0 vals with Some next => rq r (S qi) q next cv | None => ret [unresolved_at cur (skipn qi q)] end)).
  { intros k0. destruct (map_get k0 vals) as [v|] eqn:E; [apply safe_rq; [eapply wfv_map_get; eassumption|exact Hqv]|apply safe_unres]. }
  assert (Hcont : forall ks, safe Qs
            (concatMapM (fun each_key =>
               match each_key with
               | QUnResolved _ => ret [unresolved_at cur (skipn qi q)]
               | QResolved key | QLiteral key =>
                   match key with
                   | PString _ k => match map_get k vals with Some next => rq r (S qi) q next cv | None => ret [unresolved_at cur (skipn qi q)] end
                   | PList _ inner =>
                       concatMapM (fun ek =>
                         match ek with
                         | PString _ k => match map_get k vals with Some next => rq r (S qi) q next cv | None => ret [unresolved_at cur (skipn qi q)] end
                         | _ => failM ENotComparable
                         end) inner
                   | _ => failM ENotComparable
                   end
               end) ks)).
  { intros ks. apply (safe_concatMapM wfq). intros each _. destruct each as [key|key|u]; [| |apply safe_unres].
    - destruct key; try apply safe_failM; [apply Hkey|]. apply (safe_concatMapM wfq). intros ek _. destruct ek; try apply safe_failM. apply Hkey.
    - destruct key; try apply safe_failM; [apply Hkey|]. apply (safe_concatMapM wfq). intros ek _. destruct ek; try apply safe_failM. apply Hkey. }
  destruct (nth_error q (S qi)) as [part|]; [|apply Hcont].
  destruct part; try apply safe_failM; try apply Hcont.
  eapply (safe_bind top); [apply safe_lift; [discriminate|intros; exact I]|]. intros check _.
  destruct (nth_error keys0 check) as [k0|]; [apply Hcont|apply safe_unres].
Qed.

(* the `keys` filter: whatever it keeps is a member of the key list *)
Definition from_keys (keys : list pv) (x : qres * status) : Prop :=
  match fst x with QResolved k => In k keys | QLiteral _ => False | QUnResolved _ => True end.

Lemma old_report_value_lhs c x : safe (fun y => fst y = QResolved (old_lhs x)) (old_report_value c x).
Proof.
  destruct x as [[|] l rv|l rv|q l]; cbn [old_report_value old_lhs];
    (eapply (safe_bind top); [apply safe_leaf|]; intros _ _; apply safe_ret; reflexivity).
Qed.

Lemma safe_real_binary_operation keys rhs c0 : safe (Forall (from_keys keys)) (real_binary_operation re (map QResolved keys) rhs c0).
Proof.
  unfold real_binary_operation.
  set (c := if cmp_op_eqb (fst c0) OEq && Nat.ltb 1 (List.length rhs) then (OIn, snd c0) else c0).
  apply (safe_concatMapM (from_keys keys)). intros each Hin. apply in_map_iff in Hin as (l & <- & Hl).
  destruct (is_list l) eqn:El; [destruct l; try discriminate; apply safe_unknownM|].
  assert (Hnl : forall (A : Type) (a b : A), (match l with PList _ _ => a | _ => b end) = b) by (intros; destruct l; try discriminate; reflexivity).
  rewrite Hnl.
  eapply (safe_bind (Forall (fun x => old_lhs x = l))).
  - apply safe_lift.
    + destruct (fst c); try (apply nk_panic; discriminate); apply nk_each_lhs_compare; intros;
        first [apply nk_not_compare; first [apply nk_compare_eq|apply nk_cmp_with]|apply nk_in_cmp].
    + destruct (fst c); try (intros a E; discriminate); apply each_lhs_compare_lhs; exact El.
  - intros rs Hrs. destruct (fst c).
    all: try (eapply safe_weaken; [|apply (safe_mapM (fun y => fst y = QResolved l)); intros x Hx; rewrite Forall_forall in Hrs; rewrite <- (Hrs x Hx); apply old_report_value_lhs];
              intros a Ha; induction Ha as [|y ys Hy _ IH]; constructor; [unfold from_keys; rewrite Hy; exact Hl|exact IH]).
    destruct rs as [|x rs]; [apply safe_ret; constructor|].
    destruct (old_found (x :: rs)); (eapply (safe_bind top); [apply safe_leaf|]; intros _ _; apply safe_ret; constructor; [exact Hl|constructor]).
Qed.

Lemma safe_map_key_filter c w p keys vals cur qi q cv : wfv (PMap p keys vals) = true -> wfv cur = true -> vwf_lv w = true -> vwf_query q = true ->
  safe Qs (map_key_filter re r c w keys vals cur qi q cv).
Proof.
  intros Hm Hcur Hw Hqv. unfold map_key_filter. eapply (safe_bind Qs).
  - destruct w as [v|a|ps n]; cbn [vwf_lv] in Hw.
    + apply safe_ret. constructor; [exact Hw|constructor].
    + apply safe_rq; [exact Hcur|apply vwf_aq_query; exact Hw].
    + apply Hfn. exact Hw.
  - intros rhs _. cbv zeta. eapply (safe_bind (Forall (from_keys keys))); [apply safe_real_binary_operation|]. intros results Hr.
    eapply (safe_bind Qs).
    + apply (safe_concatMapM wfq). intros [x st] Hin. rewrite Forall_forall in Hr. specialize (Hr _ Hin). unfold from_keys in Hr. cbn [fst] in Hr.
      destruct x as [v|key|u]; try (apply safe_ret; constructor; fail).
      * destruct st; try (apply safe_ret; constructor; fail). destruct key; try (apply safe_ret; constructor; fail).
        destruct (map_get s vals) as [v|] eqn:E; [apply safe_ret; constructor; [eapply wfv_map_get; eassumption|constructor]|].
        exfalso. eapply wfv_key_present; eassumption.
      * apply safe_ret; (constructor; [exact I|constructor]).
    + intros selected Hsel. apply (safe_concatMapM wfq). intros each Hin. rewrite Forall_forall in Hsel. specialize (Hsel _ Hin).
      destruct each as [v|v|u]; [apply safe_rq; assumption|apply safe_rq; assumption|apply safe_ret; constructor; [exact I|constructor]].
Qed.

Ltac rqs Hcur Hqv := first [apply safe_rq; [exact Hcur|exact Hqv] | apply safe_unres | apply safe_failM | (apply safe_panicM; discriminate) | (apply safe_ret; constructor)].

Lemma safe_filter_each cnf qi q cv each : vwf_cnf cnf = true -> vwf_query q = true -> wfv each = true ->
  safe Qs (st <- node (with_frame (FValue each) (eval_filter_cnf r cnf)) KFilter ;; match st with PASS => rq r (S qi) q each cv | _ => ret [] end).
Proof.
  intros H1 H2 H3. eapply (safe_bind top); [apply safe_node, safe_with_frame; [exact H3|apply safe_eval_filter_cnf; exact H1]|].
  intros st _. destruct st; rqs H3 H2.
Qed.

Lemma safe_retrieve p l i cur q : wfv (PList p l) = true ->
  safe wfq (lift (retrieve_index cur i l q)).
Proof.
  intros Hl. apply safe_lift; [apply nk_retrieve_index|]. unfold retrieve_index, abs_index. cbn. intros a E. inversion E; subst.
  destruct (nth_error l (Z.to_nat (Z.abs i))) eqn:En; [eapply wfv_list_nth; eassumption|exact I].
Qed.

Lemma safe_map_resolved qr f : wfq qr -> (forall v, wfv v = true -> safe Qs (f v)) -> safe Qs (map_resolved qr f).
Proof. intros Hq0 H. destruct qr as [v|v|u]; cbn; [apply safe_ret; constructor; [exact Hq0|constructor]|apply H; exact Hq0|apply safe_ret; constructor; [exact I|constructor]]. Qed.

Lemma safe_query_body qi q cur cv : wfv cur = true -> vwf_query q = true -> safe Qs (query_body re conv r qi q cur cv).
Proof.
  intros Hcur Hqv. unfold query_body. destruct (nth_error q qi) as [part|] eqn:En; [|apply safe_ret; constructor; [exact Hcur|constructor]].
  pose proof (vwf_query_part q qi part Hqv En) as Hpart.
  destruct (if Nat.eqb qi 0 then part_variable part else None) as [var|].
  - eapply (safe_bind Qs); [apply Hres|]. intros retrieved Hr. apply (safe_concatMapM wfq). intros each Hin.
    rewrite Forall_forall in Hr. specialize (Hr _ Hin).
    destruct each as [v|v|u]; [| |apply safe_ret; constructor; [exact I|constructor]].
    + destruct (Nat.ltb _ _); [apply safe_with_frame; [exact Hr|apply safe_rq; [exact Hr|exact Hqv]]|apply safe_ret; constructor; [exact Hr|constructor]].
    + destruct (Nat.ltb _ _); [apply safe_with_frame; [exact Hr|apply safe_rq; [exact Hr|exact Hqv]]|apply safe_ret; constructor; [exact Hr|constructor]].
  - destruct part as [|k|n c w|name|name|i|name cnf]; cbn [vwf_part] in Hpart.
    + rqs Hcur Hqv.
    + destruct (parse_i32 k) as [idx|].
      * destruct cur; try rqs Hcur Hqv.
        eapply (safe_bind wfq); [apply (safe_retrieve p l); exact Hcur|]. intros qr Hqr. apply safe_map_resolved; [exact Hqr|]. intros v Hv. apply safe_rq; assumption.
      * destruct cur; try rqs Hcur Hqv.
        destruct (key_variable k) as [var|]; [eapply safe_interpolate; eassumption|eapply safe_lookup_key; eassumption].
    + destruct cur; try rqs Hcur Hqv. eapply safe_map_key_filter; eassumption.
    + destruct cur; try rqs Hcur Hqv.
      * apply safe_accumulate; [|exact Hqv]. apply Forall_forall. intros e He. eapply wfv_list_in; eassumption.
      * eapply safe_accumulate_map; [exact Hcur|]. intros index key value cv0 Hk Hv.
        eapply (safe_bind top); [destruct name; [apply safe_add_capture; eapply wfv_key_wf; eassumption|apply safe_ret; exact I]|intros _ _; apply safe_rq; assumption].
    + destruct cur; try rqs Hcur Hqv.
      * apply safe_accumulate; [|exact Hqv]. apply Forall_forall. intros e He. eapply wfv_list_in; eassumption.
      * destruct name as [n|]; [|rqs Hcur Hqv]. eapply safe_accumulate_map; [exact Hcur|]. intros index key value cv0 Hk Hv.
        eapply (safe_bind top); [apply safe_add_capture; eapply wfv_key_wf; eassumption|intros _ _; apply safe_rq; assumption].
    + destruct cur; try rqs Hcur Hqv.
      eapply (safe_bind wfq); [apply (safe_retrieve p l); exact Hcur|]. intros qr Hqr. apply safe_map_resolved; [exact Hqr|]. intros v Hv. apply safe_rq; assumption.
    + destruct cur.
      all: try (destruct qi as [|pi]; [rqs Hcur Hqv|]; destruct (nth_error q pi) as [[]|]; try rqs Hcur Hqv; apply safe_filter_each; assumption).
      * apply (safe_concatMapM wfq). intros each Hin. apply safe_filter_each; [exact Hpart|exact Hqv|eapply wfv_list_in; eassumption].
      * destruct qi as [|pi]; [rqs Hcur Hqv|]. destruct (nth_error q pi) as [[]|]; try rqs Hcur Hqv.
        -- destruct vals as [|kv vals]; [apply safe_ret; constructor|].
           eapply safe_accumulate_map; [exact Hcur|]. intros index key value cv0 Hk Hv. apply safe_check_and_delegate; try assumption. eapply wfv_key_wf; eassumption.
        -- apply safe_with_frame; [exact Hcur|]. apply safe_check_and_delegate; assumption.
        -- apply safe_with_frame; [exact Hcur|]. apply safe_check_and_delegate; assumption.
Qed.

End Bodies.

(* ---------------------------------------------------------------- clauses *)
Section Clauses.
Variable re : re_oracle.
Variable conv : conv_oracle.
Variable prog : rules_file.
Hypothesis Hprog : vwf_prog prog = true.
Variable r : ev.
Hypothesis Hev : ev_safe r.

Let Hq := proj1 Hev.
Let Hc := proj1 (proj2 Hev).
Let Hrule := proj1 (proj2 (proj2 Hev)).
Let Hres := proj1 (proj2 (proj2 (proj2 Hev))).
Let Hfn := proj2 (proj2 (proj2 (proj2 Hev))).

Notation Qs := (Forall wfq).

Lemma safe_unary_operation lq c inverse custom : vwf_query lq = true -> safe top (unary_operation r lq c inverse custom).
Proof.
  intros Hqv. unfold unary_operation. eapply (safe_bind Qs); [apply (safe_ctx_query r Hev); exact Hqv|]. intros lhs _.
  destruct lq as [|p0 lq0]; [apply safe_panicM; discriminate|].
  match goal with |- safe _ (if ?B then _ else _) => destruct B end.
  - destruct lhs as [|x lhs].
    + match goal with |- safe _ (if ?B then _ else _) => destruct B end;
        (eapply (safe_bind top); [apply safe_leaf|]; intros _ _; apply safe_ret; exact I).
    + eapply (safe_bind top); [|intros res _; apply safe_ret; exact I].
      eapply safe_weaken; [|apply (safe_mapM top)]; [intros; exact I|]. intros each _.
      destruct each as [v|v|u]; (eapply (safe_bind top); [apply safe_leaf|]; intros _ _; apply safe_ret; exact I).
  - destruct lhs as [|x lhs]; [apply safe_ret; exact I|].
    destruct (unary_base (fst c)) as [base|] eqn:Eb; [|apply safe_panicM; discriminate].
    eapply (safe_bind top); [|intros res _; apply safe_ret; exact I].
    eapply safe_weaken; [|apply (safe_mapM top)]; [intros; exact I|]. intros each _.
    eapply (safe_bind top); [apply safe_lift; [apply nk_unary_op; eapply nk_unary_base; exact Eb|intros; exact I]|].
    intros b _. eapply (safe_bind top); [apply safe_leaf|]. intros _ _. apply safe_ret. exact I.
Qed.

Lemma safe_binary_operation lq rhs c custom : vwf_query lq = true -> safe top (binary_operation re r lq rhs c custom).
Proof.
  intros Hqv. unfold binary_operation. eapply (safe_bind Qs); [apply (safe_ctx_query r Hev); exact Hqv|]. intros lhs _.
  eapply (safe_bind top); [apply safe_lift; [apply nk_cmp_compare|intros; exact I]|]. intros results _.
  destruct results as [|l]; [apply safe_ret; exact I|].
  eapply (safe_bind top); [|intros res _; apply safe_ret; exact I].
  eapply safe_weaken; [|apply (safe_concatMapM top)]; [intros; exact I|]. intros e _.
  eapply safe_weaken; [|apply (safe_mapM top)]; [intros a _; clear; induction a; constructor; auto|].
  intros [[cc v] st] _. eapply (safe_bind top); [apply safe_leaf|]. intros _ _. apply safe_ret. exact I.
Qed.

Lemma safe_access_clause_body g : vwf_ac g = true -> safe top (access_clause_body re r g).
Proof.
  destruct g as [aq c w custom negation]. cbn [vwf_ac]. intros H. apply andb_prop in H as [Haq Hw].
  unfold access_clause_body. eapply (safe_bind top); [|intros p _; apply safe_ret; exact I].
  apply safe_node. eapply (safe_bind top).
  - destruct (is_unary (fst c)); [apply safe_unary_operation; apply vwf_aq_query; exact Haq|].
    destruct w as [wv|]; [|apply safe_failM].
    eapply (safe_bind Qs); [apply (safe_arg r Hev); exact Hw|]. intros rhs _. apply safe_binary_operation. apply vwf_aq_query; exact Haq.
  - intros res _. destruct res as [st|l]; [apply safe_ret; exact I|].
    destruct (has_status SKIP l); [apply safe_panicM; discriminate|apply safe_ret; exact I].
Qed.

Lemma vwf_rules_named name x : In x (rules_named prog name) -> vwf_rule x = true.
Proof.
  unfold rules_named. intros H. apply filter_In in H as [H _].
  unfold vwf_prog in Hprog. apply andb_prop in Hprog as [H0 _]. apply andb_prop in H0 as [_ H0]. eapply forallb_in2; eassumption.
Qed.

Lemma find_param_rule_vwf dep p : find_param_rule prog dep = Some p -> vwf_rule (pr_rule p) = true.
Proof.
  unfold find_param_rule. unfold vwf_prog in Hprog. apply andb_prop in Hprog as [_ H0].
  assert (G : forall acc, (forall q, acc = Some q -> vwf_rule (pr_rule q) = true) ->
              forall l, forallb (fun pr => vwf_rule (pr_rule pr)) l = true ->
              fold_left (fun acc p0 => if String.eqb (rule_name (pr_rule p0)) dep then Some p0 else acc) l acc = Some p -> vwf_rule (pr_rule p) = true).
  { intros acc Hacc l. revert acc Hacc. induction l as [|x l IH]; intros acc Hacc Hl E; cbn in *; [exact (Hacc _ E)|].
    apply andb_prop in Hl as [Hx Hl]. eapply IH; [|exact Hl|exact E]. intros q Eq.
    destruct (String.eqb (rule_name (pr_rule x)) dep); [inversion Eq; subst; exact Hx|exact (Hacc _ Eq)]. }
  apply G; [discriminate|exact H0].
Qed.

Lemma safe_first_non_skip rules : (forall x, In x rules -> vwf_rule x = true) -> safe top (first_non_skip r rules).
Proof.
  induction rules as [|x rules IH]; intros H; cbn [first_non_skip]; [apply safe_ret; exact I|].
  eapply (safe_bind top); [apply Hrule; apply H; left; reflexivity|]. intros st _.
  destruct st; [apply safe_ret; exact I|apply safe_ret; exact I|apply IH; intros y Hy; apply H; right; exact Hy].
Qed.

Lemma safe_rule_status_body name : safe top (rule_status_body prog r name).
Proof.
  unfold rule_status_body. apply safe_at_root. intros s Hs.
  destruct (assoc name (statuses s)) as [st|]; [apply (safe_ret top); [exact I|exact Hs]|].
  destruct (rules_named prog name) as [|x rules] eqn:E; [split; discriminate|].
  assert (Hsafe : safe top (first_non_skip r (x :: rules))) by (apply safe_first_non_skip; intros y Hy; apply (vwf_rules_named name); rewrite E; exact Hy).
  refine (safe_bind top top _ _ Hsafe _ s Hs). intros st _ s1 Hs1. split; [discriminate|]. intros a recs s' H. inversion H; subst. split; [exact I|exact Hs1].
Qed.

Lemma safe_named_clause_body n : safe top (named_clause_body prog r n).
Proof.
  destruct n as [dep negation custom]. unfold named_clause_body. apply safe_node.
  eapply (safe_bind top); [apply safe_rule_status_body|]. intros st _. apply safe_ret. exact I.
Qed.

Lemma safe_gblock_body b : vwf_block b = true -> safe top (gblock_body r b).
Proof.
  destruct b as [lets cnf]. cbn [vwf_block]. intros H. apply andb_prop in H as [Hl Hcnf]. unfold gblock_body.
  eapply (safe_bind (fun root => wfv root = true)); [apply safe_ctx_root|]. intros root Hroot.
  apply safe_with_frame; [cbn; repeat split; [exact Hroot|exact Hl|constructor]|].
  apply safe_cnf_body. intros line x Hline Hx. apply Hc. eapply vwf_cnf_in; eassumption.
Qed.

Lemma safe_block_clause_body aq b ne : vwf_aq aq = true -> vwf_block b = true -> safe top (block_clause_body r aq b ne).
Proof.
  intros Haq Hb. unfold block_clause_body. apply safe_node.
  eapply (safe_bind Qs); [apply (safe_ctx_query r Hev); apply vwf_aq_query; exact Haq|]. intros values Hv.
  destruct values as [|v values]; [apply safe_ret; exact I|].
  eapply (safe_bind top); [|intros sts _; apply safe_ret; exact I].
  eapply safe_weaken; [|apply (safe_mapM top)]; [intros; exact I|]. intros each Hin.
  rewrite Forall_forall in Hv. specialize (Hv _ Hin).
  destruct each as [rv|rv|u].
  - apply safe_with_frame; [exact Hv|apply safe_gblock_body; exact Hb].
  - apply safe_with_frame; [exact Hv|apply safe_gblock_body; exact Hb].
  - eapply (safe_bind top); [apply safe_leaf|]. intros _ _. apply safe_ret. exact I.
Qed.

Lemma bindings_ok (names : list string) (resolved : list (list qres)) : Forall Qs resolved ->
  forall acc, memo_ok acc -> memo_ok (fold_left (fun acc kv => assoc_set (fst kv) (snd kv) acc) (combine names resolved) acc).
Proof.
  intros Hr. revert names. induction Hr as [|x resolved Hx _ IH]; intros [|n names] acc Hacc; cbn; try exact Hacc.
  apply IH. apply memo_ok_set; assumption.
Qed.

Lemma safe_param_call_body params n : forallb vwf_lv params = true -> safe top (param_call_body prog r params n).
Proof.
  intros Hp. destruct n as [dep negation custom]. unfold param_call_body.
  destruct (find_param_rule prog dep) as [p|] eqn:E; [|apply safe_failM].
  destruct (negb (Nat.eqb (List.length (pr_params p)) (List.length params))); [apply safe_failM|].
  eapply (safe_bind (Forall Qs)).
  - apply (safe_mapM Qs). intros each Hin. apply (safe_arg r Hev). eapply forallb_in2; eassumption.
  - intros resolved Hr. cbv zeta. apply safe_with_frame; [cbn; apply bindings_ok; [exact Hr|constructor]|].
    apply Hrule. eapply find_param_rule_vwf; exact E.
Qed.

Lemma safe_when_clause_body w : vwf_wc w = true -> safe top (when_clause_body re prog r w).
Proof.
  destruct w as [g|n|ps n]; cbn [vwf_wc when_clause_body]; intros H; [apply safe_access_clause_body; exact H|apply safe_named_clause_body|apply safe_param_call_body; exact H].
Qed.

Lemma safe_conds conds : vwf_conds conds = true -> safe top (cnf_body (when_clause_body re prog r) conds).
Proof. intros H. apply safe_cnf_body. intros line x Hl Hx. apply safe_when_clause_body. eapply vwf_conds_in; eassumption. Qed.

Lemma safe_when_block_body conds b : vwf_conds conds = true -> vwf_block b = true -> safe top (when_block_body re prog r conds b).
Proof.
  intros H1 H2. unfold when_block_body. apply safe_node. eapply (safe_bind top); [apply safe_node, safe_conds; exact H1|].
  intros cst _. destruct cst; [apply safe_gblock_body; exact H2|apply safe_ret; exact I|apply safe_ret; exact I].
Qed.

Lemma safe_clause_body g : vwf_clause g = true -> safe top (clause_body re prog r g).
Proof.
  destruct g as [c|n|ps n|aq b ne|conds b]; cbn [vwf_clause clause_body]; intros H.
  - apply safe_access_clause_body; exact H.
  - apply safe_named_clause_body.
  - apply safe_param_call_body; exact H.
  - apply andb_prop in H as [H1 H2]. apply safe_block_clause_body; assumption.
  - apply andb_prop in H as [H1 H2]. apply safe_when_block_body; assumption.
Qed.

Lemma safe_go_conds (conds : option when_conditions) k : vwf_oconds conds = true ->
  safe top (match conds with Some c => cst <- node (cnf_body (when_clause_body re prog r) c) k ;; ret (status_eqb cst PASS) | None => ret true end).
Proof.
  destruct conds as [c|]; cbn [vwf_oconds]; intros H; [|apply safe_ret; exact I].
  eapply (safe_bind top); [apply safe_node, safe_conds; exact H|]. intros cst _. apply safe_ret. exact I.
Qed.

Lemma safe_type_block_body tn conds b q : vwf_oconds conds = true -> vwf_block b = true -> vwf_query q = true ->
  safe top (type_block_body re prog r tn conds b q).
Proof.
  intros H1 H2 H3. unfold type_block_body. apply safe_node. eapply (safe_bind top); [apply safe_go_conds; exact H1|]. intros go _.
  destruct (negb go); [apply safe_ret; exact I|].
  eapply (safe_bind Qs); [apply (safe_ctx_query r Hev); exact H3|]. intros values Hv.
  destruct values as [|v values]; [apply safe_ret; exact I|].
  eapply (safe_bind top); [|intros sts _; apply safe_ret; exact I].
  eapply safe_weaken; [|apply (safe_mapM top)]; [intros; exact I|]. intros each Hin.
  rewrite Forall_forall in Hv. specialize (Hv _ Hin).
  destruct each as [rv|rv|u].
  - apply safe_node. apply safe_with_frame; [exact Hv|apply safe_gblock_body; exact H2].
  - apply safe_node. apply safe_with_frame; [exact Hv|apply safe_gblock_body; exact H2].
  - apply safe_failM.
Qed.

Lemma safe_rule_clause_body c : vwf_rc c = true -> safe top (rule_clause_body re prog r c).
Proof.
  destruct c as [g|conds b|tn conds b q]; cbn [vwf_rc rule_clause_body]; intros H.
  - apply Hc; exact H.
  - apply andb_prop in H as [H1 H2]. apply safe_when_block_body; assumption.
  - apply andb_prop in H as [H12 H3]. apply andb_prop in H12 as [H1 H2]. apply safe_type_block_body; assumption.
Qed.

Lemma safe_rule_body x : vwf_rule x = true -> safe top (rule_body re prog r x).
Proof.
  unfold vwf_rule. intros H. apply andb_prop in H as [H12 H3]. apply andb_prop in H12 as [H1 H2].
  unfold rule_body. apply safe_node. eapply (safe_bind top); [apply safe_go_conds; exact H1|]. intros go _.
  destruct (negb go); [apply safe_ret; exact I|].
  eapply (safe_bind (fun root => wfv root = true)); [apply safe_ctx_root|]. intros root Hroot.
  apply safe_with_frame; [cbn; repeat split; [exact Hroot|exact H2|constructor]|].
  apply safe_cnf_body. intros line c Hl Hx. apply safe_rule_clause_body. eapply forallb_in2; [eapply forallb_in2; [exact H3|exact Hl]|exact Hx].
Qed.

End Clauses.

(* ---------------------------------------------------------------- the induction on the fuel *)
Section Main.
Variable re : re_oracle.
Variable conv : conv_oracle.
Variable prog : rules_file.
Hypothesis Hprog : vwf_prog prog = true.

Theorem evalN_safe n : ev_safe (evalN re conv prog n).
Proof.
  induction n as [|n IH]; cbn [evalN].
  - unfold ev_safe, ev_bottom. cbn [ev_query ev_clause ev_rule ev_resolve ev_fn]. (split; [|split; [|split; [|split]]]); intros; apply safe_oofM.
  - unfold ev_safe. cbn [ev_query ev_clause ev_rule ev_resolve ev_fn]. (split; [|split; [|split; [|split]]]); intros.
    + apply (safe_query_body re conv _ IH); assumption.
    + apply (safe_clause_body re prog Hprog _ IH); assumption.
    + apply (safe_rule_body re prog Hprog _ IH); assumption.
    + apply (safe_resolve_body _ IH).
    + apply (safe_fn_body _ IH); assumption.
Qed.

(* the `keys` filter never fails to find the struct entry of a key it selected *)
Theorem eval_file_key_lookup_safe fuel doc : wfv doc = true -> eval_file re conv prog fuel doc <> Panic mk.
Proof.
  intros Hd. unfold eval_file, file_body.
  assert (Hs : SInv (init_state prog doc)).
  { unfold SInv, init_state. cbn. constructor; [|constructor]. cbn. repeat split; [exact Hd| |constructor].
    unfold vwf_prog in Hprog. apply andb_prop in Hprog as [H _]. apply andb_prop in H as [H _]. exact H. }
  assert (Hok : safe top (node (sts <- mapM (ev_rule (evalN re conv prog fuel)) (rf_rules prog) ;; ret (fold_fail_pass_skip sts)) KFileCheck)).
  { apply safe_node. eapply (safe_bind top); [|intros sts _; apply safe_ret; exact I].
    eapply safe_weaken; [|apply (safe_mapM top)]; [intros; exact I|]. intros x Hx.
    apply (proj1 (proj2 (proj2 (evalN_safe fuel)))).
    unfold vwf_prog in Hprog. apply andb_prop in Hprog as [H _]. apply andb_prop in H as [_ H]. eapply forallb_in2; eassumption. }
  exact (proj1 (Hok _ Hs)).
Qed.

End Main.

(* with PanicProps: no panic site at all *)
Theorem eval_file_never_panics re conv prog fuel doc p :
  pwf_prog prog = true -> vwf_prog prog = true -> wfv doc = true -> eval_file re conv prog fuel doc <> Panic p.
Proof.
  intros H1 H2 H3 E. pose proof (eval_file_no_panic re conv prog H1 fuel doc p E) as Hp. subst p.
  exact (eval_file_key_lookup_safe re conv prog H2 fuel doc H3 E).
Qed.

(* parser-made literals and loaded documents meet the premises: both are built by `annotate` *)
Theorem annotate_meets_the_premise v p : wfv (annotate p v) = true.
Proof. apply annotate_wfv. Qed.
