(* Check.v — executable comparison of the model with observations of the
   implementation (used by the correspondence runs; no proofs). *)
From GV.Model Require Export SEval Wf.

Inductive impl_result :=
| IOk (st : status) (rec : record)
| IErr (e : err_kind)
| IPanic
| IAbort.

Inductive verdict :=
| VAgree            (* same status and same record tree *)
| VAgreeErr         (* both raise the same kind of evaluation error *)
| VAgreePanic       (* the model predicts a panic and the implementation panicked *)
| VAgreeNonTerm     (* model out of fuel and implementation aborted (stack overflow) *)
| VModelUnknown     (* oracle miss / unmodelled construct: case not compared *)
| VModelOOF         (* model out of fuel but the implementation answered: fuel too small *)
| VDisStatus | VDisRecord | VDisErrKind | VDisShape.

Definition err_kind_eqb (a b : err_kind) : bool :=
  match a, b with
  | ENotComparable, ENotComparable | EIncompatible, EIncompatible | EMissingValue, EMissingValue
  | ERegex, ERegex | EParse, EParse | ERetrieval, ERetrieval
  | EIncompatibleRetrieval, EIncompatibleRetrieval | EMultipleValues, EMultipleValues
  | EMissingVariable, EMissingVariable | EMissingProperty, EMissingProperty | EYaml, EYaml
  | EJson, EJson | EInternal, EInternal | EOther, EOther => true
  | _, _ => false
  end.

Definition re_table := list (string * string * re_result).
Definition conv_table := list (string * list string).

Definition re_of_table (t : re_table) : re_oracle := fun r s =>
  match find (fun e => String.eqb (fst (fst e)) r && String.eqb (snd (fst e)) s) t with
  | Some e => snd e
  | None => ReUnknownPair
  end.

Definition conv_of_table (t : conv_table) : conv_oracle := fun i k =>
  match assoc k t with
  | Some l => nth_error l (N.to_nat i)
  | None => None
  end.

Definition check_case (fuel : nat) (rt : re_table) (ct : conv_table) (prog : rules_file)
           (doc : pv) (impl : impl_result) : verdict :=
  match eval_file (re_of_table rt) (conv_of_table ct) prog fuel doc, impl with
  | Unknown, _ => VModelUnknown
  | Done (st, [rec], _), IOk st' rec' =>
      if negb (status_eqb st st') then VDisStatus
      else if record_eqb rec rec' then VAgree else VDisRecord
  | Err e, IErr e' => if err_kind_eqb e e' then VAgreeErr else VDisErrKind
  | Panic _, IPanic => VAgreePanic
  | OutOfFuel, IAbort => VAgreeNonTerm
  | OutOfFuel, _ => VModelOOF
  | _, _ => VDisShape
  end.

(* model-only run, for diagnosis *)
Definition run_model (fuel : nat) (rt : re_table) (ct : conv_table) (prog : rules_file) (doc : pv)
  : outcome (status * list record) :=
  match eval_file (re_of_table rt) (conv_of_table ct) prog fuel doc with
  | Done (st, recs, _) => Done (st, recs)
  | Err e => Err e
  | Panic p => Panic p
  | OutOfFuel => OutOfFuel
  | Unknown => Unknown
  end.

(* verdict table of the model: per rule (in file order) and file status *)
Definition rule_statuses (rec : record) : list (string * status) :=
  flat_map (fun c => match rec_container c with
                     | KRuleCheck n st _ => [(n, st)]
                     | _ => []
                     end) (rec_children rec).

(* C02 monitor on an observed result: the record tree is explained node by node and its
   root carries the returned status *)
Inductive wf_verdict := WfOk | WfNotApplicable | WfBadNode (path : list N) | WfRootMismatch.
Definition wf_impl (i : impl_result) : wf_verdict :=
  match i with
  | IOk st rec =>
      if negb (status_eqb st (rec_status rec)) then WfRootMismatch
      else match first_bad 200 rec with
           | None => WfOk
           | Some p => WfBadNode (map N.of_nat p)
           end
  | _ => WfNotApplicable
  end.
