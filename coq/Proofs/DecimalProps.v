(* DecimalProps.v — decimal printing and parsing of integers are inverse (used by C11: an integer written as a plain
   scalar is loaded as that integer; and by C18: parse_int(parse_string(n)) = n). *)
From Coq Require Import Lia.
From GV.Model Require Import Base.
Open Scope Z_scope.

Lemma digit_char : forall d : N, (d < 10)%N ->
  is_digit (ascii_of_N (48 + d)) = true /\ (N_of_ascii (ascii_of_N (48 + d)) - 48 = d)%N.
Proof.
  intros d H. rewrite N_ascii_embedding by lia. unfold is_digit. rewrite N_ascii_embedding by lia.
  split; [|lia]. apply andb_true_iff. split; apply N.leb_le; lia.
Qed.

(* the number read when the digits of n follow a prefix whose value is k *)
Fixpoint follow (fuel : nat) (k : Z) (n : N) : Z :=
  match fuel with
  | O => k
  | S f => if N.eqb (N.div n 10) 0 then k * 10 + Z.of_N n
           else follow f k (N.div n 10) * 10 + Z.of_N (N.modulo n 10)
  end.

Lemma digits_val_pos_digits : forall fuel n acc k,
  digits_val (pos_digits fuel n acc) k = digits_val acc (follow fuel k n).
Proof.
  induction fuel as [|f IH]; intros n acc k; [reflexivity|].
  cbn [pos_digits follow].
  assert (Hd : (N.modulo n 10 < 10)%N) by (apply N.mod_lt; lia).
  destruct (digit_char _ Hd) as [H1 H2].
  destruct (N.eqb (N.div n 10) 0) eqn:E.
  - cbn [digits_val]. rewrite H1, H2. apply N.eqb_eq in E.
    assert (n = N.modulo n 10) as Hn. { pose proof (N.div_mod n 10). lia. }
    rewrite <- Hn. reflexivity.
  - rewrite IH. cbn [digits_val]. rewrite H1, H2. reflexivity.
Qed.

Lemma follow_zero : forall fuel n, (n < 2 ^ N.of_nat fuel)%N -> (0 < n)%N -> follow fuel 0 n = Z.of_N n.
Proof.
  induction fuel as [|f IH]; intros n Hlt Hpos.
  - cbn in Hlt. lia.
  - cbn [follow]. destruct (N.eqb (N.div n 10) 0) eqn:E; [lia|].
    apply N.eqb_neq in E.
    assert (Hq : (N.div n 10 < 2 ^ N.of_nat f)%N).
    { replace (N.of_nat (S f)) with (N.succ (N.of_nat f)) in Hlt by lia. rewrite N.pow_succ_r' in Hlt.
      assert (N.div n 10 <= N.div n 2)%N.
      { apply N.div_le_compat_l. lia. }
      assert (N.div n 2 < 2 ^ N.of_nat f)%N by (apply N.div_lt_upper_bound; lia). lia. }
    rewrite IH; [|exact Hq|apply N.neq_0_lt_0; exact E].
    pose proof (N.div_mod n 10). lia.
Qed.

Theorem digits_of_N : forall n, (0 < n)%N -> digits_val (N_to_string n) 0 = Some (Z.of_N n).
Proof.
  intros n Hpos. unfold N_to_string. rewrite digits_val_pos_digits. cbn [digits_val].
  rewrite follow_zero; [reflexivity| |assumption].
  rewrite Nat2N.inj_succ, N2Nat.id. apply N.log2_spec. assumption.
Qed.

Lemma first_char_digit : forall fuel n acc, (0 < fuel)%nat ->
  exists a r, pos_digits fuel n acc = String a r /\ is_digit a = true.
Proof.
  induction fuel as [|f IH]; intros n acc Hf; [lia|]. cbn [pos_digits].
  assert (Hd : (N.modulo n 10 < 10)%N) by (apply N.mod_lt; lia).
  destruct (digit_char _ Hd) as [H1 _].
  destruct (N.eqb (N.div n 10) 0); [eauto|].
  destruct f as [|f'].
  - cbn. eauto.
  - apply IH. lia.
Qed.

(* printing an integer and reading it back gives the integer *)
Theorem parse_print_Z : forall z, parse_int_str (Z_to_string z) = Some z.
Proof.
  intros [|p|p].
  - reflexivity.
  - cbn [Z_to_string]. destruct (first_char_digit (S (N.to_nat (N.log2 (Npos p)))) (Npos p) "") as (a & r & E & Hd); [lia|].
    pose proof (digits_of_N (Npos p) eq_refl) as H. unfold N_to_string in *. rewrite E in *.
    unfold parse_int_str.
    assert (Ascii.eqb a "-" = false /\ Ascii.eqb a "+" = false) as [-> ->].
    { unfold is_digit in Hd. apply andb_true_iff in Hd as [A B]. apply N.leb_le in A, B.
      split; apply Ascii.eqb_neq; intros ->; cbn in *; lia. }
    exact H.
  - cbn [Z_to_string]. unfold parse_int_str. cbn [append].
    destruct (first_char_digit (S (N.to_nat (N.log2 (Npos p)))) (Npos p) "") as (a & r & E & Hd); [lia|].
    pose proof (digits_of_N (Npos p) eq_refl) as H. unfold N_to_string in *. rewrite E in *.
    rewrite H. reflexivity.
Qed.

Theorem parse_i64_print : forall z, i64_min <= z <= i64_max -> parse_i64 (Z_to_string z) = Some z.
Proof.
  intros z [H1 H2]. unfold parse_i64. rewrite parse_print_Z.
  apply Z.leb_le in H1, H2. now rewrite H1, H2.
Qed.
