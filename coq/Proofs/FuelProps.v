(* FuelProps.v — the fuel of the model only decides whether an evaluation finishes:
   whatever an evaluation answers with some fuel (a value, an error, a panic site) it answers
   with any larger fuel.  Proved for every program by induction on the fuel; every body of the
   open-recursion interpreter is monotone in its callees. *)
From GV.Model Require Import SEval.
From GV.Proofs Require Import EvalLaws.

Definition mle {A} (m m' : M A) : Prop := forall s, m s = OutOfFuel \/ m s = m' s.

Lemma mle_refl {A} (m : M A) : mle m m.
Proof. intros s. right. reflexivity. Qed.

Lemma mle_trans {A} (a b c : M A) : mle a b -> mle b c -> mle a c.
Proof.
  intros H1 H2 s. destruct (H1 s) as [E|E]; [left; exact E|].
  destruct (H2 s) as [E2|E2]; [left; congruence|right; congruence].
Qed.

Lemma mle_oof {A} (m : M A) : mle oofM m.
Proof. intros s. left. reflexivity. Qed.

Lemma mle_bind {A B} (m m' : M A) (f f' : A -> M B) :
  mle m m' -> (forall a, mle (f a) (f' a)) -> mle (bind m f) (bind m' f').
Proof.
  intros Hm Hf s. unfold bind. destruct (Hm s) as [E|E].
  - left. rewrite E. reflexivity.
  - rewrite <- E. destruct (m s) as [[[a r1] s1]| | | |]; try (right; reflexivity).
    destruct (Hf a s1) as [E2|E2].
    + left. rewrite E2. reflexivity.
    + rewrite <- E2. right. reflexivity.
Qed.

Lemma mle_mapM {A B} (f f' : A -> M B) l : (forall x, mle (f x) (f' x)) -> mle (mapM f l) (mapM f' l).
Proof.
  intros Hf. induction l as [|x l IH]; cbn [mapM]; [apply mle_refl|].
  apply mle_bind; [apply Hf|]. intros y. apply mle_bind; [exact IH|]. intros ys. apply mle_refl.
Qed.

Lemma mle_concatMapM {A B} (f f' : A -> M (list B)) l :
  (forall x, mle (f x) (f' x)) -> mle (concatMapM f l) (concatMapM f' l).
Proof.
  intros Hf. unfold concatMapM. apply mle_bind; [apply mle_mapM; exact Hf|]. intros x. apply mle_refl.
Qed.

Lemma mle_node {A} (m m' : M A) mk : mle m m' -> mle (node m mk) (node m' mk).
Proof.
  intros Hm s. unfold node. destruct (Hm s) as [E|E]; [left; rewrite E; reflexivity|].
  rewrite <- E. right. reflexivity.
Qed.

Lemma mle_with_frame {A} f (m m' : M A) : mle m m' -> mle (with_frame f m) (with_frame f m').
Proof.
  intros Hm s. unfold with_frame. destruct (Hm (mkState (f :: frames s) (statuses s))) as [E|E];
    [left; rewrite E; reflexivity|]. rewrite <- E. right. reflexivity.
Qed.

Lemma mle_with_parent {A} (m m' : M A) : mle m m' -> mle (with_parent m) (with_parent m').
Proof.
  intros Hm s. unfold with_parent. destruct (frames s) as [|f rest]; [right; reflexivity|].
  destruct (Hm (mkState rest (statuses s))) as [E|E]; [left; rewrite E; reflexivity|].
  rewrite <- E. right. reflexivity.
Qed.

Lemma mle_at_root {A} (m m' : M A) : mle m m' -> mle (at_root m) (at_root m').
Proof.
  intros Hm s. unfold at_root. destruct (List.length (frames s)) as [|k]; [right; reflexivity|].
  destruct (Hm (mkState (skipn k (frames s)) (statuses s))) as [E|E]; [left; rewrite E; reflexivity|].
  rewrite <- E. right. reflexivity.
Qed.

Lemma mle_disj_body {T} (f f' : T -> M status) l failed :
  (forall x, mle (f x) (f' x)) -> mle (disj_body f l failed) (disj_body f' l failed).
Proof.
  intros Hf. revert failed. induction l as [|x l IH]; intros failed; cbn [disj_body]; [apply mle_refl|].
  apply mle_bind; [apply Hf|]. intros st. destruct st; [apply mle_refl|apply IH|apply IH].
Qed.

Lemma mle_line_body {T} (f f' : T -> M status) line :
  (forall x, mle (f x) (f' x)) -> mle (line_body f line) (line_body f' line).
Proof.
  intros Hf. unfold line_body. destruct line as [|x [|y l]]; try (apply mle_disj_body; exact Hf).
  apply mle_node. apply mle_disj_body; exact Hf.
Qed.

Lemma mle_cnf_body {T} (f f' : T -> M status) cnf :
  (forall x, mle (f x) (f' x)) -> mle (cnf_body f cnf) (cnf_body f' cnf).
Proof.
  intros Hf. unfold cnf_body. apply mle_bind; [apply mle_mapM; intros l; apply mle_line_body; exact Hf|].
  intros sts. apply mle_refl.
Qed.

Definition ev_le (r r' : ev) : Prop :=
  (forall qi q cur cv, mle (ev_query r qi q cur cv) (ev_query r' qi q cur cv)) /\
  (forall g, mle (ev_clause r g) (ev_clause r' g)) /\
  (forall x, mle (ev_rule r x) (ev_rule r' x)) /\
  (forall n, mle (ev_resolve r n) (ev_resolve r' n)) /\
  (forall f ps, mle (ev_fn r f ps) (ev_fn r' f ps)).

Ltac ml_step :=
  first
  [ assumption
  | apply mle_refl
  | apply mle_cnf_body; intros ?
  | apply mle_bind; [|intros ?]
  | apply mle_mapM; intros ?
  | apply mle_concatMapM; intros ?
  | apply mle_node
  | apply mle_with_frame
  | apply mle_with_parent
  | apply mle_at_root
  | match goal with |- mle (match ?x with _ => _ end) (match ?x with _ => _ end) => destruct x end
  | match goal with |- mle (if ?x then _ else _) (if ?x then _ else _) => destruct x end ].

Section Bodies.
Variable re : re_oracle.
Variable conv : conv_oracle.
Variable prog : rules_file.
Variables r r' : ev.
Hypothesis Hle : ev_le r r'.

Let Hq := proj1 Hle.
Let Hc := proj1 (proj2 Hle).
Let Hrule := proj1 (proj2 (proj2 Hle)).
Let Hres := proj1 (proj2 (proj2 (proj2 Hle))).
Let Hfn := proj2 (proj2 (proj2 (proj2 Hle))).

Ltac mh := first [apply Hq | apply Hc | apply Hrule | apply Hres | apply Hfn].
Ltac ml := fail.
Ltac mss := repeat first [ml | mh | ml_step].

Lemma ml_ctx_query_fs fs q : mle (ctx_query_fs r fs q) (ctx_query_fs r' fs q).
Proof. induction fs as [|f fs IH]; cbn [ctx_query_fs]; [mss|]. destruct f; mss. Qed.

Lemma ml_ctx_query q : mle (ctx_query r q) (ctx_query r' q).
Proof. intros s. unfold ctx_query. apply ml_ctx_query_fs. Qed.
Ltac ml ::= first [apply ml_ctx_query].

Lemma ml_fn_body name params : mle (fn_body r name params) (fn_body r' name params).
Proof. unfold fn_body. mss. Qed.

Lemma ml_resolve_scope is_root root lets memo name :
  mle (resolve_scope r is_root root lets memo name) (resolve_scope r' is_root root lets memo name).
Proof. unfold resolve_scope. mss. Qed.

Lemma ml_resolve_body name : mle (resolve_body r name) (resolve_body r' name).
Proof.
  intros s. unfold resolve_body. destruct (frames s) as [|f fs] eqn:E; [right; reflexivity|].
  destruct f as [root l memo|root l memo|root|b c m].
  - apply ml_resolve_scope.
  - apply ml_resolve_scope.
  - apply mle_with_parent. apply Hres.
  - destruct (assoc name b); [right; reflexivity|]. apply mle_with_parent. apply Hres.
Qed.

Lemma ml_rq qi q cur cv : mle (rq r qi q cur cv) (rq r' qi q cur cv).
Proof. apply Hq. Qed.
Ltac ml ::= first [apply ml_ctx_query | apply ml_rq].

Lemma ml_map_resolved qr f f' : (forall v, mle (f v) (f' v)) -> mle (map_resolved qr f) (map_resolved qr f').
Proof. intros Hf. unfold map_resolved. mss. apply Hf. Qed.

Lemma ml_accumulate parent qi q elements cv :
  mle (accumulate r parent qi q elements cv) (accumulate r' parent qi q elements cv).
Proof. unfold accumulate. mss. Qed.

Lemma ml_accumulate_map parent keys vals qi q cv func func' :
  (forall a b c d e, mle (func a b c d e) (func' a b c d e)) ->
  mle (accumulate_map parent keys vals qi q cv func) (accumulate_map parent keys vals qi q cv func').
Proof. intros Hf. unfold accumulate_map. mss. apply Hf. Qed.

Lemma ml_eval_filter_cnf cnf : mle (eval_filter_cnf r cnf) (eval_filter_cnf r' cnf).
Proof. unfold eval_filter_cnf. mss. Qed.
Ltac ml ::= first [apply ml_ctx_query | apply ml_rq | apply ml_accumulate | apply ml_eval_filter_cnf].

Lemma ml_check_and_delegate cnf name index q key value cv :
  mle (check_and_delegate r cnf name index q key value cv) (check_and_delegate r' cnf name index q key value cv).
Proof. unfold check_and_delegate. mss. Qed.

Lemma ml_lookup_key vals cur k qi q cv :
  mle (lookup_key conv r vals cur k qi q cv) (lookup_key conv r' vals cur k qi q cv).
Proof. unfold lookup_key. destruct (map_get k vals); [apply ml_rq|]. destruct cv as [c|]; mss. Qed.

Lemma ml_interpolate var vals cur qi q cv :
  mle (interpolate r var vals cur qi q cv) (interpolate r' var vals cur qi q cv).
Proof. unfold interpolate. mss. Qed.

Ltac ml ::= first [apply ml_ctx_query | apply ml_rq | apply ml_accumulate | apply ml_eval_filter_cnf
                  | apply ml_check_and_delegate | apply ml_lookup_key | apply ml_interpolate].

Lemma ml_map_key_filter c w keys vals cur qi q cv :
  mle (map_key_filter re r c w keys vals cur qi q cv) (map_key_filter re r' c w keys vals cur qi q cv).
Proof. unfold map_key_filter. mss. Qed.
Ltac ml ::= first [apply ml_ctx_query | apply ml_rq | apply ml_accumulate | apply ml_eval_filter_cnf
                  | apply ml_check_and_delegate | apply ml_lookup_key | apply ml_interpolate | apply ml_map_key_filter
                  | apply ml_accumulate_map; intros ? ? ? ? ? | apply ml_map_resolved; intros ?].

Lemma ml_query_body qi q cur cv : mle (query_body re conv r qi q cur cv) (query_body re conv r' qi q cur cv).
Proof. unfold query_body. mss. Qed.

Ltac ml2 := fail.
Ltac mss2 := repeat first [ml2 | ml | mh | ml_step].

Lemma ml_unary_operation lq c inverse custom :
  mle (unary_operation r lq c inverse custom) (unary_operation r' lq c inverse custom).
Proof. unfold unary_operation. mss2. Qed.

Lemma ml_binary_operation lq rhs c custom :
  mle (binary_operation re r lq rhs c custom) (binary_operation re r' lq rhs c custom).
Proof. unfold binary_operation. mss2. Qed.
Ltac ml2 ::= first [apply ml_unary_operation | apply ml_binary_operation].

Lemma ml_access_clause_body g : mle (access_clause_body re r g) (access_clause_body re r' g).
Proof. unfold access_clause_body. mss2. Qed.

Lemma ml_first_non_skip rules : mle (first_non_skip r rules) (first_non_skip r' rules).
Proof. induction rules as [|x rest IH]; cbn [first_non_skip]; mss2. Qed.

Lemma ml_rule_status_body name : mle (rule_status_body prog r name) (rule_status_body prog r' name).
Proof.
  unfold rule_status_body. apply mle_at_root. intros s.
  destruct (assoc name (statuses s)); [right; reflexivity|].
  destruct (rules_named prog name) as [|x rest]; [right; reflexivity|].
  apply mle_bind; [apply ml_first_non_skip|]. intros st. apply mle_refl.
Qed.
Ltac ml2 ::= first [apply ml_unary_operation | apply ml_binary_operation | apply ml_access_clause_body | apply ml_rule_status_body].

Lemma ml_named_clause_body n : mle (named_clause_body prog r n) (named_clause_body prog r' n).
Proof. unfold named_clause_body. mss2. Qed.

Lemma ml_gblock_body b : mle (gblock_body r b) (gblock_body r' b).
Proof. unfold gblock_body. mss2. Qed.
Ltac ml2 ::= first [apply ml_unary_operation | apply ml_binary_operation | apply ml_access_clause_body | apply ml_rule_status_body
                   | apply ml_named_clause_body | apply ml_gblock_body].

Lemma ml_block_clause_body aq b ne : mle (block_clause_body r aq b ne) (block_clause_body r' aq b ne).
Proof. unfold block_clause_body. mss2. Qed.

Lemma ml_param_call_body params n : mle (param_call_body prog r params n) (param_call_body prog r' params n).
Proof. unfold param_call_body. mss2. Qed.
Ltac ml2 ::= first [apply ml_unary_operation | apply ml_binary_operation | apply ml_access_clause_body | apply ml_rule_status_body
                   | apply ml_named_clause_body | apply ml_gblock_body | apply ml_block_clause_body | apply ml_param_call_body].

Lemma ml_when_clause_body w : mle (when_clause_body re prog r w) (when_clause_body re prog r' w).
Proof. unfold when_clause_body. mss2. Qed.
Ltac ml2 ::= first [apply ml_unary_operation | apply ml_binary_operation | apply ml_access_clause_body | apply ml_rule_status_body
                   | apply ml_named_clause_body | apply ml_gblock_body | apply ml_block_clause_body | apply ml_param_call_body
                   | apply ml_when_clause_body].

Lemma ml_when_block_body conds b : mle (when_block_body re prog r conds b) (when_block_body re prog r' conds b).
Proof. unfold when_block_body. mss2. Qed.
Ltac ml2 ::= first [apply ml_unary_operation | apply ml_binary_operation | apply ml_access_clause_body | apply ml_rule_status_body
                   | apply ml_named_clause_body | apply ml_gblock_body | apply ml_block_clause_body | apply ml_param_call_body
                   | apply ml_when_clause_body | apply ml_when_block_body].

Lemma ml_clause_body g : mle (clause_body re prog r g) (clause_body re prog r' g).
Proof. unfold clause_body. mss2. Qed.

Lemma ml_type_block_body tn conds b q : mle (type_block_body re prog r tn conds b q) (type_block_body re prog r' tn conds b q).
Proof. unfold type_block_body. mss2. Qed.

Lemma ml_rule_clause_body c : mle (rule_clause_body re prog r c) (rule_clause_body re prog r' c).
Proof. unfold rule_clause_body. mss2; try apply ml_type_block_body. Qed.

Lemma ml_rule_body x : mle (rule_body re prog r x) (rule_body re prog r' x).
Proof. unfold rule_body. mss2; try apply ml_rule_clause_body. Qed.

End Bodies.

Lemma ev_le_bottom re conv prog n : ev_le ev_bottom (evalN re conv prog n).
Proof. repeat split; intros; apply mle_oof. Qed.

Theorem evalN_step re conv prog n : ev_le (evalN re conv prog n) (evalN re conv prog (S n)).
Proof.
  induction n as [|n IH].
  - apply ev_le_bottom.
  - remember (S n) as k. cbn [evalN]. subst k. cbn [evalN].
    repeat split; cbn [ev_query ev_clause ev_rule ev_resolve ev_fn]; intros.
    + apply ml_query_body; exact IH.
    + apply ml_clause_body; exact IH.
    + apply ml_rule_body; exact IH.
    + apply ml_resolve_body; exact IH.
    + apply ml_fn_body; exact IH.
Qed.

Lemma ev_le_refl r : ev_le r r.
Proof. repeat split; intros; apply mle_refl. Qed.
Lemma ev_le_trans a b c : ev_le a b -> ev_le b c -> ev_le a c.
Proof.
  intros (A1 & A2 & A3 & A4 & A5) (B1 & B2 & B3 & B4 & B5).
  repeat split; intros; eapply mle_trans; eauto.
Qed.

Theorem evalN_mono re conv prog (n m : nat) : (n <= m)%nat -> ev_le (evalN re conv prog n) (evalN re conv prog m).
Proof.
  induction 1 as [|m Hle IH]; [apply ev_le_refl|].
  eapply ev_le_trans; [exact IH|apply evalN_step].
Qed.

(* the verdict of a file does not depend on the fuel once there is enough of it *)
Theorem eval_file_fuel_irrelevant re conv prog (n m : nat) doc :
  (n <= m)%nat ->
  eval_file re conv prog n doc <> OutOfFuel ->
  eval_file re conv prog m doc = eval_file re conv prog n doc.
Proof.
  intros Hnm Hn. unfold eval_file, file_body in *.
  assert (K : mle (node (sts <- mapM (ev_rule (evalN re conv prog n)) (rf_rules prog) ;; ret (fold_fail_pass_skip sts)) KFileCheck)
                  (node (sts <- mapM (ev_rule (evalN re conv prog m)) (rf_rules prog) ;; ret (fold_fail_pass_skip sts)) KFileCheck)).
  { apply mle_node. apply mle_bind; [|intros; apply mle_refl]. apply mle_mapM. intros x.
    apply (evalN_mono re conv prog n m Hnm). }
  destruct (K (init_state prog doc)) as [E|E]; [contradiction|]. symmetry. exact E.
Qed.
