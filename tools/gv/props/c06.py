"""C06 — exit codes of validate and test faithfully encode the outcome.

proof   : Props/C06.v over Model/Cli.v (the plain loop, the JSON/YAML/SARIF reporter, the JUnit reporter, main's
          Err -> exit(-1); test: plain/structured single file, get_exit_code), constants regenerated from the source
tie     : translator (Generated/Codes.v) + correspondence of the folds: the real binary is run on scenario
          directories in every invocation mode and its exit status is compared with Cli.validate_exit /
          Cli.plain_single / structured_single / plain_dir / structured_dir evaluated by Coq on the outcome
          matrix of the same files (the matrix comes from the hook harness, pair by pair)
monitor : c06_validate_obs / c06_test_obs (the sentences of the statement) evaluated by Coq on the observed status
"""
import json, random, os, itertools
from .. import coqterm as ct
from .. import impl, model, gen, e2e, tables
from ..common import *

RULES = {
    'pass': ['rule p1 { ok exists }\n', 'rule p2 { n >= 0 }\nrule p3 { this is_struct }\n'],
    'check': ['rule check when ok exists { ok == true }\n', 'rule c2 when ok exists {\n  ok == true or n == 99\n}\n'],
    'fail': ['rule f1 { n == 12345 }\n', 'rule f2 { missing exists }\n'],
    'skip': ['rule s1 when zz exists { n == 1 }\n'],
    'broken': ['rule b1 { n == \n', 'rule { }\n', 'rule r { a exists \n'],
    'empty': ['# nothing here\n', '   \n'],
    'evalerr': ['rule e1 { n empty }\n'],
}
DOCS = {
    'good': ['{"ok": true, "n": 1}', 'ok: true\nn: 1\n'],
    'bad': ['{"ok": false, "n": 1}', 'ok: false\nn: 2\n'],
    'other': ['{"zzz": 1, "n": 3}'],
    'malformed': ['{"ok": [', 'a: b: c: [\n'],
}
VMODES = [
    ('plain', 'VPlain', []),
    ('plain-json', 'VPlain', ['-o', 'json']),
    ('plain-verbose', 'VPlain', ['-v', '-S', 'all']),
    ('structured-json', 'VStructured', ['--structured', '-o', 'json', '-S', 'none']),
    ('structured-yaml', 'VStructured', ['--structured', '-o', 'yaml', '-S', 'none']),
    ('structured-sarif', 'VStructured', ['--structured', '-o', 'sarif', '-S', 'none']),
    ('structured-junit', 'VJunit', ['--structured', '-o', 'junit', '-S', 'none']),
]
ENTRY = ['files', 'stdin', 'payload']


def gen_scenario(rng, k, generated=True):
    nr = rng.choice([1, 1, 2, 2, 3])
    nd = rng.choice([1, 1, 2, 3])
    rules, docs = [], []
    for _ in range(nr):
        r = rng.random()
        if generated and r < 0.25:
            doc, prog = gen.gen_pair(rng, {'cycles': 0.0})
            rules.append(gen.render_file(prog))
        else:
            kind = rng.choice(['pass', 'check', 'check', 'fail', 'skip', 'broken', 'empty', 'evalerr'] if rng.random() < 0.5
                              else ['pass', 'check', 'check', 'fail', 'skip'])
            rules.append(rng.choice(RULES[kind]))
    for _ in range(nd):
        kind = rng.choice(['good', 'good', 'bad', 'other', 'malformed'] if rng.random() < 0.35 else ['good', 'bad', 'other'])
        docs.append(rng.choice(DOCS[kind]))
    return {'rules': rules, 'docs': docs}


def validate_jobs(sc, d, modes, entries):
    """returns list of (label, coq_mode, job)"""
    files = {}
    # every other scenario keeps its rules files under ONE base name in different directories
    same = sum(map(ord, d)) % 2 == 1
    # a rules file that is named explicitly is used whatever its extension (only directory scans filter on .guard / .ruleset)
    exts = ['r%d.guard', 'r%d.ruleset', 'r%d.rules', 'policy%d', 'r%d.guard.txt', 'R%d.GUARD']
    h = sum(map(ord, d))
    rnames = [('pol/d%d/r.guard' % i) if same else (exts[(h // 2 + i) % len(exts)] % i) for i in range(len(sc['rules']))]
    for nme, r in zip(rnames, sc['rules']):
        files[nme] = r
    for i, t in enumerate(sc['docs']):
        files['d%d.%s' % (i, 'json' if t.lstrip().startswith('{') else 'yaml')] = t
    e2e.write_files(d, files)
    dnames = [n for n in sorted(files) if n.startswith('d')]
    dnames.sort(key=lambda n: int(n[1:].split('.')[0]))
    out = []
    for (label, cm, flags) in modes:
        for en in entries:
            if en == 'files':
                args = ['validate'] + flags
                for r in rnames:
                    args += ['-r', r]
                for x in dnames:
                    args += ['-d', x]
                out.append((label + '/files', cm, {'args': args, 'cwd': d}, sc['docs']))
            elif en == 'stdin':
                args = ['validate'] + flags
                for r in rnames:
                    args += ['-r', r]
                out.append((label + '/stdin', cm, {'args': args, 'cwd': d, 'stdin': sc['docs'][0].encode()}, sc['docs'][:1]))
            elif en == 'payload':
                payload = json.dumps({'rules': sc['rules'], 'data': sc['docs']})
                out.append((label + '/payload', cm, {'args': ['validate', '--payload'] + flags, 'cwd': d, 'stdin': payload.encode()}, sc['docs']))
    return out


def matrix(rules, docs, outcomes, docs_ok=None):
    """outcomes[(i,j)] -> Coq term list rules_outcome, upfront flag"""
    upfront = all(not (not t.strip()) for t in docs) and (docs_ok is None or all(docs_ok))
    rows = []
    for i in range(len(rules)):
        cells = [outcomes[(i, j)] for j in range(len(docs))]
        if any(c == 'BAD_DATA' for c in cells):
            upfront = False
        if cells and cells[0] == 'PARSE_ERR':
            rows.append('RParseErr')
        elif cells and cells[0] == 'EMPTY':
            rows.append('REmpty')
        else:
            m = {'PASS': 'DPass', 'FAIL': 'DFail', 'SKIP': 'DSkip', 'ERR': 'DErr', 'BAD_DATA': 'DPass'}
            rows.append('(RParsed %s)' % ct.clist([m[c] for c in cells]))
    return ct.clist(rows), upfront


def run_validate(ctx, nscen, all_modes):
    rng = random.Random(ctx.seed * 31 + 6)
    scen = [gen_scenario(rng, k) for k in range(nscen)]
    # outcome matrices through the hook harness
    pairs, index = [], []
    for k, sc in enumerate(scen):
        for i, r in enumerate(sc['rules']):
            for j, t in enumerate(sc['docs']):
                pairs.append((r, t))
                index.append((k, i, j))
    outs, raw = e2e.pair_outcomes(pairs, ctx.wd, 'c06pairs', loader='cli')
    dops = [{'op': 'doc', 'data': t, 'loader': 'cli'} for sc in scen for t in sc['docs']]
    dres = impl.run_ops_parallel(dops, ctx.wd, 'c06docs')
    dok, pos = {}, 0
    for k, sc in enumerate(scen):
        dok[k] = [bool(r.get('res') and r['res'][0] == 'Ok') for r in dres[pos:pos + len(sc['docs'])]]
        pos += len(sc['docs'])
    per = {}
    for (k, i, j), o in zip(index, outs):
        per.setdefault(k, {})[(i, j)] = o
    jobs, meta = [], []
    skipped = 0
    for k, sc in enumerate(scen):
        if any(o in ('PANIC', 'ABORT') for o in per[k].values()):
            skipped += 1      # crashes are C08's subject; the fold has no outcome to encode
            continue
        modes = VMODES if all_modes else [VMODES[0]] + rng.sample(VMODES[1:], 3)
        entries = ENTRY if all_modes else ['files', rng.choice(['stdin', 'payload'])]
        for (label, cm, job, docs) in validate_jobs(sc, os.path.join(ctx.wd, 'v%d' % k), modes, entries):
            jobs.append(job)
            meta.append((k, label, cm, len(docs)))
    res = e2e.run_many(jobs)
    cases = []
    info = {}
    for cid, ((k, label, cm, nd), (code, so, se)) in enumerate(zip(meta, res)):
        sc = scen[k]
        docs = sc['docs'][:nd]
        outcomes = {key: v for key, v in per[k].items() if key[1] < nd}
        rs, upfront = matrix(sc['rules'], docs, outcomes, dok[k][:nd])
        st = e2e.status_of_code(code)
        info[cid] = (k, label, st, rs, upfront, se[-400:].decode('utf-8', 'replace'))
        if not isinstance(st, int):
            ctx.failing('validate (%s) did not exit normally: %s' % (label, st),
                        {'class': 'abnormal-exit', 'mode': label, 'scenario': sc, 'status': st}, found=True)
            continue
        cases.append((cid, '', '(c06_validate_obs %s %s %d, exit_status (validate_exit %s %s %d%%nat %s))' % (
            ct.cbool(upfront), rs, st, cm, ct.cbool(upfront), nd, rs)))
    verdicts, errors = model.eval_cases(cases, ctx.wd, 'c06v', header='From Coq Require Import String.\nFrom GV.Model Require Import Cli.\n', per_file=200)
    if errors:
        raise ToolingError('model evaluation failed: %r' % (errors[:1],))
    dist = {}
    distinct = set()
    for cid, _, _ in cases:
        k, label, st, rs, upfront, se = info[cid]
        v = verdicts.get(cid, 'NoModelOutput')
        dist[(label.split('/')[0], st)] = dist.get((label.split('/')[0], st), 0) + 1
        distinct.add((rs, upfront, label))
        parts = v.replace('(', ' ').replace(')', ' ').replace('%Z', '').split(',')
        ok = parts[0].strip() == 'true'
        mexit = parts[1].strip() if len(parts) > 1 else '?'
        if not ok:
            ctx.failing('validate (%s): exit status %s does not encode the outcome %s (upfront_ok=%s)' % (label, st, rs, upfront),
                        {'class': 'exit-code', 'mode': label, 'scenario': scen[k], 'status': st, 'matrix': rs, 'stderr': se}, found=True)
        elif mexit != str(st):
            ctx.failing('validate (%s): model fold gives %s, the binary exits %s on %s' % (label, mexit, st, rs),
                        {'class': 'fold-correspondence', 'mode': label, 'scenario': scen[k], 'status': st, 'matrix': rs, 'stderr': se}, found=False)
    ctx.coverage['validate_runs'] = len(cases)
    ctx.coverage['validate_scenarios'] = nscen
    ctx.coverage['validate_scenarios_skipped_for_crash'] = skipped
    ctx.coverage['validate_exit_distribution'] = {'%s:%s' % k: v for k, v in sorted(dist.items(), key=str)}
    ctx.coverage['evaluations'] += len(cases)
    if cases:
        cid = cases[0][0]
        ctx.sample({'scenario': scen[info[cid][0]], 'mode': info[cid][1], 'exit': info[cid][2], 'matrix': info[cid][3]})
    return len(distinct)


# ------------------------------------------------------------------ test command

def expectations_directed(statuses, met):
    """for every rule an expectation that the statement says is met (met=True: the first non-SKIP status among the definitions,
    SKIP when all are SKIP) or unmet (a status no definition has)"""
    exp, terms = {}, []
    for name, sts in statuses:
        nonskip = [x for x in sts if x != 'SKIP']
        if met:
            e = nonskip[-1] if nonskip else 'SKIP'          # the LAST non-SKIP status: losing a later definition shows
            if len(set(nonskip)) > 1:
                e = nonskip[0]
        else:
            cand = [x for x in ('PASS', 'FAIL') if x not in sts]
            if not cand:
                terms.append('ENoExpectation')
                continue
            e = cand[0]
        exp[name] = e
        ok = (e != 'SKIP' and e in sts) or (e == 'SKIP' and all(x == 'SKIP' for x in sts))
        terms.append('EMatched' if ok else 'EMismatch')
    return exp, terms


def expectations_for(rng, statuses):
    """statuses: [(name, [status of every definition])]. returns (dict expectations, list expectation_result terms).
    An expectation is met iff some definition has the expected non-SKIP status, or all are SKIP when SKIP is expected
    (the statement's rule for rules defined several times)."""
    exp, terms = {}, []
    for name, sts in statuses:
        r = rng.random()
        if r < 0.2:
            terms.append('ENoExpectation')
            continue
        e = rng.choice(sts) if r < 0.6 else rng.choice(['PASS', 'FAIL', 'SKIP'])
        exp[name] = e
        met = (e != 'SKIP' and e in sts) or (e == 'SKIP' and all(x == 'SKIP' for x in sts))
        terms.append('EMatched' if met else 'EMismatch')
    return exp, terms


TEST_RULES = ['rule check when ok exists { ok == true }\nrule n_pos { n >= 0 }\n',
              'rule a { ok exists }\nrule b when a { n == 1 }\nrule c {\n  not a\n}\n',
              'rule only { n in [1, 2, 3] }\n',
              'rule dup when ok exists { n == 1 }\nrule dup when n exists { n >= 0 }\nrule other { ok == true }\n',
              'rule dup when zz exists { n == 1 }\nrule dup when ok exists { ok == true }\nrule dup { n == 5 }\n',
              # one name defined twice with ANOTHER rule between the definitions (grouping consecutive records is not enough)
              'rule dup when ok == true { n >= 0 }\nrule mid { n exists }\nrule dup when ok == false { n == 99 }\nrule tail { ok exists }\nrule dup when ok !exists { n == 5 }\n',
              'rule x { n >= 0 }\nrule y when ok exists { ok == true }\nrule x { n == 1 }\nrule y when ok !exists { n == 5 }\n']
# the third input has a character outside the BMP: json.dumps writes it as a surrogate-pair escape, which is JSON but not YAML - a
# spec file may be either (the reporters fall back from the YAML to the JSON reader)
TEST_INPUTS = [{"ok": True, "n": 1}, {"ok": False, "n": 2}, {"n": 5, "note": "five \U0001f600"}, {"ok": True, "n": -1}]


def gen_test_scenario(rng):
    """one rules file with 1..2 spec files"""
    r = rng.random()
    if r < 0.12:
        return {'rules': rng.choice(RULES['broken']), 'specs': [[{'input': TEST_INPUTS[0], 'kind': 'plain'}]]}
    if r < 0.18:
        return {'rules': rng.choice(RULES['empty']), 'specs': [[{'input': TEST_INPUTS[0], 'kind': 'plain'}]]}
    rules = rng.choice(TEST_RULES)
    specs = []
    for _ in range(rng.choice([1, 1, 2])):
        if rng.random() < 0.1:
            specs.append('BAD')
            continue
        specs.append([{'input': rng.choice(TEST_INPUTS), 'kind': 'plain'} for _ in range(rng.choice([1, 2, 3]))])
    return {'rules': rules, 'specs': specs}


def run_test_cmd(ctx, nscen):
    rng = random.Random(ctx.seed * 31 + 7)
    scen = [gen_test_scenario(rng) for _ in range(nscen)]
    # directed: every rules text of TEST_RULES on every input, once with expectations that are met and once with unmet ones
    for rl in TEST_RULES:
        for met in (True, False):
            scen.append({'rules': rl, 'specs': [[{'input': inp, 'kind': 'plain', 'directed': met} for inp in TEST_INPUTS]]})
    pairs, index = [], []
    for k, sc in enumerate(scen):
        for a, spec in enumerate(sc['specs']):
            if spec == 'BAD':
                continue
            for b, case in enumerate(spec):
                pairs.append((sc['rules'], json.dumps(case['input'], ensure_ascii=False)))   # the document itself; the spec file below keeps the \u escapes
                index.append((k, a, b))
    outs, raw = e2e.pair_outcomes(pairs, ctx.wd, 'c06tpairs', loader='test')
    ares = impl.run_ops_parallel([{'op': 'ast', 'rules': sc['rules']} for sc in scen], ctx.wd, 'c06tast')
    parse_states = [('TEmpty' if r['res'][0] == 'Empty' else (None if r['res'][0] == 'Ok' else 'TParseErr')) for r in ares]
    jobs, meta = [], []
    for (k, a, b), o, rw in zip(index, outs, raw):
        case = scen[k]['specs'][a][b]
        case['outcome'] = o
        if o in ('PASS', 'FAIL', 'SKIP'):
            sts = e2e.rule_statuses(rw)
            uniq, idx = [], {}
            for n, st in sts:
                if n not in idx:
                    idx[n] = len(uniq)
                    uniq.append((n, []))
                uniq[idx[n]][1].append(st)
            case['dups'] = False
            case['exp'], case['terms'] = expectations_for(rng, uniq) if 'directed' not in case else expectations_directed(uniq, case['directed'])
        else:
            case['exp'], case['terms'] = {'x': 'PASS'}, None
    coq_terms = {}
    for k, sc in enumerate(scen):
        d = os.path.join(ctx.wd, 't%d' % k)
        # the base name of the rules file: the --dir walk is sorted by name and descends into tests/ on the way, so names that
        # sort before and after "tests" are both used
        stem = ['r', 'api', 'vpc', 'waf', 'tf_main', 'Zeta', 'tests_of'][k % 7]
        files = {stem + '.guard': sc['rules']}
        spec_terms = []
        parse_state = parse_states[k]
        for a, spec in enumerate(sc['specs']):
            if spec == 'BAD':
                files['tests/%s_%d.yaml' % (stem, a)] = '- input: {a: [\n'
                spec_terms.append('SpecBad')
                continue
            doc = [{'name': 'case%d' % b, 'input': c['input'], 'expectations': {'rules': c['exp']}} for b, c in enumerate(spec)]
            files['tests/%s_%d.yaml' % (stem, a)] = json.dumps(doc)
            cts = []
            for c in spec:
                if c['outcome'] == 'PARSE_ERR':
                    parse_state = 'TParseErr'
                elif c['outcome'] == 'EMPTY':
                    parse_state = 'TEmpty'
                elif c['outcome'] == 'ERR':
                    cts.append('CaseEvalErr')
                elif c['terms'] is not None:
                    cts.append('(CaseOk %s)' % ct.clist(c['terms']))
            spec_terms.append('(SpecOk %s)' % ct.clist(cts))
        if any(c.get('dups') for s in sc['specs'] if s != 'BAD' for c in s) or \
           any(c['outcome'] in ('PANIC', 'ABORT', 'BAD_DATA') for s in sc['specs'] if s != 'BAD' for c in s):
            continue
        if parse_state is None and not any(s != 'BAD' for s in sc['specs']):
            # only bad spec files: find out how the rules file parses
            parse_state = None
        term = parse_state or '(TParsed %s)' % ct.clist(spec_terms)
        coq_terms[k] = term
        e2e.write_files(d, files)
        # single-file form takes the tests directory; dir form takes the scenario directory
        for label, fn, args in [
            ('plain-single', 'plain_single', ['test', '-a', '-r', stem + '.guard', '-t', 'tests']),
            ('json-single', 'structured_single', ['test', '-a', '-r', stem + '.guard', '-t', 'tests', '-o', 'json']),
            ('yaml-single', 'structured_single', ['test', '-a', '-r', stem + '.guard', '-t', 'tests', '-o', 'yaml']),
            ('junit-single', 'structured_single', ['test', '-a', '-r', stem + '.guard', '-t', 'tests', '-o', 'junit']),
            ('plain-dir', 'plain_dir', ['test', '-d', '.']),
            ('json-dir', 'structured_dir', ['test', '-d', '.', '-o', 'json']),
        ]:
            jobs.append({'args': args, 'cwd': d})
            meta.append((k, label, fn))
    res = e2e.run_many(jobs)
    cases, info = [], {}
    for cid, ((k, label, fn), (code, so, se)) in enumerate(zip(meta, res)):
        st = e2e.status_of_code(code)
        info[cid] = (k, label, st)
        if not isinstance(st, int):
            ctx.failing('test (%s) did not exit normally: %s' % (label, st),
                        {'class': 'abnormal-exit', 'mode': label, 'scenario': scen[k], 'status': st}, found=True)
            continue
        t = coq_terms[k]
        call = ('%s %s' % (fn, t)) if fn.endswith('single') else ('%s [%s] success_status_code' % (fn, t))
        cases.append((cid, '', '(c06_test_obs [%s] %d, exit_status (%s))' % (t, st, call)))
    verdicts, errors = model.eval_cases(cases, ctx.wd, 'c06t', header='From Coq Require Import String.\nFrom GV.Model Require Import Cli.\n', per_file=200)
    if errors:
        raise ToolingError('model evaluation failed: %r' % (errors[:1],))
    dist = {}
    distinct = set()
    for cid, _, _ in cases:
        k, label, st = info[cid]
        v = verdicts.get(cid, 'NoModelOutput')
        parts = v.replace('(', ' ').replace(')', ' ').replace('%Z', '').split(',')
        ok = parts[0].strip() == 'true'
        mexit = parts[1].strip() if len(parts) > 1 else '?'
        dist[(label, st)] = dist.get((label, st), 0) + 1
        distinct.add((coq_terms[k], label))
        if not ok:
            ctx.failing('test (%s): exit status %s does not encode the outcome %s' % (label, st, coq_terms[k]),
                        {'class': 'exit-code', 'mode': label, 'scenario': scen[k], 'status': st, 'outcome': coq_terms[k]}, found=True)
        elif mexit != str(st):
            ctx.failing('test (%s): model fold gives %s, the binary exits %s on %s' % (label, mexit, st, coq_terms[k]),
                        {'class': 'fold-correspondence', 'mode': label, 'scenario': scen[k], 'status': st, 'outcome': coq_terms[k]}, found=False)
    ctx.coverage['test_runs'] = len(cases)
    ctx.coverage['test_exit_distribution'] = {'%s:%s' % k: v for k, v in sorted(dist.items(), key=str)}
    ctx.coverage['evaluations'] += len(cases)
    return len(distinct)


def run_linked_documents(ctx):
    """--data / --rules directories whose entries are symbolic links (to a compliant, a non-compliant, a malformed document; a link next to
    regular files; a linked sub-DIRECTORY is not walked by the tool - which documents a directory argument collects is not what the
    statement is about, so that layout is not compared): the outcome is encoded exactly as for the same directory with the links
    replaced by copies of their targets - in plain, --structured json and junit"""
    rules = 'rule sized {\n  size <= 10\n}\n'
    targets = {'ok.json': '{"size": 1}', 'bad.json': '{"size": 50}', 'broken.json': '{"size": ', 'other.yaml': 'size: 11\n'}
    layouts = {
        'link-to-noncompliant': {'a_ok.json': ('copy', 'ok.json'), 'z_link.json': ('link', 'bad.json')},
        'link-to-compliant': {'a_bad.json': ('copy', 'bad.json'), 'link.json': ('link', 'ok.json')},
        'only-a-link-noncompliant': {'link.json': ('link', 'bad.json')},
        'only-a-link-compliant': {'link.json': ('link', 'ok.json')},
        'link-to-malformed': {'a_ok.json': ('copy', 'ok.json'), 'link.json': ('link', 'broken.json')},
        'link-yaml': {'a_ok.json': ('copy', 'ok.json'), 'link.yaml': ('link', 'other.yaml')},
    }
    jobs, meta = [], []
    for lab, entries in layouts.items():
        for variant in ('links', 'copies'):
            d = os.path.join(ctx.wd, 'lnk_%s_%s' % (lab, variant))
            files = {'r.guard': rules}
            for nm, body in targets.items():
                files['outside/' + nm] = body
            e2e.write_files(d, files)
            os.makedirs(os.path.join(d, 'data'), exist_ok=True)
            for nm, (kind, tgt) in entries.items():
                p_ = os.path.join(d, 'data', nm)
                if os.path.lexists(p_):
                    if os.path.isdir(p_) and not os.path.islink(p_):
                        import shutil; shutil.rmtree(p_)
                    else:
                        os.remove(p_)
                if kind == 'copy' or (kind == 'link' and variant == 'copies'):
                    open(p_, 'w').write(targets[tgt])
                elif kind == 'link':
                    os.symlink(os.path.join('..', 'outside', tgt), p_)
                elif kind == 'linkdir':
                    src = os.path.join(d, 'outside_dir')
                    os.makedirs(src, exist_ok=True)
                    for x in tgt:
                        open(os.path.join(src, x), 'w').write(targets[x])
                    if variant == 'links':
                        os.symlink(os.path.join('..', 'outside_dir'), p_)
                    else:
                        os.makedirs(p_, exist_ok=True)
                        for x in tgt:
                            open(os.path.join(p_, x), 'w').write(targets[x])
            for mlab, flags in (('plain', []), ('s-json', ['--structured', '-o', 'json', '-S', 'none']), ('s-junit', ['--structured', '-o', 'junit', '-S', 'none'])):
                jobs.append({'args': ['validate', '-r', 'r.guard', '-d', 'data'] + flags, 'cwd': d}); meta.append((lab, variant, mlab))
    res = dict(zip(meta, e2e.run_many(jobs)))
    n = 0
    for lab in layouts:
        for mlab in ('plain', 's-json', 's-junit'):
            n += 1
            (c1, so1, se1), (c2, so2, se2) = res[(lab, 'links', mlab)], res[(lab, 'copies', mlab)]
            if c1 != c2:
                ctx.failing('validate -d <dir> (%s, %s): exit %s when the documents are symbolic links, %s when they are copies of the same files' % (lab, mlab, c1, c2),
                            {'class': 'layout-links', 'layout': lab, 'mode': mlab, 'stdout_links': so1[:400].decode('utf-8', 'replace'), 'stderr_links': se1[-300:].decode('utf-8', 'replace'),
                             'stdout_copies': so2[:400].decode('utf-8', 'replace')}, found=True)
    ctx.coverage['linked_document_layouts'] = n
    ctx.coverage['evaluations'] += len(jobs)
    return n


def run_same_basename(ctx):
    """rules files that share a base name in different directories (team_a/check.guard, team_b/check.guard), given as two -r arguments
    and as a directory, the failing one first or last: every mode exits 19 when one of them FAILs, 0 when none does"""
    d = os.path.join(ctx.wd, 'sbn')
    ok, bad = 'rule sized {\n  size <= 10\n}\n', 'rule small {\n  size <= 1 <<too big>>\n}\n'
    jobs, meta = [], []
    for lab, (ra, rb), want in (('pass-then-fail', (ok, bad), 19), ('fail-then-pass', (bad, ok), 19), ('both-pass', (ok, ok.replace('sized', 'sized2')), 0)):
        dd = os.path.join(d, lab)
        e2e.write_files(dd, {'pol/team_a/check.guard': ra, 'pol/team_b/check.guard': rb, 'doc.json': '{"size": 5}'})
        for how, rargs in (('two -r', ['-r', 'pol/team_a/check.guard', '-r', 'pol/team_b/check.guard']), ('directory', ['-r', 'pol'])):
            for mlab, flags in (('plain', []), ('s-json', ['--structured', '-o', 'json', '-S', 'none']), ('s-yaml', ['--structured', '-o', 'yaml', '-S', 'none']),
                                ('s-sarif', ['--structured', '-o', 'sarif', '-S', 'none']), ('s-junit', ['--structured', '-o', 'junit', '-S', 'none'])):
                jobs.append({'args': ['validate'] + rargs + ['-d', 'doc.json'] + flags, 'cwd': dd}); meta.append((lab, how, mlab, want))
    n = 0
    for (lab, how, mlab, want), (code, so, se) in zip(meta, e2e.run_many(jobs)):
        n += 1
        if code != want:
            ctx.failing('two rules files named check.guard in different directories (%s, %s, %s): exit %s, expected %d' % (lab, how, mlab, code, want),
                        {'class': 'same-basename', 'scenario': lab, 'how': how, 'mode': mlab, 'stdout': so[:400].decode('utf-8', 'replace'), 'stderr': se[-300:].decode('utf-8', 'replace')}, found=True)
    ctx.coverage['same_basename_runs'] = n
    ctx.coverage['evaluations'] += n
    return n


def run_failing_position(ctx):
    """2..3 data files of which exactly one is non-compliant - first, in the middle, last - and one that is skipped: every mode exits 19;
    all compliant: 0"""
    rules = 'rule sized when size exists {\n  size <= 10 <<too big>>\n}\n'
    docs = {'P': '{"size": 1}', 'F': '{"size": 50}', 'S': '{"other": 1}'}
    d = os.path.join(ctx.wd, 'fpos')
    jobs, meta = [], []
    for seq in ('FP', 'PF', 'FS', 'SF', 'FPP', 'PFP', 'PPF', 'FSP', 'PP', 'PS', 'FF'):
        dd = os.path.join(d, seq)
        files = {'r.guard': rules}
        for i, c in enumerate(seq):
            files['data/d%d.json' % i] = docs[c]
        e2e.write_files(dd, files)
        want = 19 if 'F' in seq else 0
        for mlab, flags in (('plain', []), ('verbose', ['-v']), ('s-json', ['--structured', '-o', 'json', '-S', 'none']), ('s-yaml', ['--structured', '-o', 'yaml', '-S', 'none']),
                            ('s-sarif', ['--structured', '-o', 'sarif', '-S', 'none']), ('s-junit', ['--structured', '-o', 'junit', '-S', 'none'])):
            for how, dargs in (('directory', ['-d', 'data']), ('one by one', sum((['-d', 'data/d%d.json' % i] for i in range(len(seq))), []))):
                jobs.append({'args': ['validate', '-r', 'r.guard'] + dargs + flags, 'cwd': dd}); meta.append((seq, mlab, how, want))
    n = 0
    for (seq, mlab, how, want), (code, so, se) in zip(meta, e2e.run_many(jobs)):
        n += 1
        if code != want:
            ctx.failing('data files with outcomes %s (%s, given as %s): exit %s, expected %d' % (seq, mlab, how, code, want),
                        {'class': 'failing-position', 'outcomes': seq, 'mode': mlab, 'how': how, 'stdout': so[:400].decode('utf-8', 'replace'), 'stderr': se[-300:].decode('utf-8', 'replace')}, found=True)
    ctx.coverage['failing_position_runs'] = n
    ctx.coverage['evaluations'] += n
    return n


def run_path_spellings(ctx):
    """the same rules, spec and data files addressed in different ways - by name, as `.` from inside the directory, `./`, through `..`,
    with a trailing slash, by absolute path, file by file, and in directories / files whose names start with a dot: the exit code of
    `test` (7 unmet expectation / 0 all met / non-zero broken spec) and of `validate` (19 / 0) is the one the outcome calls for in
    every spelling, plain and structured"""
    rules = 'rule port_is_443 {\n    port == 443\n}\n'
    spec = lambda port, want: json.dumps([{'name': 'c', 'input': {'port': port}, 'expectations': {'rules': {'port_is_443': want}}}])
    scen = {'unmet': (spec(80, 'PASS'), 7), 'met': (spec(80, 'FAIL'), 0), 'broken-spec': ('- input: {a: [\n', None)}
    jobs, meta = [], []
    for lab, (body, want) in scen.items():
        d = os.path.join(ctx.wd, 'spell_t_' + lab)
        e2e.write_files(d, {'pol/check.guard': rules, 'specs/check_tests.yaml': body, '.specs/check_tests.yaml': body, 'hid/.check_tests.yaml': body})
        sp = os.path.join(d, 'specs')
        for how, cwd, args in (
                ('named', d, ['-r', 'pol/check.guard', '-t', 'specs']),
                ('dot', sp, ['-r', '../pol/check.guard', '-t', '.']),
                ('dot-slash', sp, ['-r', '../pol/check.guard', '-t', './']),
                ('parent', sp, ['-r', '../pol/check.guard', '-t', '../specs']),
                ('trailing-slash', d, ['-r', 'pol/check.guard', '-t', 'specs/']),
                ('absolute', d, ['-r', os.path.join(d, 'pol/check.guard'), '-t', sp]),
                ('file', d, ['-r', 'pol/check.guard', '-t', 'specs/check_tests.yaml']),
                ('dot-named-dir', d, ['-r', 'pol/check.guard', '-t', '.specs']),
                ('dot-named-file', d, ['-r', 'pol/check.guard', '-t', 'hid/.check_tests.yaml']),
                ('dir-with-dot-named-file', d, ['-r', 'pol/check.guard', '-t', 'hid'])):
            for mlab, flags in (('plain', []), ('json', ['-o', 'json']), ('junit', ['-o', 'junit'])):
                jobs.append({'args': ['test'] + args + flags, 'cwd': cwd}); meta.append(('test', lab, how, mlab, want))
    docs = {'non-compliant': ('{"port": 80}', 19), 'compliant': ('{"port": 443}', 0)}
    for lab, (doc, want) in docs.items():
        d = os.path.join(ctx.wd, 'spell_v_' + lab)
        e2e.write_files(d, {'pol/check.guard': rules, 'data/doc.json': doc, '.pol/check.guard': rules, '.data/doc.json': doc, 'hid/.doc.json': doc, 'hidr/.check.guard': rules})
        for how, cwd, args in (
                ('named', d, ['-r', 'pol', '-d', 'data']),
                ('data-dot', os.path.join(d, 'data'), ['-r', '../pol', '-d', '.']),
                ('rules-dot', os.path.join(d, 'pol'), ['-r', '.', '-d', '../data']),
                ('dot-slash', d, ['-r', './pol/', '-d', './data/']),
                ('absolute', d, ['-r', os.path.join(d, 'pol'), '-d', os.path.join(d, 'data')]),
                ('files', d, ['-r', 'pol/check.guard', '-d', 'data/doc.json']),
                ('dot-named-dirs', d, ['-r', '.pol', '-d', '.data']),
                ('dot-named-files', d, ['-r', 'hidr/.check.guard', '-d', 'hid/.doc.json']),
                ('dirs-with-dot-named-files', d, ['-r', 'hidr', '-d', 'hid'])):
            for mlab, flags in (('plain', []), ('s-json', ['--structured', '-o', 'json', '-S', 'none']), ('s-junit', ['--structured', '-o', 'junit', '-S', 'none'])):
                jobs.append({'args': ['validate'] + args + flags, 'cwd': cwd}); meta.append(('validate', lab, how, mlab, want))
    res = dict(zip(meta, e2e.run_many(jobs)))
    n = 0
    for (cmd, lab, how, mlab, want), (code, so, se) in res.items():
        n += 1
        named = res[(cmd, lab, 'named', mlab, want)][0]
        bad = (code != want) if want is not None else (code == 0 or code != named)
        if bad:
            ctx.failing('%s (%s, %s) with the files addressed as "%s": exit %s, expected %s' % (cmd, lab, mlab, how, code, want if want is not None else 'the non-zero %s of the named spelling' % named),
                        {'class': 'path-spelling', 'command': cmd, 'scenario': lab, 'spelling': how, 'mode': mlab, 'exit': code, 'exit_named': named,
                         'stdout': so[:400].decode('utf-8', 'replace'), 'stderr': se[-300:].decode('utf-8', 'replace')}, found=True)
    ctx.coverage['path_spelling_runs'] = n
    ctx.coverage['evaluations'] += n
    return n


def run(ctx):
    ctx.build(cli=True)
    ok, problems = tables.regenerate()
    problems = tables.problems_for('C06', problems)
    problems = [p_ for p_ in problems if not tables.behavioural_check(p_.split(':', 1)[0], os.path.join(ctx.wd, 'tables_c06'))[0]]
    ok = not problems
    pr = ctx.proofs('C06')
    thorough = ctx.tier == 'thorough'
    n1 = run_validate(ctx, 260 if thorough else 50, thorough)
    n2 = run_test_cmd(ctx, 200 if thorough else 40) + run_linked_documents(ctx)
    from .c16 import run_default_rule, run_multi_files
    n2 += run_path_spellings(ctx) + run_failing_position(ctx)
    n2 += run_same_basename(ctx) + run_multi_files(ctx)     # several spec files / rules files in one `test` run: 7 iff an expectation is unmet, in every order
    n2 += run_default_rule(ctx)     # file-level clauses: the default rule's expectation decides the exit code in every rendering
    ctx.coverage['distinct_nontrivial'] = n1 + n2
    ctx.coverage['rule'] = ('scenario = 1..3 rules files (passing, failing, skipping, guarded, syntactically broken, empty, raising an evaluation '
                            'error, and generated programs) x 1..3 documents (compliant, non-compliant, unrelated, malformed) run by the real binary in '
                            'plain / -o json / -v / --structured json|yaml|sarif|junit and as files / stdin / --payload; test: rules file x 1..2 spec files '
                            'x 1..3 cases with matched / mismatched / missing expectations, single-file and directory form, plain/json/yaml/junit; '
                            'distinct = distinct (outcome matrix, mode)')
    ctx.coverage['trusted_base'] = [
        'Coq 8.16.1 kernel (coqc), vm_compute for case evaluation; no axioms',
        'hand-written model Cli.v of validate.rs / structured.rs / xml.rs / test.rs / reporters/test (modelled, not verified)',
        'translator tools/gv/tables.py (constants of commands/mod.rs, exit(-1) of main.rs)',
        'outcome matrix of each scenario from the hook harness (eval_dump), pair by pair',
    ]
    ctx.assumptions = ['the mixed case (a rules file that fails to parse AND a FAIL) is only required to be non-zero by the statement; '
                       'the model records 19 (JSON/YAML/SARIF), 5 (JUnit), last-non-zero (plain)',
                       'runs in which an evaluation panics or aborts are left to C08']
    if not ok:
        ctx.failing('the status-code tables could not be regenerated from the source: %s' % problems,
                    {'class': 'translator', 'problems': problems}, found=False)
    if not pr['ok']:
        ctx.failing('proof obligations of Props/C06.v no longer check: %s' % (pr.get('problems') or pr.get('log', '')[-500:]),
                    {'class': 'proof', 'theorems': pr['theorems']}, found=False)


def replay(ctx, path):
    j = json.load(open(path))
    for v in j.get('violations', []):
        print(json.dumps(v, indent=1)[:3000])
    return 0
