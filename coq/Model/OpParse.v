(* OpParse.v — the comparison-operator grammar of rules/parser.rs (`value_cmp`, lines 578-694): `==`, `!=`, `>=`, `<=`, `>`, `<`,
   and the keyword operators (in, exists, empty, is_string, is_list, is_struct, is_bool, is_int, is_null, is_float) in either
   case, each optionally negated by `not` / `NOT` followed by at least one blank, or by `!` directly in front; a custom-message
   opener `<<` is never an operator.  The keyword tables are the ones regenerated from the source (Generated/Keywords.v).
   The answer is the pair the evaluator model runs on (Ast.cmp = operator, negated).  No proofs here. *)
From GV.Model Require Import Ast.
From GV.Model Require Import ValueParse.
Local Open Scope string_scope.

Definition tagged {T} (x : T) (tags : list string) (s : string) : pres T :=
  match alt_tags tags s with Some r => POk x r | None => PErr end.

(* preceded(tag(t), space1) *)
Definition not_word (t : string) (s : string) : option string :=
  if str_prefix t s then
    match span_while is_blank (drop (String.length t) s) with
    | (EmptyString, _) => None
    | (_, r) => Some r
    end
  else None.
Fixpoint not_words (ws : list string) (s : string) : option string :=
  match ws with
  | [] => None
  | t :: r => match not_word t s with Some x => Some x | None => not_words r s end
  end.
(* not: a word form, else the character *)
Definition not_kw (s : string) : option string :=
  match not_words kw_not_words s with
  | Some r => Some r
  | None => alt_tags kw_not_chars s
  end.

Definition is_type_ops (s : string) : pres cmp_op :=
  palt (tagged OIsString kw_is_string s) (palt (tagged OIsList kw_is_list s) (palt (tagged OIsMap kw_is_struct s)
  (palt (tagged OIsBool kw_is_bool s) (palt (tagged OIsInt kw_is_int s) (palt (tagged OIsNull kw_is_null s) (tagged OIsFloat kw_is_float s)))))).

Definition keyword_op (s : string) : pres cmp_op :=
  palt (tagged OIn kw_in_keyword s) (palt (tagged OExists kw_exists s) (palt (tagged OEmpty kw_empty s) (is_type_ops s))).

Definition other_operations (s : string) : pres (cmp_op * bool) :=
  match not_kw s with
  | Some r => pmap (fun o => (o, true)) (keyword_op r)
  | None => pmap (fun o => (o, false)) (keyword_op s)
  end.

Definition symbol_op (s : string) : pres (cmp_op * bool) :=
  palt (tagged (OEq, false) ["=="] s) (palt (tagged (OEq, true) ["!="] s) (palt (tagged (OGe, false) [">="] s)
  (palt (tagged (OLe, false) ["<="] s) (palt (tagged (OGt, false) [">"] s) (tagged (OLt, false) ["<"] s))))).

Definition value_cmp (s : string) : pres (cmp_op * bool) :=
  if str_prefix "<<" s then PErr else palt (symbol_op s) (other_operations s).

(* ---------------------------------------------------------------- the tie *)
Inductive impl_cmp := ICOk (o : cmp_op) (neg : bool) (offset : N) | ICError | ICFailure | ICOther.
Inductive pc_verdict := PCAgree | PCAgreeReject | PCDisagree.

Definition cmp_obs (text : string) (i : impl_cmp) : pc_verdict :=
  match value_cmp text, i with
  | POk (o, n) r, ICOk o' n' off =>
      if cmp_op_eqb o o' && Bool.eqb n n' && N.eqb (N.of_nat (String.length text - String.length r)) off then PCAgree else PCDisagree
  | PErr, ICError => PCAgreeReject
  | PFail, ICFailure => PCAgreeReject
  | _, _ => PCDisagree
  end.
