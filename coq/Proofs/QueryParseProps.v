(* QueryParseProps.v — the query grammar (Model/QueryParse.v): every part consumes input, so `access_fuel` always suffices and
   the answer does not depend on the fuel once it suffices; layout in front of a part is irrelevant. *)
From Coq Require Import Lia.
From GV.Model Require Import Ast.
From GV.Model Require Import ValueParse QueryParse.
From GV.Proofs Require Import LexProps ValueParseProps.
Local Open Scope string_scope.
Local Open Scope nat_scope.

(* ------------------------------------------------------------------ consumption *)
Definition consumes {A} (x : pres A) (s : string) : Prop := forall a r, x = POk a r -> len r < len s.
Definition consumes_le {A} (x : pres A) (s : string) : Prop := forall a r, x = POk a r -> len r <= len s.

Lemma consumes_palt {A} (x y : pres A) s : consumes x s -> consumes y s -> consumes (palt x y) s.
Proof. intros Hx Hy a r H. apply palt_ok in H as [H|[_ H]]; eauto. Qed.

Lemma consumes_pmap {A B} (f : A -> B) (x : pres A) s : consumes x s -> consumes (pmap f x) s.
Proof. intros Hx b r H. apply pmap_ok in H as (a & H & _). eauto. Qed.

Lemma var_name_len s : consumes (var_name s) s.
Proof.
  intros v r. unfold var_name. destruct (span_while is_alpha s) as [a r1] eqn:E1. destruct a as [|c a]; [discriminate|].
  destruct (span_while name_char r1) as [b r2] eqn:E2. apply span_while_len in E1. apply span_while_len in E2. cbn in E1.
  destruct r2 as [|c2 r2]; [|destruct (is_ascii c2); [|discriminate]]; intros H; inversion H; subst; cbn in *; lia.
Qed.

Lemma var_access_len s : consumes (var_access s) s.
Proof.
  intros v r. unfold var_access. destruct (expect "%" s) as [s1|] eqn:E; [|discriminate]. intros H.
  apply pmap_ok in H as (a & H & _). apply var_name_len in H. apply expect_len in E. lia.
Qed.

Lemma property_name_len s : consumes (property_name s) s.
Proof. apply consumes_palt; [apply var_name_len|]. intros a r H. eapply parse_string_r_len; eauto. Qed.

Lemma int_index_len s : consumes (int_index s) s.
Proof. apply consumes_pmap. intros a r H. eapply parse_int_len; eauto. Qed.

Lemma star_len s p : consumes (star s p) s.
Proof. intros a r. unfold star. destruct (expect "*" s) eqn:E; [|discriminate]. intros H. inversion H; subst. apply expect_len in E. lia. Qed.

Lemma dotted_property_len s : consumes (dotted_property s) s.
Proof.
  intros a r. unfold dotted_property. destruct (ws_char "." s) as [s1|] eqn:E; [|discriminate]. apply ws_char_len in E. intros H.
  assert (len r < len s1); [|lia]. revert H. apply (consumes_palt _ _ s1); [apply int_index_len|].
  apply consumes_palt; [apply consumes_pmap, property_name_len|]. apply consumes_palt; [apply consumes_pmap, var_access_len|apply star_len].
Qed.

Lemma closed_len {A} (x y : pres A) s : consumes x s -> consumes y s -> consumes (closed x y) s.
Proof.
  intros Hx Hy a r. unfold closed. destruct x as [p r1| | | |] eqn:E; try discriminate.
  destruct (ws_char "]" r1) as [r'|] eqn:E2.
  - intros H. inversion H; subst. apply ws_char_len in E2. specialize (Hx _ _ eq_refl). lia.
  - apply Hy.
Qed.

Lemma consumes_none {A} s : consumes (@PErr A) s.
Proof. intros a r H. discriminate. Qed.
Lemma consumes_fail {A} s : consumes (@PFail A) s.
Proof. intros a r H. discriminate. Qed.
Lemma consumes_unk {A} s : consumes (@PUnk A) s.
Proof. intros a r H. discriminate. Qed.

Lemma consumes_weaken {A} (x : pres A) s s' : len s <= len s' -> consumes x s -> consumes x s'.
Proof. intros L H a r E. specialize (H a r E). lia. Qed.

Lemma all_indices_body_len s : consumes (all_indices_body s) s.
Proof.
  apply closed_len; [|apply consumes_none]. apply consumes_palt.
  - apply (consumes_weaken _ (skip_ws_comments s)); [apply skip_len|apply star_len].
  - apply consumes_pmap, var_name_len.
Qed.

Lemma array_index_body_len s : consumes (array_index_body s) s.
Proof. apply closed_len; [apply int_index_len|apply consumes_fail]. Qed.

Lemma map_key_lookup_body_len s : consumes (map_key_lookup_body s) s.
Proof.
  apply closed_len; [|apply consumes_none]. apply consumes_palt.
  - apply consumes_pmap. intros a r H. eapply parse_string_r_len; eauto.
  - intros a r. destruct (var_name (skip_ws_comments s)) as [n r1| | | |] eqn:E; try discriminate.
    intros H. inversion H; subst. apply var_name_len in E. pose proof (skip_len s false). pose proof (skip_len r1 false).
    unfold skip_ws_comments in *. lia.
Qed.

Lemma predicate_or_index_len s : consumes (predicate_or_index s) s.
Proof.
  intros a r. unfold predicate_or_index. destruct (ws_char "[" s) as [s1|] eqn:E; [|discriminate]. apply ws_char_len in E. intros H.
  assert (len r < len s1); [|lia]. revert H. apply (consumes_palt _ _ s1); [apply all_indices_body_len|].
  apply consumes_palt; [apply array_index_body_len|]. apply consumes_palt; [apply map_key_lookup_body_len|apply consumes_unk].
Qed.

Theorem part_consumes s : consumes (part s) s.
Proof. apply consumes_palt; [apply dotted_property_len|apply predicate_or_index_len]. Qed.

(* ------------------------------------------------------------------ fuel *)
Lemma parts_loop_enough : forall n acc s, len s < n -> parts_loop n acc s <> POof.
Proof.
  induction n as [|n IH]; intros acc s L; [lia|]. cbn [parts_loop].
  destruct (part s) as [p r| | | |] eqn:E; try discriminate.
  - apply IH. apply part_consumes in E. lia.
  - (* POof from a part: impossible *) exfalso. revert E. unfold part, dotted_property, predicate_or_index.
    assert (N1 : forall t, var_name t <> POof).
    { intros t. unfold var_name. destruct (span_while is_alpha t) as [a r1]. destruct a; [discriminate|].
      destruct (span_while name_char r1) as [b r2]. destruct r2 as [|c2 r2]; [discriminate|]. destruct (is_ascii c2); discriminate. }
    assert (N2 : forall t, int_index t <> POof).
    { intros t H. apply pmap_oof in H. now apply parse_int_nooof in H. }
    assert (N3 : forall t, property_name t <> POof).
    { intros t. apply palt_not_oof; [apply N1|apply parse_string_r_nooof]. }
    assert (N4 : forall t, var_access t <> POof).
    { intros t. unfold var_access. destruct (expect "%" t); [|discriminate]. intros H. apply pmap_oof in H. now apply N1 in H. }
    assert (N5 : forall t p, star t p <> POof).
    { intros t p. unfold star. destruct (expect "*" t); discriminate. }
    assert (N6 : forall A (x y : pres A), x <> POof -> y <> POof -> closed x y <> POof).
    { intros A x y Hx Hy. unfold closed. destruct x; try congruence. destruct (ws_char "]" rest); [discriminate|exact Hy]. }
    apply palt_not_oof.
    + destruct (ws_char "." s); [|discriminate]. repeat apply palt_not_oof; auto.
      * intros H. apply pmap_oof in H. now apply N3 in H.
      * intros H. apply pmap_oof in H. now apply N4 in H.
    + destruct (ws_char "[" s) as [s1|]; [|discriminate]. repeat apply palt_not_oof; try discriminate.
      * apply N6; [|discriminate]. apply palt_not_oof; [apply N5|]. intros H. apply pmap_oof in H. now apply N1 in H.
      * apply N6; [apply N2|discriminate].
      * apply N6; [|discriminate]. apply palt_not_oof.
        -- intros H. apply pmap_oof in H. now apply parse_string_r_nooof in H.
        -- destruct (var_name (skip_ws_comments s1)) eqn:E1; try discriminate. exfalso. now apply (N1 _ E1).
Qed.

Lemma part_not_oof s : part s <> POof.
Proof.
  intros E. pose proof (parts_loop_enough (S (len s)) [] s (Nat.lt_succ_diag_r _)) as H. cbn [parts_loop] in H. rewrite E in H. now apply H.
Qed.

Lemma parts_loop_mono : forall n m acc s x, n <= m -> parts_loop n acc s = x -> x <> POof -> parts_loop m acc s = x.
Proof.
  induction n as [|n IH]; intros m acc s x L H Hx; [cbn in H; congruence|].
  destruct m as [|m]; [lia|]. cbn [parts_loop] in *. destruct (part s) as [p r| | | |]; try exact H.
  apply (IH m); [lia|exact H|exact Hx].
Qed.

Lemma dotted_access_enough n s : len s < n -> dotted_access n s <> POof.
Proof.
  intros L. unfold dotted_access. destruct (part s) as [p r| | | |] eqn:E; try discriminate.
  - apply parts_loop_enough. apply part_consumes in E. lia.
  - now apply part_not_oof in E.
Qed.

Lemma dotted_access_mono n m s x : n <= m -> dotted_access n s = x -> x <> POof -> dotted_access m s = x.
Proof.
  unfold dotted_access. intros L H Hx. destruct (part s) as [p r| | | |]; try exact H. eapply parts_loop_mono; eauto.
Qed.

Lemma some_keyword_len s r : some_keyword s = Some r -> len r <= len s.
Proof.
  unfold some_keyword. destruct (alt_tags kw_some_keyword (skip_ws_comments s)) as [r1|] eqn:E; [|discriminate].
  destruct (starts_layout r1); [|discriminate]. intros H. inversion H; subst.
  apply alt_tags_len in E; [|repeat constructor; discriminate]. pose proof (skip_len s false). pose proof (skip_len r1 false). unfold skip_ws_comments in *. lia.
Qed.

Lemma this_keyword_len s r : this_keyword s = Some r -> len r <= len s.
Proof.
  unfold this_keyword. intros E. apply alt_tags_len in E; [|repeat constructor; discriminate]. pose proof (skip_len s false). unfold skip_ws_comments in *. lia.
Qed.

Theorem access_answers : forall s, access_top s <> POof.
Proof.
  intros s. unfold access_top, access, access_fuel.
  destruct (match some_keyword s with Some r => (false, r) | None => (true, s) end) as [all s1] eqn:E0.
  assert (L1 : len s1 <= len s).
  { destruct (some_keyword s) as [r|] eqn:E; inversion E0; subst; [now apply some_keyword_len in E|lia]. }
  assert (H : forall f r, len r <= len s1 ->
     match dotted_access (S (len s)) r with
     | POk parts r' => POk (AccessQuery (f :: after_variable f parts) all) r'
     | PErr => POk (AccessQuery [f] all) r
     | other => pmap (fun _ => AccessQuery [] all) other
     end <> POof).
  { intros f r L. pose proof (dotted_access_enough (S (len s)) r ltac:(lia)) as D. destruct (dotted_access (S (len s)) r); try discriminate. congruence. }
  destruct (this_keyword s1) as [r|] eqn:E1.
  - apply H. now apply this_keyword_len in E1.
  - destruct (pmap QKey (palt (var_access s1) (property_name s1))) as [f r| | | |] eqn:E2; try discriminate.
    + apply H. apply pmap_ok in E2 as (k & E2 & _). assert (len r < len s1); [|lia]. revert E2. apply consumes_palt; [apply var_access_len|apply property_name_len].
    + apply pmap_oof in E2. exfalso. revert E2. apply palt_not_oof.
      * unfold var_access. destruct (expect "%" s1); [|discriminate]. intros H2. apply pmap_oof in H2. revert H2.
        unfold var_name. destruct (span_while is_alpha s0) as [a r1]. destruct a; [discriminate|].
        destruct (span_while name_char r1) as [b r2]. destruct r2 as [|c2 r2]; [discriminate|]. destruct (is_ascii c2); discriminate.
      * apply palt_not_oof; [|apply parse_string_r_nooof].
        unfold var_name. destruct (span_while is_alpha s1) as [a r1]. destruct a; [discriminate|].
        destruct (span_while name_char r1) as [b r2]. destruct r2 as [|c2 r2]; [discriminate|]. destruct (is_ascii c2); discriminate.
Qed.

Theorem access_fuel_irrelevant : forall s n, access_fuel s <= n -> access n s = access_top s.
Proof.
  intros s n L. unfold access_top, access, access_fuel in *.
  destruct (match some_keyword s with Some r => (false, r) | None => (true, s) end) as [all s1] eqn:E0.
  assert (L1 : len s1 <= len s).
  { destruct (some_keyword s) as [r|] eqn:E; inversion E0; subst; [now apply some_keyword_len in E|lia]. }
  assert (H : forall r, len r <= len s1 -> dotted_access n r = dotted_access (S (len s)) r).
  { intros r Lr. eapply dotted_access_mono; [exact L|reflexivity|]. apply dotted_access_enough. lia. }
  destruct (this_keyword s1) as [r|] eqn:E1.
  - rewrite H; [reflexivity|]. now apply this_keyword_len in E1.
  - destruct (pmap QKey (palt (var_access s1) (property_name s1))) as [f r| | | |] eqn:E2; try reflexivity.
    rewrite H; [reflexivity|]. apply pmap_ok in E2 as (k & E2 & _). assert (len r < len s1); [|lia]. revert E2.
    apply consumes_palt; [apply var_access_len|apply property_name_len].
Qed.

Theorem access_consumes : forall n s q r, access n s = POk q r -> len r < len s.
Proof.
  intros n s q r. unfold access.
  destruct (match some_keyword s with Some r => (false, r) | None => (true, s) end) as [all s1] eqn:E0.
  assert (L1 : len s1 <= len s).
  { destruct (some_keyword s) as [r0|] eqn:E; inversion E0; subst; [now apply some_keyword_len in E|lia]. }
  assert (D : forall f r0, len r0 < len s ->
     match dotted_access n r0 with
     | POk parts r' => POk (AccessQuery (f :: after_variable f parts) all) r'
     | PErr => POk (AccessQuery [f] all) r0
     | other => pmap (fun _ => AccessQuery [] all) other
     end = POk q r -> len r < len s).
  { intros f r0 L0. unfold dotted_access. destruct (part r0) as [p r1| | | |] eqn:Ep; cbn [pmap]; try discriminate.
    - apply part_consumes in Ep. assert (G : forall k acc t x r', parts_loop k acc t = POk x r' -> len r' <= len t).
      { induction k as [|k IH]; intros acc t x r' Hk; [discriminate|]. cbn [parts_loop] in Hk.
        destruct (part t) as [p2 r2| | | |] eqn:E2; try discriminate.
        - apply IH in Hk. apply part_consumes in E2. lia.
        - inversion Hk; subst. lia. }
      destruct (parts_loop n [p] r1) as [x r'| | | |] eqn:El; cbn [pmap]; try discriminate; intros H; inversion H; subst; [apply G in El; lia|lia].
    - intros H. inversion H; subst. exact L0. }
  destruct (this_keyword s1) as [r0|] eqn:E1.
  - (* `this` consumes: the tag is not empty *)
    apply D. unfold this_keyword in E1. apply alt_tags_len in E1; [|repeat constructor; discriminate]. pose proof (skip_len s1 false). unfold skip_ws_comments in *. lia.
  - destruct (pmap QKey (palt (var_access s1) (property_name s1))) as [f r0| | | |] eqn:E2; cbn [pmap]; try discriminate.
    apply D. apply pmap_ok in E2 as (k & E2 & _). assert (len r0 < len s1); [|lia]. revert E2.
    apply consumes_palt; [apply var_access_len|apply property_name_len].
Qed.
