#!/bin/sh
# usage: mk_worktree.sh <name>  — scratch worktree of /repo HEAD under /tmp/wt/<name> with a warm target dir
N=$1
git -C /repo worktree add --detach /tmp/wt/$N HEAD >/dev/null 2>&1 || exit 1
cp -r /repo/target /tmp/wt/$N/target 2>/dev/null
echo /tmp/wt/$N
