(* C06 — exit codes of validate and test faithfully encode the outcome. Pinned statements only.
   The constants come from Generated/Codes.v, regenerated from guard/src/commands/mod.rs and main.rs on every run. *)
From GV.Model Require Import Cli.
From GV.Proofs Require Import CliProps.
Open Scope Z_scope.

(* the status codes the source defines are the documented ones; an Err from execute leaves with 255 *)
Theorem C06_codes :
  success_status_code = 0 /\ failure_status_code = 19 /\ error_status_code = 5 /\
  test_error_status_code = 1 /\ test_failure_status_code = 7 /\ process_status main_err_exit_arg = 255.
Proof. exact (conj eq_refl (conj eq_refl (conj eq_refl (conj eq_refl (conj eq_refl eq_refl))))). Qed.
Print Assumptions C06_codes.

(* all four sentences about validate, for the plain loop, the JSON/YAML/SARIF reporter and the JUnit reporter,
   any number of rules files and data files *)
Theorem C06_validate_monitor : forall m upfront n rs,
  well_shaped n rs = true ->
  c06_validate_obs upfront rs (exit_status (validate_exit m upfront n rs)) = true.
Proof. exact validate_exit_obs. Qed.
Print Assumptions C06_validate_monitor.

Theorem C06_validate_zero_iff : forall m n rs,
  well_shaped n rs = true ->
  (exit_status (validate_exit m true n rs) = 0 <->
   all_parsed rs = true /\ some_fail rs = false /\ some_err rs = false).
Proof. exact validate_zero_iff. Qed.
Print Assumptions C06_validate_zero_iff.

Theorem C06_validate_fail_is_19 : forall m n rs,
  well_shaped n rs = true -> all_parsed rs = true -> some_err rs = false -> some_fail rs = true ->
  exit_status (validate_exit m true n rs) = 19.
Proof. exact validate_fail_is_19. Qed.
Print Assumptions C06_validate_fail_is_19.

Theorem C06_validate_parse_error_is_5 : forall m n rs,
  well_shaped n rs = true -> all_parsed rs = false -> some_err rs = false -> some_fail rs = false ->
  exit_status (validate_exit m true n rs) = 5.
Proof. exact validate_parse_error_is_5. Qed.
Print Assumptions C06_validate_parse_error_is_5.

Theorem C06_validate_error_exit : forall m upfront n rs,
  well_shaped n rs = true -> upfront = false \/ some_err rs = true ->
  exit_status (validate_exit m upfront n rs) <> 0 /\ exit_status (validate_exit m upfront n rs) <> 19.
Proof. exact validate_error_exit. Qed.
Print Assumptions C06_validate_error_exit.

(* test, one rules file: 0 iff everything parses and every stated expectation matches; 7 if all parse and
   some expectation mismatches; non-zero otherwise -- plain and structured reporters *)
Theorem C06_test_single : forall t,
  c06_test_obs [t] (exit_status (plain_single t)) = true /\
  (test_all_parse t = true -> c06_test_obs [t] (exit_status (structured_single t)) = true) /\
  (test_all_parse t = false -> exit_status (structured_single t) <> 0).
Proof. exact test_single_obs. Qed.
Print Assumptions C06_test_single.

(* the directory fold never reaches its unreachable!() and is 0 only when both sides are 0 *)
Theorem C06_get_exit_code : forall e t,
  (e = 0 \/ e = 1 \/ e = 7) -> (t = 0 \/ t = 1 \/ t = 7) ->
  exists c, get_exit_code e t = Some c /\ (c = 0 \/ c = 1 \/ c = 7) /\ (c = 0 <-> e = 0 /\ t = 0) /\
            (c = 1 <-> e = 1 \/ t = 1).
Proof. exact get_exit_code_total. Qed.
Print Assumptions C06_get_exit_code.

