(* Status.v — Status, Status::and and the CNF / aggregation combinators
   (rules/mod.rs 88-133; eval.rs 1174-1199, 1402-1416, 1802-1808, 1950-1956, 1971-2065). *)
From GV.Model Require Export Base.

Inductive status := PASS | FAIL | SKIP.

Definition status_eqb (a b : status) : bool :=
  match a, b with PASS, PASS | FAIL, FAIL | SKIP, SKIP => true | _, _ => false end.

(* Status::and *)
Definition status_and (a b : status) : status :=
  match a with
  | FAIL => FAIL
  | PASS => match b with FAIL => FAIL | _ => PASS end
  | SKIP => b
  end.

Definition count_status (s : status) (l : list status) : nat :=
  List.length (filter (status_eqb s) l).

(* fails > 0 -> FAIL; passes > 0 -> PASS; else SKIP  (file, type block, block-all, CNF) *)
Definition fold_fail_pass_skip (l : list status) : status :=
  if existsb (status_eqb FAIL) l then FAIL
  else if existsb (status_eqb PASS) l then PASS
  else SKIP.

(* `some` block: passes > 0 -> PASS; fails > 0 -> FAIL; else SKIP *)
Definition fold_pass_fail_skip (l : list status) : status :=
  if existsb (status_eqb PASS) l then PASS
  else if existsb (status_eqb FAIL) l then FAIL
  else SKIP.

(* one line of `or`-joined alternatives, given the statuses of the alternatives
   that were evaluated: evaluation stops at the first PASS *)
Definition disjunction_status (l : list status) : status :=
  if existsb (status_eqb PASS) l then PASS
  else if existsb (status_eqb FAIL) l then FAIL
  else SKIP.

Definition conj_status (lines : list (list status)) : status :=
  fold_fail_pass_skip (map disjunction_status lines).

(* clause over values: all / some *)
Definition clause_all (l : list status) : status :=
  if existsb (status_eqb FAIL) l then FAIL else PASS.
Definition clause_some (l : list status) : status :=
  if existsb (status_eqb PASS) l then PASS else FAIL.

Definition invert_status (s : status) : status :=
  match s with PASS => FAIL | FAIL => PASS | SKIP => SKIP end.
