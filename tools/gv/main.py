import sys, importlib, traceback
from .common import ToolingError
from .ctx import Ctx

def main(argv):
    if len(argv) < 3:
        print('usage: check <Cnn> <quick|thorough> [--replay FILE]')
        return 2
    prop, tier = argv[1], argv[2]
    if tier not in ('quick', 'thorough'):
        tier = 'quick'
    try:
        mod = importlib.import_module('gv.props.' + prop.lower())
    except ImportError as e:
        print('no check for %s: %s' % (prop, e))
        return 2
    ctx = Ctx(prop, tier)
    try:
        if '--replay' in argv:
            return mod.replay(ctx, argv[argv.index('--replay') + 1])
        mod.run(ctx)
    except ToolingError as e:
        print('TOOLING ERROR: %s' % e)
        return 2
    except Exception:
        traceback.print_exc()
        print('TOOLING ERROR: internal error in the check machinery')
        return 2
    return ctx.finish()

if __name__ == '__main__':
    sys.exit(main(sys.argv))
