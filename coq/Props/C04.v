(* C04 — verdicts do not depend on the order or repetition of clauses and rules. Pinned statements only.
   `transparent f g xs`: every clause x of xs has one status g x in every state and gives the state back (records
   may be emitted). For such clauses the theorems hold for bodies of any shape; that memoised variables and cached
   rule statuses keep clauses transparent is the part carried by the permutation differential on the
   implementation (see DESIGN.md, C04). *)
From Coq Require Import Permutation.
From GV.Model Require Import SEval.
From GV.Proofs Require Import StatusProps EvalLaws OrderProps.

Theorem C04_perm_lines : forall T (f : T -> M status) g cnf cnf' s,
  Permutation cnf cnf' -> transparent f g (List.concat cnf) ->
  status_of (cnf_body f cnf s) = status_of (cnf_body f cnf' s).
Proof. exact @perm_lines. Qed.
Print Assumptions C04_perm_lines.

Theorem C04_perm_alternatives : forall T (f : T -> M status) g line line' rest s,
  Permutation line line' -> transparent f g (List.concat (line :: rest)) ->
  status_of (cnf_body f (line :: rest) s) = status_of (cnf_body f (line' :: rest) s).
Proof. exact @perm_alternatives. Qed.
Print Assumptions C04_perm_alternatives.

Theorem C04_dup_line : forall T (f : T -> M status) g line rest s,
  In line rest -> transparent f g (List.concat rest) ->
  status_of (cnf_body f (line :: rest) s) = status_of (cnf_body f rest s).
Proof. exact @dup_line. Qed.
Print Assumptions C04_dup_line.

(* the combinators themselves, for status lists of any length *)
Theorem C04_conj_status_perm_lines : forall lines lines',
  Permutation lines lines' -> conj_status lines = conj_status lines'.
Proof. exact conj_status_perm_lines. Qed.
Print Assumptions C04_conj_status_perm_lines.

Theorem C04_conj_status_perm_alternatives : forall l l' rest,
  Permutation l l' -> conj_status (l :: rest) = conj_status (l' :: rest).
Proof. exact conj_status_perm_alternatives. Qed.
Print Assumptions C04_conj_status_perm_alternatives.

Theorem C04_conj_status_dup_line : forall l rest, In l rest -> conj_status (l :: rest) = conj_status rest.
Proof. exact conj_status_dup_line. Qed.
Print Assumptions C04_conj_status_dup_line.

(* a rule has the same definitions whether it is written before or after its user *)
Theorem C04_rules_named_swap : forall lets prs l1 a b l2 name,
  rule_name a <> rule_name b ->
  rules_named (mkRulesFile lets (l1 ++ a :: b :: l2) prs) name
  = rules_named (mkRulesFile lets (l1 ++ b :: a :: l2) prs) name.
Proof. exact rules_named_swap. Qed.
Print Assumptions C04_rules_named_swap.

Theorem C04_file_status_perm : forall sts sts',
  Permutation sts sts' -> fold_fail_pass_skip sts = fold_fail_pass_skip sts'.
Proof. exact file_status_perm. Qed.
Print Assumptions C04_file_status_perm.

(* ... and whether or not it was already evaluated: a cached status is what every later reference gets *)
Theorem C04_cached_status_is_returned : forall prog r name st s,
  (exists f, frames s = [f]) ->
  assoc name (statuses s) = Some st ->
  rule_status_body prog r name s = Done (st, [], s).
Proof. exact cached_status_is_returned. Qed.
Print Assumptions C04_cached_status_is_returned.
