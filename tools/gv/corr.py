"""Correspondence between the SEval model and the implementation on
(rules text, data text) pairs: the model is fed the AST the implementation
parsed and the value it loaded; statuses, error kinds and the whole record
tree are compared inside Coq (Check.check_case)."""
import json, os
from . import coqterm as ct
from . import impl, model
from .common import *

FUEL = 400

def oracle_ops(ast, doc):
    """harness ops computing the regex and case-converter tables a case may need"""
    regs = ct.collect_regexes(ast)
    strs = ct.collect_strings(doc) | ct.collect_strings(ast)
    keys = ct.collect_keys(ast)
    ops = []
    for r in sorted(regs):
        for s in sorted(strs):
            ops.append({'op': 'regex', 're': r, 'text': s})
    for k in sorted(keys):
        ops.append({'op': 'cruet', 'key': k})
    return ops

def tables(ops, results):
    rt, ctab = [], []
    for op, r in zip(ops, results):
        if op['op'] == 'regex':
            res = r.get('res')
            if res is None:
                continue
            if res[0] == 'Ok':
                v = 'ReMatch %s' % ct.cbool(res[1])
            else:
                v = 'ReMatchErr' if 'backtrack' in str(res).lower() or 'limit' in str(res).lower() else 'ReCompileErr'
            rt.append('(%s, %s, %s)' % (ct.cstr(op['re']), ct.cstr(op['text']), v))
        elif op['op'] == 'cruet':
            res = r.get('res')
            if res is None:
                continue
            ctab.append('(%s, %s)' % (ct.cstr(op['key']), ct.clist([ct.cstr(x) for x in res])))
    return ct.clist(rt), ct.clist(ctab)

def run(pairs, wd, tag='corr', loader='cli', fuel=FUEL, public=False, expr=None, header=None):
    """pairs: list of dict(rules=..., data=...). Returns list of dict per pair:
       kind: 'parse_rejected'|'empty'|'doc_rejected'|'compared'|'untranslatable'
       verdict (for compared), impl (raw impl result summary)"""
    ops = [{'op': 'eval', 'rules': p['rules'], 'data': p['data'], 'loader': p.get('loader', loader),
            'public': public} for p in pairs]
    res = impl.run_ops_parallel(ops, wd, tag + '.eval')
    out = [None] * len(pairs)
    cases = []
    # second pass: per-case oracle ops, batched
    all_oracle_ops, spans = [], {}
    prelim = {}
    for i, r in enumerate(res):
        if 'res' in r and isinstance(r['res'], dict):
            d = r['res']
            ast = d.get('ast')
            if ast is None or ast[0] != 'Ok':
                out[i] = {'kind': 'empty' if ast and ast[0] == 'Empty' else 'parse_rejected', 'raw': ast}
                continue
            doc = d.get('doc')
            if doc is None or doc[0] != 'Ok':
                out[i] = {'kind': 'doc_rejected', 'raw': doc}
                continue
            prelim[i] = (ast[1], doc[1], d.get('result'), d)
        elif 'panic' in r or 'abort' in r or 'timeout' in r:
            # need AST and doc separately (the eval itself died)
            prelim[i] = ('need', r)
        else:
            out[i] = {'kind': 'harness_error', 'raw': r}
    # for died cases fetch ast and doc with separate ops
    need = [i for i, v in prelim.items() if v[0] == 'need']
    if need:
        ops2 = []
        for i in need:
            ops2.append({'op': 'ast', 'rules': pairs[i]['rules']})
            ops2.append({'op': 'doc', 'data': pairs[i]['data'], 'loader': pairs[i].get('loader', loader)})
        r2 = impl.run_ops_parallel(ops2, wd, tag + '.astdoc')
        for k, i in enumerate(need):
            a, d = r2[2 * k].get('res'), r2[2 * k + 1].get('res')
            died = prelim[i][1]
            if not a or a[0] != 'Ok' or not d or d[0] != 'Ok':
                out[i] = {'kind': 'died_unparsed', 'raw': died}
                del prelim[i]
                continue
            prelim[i] = (a[1], d[1], {'panic': died.get('panic')} if 'panic' in died else {'abort': True}, died)
    for i, (ast, doc, result, raw) in prelim.items():
        o = oracle_ops(ast, doc)
        spans[i] = (len(all_oracle_ops), len(o))
        all_oracle_ops.extend(o)
    ores = impl.run_ops_parallel(all_oracle_ops, wd, tag + '.oracle') if all_oracle_ops else []
    for i, (ast, doc, result, raw) in prelim.items():
        a, n = spans[i]
        rt, ctab = tables(all_oracle_ops[a:a + n], ores[a:a + n])
        try:
            defs = ('Definition p%d : rules_file := %s.\nDefinition d%d : pv := %s.\n'
                    'Definition i%d : impl_result := %s.\nDefinition rt%d : re_table := %s.\n'
                    'Definition ct%d : conv_table := %s.' % (
                        i, ct.rules_file(ast), i, ct.pv(doc), i, ct.impl_result(result), i, rt, i, ctab))
        except (ct.TranslateError, KeyError, AssertionError, TypeError) as e:
            out[i] = {'kind': 'untranslatable', 'raw': str(e)}
            continue
        e = 'check_case %d rt%d ct%d p%d d%d i%d' % (fuel, i, i, i, i, i)
        if callable(expr):
            e = expr(i, fuel, e)
        elif expr:
            e = expr.format(i=i, fuel=fuel, check=e)
        cases.append((i, defs, e))
        summary = ('panic: %s' % result.get('panic')) if isinstance(result, dict) and 'panic' in result else \
                  ('abort' if isinstance(result, dict) else
                   (result[0] + ' ' + (result[1] if isinstance(result[1], str) else '')))
        out[i] = {'kind': 'compared', 'impl': summary, 'result': result, 'ast': ast, 'doc': doc,
                  'public': {k: raw.get(k) for k in ('rc_verbose', 'rc_plain')} if isinstance(raw, dict) else None}
    verdicts, errors = model.eval_cases(cases, wd, tag, **({'header': header} if header else {}))
    for i, _, _ in cases:
        out[i]['verdict'] = verdicts.get(i, 'NoModelOutput')
    return out, errors
