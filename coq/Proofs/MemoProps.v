(* MemoProps.v — memoisation is invisible.
   SEval (variable memo per scope, rule-status cache) computes the same values as PEval (no cache at all),
   for every capture-free program, from every state whose caches are valid (in particular the initial one).
   Consequences: every reference to a variable sees the value of its definition; a cached rule status is the
   status of the rule; and the order theorems of C04 hold for bodies with variables and rule references.
   Proof: a simulation by induction on SEval's fuel; PEval's fuel is "eventually enough" (Ev). *)
From GV.Model Require Import SEval PEval.
From GV.Proofs Require Import StatusProps EvalLaws FrameProps.
From Coq Require Import Lia PeanoNat Permutation.
Local Open Scope nat_scope.

(* ------------------------------------------------------------------ *)
(* eventually *)

Definition Ev (P : nat -> Prop) : Prop := exists k0, forall k, k0 <= k -> P k.

Lemma Ev_and P Q : Ev P -> Ev Q -> Ev (fun k => P k /\ Q k).
Proof.
  intros [a Ha] [b Hb]. exists (Nat.max a b). intros k Hk. split; [apply Ha|apply Hb]; lia.
Qed.
Lemma Ev_impl (P Q : nat -> Prop) : (forall k, P k -> Q k) -> Ev P -> Ev Q.
Proof. intros H [a Ha]. exists a. intros k Hk. apply H, Ha, Hk. Qed.
Lemma Ev_const (P : Prop) : P -> Ev (fun _ => P).
Proof. intros H. exists 0. intros; exact H. Qed.
Lemma Ev_shift P : Ev (fun k => P (S k)) -> Ev P.
Proof.
  intros [a Ha]. exists (S a). intros k Hk. destruct k as [|k]; [lia|]. apply Ha. lia.
Qed.

(* ------------------------------------------------------------------ *)
(* states, validity of the caches, the simulation relation *)

Definition erase (s : state) : state := mkState (map fshape (frames s)) [].

Lemma fshape_idem f : fshape (fshape f) = fshape f.
Proof. destruct f; reflexivity. Qed.
Lemma erase_idem s : erase (erase s) = erase s.
Proof. unfold erase. cbn. rewrite map_map. f_equal. apply map_ext. apply fshape_idem. Qed.

Section Sim.
Variable re : re_oracle.
Variable conv : conv_oracle.
Variable prog : rules_file.
Variable r' : nat -> ev.        (* the memo-free evaluator, by fuel *)

Definition computes {A} (m' : nat -> M A) (E : state) (a : A) : Prop :=
  Ev (fun k => exists recs, m' k E = Done (a, recs, E)).

(* the bottom frame is a root scope *)
Definition wf_shape (sh : list frame) : Prop := exists upper root lets, sh = upper ++ [FRoot root lets []].

Definition frame_valid (f : frame) (E : state) : Prop :=
  match f with
  | FRoot root lets memo =>
      nc_lets lets = true /\
      forall name vals, assoc name memo = Some vals -> computes (fun k => resolve_scope' (r' k) true root lets name) E vals
  | FBlock root lets memo =>
      nc_lets lets = true /\
      forall name vals, assoc name memo = Some vals -> computes (fun k => resolve_scope' (r' k) false root lets name) E vals
  | _ => True
  end.

Fixpoint valid_frames (fs : list frame) : Prop :=
  match fs with
  | [] => True
  | f :: rest => frame_valid f (mkState (map fshape (f :: rest)) []) /\ valid_frames rest
  end.

Definition root_shape (sh : list frame) : state := mkState (skipn (List.length sh - 1) sh) [].

Definition valid_statuses (s : state) : Prop :=
  forall name st, assoc name (statuses s) = Some st ->
    computes (fun k => rule_status_inner' prog (r' k) name) (root_shape (map fshape (frames s))) st.

Definition Valid (s : state) : Prop :=
  wf_shape (map fshape (frames s)) /\ valid_frames (frames s) /\ valid_statuses s.

Definition sim {A} (m : M A) (m' : nat -> M A) : Prop :=
  forall s a recs s', Valid s -> m s = Done (a, recs, s') ->
    Valid s' /\ erase s' = erase s /\ computes m' (erase s) a.

Lemma erase_shape s s' : erase s' = erase s -> map fshape (frames s') = map fshape (frames s).
Proof. unfold erase. intros H. now inversion H. Qed.

Lemma sim_ret {A} (a : A) : sim (ret a) (fun _ => ret a).
Proof.
  intros s b recs s' Hv H. apply ret_inv in H as (-> & _ & ->). split; [assumption|split; [reflexivity|]].
  exists 0. intros k _. eexists. reflexivity.
Qed.

Lemma sim_never {A} (m : M A) m' : (forall s a recs s', m s <> Done (a, recs, s')) -> sim m m'.
Proof. intros Hn s a recs s' _ H. exfalso. eapply Hn; exact H. Qed.

Lemma sim_failM {A} e m' : sim (@failM A e) m'.
Proof. apply sim_never. discriminate. Qed.
Lemma sim_panicM {A} p m' : sim (@panicM A p) m'.
Proof. apply sim_never. discriminate. Qed.
Lemma sim_unknownM {A} m' : sim (@unknownM A) m'.
Proof. apply sim_never. discriminate. Qed.
Lemma sim_oofM {A} m' : sim (@oofM A) m'.
Proof. apply sim_never. discriminate. Qed.

Lemma sim_lift {A} (o : outcome A) : sim (lift o) (fun _ => lift o).
Proof.
  intros s a recs s' Hv H. destruct o; try discriminate. inversion H; subst. split; [assumption|split; [reflexivity|]].
  exists 0. intros k _. eexists. reflexivity.
Qed.

Lemma sim_bind {A B} (m : M A) m' (f : A -> M B) f' :
  sim m m' -> (forall a, sim (f a) (fun k => f' k a)) -> sim (bind m f) (fun k => bind (m' k) (f' k)).
Proof.
  intros Hm Hf s b recs s' Hv H. apply bind_inv in H as (a & r1 & s1 & r2 & H1 & H2 & _).
  destruct (Hm _ _ _ _ Hv H1) as (Hv1 & E1 & C1).
  destruct (Hf a _ _ _ _ Hv1 H2) as (Hv2 & E2 & C2).
  split; [exact Hv2|split; [congruence|]].
  rewrite E1 in C2. eapply Ev_impl; [|exact (Ev_and _ _ C1 C2)].
  intros k [[ra Ha] [rb Hb]]. unfold bind. rewrite Ha, Hb. eexists. reflexivity.
Qed.

Lemma sim_mapM {A B} (f : A -> M B) f' l :
  (forall x, sim (f x) (fun k => f' k x)) -> sim (mapM f l) (fun k => mapM (f' k) l).
Proof.
  intros Hf. induction l as [|x l IH]; cbn [mapM]; [apply sim_ret|].
  apply (sim_bind (f x) (fun k => f' k x) _ (fun k y => ys <- mapM (f' k) l ;; ret (y :: ys))); [apply Hf|].
  intros y. apply (sim_bind (mapM f l) (fun k => mapM (f' k) l) _ (fun k ys => ret (y :: ys))); [exact IH|].
  intros ys. apply sim_ret.
Qed.

Lemma sim_concatMapM {A B} (f : A -> M (list B)) f' l :
  (forall x, sim (f x) (fun k => f' k x)) -> sim (concatMapM f l) (fun k => concatMapM (f' k) l).
Proof.
  intros Hf. unfold concatMapM.
  apply (sim_bind (mapM f l) (fun k => mapM (f' k) l) _ (fun k r => ret (List.concat r))); [apply sim_mapM; exact Hf|].
  intros x. apply sim_ret.
Qed.

Lemma sim_node {A} (m : M A) m' mk : sim m m' -> sim (node m mk) (fun k => node (m' k) mk).
Proof.
  intros Hm s a recs s' Hv H. apply node_inv in H as (ch & H & _).
  destruct (Hm _ _ _ _ Hv H) as (Hv1 & E1 & C1). split; [assumption|split; [assumption|]].
  eapply Ev_impl; [|exact C1]. intros k [rc Hc]. unfold node. rewrite Hc. eexists. reflexivity.
Qed.

Lemma sim_leaf c : sim (leaf c) (fun _ => leaf c).
Proof. unfold leaf. apply (sim_node (ret tt) (fun _ => ret tt)). apply sim_ret. Qed.


(* ---- relativised mapM / bodies: the clause evaluator need only be simulated on the clauses that occur ---- *)

Lemma sim_mapM_in {A B} (f : A -> M B) f' l :
  (forall x, In x l -> sim (f x) (fun k => f' k x)) -> sim (mapM f l) (fun k => mapM (f' k) l).
Proof.
  induction l as [|x l IH]; intros Hf; cbn [mapM]; [apply sim_ret|].
  apply (sim_bind (f x) (fun k => f' k x) _ (fun k y => ys <- mapM (f' k) l ;; ret (y :: ys))); [apply Hf; left; reflexivity|].
  intros y. apply (sim_bind (mapM f l) (fun k => mapM (f' k) l) _ (fun k ys => ret (y :: ys)));
    [apply IH; intros z Hz; apply Hf; right; exact Hz|].
  intros ys. apply sim_ret.
Qed.

Lemma sim_disj_body_in {T} (f : T -> M status) f' l failed :
  (forall x, In x l -> sim (f x) (fun k => f' k x)) -> sim (disj_body f l failed) (fun k => disj_body (f' k) l failed).
Proof.
  revert failed. induction l as [|x l IH]; intros failed Hf; cbn [disj_body]; [apply sim_ret|].
  assert (Hl : forall z, In z l -> sim (f z) (fun k => f' k z)) by (intros z Hz; apply Hf; right; exact Hz).
  apply (sim_bind (f x) (fun k => f' k x) _
           (fun k st => match st with PASS => ret PASS | SKIP => disj_body (f' k) l failed | FAIL => disj_body (f' k) l true end));
    [apply Hf; left; reflexivity|].
  intros st. destruct st; [apply sim_ret|apply IH; exact Hl|apply IH; exact Hl].
Qed.

Lemma sim_line_body_in {T} (f : T -> M status) f' line :
  (forall x, In x line -> sim (f x) (fun k => f' k x)) -> sim (line_body f line) (fun k => line_body (f' k) line).
Proof.
  intros Hf. unfold line_body. destruct line as [|x [|y l]]; try (apply sim_disj_body_in; exact Hf).
  apply (sim_node (disj_body f (x :: y :: l) false) (fun k => disj_body (f' k) (x :: y :: l) false)).
  apply sim_disj_body_in; exact Hf.
Qed.

Lemma sim_cnf_body_in {T} (f : T -> M status) f' cnf :
  (forall line x, In line cnf -> In x line -> sim (f x) (fun k => f' k x)) ->
  sim (cnf_body f cnf) (fun k => cnf_body (f' k) cnf).
Proof.
  intros Hf. unfold cnf_body.
  apply (sim_bind (mapM (line_body f) cnf) (fun k => mapM (line_body (f' k)) cnf) _ (fun k sts => ret (fold_fail_pass_skip sts))).
  - apply (sim_mapM_in (line_body f) (fun k => line_body (f' k))). intros l Hl. apply sim_line_body_in. intros x Hx. eapply Hf; eassumption.
  - intros sts. apply sim_ret.
Qed.

(* ---- the scope stack ---- *)

Lemma root_shape_cons x sh : sh <> [] -> root_shape (x :: sh) = root_shape sh.
Proof.
  intros Hne. unfold root_shape. destruct sh as [|y sh]; [contradiction|]. cbn [List.length].
  replace (S (S (List.length sh)) - 1) with (S (List.length sh)) by lia.
  replace (S (List.length sh) - 1) with (List.length sh) by lia. reflexivity.
Qed.

Lemma wf_shape_nonempty sh : wf_shape sh -> sh <> [].
Proof. intros (u & r0 & l & ->). destruct u; discriminate. Qed.

Lemma wf_shape_cons x sh : wf_shape sh -> wf_shape (x :: sh).
Proof. intros (u & r0 & l & ->). exists (x :: u), r0, l. reflexivity. Qed.

Lemma wf_shape_tail x sh : wf_shape (x :: sh) -> sh <> [] -> wf_shape sh.
Proof.
  intros (u & r0 & l & E) Hne. destruct u as [|y u]; cbn in E.
  - inversion E; subst. contradiction.
  - inversion E; subst. exists u, r0, l. reflexivity.
Qed.

Definition frame_fresh (f : frame) : Prop :=
  match f with
  | FRoot _ lets memo | FBlock _ lets memo => nc_lets lets = true /\ memo = []
  | _ => True
  end.

Lemma frame_fresh_shape f : frame_fresh f -> fshape f = f.
Proof. destruct f; cbn; try reflexivity; intros [_ ->]; reflexivity. Qed.

Lemma frame_fresh_valid f E : frame_fresh f -> frame_valid f E.
Proof. destruct f; cbn; try exact (fun x => x); intros [H ->]; (split; [exact H|intros n v Hn; discriminate]). Qed.

Lemma sim_with_frame {A} f (m : M A) m' :
  frame_fresh f -> sim m m' -> sim (with_frame f m) (fun k => with_frame f (m' k)).
Proof.
  intros Hfr Hm s a recs s' (Hwf & Hvf & Hvs) H. unfold with_frame in H.
  destruct (m (mkState (f :: frames s) (statuses s))) as [[[a' r1] s1]| | | |] eqn:E; try discriminate.
  inversion H; subst. clear H.
  pose proof (frame_fresh_shape f Hfr) as Hsh.
  pose proof (wf_shape_nonempty _ Hwf) as Hne.
  assert (Hv0 : Valid (mkState (f :: frames s) (statuses s))).
  { split; [|split].
    - cbn. apply wf_shape_cons. exact Hwf.
    - cbn [frames valid_frames]. split; [apply frame_fresh_valid; exact Hfr|exact Hvf].
    - intros name st Hn. cbn [frames statuses map] in *. rewrite root_shape_cons by exact Hne. apply Hvs. exact Hn. }
  destruct (Hm _ _ _ _ Hv0 E) as ((Hwf1 & Hvf1 & Hvs1) & E1 & C1).
  apply erase_shape in E1. cbn [frames map] in E1.
  destruct (frames s1) as [|g rest1] eqn:Ef1; [discriminate|]. cbn [map] in E1. inversion E1 as [[Eg Erest]].
  split; [|split].
  - split; [|split]; cbn [frames statuses tl].
    + rewrite Erest. exact Hwf.
    + exact (proj2 Hvf1).
    + intros name st Hn. specialize (Hvs1 name st Hn). rewrite Ef1 in Hvs1. cbn [map] in Hvs1.
      rewrite root_shape_cons in Hvs1 by (rewrite Erest; exact Hne). exact Hvs1.
  - unfold erase. cbn [frames tl]. rewrite Erest. reflexivity.
  - eapply Ev_impl; [|exact C1]. intros k [rc Hc]. unfold with_frame.
    unfold erase in Hc. cbn [frames statuses map] in Hc. rewrite Hsh in Hc.
    unfold erase. cbn [frames statuses]. rewrite Hc. cbn [frames statuses tl]. eexists. reflexivity.
Qed.

Lemma skipn_last {A} (u : list A) x : skipn (List.length (u ++ [x]) - 1) (u ++ [x]) = [x].
Proof.
  rewrite app_length. cbn. replace (List.length u + 1 - 1) with (List.length u) by lia.
  induction u as [|y u IH]; [reflexivity|exact IH].
Qed.

Lemma valid_frames_skipn k fs : valid_frames fs -> valid_frames (skipn k fs).
Proof.
  revert fs. induction k as [|k IH]; intros fs H; [exact H|]. destruct fs as [|f fs]; [exact H|].
  cbn [skipn]. apply IH. exact (proj2 H).
Qed.

Lemma valid_frames_replace_tail u t t' :
  valid_frames (u ++ t) -> valid_frames t' -> map fshape t' = map fshape t -> valid_frames (u ++ t').
Proof.
  intros H Ht Hs. induction u as [|f u IH]; [exact Ht|]. cbn [app valid_frames] in *.
  destruct H as [Hf Hr]. split; [|apply IH; exact Hr].
  cbn [map]. rewrite map_app, Hs, <- map_app. exact Hf.
Qed.

Lemma sim_at_root {A} (m : M A) m' :
  (forall s0, List.length (frames s0) = 1 -> forall a recs s', Valid s0 -> m s0 = Done (a, recs, s') ->
     Valid s' /\ erase s' = erase s0 /\ computes m' (erase s0) a) ->
  sim (at_root m) (fun k => at_root (m' k)).
Proof.
  intros Hm s a recs s' (Hwf & Hvf & Hvs) H. unfold at_root in H.
  destruct Hwf as (u & r0 & l0 & Esh).
  assert (Hlen : List.length (frames s) = S (List.length u)).
  { rewrite <- (map_length fshape), Esh, app_length. cbn. lia. }
  rewrite Hlen in H.
  assert (Esk : map fshape (skipn (List.length u) (frames s)) = [FRoot r0 l0 []]).
  { rewrite <- skipn_map, Esh. pose proof (skipn_last u (FRoot r0 l0 [])) as K.
    rewrite app_length in K. cbn in K. replace (List.length u + 1 - 1) with (List.length u) in K by lia. exact K. }
  assert (Erootshape : root_shape (map fshape (frames s)) = mkState [FRoot r0 l0 []] []).
  { unfold root_shape. rewrite Esh. rewrite skipn_last. reflexivity. }
  set (sr := mkState (skipn (List.length u) (frames s)) (statuses s)) in *.
  destruct (m sr) as [[[a' r1] s1]| | | |] eqn:E; try discriminate.
  inversion H; subst a' r1 s'. clear H.
  assert (Hv0 : Valid sr).
  { split; [|split]; unfold sr; cbn [frames statuses].
    - rewrite Esk. exists [], r0, l0. reflexivity.
    - apply valid_frames_skipn. exact Hvf.
    - intros name st Hn. cbn [frames statuses] in *. rewrite Esk. unfold root_shape. cbn. specialize (Hvs name st Hn). rewrite Erootshape in Hvs. exact Hvs. }
  assert (Hlen1 : List.length (frames sr) = 1).
  { unfold sr. cbn [frames]. rewrite <- (map_length fshape), Esk. reflexivity. }
  destruct (Hm sr Hlen1 _ _ _ Hv0 E) as ((Hwf1 & Hvf1 & Hvs1) & E1 & C1).
  apply erase_shape in E1. unfold sr in E1. cbn [frames] in E1. rewrite Esk in E1.
  assert (Eshape' : map fshape (firstn (List.length u) (frames s) ++ frames s1) = map fshape (frames s)).
  { rewrite map_app, E1, <- Esk, <- map_app, firstn_skipn. reflexivity. }
  split; [|split].
  - split; [|split]; cbn [frames statuses].
    + rewrite Eshape', Esh. exists u, r0, l0. reflexivity.
    + apply (valid_frames_replace_tail _ (skipn (List.length u) (frames s))).
      * rewrite firstn_skipn. exact Hvf.
      * exact Hvf1.
      * rewrite E1, Esk. reflexivity.
    + intros name st Hn. cbn [frames statuses] in *. rewrite Eshape', Erootshape. specialize (Hvs1 name st Hn). rewrite E1 in Hvs1.
      unfold root_shape in Hvs1. cbn in Hvs1. exact Hvs1.
  - unfold erase. cbn [frames]. rewrite Eshape'. reflexivity.
  - eapply Ev_impl; [|exact C1]. intros k [rc Hc]. unfold at_root.
    unfold erase at 1. cbn [frames statuses]. rewrite map_length, Hlen.
    assert (Esr : mkState (skipn (List.length u) (frames (erase s))) (statuses (erase s)) = erase sr).
    { unfold erase, sr. cbn [frames statuses]. rewrite skipn_map. reflexivity. }
    rewrite Esr, Hc. eexists. f_equal. f_equal. unfold erase, sr. cbn [frames statuses]. f_equal.
    rewrite firstn_map, <- map_app, firstn_skipn. reflexivity.
Qed.

Lemma sim_ctx_root : sim ctx_root (fun _ => ctx_root).
Proof.
  intros s a recs s' Hv H. unfold ctx_root in H. destruct (root_of (frames s)) as [r0|] eqn:E; [|discriminate].
  inversion H; subst. split; [assumption|split; [reflexivity|]].
  exists 0. intros k _. unfold ctx_root, erase. cbn [frames].
  assert (K : forall fs, root_of (map fshape fs) = root_of fs).
  { induction fs as [|f fs IH]; [reflexivity|]. destruct f; cbn; try reflexivity. exact IH. }
  rewrite K, E. eexists. reflexivity.
Qed.


Lemma wf_nonroot_rest f sh : wf_shape (fshape f :: sh) -> (forall r0 l m, f <> FRoot r0 l m) -> sh <> [].
Proof.
  intros (u & r0 & l & E) Hn ->. destruct u as [|x [|y u]]; cbn in E; try discriminate.
  inversion E as [E1]. destruct f; cbn in E1; try discriminate. eapply Hn. reflexivity.
Qed.

Definition sim_at {A} (s : state) (m : M A) (m' : nat -> M A) : Prop :=
  forall a recs s', Valid s -> m s = Done (a, recs, s') ->
    Valid s' /\ erase s' = erase s /\ computes m' (erase s) a.

Lemma with_parent_sim {A} (m : M A) m' s a recs s' f rest :
  sim_at (mkState rest (statuses s)) m m' -> Valid s -> frames s = f :: rest -> map fshape rest <> [] ->
  with_parent m s = Done (a, recs, s') ->
  Valid s' /\ erase s' = erase s /\ computes (fun k => with_parent (m' k)) (erase s) a.
Proof.
  intros Hm (Hwf & Hvf & Hvs) Ef Hne H. unfold with_parent in H. unfold valid_statuses in Hvs. rewrite Ef in H.
  destruct (m (mkState rest (statuses s))) as [[[a' r1] s1]| | | |] eqn:E; try discriminate.
  inversion H; subst a' r1 s'. clear H. rewrite Ef in *. cbn [map] in Hwf.
  assert (Hv0 : Valid (mkState rest (statuses s))).
  { split; [|split]; cbn [frames statuses].
    - eapply wf_shape_tail; eassumption.
    - exact (proj2 Hvf).
    - intros name st Hn. specialize (Hvs name st Hn). cbn [map] in Hvs. rewrite root_shape_cons in Hvs by exact Hne. exact Hvs. }
  destruct (Hm _ _ _ Hv0 E) as ((Hwf1 & Hvf1 & Hvs1) & E1 & C1).
  apply erase_shape in E1. cbn [frames] in E1.
  split; [|split].
  - split; [|split]; cbn [frames statuses].
    + cbn [map]. rewrite E1. exact Hwf.
    + cbn [valid_frames]. split; [|exact Hvf1]. cbn [map]. rewrite E1. exact (proj1 Hvf).
    + intros name st Hn. cbn [frames statuses] in *. specialize (Hvs1 name st Hn). cbn [map]. rewrite E1.
      rewrite root_shape_cons by exact Hne. rewrite E1 in Hvs1. exact Hvs1.
  - unfold erase. cbn [frames map]. rewrite Ef. cbn [map]. rewrite E1. reflexivity.
  - eapply Ev_impl; [|exact C1]. intros k [rc Hc]. unfold with_parent. unfold erase at 1. rewrite Ef. cbn [frames statuses map].
    change (statuses (erase s)) with (@nil (string * status)).
    unfold erase in Hc. cbn [frames statuses] in Hc. rewrite Hc. cbn [frames statuses]. eexists. f_equal. f_equal.
    unfold erase. rewrite Ef. reflexivity.
Qed.

(* ------------------------------------------------------------------ *)
(* the bodies of the interpreter *)

Hypothesis Hprog : nc_prog prog = true.

Definition ev_sim (r : ev) : Prop :=
  (forall qi q cur cv, nc_query q = true -> sim (ev_query r qi q cur cv) (fun k => ev_query (r' k) qi q cur cv)) /\
  (forall g, nc_clause g = true -> sim (ev_clause r g) (fun k => ev_clause (r' k) g)) /\
  (forall x, nc_rule x = true -> sim (ev_rule r x) (fun k => ev_rule (r' k) x)) /\
  (forall n, sim (ev_resolve r n) (fun k => ev_resolve (r' k) n)) /\
  (forall f ps, forallb nc_lv ps = true -> sim (ev_fn r f ps) (fun k => ev_fn (r' k) f ps)).

Variable r : ev.
Hypothesis Hr : ev_sim r.

Let Hq := proj1 Hr.
Let Hc := proj1 (proj2 Hr).
Let Hrule := proj1 (proj2 (proj2 Hr)).
Let Hres := proj1 (proj2 (proj2 (proj2 Hr))).
Let Hfn := proj2 (proj2 (proj2 (proj2 Hr))).

Lemma sim_sim_at {A} (m : M A) m' s : sim m m' -> sim_at s m m'.
Proof. intros H a recs s' Hv E. eapply H; eassumption. Qed.

Lemma ctx_query_fs_sim q : nc_query q = true ->
  forall fs s, frames s = fs -> sim_at s (ctx_query_fs r fs q) (fun k => ctx_query_fs (r' k) (map fshape fs) q).
Proof.
  intros Hnq fs. induction fs as [|f rest IH]; intros s Efs a recs s' Hv H; cbn [ctx_query_fs] in H.
  - discriminate.
  - destruct f as [root l memo|root l memo|root|b c0 m0]; cbn [map fshape ctx_query_fs].
    + exact (Hq 0 q root None Hnq _ _ _ _ Hv H).
    + exact (Hq 0 q root None Hnq _ _ _ _ Hv H).
    + assert (Hne : map fshape rest <> []).
      { destruct Hv as (Hwf & _). rewrite Efs in Hwf. cbn [map] in Hwf. eapply wf_nonroot_rest; [exact Hwf|discriminate]. }
      exact (with_parent_sim _ _ _ _ _ _ _ _ (sim_sim_at _ _ _ (Hq 0 q root None Hnq)) Hv Efs Hne H).
    + assert (Hne : map fshape rest <> []).
      { destruct Hv as (Hwf & _). rewrite Efs in Hwf. cbn [map] in Hwf. eapply wf_nonroot_rest; [exact Hwf|discriminate]. }
      exact (with_parent_sim _ _ _ _ _ _ _ _ (IH (mkState rest (statuses s)) eq_refl) Hv Efs Hne H).
Qed.

Lemma sim_ctx_query q : nc_query q = true -> sim (ctx_query r q) (fun k => ctx_query (r' k) q).
Proof.
  intros Hnq s a recs s' Hv H. unfold ctx_query in H.
  destruct (ctx_query_fs_sim q Hnq (frames s) s eq_refl _ _ _ Hv H) as (V & E & C).
  split; [exact V|split; [exact E|]]. eapply Ev_impl; [|exact C]. intros k Hk. unfold ctx_query, erase at 1. exact Hk.
Qed.


Lemma assoc_assoc_set {A} n k (v : A) l : assoc n (assoc_set k v l) = if String.eqb n k then Some v else assoc n l.
Proof.
  induction l as [|[k' v'] l IH]; cbn.
  - destruct (String.eqb n k); reflexivity.
  - destruct (String.eqb k k') eqn:Ekk; cbn.
    + apply String.eqb_eq in Ekk. subst k'. destruct (String.eqb n k); reflexivity.
    + rewrite IH. destruct (String.eqb n k') eqn:Enk'; [|reflexivity].
      apply String.eqb_eq in Enk'. subst k'. rewrite String.eqb_sym, Ekk. reflexivity.
Qed.

Ltac sm_step :=
  first
  [ assumption
  | apply sim_ret | apply sim_failM | apply sim_panicM | apply sim_unknownM | apply sim_oofM
  | apply sim_lift | apply sim_leaf | apply sim_ctx_root
  | apply sim_bind; [|intros ?]
  | apply sim_mapM; intros ?
  | apply sim_concatMapM; intros ?
  | apply sim_node
  | apply sim_with_frame; [first [exact I | split; [assumption|reflexivity]]|]
  | match goal with |- sim (match ?x with _ => _ end) _ => destruct x; cbv beta iota end
  | match goal with |- sim (if ?x then _ else _) _ => destruct x; cbv beta iota end
  | match goal with |- sim (let (_, _) := ?x in _) _ => destruct x; cbv beta iota end ].

Ltac ncsplit := repeat match goal with H : _ && _ = true |- _ => apply andb_prop in H; destruct H end.

Lemma nc_aq_query a : nc_aq a = true -> nc_query (aq_query a) = true.
Proof. destruct a. exact (fun H => H). Qed.

Lemma forallb_in {A} (p : A -> bool) l x : forallb p l = true -> In x l -> p x = true.
Proof. intros H Hx. rewrite forallb_forall in H. exact (H x Hx). Qed.

Ltac sh := first [apply Hq; assumption | apply Hc; assumption | apply Hrule; assumption | apply Hres | apply Hfn; assumption].
Ltac sl := fail.
Ltac sms := repeat first [sl | sh | sm_step].

Lemma sim_param_values (params : list let_value) :
  forallb nc_lv params = true ->
  sim (mapM (fun p => match p with
                      | LValue v => ret [QLiteral v]
                      | LAccess a => ctx_query r (aq_query a)
                      | LFunction ps n => ev_fn r n ps
                      end) params)
      (fun k => mapM (fun p => match p with
                      | LValue v => ret [QLiteral v]
                      | LAccess a => ctx_query (r' k) (aq_query a)
                      | LFunction ps n => ev_fn (r' k) n ps
                      end) params).
Proof.
  intros Hp. apply (sim_mapM_in _ (fun k p => match p with
                      | LValue v => ret [QLiteral v]
                      | LAccess a => ctx_query (r' k) (aq_query a)
                      | LFunction ps n => ev_fn (r' k) n ps
                      end)).
  intros p Hin. pose proof (forallb_in _ _ _ Hp Hin) as Hnp. destruct p as [v|a|ps n]; cbn in Hnp.
  - apply sim_ret.
  - apply sim_ctx_query. apply nc_aq_query. exact Hnp.
  - apply Hfn. exact Hnp.
Qed.

Lemma sim_fn_body name params : forallb nc_lv params = true -> sim (fn_body r name params) (fun k => fn_body (r' k) name params).
Proof.
  intros Hp. unfold fn_body. apply sim_bind; [apply sim_param_values; exact Hp|]. intros args. sms.
Qed.

Lemma find_function_nc name lets ps f : nc_lets lets = true -> find_function name lets = Some (ps, f) -> forallb nc_lv ps = true.
Proof.
  induction lets as [|[n v] lets IH]; intros Hn H; cbn in *; [discriminate|]. ncsplit.
  destruct (find_function name lets) as [[ps' f']|]; [inversion H; subst; apply IH; [assumption|reflexivity]|].
  destruct v; try discriminate. destruct (String.eqb n name); [|discriminate]. inversion H; subst. assumption.
Qed.

Lemma find_query_nc name lets aq : nc_lets lets = true -> find_query name lets = Some aq -> nc_aq aq = true.
Proof.
  induction lets as [|[n v] lets IH]; intros Hn H; cbn in *; [discriminate|]. ncsplit.
  destruct (find_query name lets) as [aq'|]; [inversion H; subst; apply IH; [assumption|reflexivity]|].
  destruct v; try discriminate. destruct (String.eqb n name); [|discriminate]. inversion H; subst. assumption.
Qed.


(* the top frame of s, by kind *)
Definition top_frame (is_root : bool) root lets memo : frame :=
  if is_root then FRoot root lets memo else FBlock root lets memo.

Lemma top_frame_valid is_root root lets memo rest s :
  frames s = top_frame is_root root lets memo :: rest -> Valid s ->
  nc_lets lets = true /\
  forall name vals, assoc name memo = Some vals ->
    computes (fun k => resolve_scope' (r' k) is_root root lets name) (erase s) vals.
Proof.
  intros Ef (_ & Hvf & _). rewrite Ef in Hvf. destruct Hvf as [Hf _].
  unfold erase. rewrite Ef. destruct is_root; exact Hf.
Qed.

(* storing a computed value in the memo of the top frame keeps the caches valid *)
Lemma set_top_memo_valid is_root root lets memo rest s name result s2 :
  frames s = top_frame is_root root lets memo :: rest -> Valid s ->
  computes (fun k => resolve_scope' (r' k) is_root root lets name) (erase s) result ->
  set_top_memo name result s = Done (tt, [], s2) ->
  Valid s2 /\ erase s2 = erase s.
Proof.
  intros Ef (Hwf & Hvf & Hvs) Hcomp H. unfold set_top_memo in H. rewrite Ef in H.
  assert (Es2 : s2 = mkState (top_frame is_root root lets (assoc_set name result memo) :: rest) (statuses s)).
  { destruct is_root; cbn in H; inversion H; reflexivity. }
  subst s2. clear H.
  assert (Esh : map fshape (top_frame is_root root lets (assoc_set name result memo) :: rest) = map fshape (frames s)).
  { rewrite Ef. destruct is_root; reflexivity. }
  split.
  - split; [|split]; cbn [frames statuses].
    + rewrite Esh. exact Hwf.
    + rewrite Ef in Hvf. destruct Hvf as [Hf Hrest]. cbn [valid_frames]. split; [|exact Hrest].
      rewrite Esh. unfold erase in Hcomp.
      assert (Hf' : nc_lets lets = true /\ forall n v, assoc n memo = Some v ->
                computes (fun k => resolve_scope' (r' k) is_root root lets n) (mkState (map fshape (frames s)) []) v).
      { rewrite Ef. destruct is_root; exact Hf. }
      destruct Hf' as [Hl He].
      assert (G : nc_lets lets = true /\ forall n v, assoc n (assoc_set name result memo) = Some v ->
                computes (fun k => resolve_scope' (r' k) is_root root lets n) (mkState (map fshape (frames s)) []) v).
      { split; [exact Hl|]. intros n v Hn. rewrite assoc_assoc_set in Hn. destruct (String.eqb n name) eqn:En.
        - apply String.eqb_eq in En. subst n. inversion Hn; subst. exact Hcomp.
        - apply He. exact Hn. }
      destruct is_root; exact G.
    + intros n st Hn. cbn [frames statuses] in *. rewrite Esh. apply Hvs. exact Hn.
  - unfold erase. cbn [frames]. rewrite Esh. reflexivity.
Qed.

Lemma same_top_frame is_root root lets memo rest s s1 :
  frames s = top_frame is_root root lets memo :: rest -> erase s1 = erase s ->
  exists memo1 rest1, frames s1 = top_frame is_root root lets memo1 :: rest1.
Proof.
  intros Ef E. apply erase_shape in E. rewrite Ef in E. destruct (frames s1) as [|g rest1]; [discriminate|].
  cbn [map] in E. inversion E as [[Eg _]]. destruct is_root; destruct g; cbn in Eg; try discriminate; inversion Eg; subst; eauto.
Qed.

Lemma resolve_scope_sim is_root root lets memo rest name s :
  frames s = top_frame is_root root lets memo :: rest ->
  sim_at s (resolve_scope r is_root root lets memo name) (fun k => resolve_scope' (r' k) is_root root lets name).
Proof.
  intros Ef a recs s' Hv H. destruct (top_frame_valid _ _ _ _ _ _ Ef Hv) as [Hl Hmemo].
  unfold resolve_scope in H.
  destruct (find_literal name lets) as [v|] eqn:Elit.
  { apply ret_inv in H as (-> & _ & ->). split; [exact Hv|split; [reflexivity|]].
    exists 0. intros k _. unfold resolve_scope'. rewrite Elit. eexists. reflexivity. }
  destruct (assoc name memo) as [vals|] eqn:Ememo.
  { apply ret_inv in H as (-> & _ & ->). split; [exact Hv|split; [reflexivity|]]. apply Hmemo. exact Ememo. }
  destruct (find_function name lets) as [[ps fn]|] eqn:Efn.
  { apply bind_inv in H as (result & r1 & s1 & r2 & H1 & H2 & _).
    apply bind_inv in H2 as ([] & r3 & s2 & r4 & H2 & H3 & _). apply ret_inv in H3 as (-> & _ & ->).
    destruct (Hfn fn ps (find_function_nc _ _ _ _ Hl Efn) _ _ _ _ Hv H1) as (V1 & E1 & C1).
    assert (Cres : computes (fun k => resolve_scope' (r' k) is_root root lets name) (erase s) result).
    { eapply Ev_impl; [|exact C1]. intros k Hk. unfold resolve_scope'. rewrite Elit, Efn. exact Hk. }
    destruct (same_top_frame _ _ _ _ _ _ _ Ef E1) as (memo1 & rest1 & Ef1).
    assert (r3 = []) by (unfold set_top_memo in H2; rewrite Ef1 in H2; destruct is_root; cbn in H2; inversion H2; reflexivity). subst r3.
    assert (Cres1 : computes (fun k => resolve_scope' (r' k) is_root root lets name) (erase s1) result) by (rewrite E1; exact Cres).
    destruct (set_top_memo_valid _ _ _ _ _ _ _ _ _ Ef1 V1 Cres1 H2) as [V2 E2].
    split; [exact V2|split; [congruence|exact Cres]]. }
  destruct (find_query name lets) as [aq|] eqn:Eq.
  { apply bind_inv in H as (result & r1 & s1 & r2 & H1 & H2 & _).
    apply bind_inv in H2 as ([] & r3 & s2 & r4 & H2 & H3 & _). apply ret_inv in H3 as (-> & _ & ->).
    pose proof (nc_aq_query _ (find_query_nc _ _ _ Hl Eq)) as Hnq.
    destruct (Hq 0 (aq_query aq) root None Hnq _ _ _ _ Hv H1) as (V1 & E1 & C1).
    set (result' := if aq_all aq then result else filter is_resolved result) in *.
    assert (Cres : computes (fun k => resolve_scope' (r' k) is_root root lets name) (erase s) result').
    { eapply Ev_impl; [|exact C1]. intros k [rc Hk]. unfold resolve_scope'. rewrite Elit, Efn, Eq.
      unfold bind. rewrite Hk. eexists. reflexivity. }
    destruct (same_top_frame _ _ _ _ _ _ _ Ef E1) as (memo1 & rest1 & Ef1).
    assert (r3 = []) by (unfold set_top_memo in H2; rewrite Ef1 in H2; destruct is_root; cbn in H2; inversion H2; reflexivity). subst r3.
    assert (Cres1 : computes (fun k => resolve_scope' (r' k) is_root root lets name) (erase s1) result') by (rewrite E1; exact Cres).
    destruct (set_top_memo_valid _ _ _ _ _ _ _ _ _ Ef1 V1 Cres1 H2) as [V2 E2].
    split; [exact V2|split; [congruence|exact Cres]]. }
  destruct is_root; [discriminate|].
  assert (Hne : map fshape rest <> []).
  { destruct Hv as (Hwf & _). rewrite Ef in Hwf. cbn [map] in Hwf. eapply wf_nonroot_rest; [exact Hwf|discriminate]. }
  destruct (with_parent_sim _ _ _ _ _ _ _ _ (sim_sim_at _ _ _ (Hres name)) Hv Ef Hne H) as (V & E & C).
  split; [exact V|split; [exact E|]]. eapply Ev_impl; [|exact C]. intros k Hk.
  unfold resolve_scope'. rewrite Elit, Efn, Eq. exact Hk.
Qed.

Lemma sim_resolve_body name : sim (resolve_body r name) (fun k => resolve_body' (r' k) name).
Proof.
  intros s a recs s' Hv H. unfold resolve_body in H. destruct (frames s) as [|f rest] eqn:Ef; [discriminate|].
  assert (Hshape : frames (erase s) = fshape f :: map fshape rest) by (unfold erase; rewrite Ef; reflexivity).
  destruct f as [root l memo|root l memo|root|b c0 m0].
  - destruct (resolve_scope_sim true root l memo rest name s Ef _ _ _ Hv H) as (V & E & C).
    split; [exact V|split; [exact E|]]. eapply Ev_impl; [|exact C]. intros k Hk. unfold resolve_body'. rewrite Hshape. exact Hk.
  - destruct (resolve_scope_sim false root l memo rest name s Ef _ _ _ Hv H) as (V & E & C).
    split; [exact V|split; [exact E|]]. eapply Ev_impl; [|exact C]. intros k Hk. unfold resolve_body'. rewrite Hshape. exact Hk.
  - assert (Hne : map fshape rest <> []).
    { destruct Hv as (Hwf & _). rewrite Ef in Hwf. cbn [map] in Hwf. eapply wf_nonroot_rest; [exact Hwf|discriminate]. }
    destruct (with_parent_sim _ _ _ _ _ _ _ _ (sim_sim_at _ _ _ (Hres name)) Hv Ef Hne H) as (V & E & C).
    split; [exact V|split; [exact E|]]. eapply Ev_impl; [|exact C]. intros k Hk. unfold resolve_body'. rewrite Hshape. exact Hk.
  - destruct (assoc name b) as [res|] eqn:Eb.
    + apply ret_inv in H as (-> & _ & ->). split; [exact Hv|split; [reflexivity|]].
      exists 0. intros k _. unfold resolve_body'. rewrite Hshape. cbn [fshape]. rewrite Eb. eexists. reflexivity.
    + assert (Hne : map fshape rest <> []).
      { destruct Hv as (Hwf & _). rewrite Ef in Hwf. cbn [map] in Hwf. eapply wf_nonroot_rest; [exact Hwf|discriminate]. }
      destruct (with_parent_sim _ _ _ _ _ _ _ _ (sim_sim_at _ _ _ (Hres name)) Hv Ef Hne H) as (V & E & C).
      split; [exact V|split; [exact E|]]. eapply Ev_impl; [|exact C]. intros k Hk. unfold resolve_body'. rewrite Hshape. cbn [fshape]. rewrite Eb. exact Hk.
Qed.



Lemma sim_rq qi q cur cv : nc_query q = true -> sim (rq r qi q cur cv) (fun k => rq (r' k) qi q cur cv).
Proof. apply Hq. Qed.
Ltac sl ::= first [apply sim_ctx_query; assumption | apply sim_rq; assumption].

Lemma sim_map_resolved qr f f' : (forall v, sim (f v) (fun k => f' k v)) -> sim (map_resolved qr f) (fun k => map_resolved qr (f' k)).
Proof. intros Hf. unfold map_resolved. destruct qr; cbv beta iota; try apply sim_ret. apply Hf. Qed.

Lemma sim_accumulate parent qi q elements cv : nc_query q = true ->
  sim (accumulate r parent qi q elements cv) (fun k => accumulate (r' k) parent qi q elements cv).
Proof. intros Hn. unfold accumulate. sms. Qed.

Lemma sim_accumulate_map parent keys vals qi q cv func func' :
  (forall a c d, sim (func a q c d cv) (fun k => func' k a q c d cv)) ->
  sim (accumulate_map parent keys vals qi q cv func) (fun k => accumulate_map parent keys vals qi q cv (func' k)).
Proof. intros Hf. unfold accumulate_map. sms. apply Hf. Qed.

Lemma nc_cnf_in cnf line x : nc_cnf cnf = true -> In line cnf -> In x line -> nc_clause x = true.
Proof. intros H Hl Hx. unfold nc_cnf in H. eapply forallb_in; [|exact Hx]. eapply forallb_in; [exact H|exact Hl]. Qed.
Lemma nc_conds_in cnf line x : nc_conds cnf = true -> In line cnf -> In x line -> nc_wc x = true.
Proof. intros H Hl Hx. unfold nc_conds in H. eapply forallb_in; [|exact Hx]. eapply forallb_in; [exact H|exact Hl]. Qed.

Lemma sim_eval_filter_cnf cnf : nc_cnf cnf = true -> sim (eval_filter_cnf r cnf) (fun k => eval_filter_cnf (r' k) cnf).
Proof.
  intros Hn. unfold eval_filter_cnf. apply (sim_cnf_body_in (ev_clause r) (fun k => ev_clause (r' k))).
  intros line x Hl Hx. apply Hc. eapply nc_cnf_in; eassumption.
Qed.
Ltac sl ::= first [apply sim_ctx_query; assumption | apply sim_rq; assumption | apply sim_eval_filter_cnf; assumption
                  | apply sim_accumulate; assumption].

Lemma sim_check_and_delegate cnf index q key value cv : nc_cnf cnf = true -> nc_query q = true ->
  sim (check_and_delegate r cnf None index q key value cv) (fun k => check_and_delegate (r' k) cnf None index q key value cv).
Proof. intros Hn Hnq. unfold check_and_delegate. sms. Qed.

Lemma sim_lookup_key vals cur k0 qi q cv : nc_query q = true ->
  sim (lookup_key conv r vals cur k0 qi q cv) (fun k => lookup_key conv (r' k) vals cur k0 qi q cv).
Proof. intros Hn. unfold lookup_key. destruct (map_get k0 vals); [apply sim_rq; assumption|]. destruct cv as [c|]; sms. Qed.

Lemma sim_interpolate var vals cur qi q cv : nc_query q = true ->
  sim (interpolate r var vals cur qi q cv) (fun k => interpolate (r' k) var vals cur qi q cv).
Proof. intros Hn. unfold interpolate. sms. Qed.

Lemma sim_old_report_value c x : sim (old_report_value c x) (fun _ => old_report_value c x).
Proof. unfold old_report_value. sms. Qed.
Ltac sl ::= first [apply sim_ctx_query; assumption | apply sim_rq; assumption | apply sim_eval_filter_cnf; assumption
                  | apply sim_accumulate; assumption | apply sim_old_report_value].

Lemma sim_real_binary_operation lhs rhs c0 : sim (real_binary_operation re lhs rhs c0) (fun _ => real_binary_operation re lhs rhs c0).
Proof. unfold real_binary_operation. sms. Qed.
Ltac sl ::= first [apply sim_ctx_query; assumption | apply sim_rq; assumption | apply sim_eval_filter_cnf; assumption
                  | apply sim_accumulate; assumption | apply sim_old_report_value | apply sim_real_binary_operation
                  | apply sim_lookup_key; assumption | apply sim_interpolate; assumption
                  | apply sim_check_and_delegate; assumption | apply sim_map_resolved; intros ?].

Lemma sim_map_key_filter c w keys vals cur qi q cv : nc_lv w = true -> nc_query q = true ->
  sim (map_key_filter re r c w keys vals cur qi q cv) (fun k => map_key_filter re (r' k) c w keys vals cur qi q cv).
Proof.
  intros Hw Hn. unfold map_key_filter. destruct w as [v|a|ps n]; cbn in Hw.
  - sms.
  - pose proof (nc_aq_query _ Hw) as Ha. sms.
  - sms.
Qed.

Lemma nth_error_nc q qi part : nc_query q = true -> nth_error q qi = Some part -> nc_part part = true.
Proof. intros Hn He. eapply forallb_in; [exact Hn|]. eapply nth_error_In; exact He. Qed.

Lemma sim_query_body qi q cur cv : nc_query q = true ->
  sim (query_body re conv r qi q cur cv) (fun k => query_body re conv (r' k) qi q cur cv).
Proof.
  intros Hn. unfold query_body. destruct (nth_error q qi) as [part|] eqn:En; [|sms].
  pose proof (nth_error_nc _ _ _ Hn En) as Hpart.
  destruct (if Nat.eqb qi 0 then part_variable part else None) as [var|].
  { sms. }
  destruct part as [|k0|mname c w|name|name|i|name cnf]; cbn in Hpart.
  - sms.
  - sms.
  - destruct cur; try (apply sim_map_key_filter; assumption); sms.
  - destruct name; [discriminate|]. destruct cur; sms. apply sim_accumulate_map. intros. sms.
  - destruct name; [discriminate|]. destruct cur; sms.
  - sms.
  - destruct name; [discriminate|]. fold (nc_cnf cnf) in Hpart. destruct cur; sms.
Qed.


Ltac sl2 := fail.
Ltac sms2 := repeat first [sl2 | sl | sh | sm_step].

Lemma sim_unary_operation lq c inverse custom : nc_query lq = true ->
  sim (unary_operation r lq c inverse custom) (fun k => unary_operation (r' k) lq c inverse custom).
Proof. intros Hn. unfold unary_operation. sms2. Qed.

Lemma sim_binary_operation lq rhs c custom : nc_query lq = true ->
  sim (binary_operation re r lq rhs c custom) (fun k => binary_operation re (r' k) lq rhs c custom).
Proof. intros Hn. unfold binary_operation. sms2. Qed.

Lemma sim_access_clause_body g : nc_ac g = true -> sim (access_clause_body re r g) (fun k => access_clause_body re (r' k) g).
Proof.
  intros Hn. destruct g as [aq c w custom negation]. cbn in Hn. ncsplit. pose proof (nc_aq_query _ H) as Hq1.
  unfold access_clause_body. apply sim_bind; [|intros ?; sms2]. apply sim_node. apply sim_bind; [|intros ?; sms2].
  destruct (is_unary (fst c)); [apply sim_unary_operation; assumption|].
  destruct w as [wv|]; [|sms2].
  apply sim_bind; [|intros ?; apply sim_binary_operation; assumption].
  destruct wv as [v|a|ps n]; cbn in H0; [sms2| |apply Hfn; assumption].
  apply sim_ctx_query. apply nc_aq_query. assumption.
Qed.

Lemma nc_rules_named name x : In x (rules_named prog name) -> nc_rule x = true.
Proof.
  intros Hin. unfold rules_named in Hin. apply filter_In in Hin as [Hin _].
  unfold nc_prog in Hprog. ncsplit. eapply forallb_in; eassumption.
Qed.

Lemma sim_first_non_skip rules : (forall x, In x rules -> nc_rule x = true) ->
  sim (first_non_skip r rules) (fun k => first_non_skip (r' k) rules).
Proof.
  induction rules as [|x rest IH]; intros Hn; cbn [first_non_skip]; [apply sim_ret|].
  apply (sim_bind (ev_rule r x) (fun k => ev_rule (r' k) x) _
           (fun k st => match st with SKIP => first_non_skip (r' k) rest | _ => ret st end)).
  - apply Hrule. apply Hn. left. reflexivity.
  - intros st. destruct st; try apply sim_ret. apply IH. intros y Hy. apply Hn. right. exact Hy.
Qed.

Lemma sim_rule_status_body name : sim (rule_status_body prog r name) (fun k => rule_status_body' prog (r' k) name).
Proof.
  unfold rule_status_body, rule_status_body'. apply sim_at_root.
  intros s0 Hlen a recs s' Hv H.
  assert (Eroot : root_shape (map fshape (frames s0)) = erase s0).
  { unfold root_shape, erase. rewrite map_length, Hlen. reflexivity. }
  destruct (assoc name (statuses s0)) as [st|] eqn:Ec.
  - apply ret_inv in H as (-> & _ & ->). split; [exact Hv|split; [reflexivity|]].
    destruct Hv as (_ & _ & Hvs). specialize (Hvs name st Ec). rewrite Eroot in Hvs. exact Hvs.
  - destruct (rules_named prog name) as [|x rest] eqn:Er; [discriminate|].
    apply bind_inv in H as (st & r1 & s1 & r2 & H1 & H2 & _). inversion H2; subst. clear H2.
    assert (Hn : forall y, In y (x :: rest) -> nc_rule y = true) by (intros y Hy; apply (nc_rules_named name); rewrite Er; exact Hy).
    destruct (sim_first_non_skip (x :: rest) Hn _ _ _ _ Hv H1) as ((Hwf1 & Hvf1 & Hvs1) & E1 & C1).
    assert (Cin : computes (fun k => rule_status_inner' prog (r' k) name) (erase s0) a).
    { eapply Ev_impl; [|exact C1]. intros k Hk. unfold rule_status_inner'. rewrite Er. exact Hk. }
    split; [|split; [|exact Cin]].
    + split; [|split]; cbn [frames statuses]; [exact Hwf1|exact Hvf1|].
      intros n st Hn2. cbn [frames statuses] in *. rewrite assoc_assoc_set in Hn2.
      destruct (String.eqb n name) eqn:En.
      * apply String.eqb_eq in En. subst n. inversion Hn2; subst.
        apply erase_shape in E1. rewrite E1, Eroot. exact Cin.
      * apply Hvs1. exact Hn2.
    + unfold erase. cbn [frames]. apply erase_shape in E1. rewrite E1. reflexivity.
Qed.
Ltac sl2 ::= first [apply sim_unary_operation; assumption | apply sim_binary_operation; assumption
                   | apply sim_access_clause_body; assumption | apply sim_rule_status_body].

Lemma sim_named_clause_body n : sim (named_clause_body prog r n) (fun k => named_clause_body' prog (r' k) n).
Proof. unfold named_clause_body, named_clause_body'. destruct n. sms2. Qed.

Lemma sim_gblock_body b : nc_block b = true -> sim (gblock_body r b) (fun k => gblock_body (r' k) b).
Proof.
  intros Hn. destruct b as [lets cnf]. cbn in Hn. ncsplit. fold (nc_lets lets) in H. fold (nc_cnf cnf) in H0.
  unfold gblock_body. apply sim_bind; [apply sim_ctx_root|intros root].
  apply sim_with_frame; [split; [assumption|reflexivity]|].
  apply (sim_cnf_body_in (ev_clause r) (fun k => ev_clause (r' k))).
  intros line x Hl Hx. apply Hc. eapply nc_cnf_in; eassumption.
Qed.

Lemma sim_block_clause_body aq b ne : nc_aq aq = true -> nc_block b = true ->
  sim (block_clause_body r aq b ne) (fun k => block_clause_body (r' k) aq b ne).
Proof.
  intros Ha Hb. pose proof (nc_aq_query _ Ha) as Hq1. unfold block_clause_body.
  apply sim_node. apply sim_bind; [sms2|intros values]. destruct values; cbv beta iota; [sms2|].
  apply sim_bind; [|intros ?; sms2]. apply sim_mapM. intros each.
  destruct each; cbv beta iota; try (apply sim_with_frame; [exact I|apply sim_gblock_body; assumption]). sms2.
Qed.

Lemma find_param_rule_nc dep p : find_param_rule prog dep = Some p -> nc_rule (pr_rule p) = true.
Proof.
  unfold find_param_rule. unfold nc_prog in Hprog. ncsplit. clear H H1.
  assert (G : forall l acc, forallb (fun pr => nc_rule (pr_rule pr)) l = true ->
              (forall q, acc = Some q -> nc_rule (pr_rule q) = true) ->
              fold_left (fun acc p0 => if String.eqb (rule_name (pr_rule p0)) dep then Some p0 else acc) l acc = Some p ->
              nc_rule (pr_rule p) = true).
  { induction l as [|x l IH]; intros acc Hl Hacc Hf; cbn in *; [apply Hacc; exact Hf|]. ncsplit.
    eapply IH; [eassumption| |exact Hf]. intros q Hq0. destruct (String.eqb (rule_name (pr_rule x)) dep).
    - inversion Hq0; subst. assumption.
    - apply Hacc. exact Hq0. }
  intros Hf. eapply G; [exact H0| |exact Hf]. intros q Hq0. discriminate.
Qed.

Lemma sim_param_call_body params n : forallb nc_lv params = true ->
  sim (param_call_body prog r params n) (fun k => param_call_body prog (r' k) params n).
Proof.
  intros Hp. unfold param_call_body. destruct n as [dep neg custom].
  destruct (find_param_rule prog dep) as [p|] eqn:Ef; [|sms2].
  pose proof (find_param_rule_nc _ _ Ef) as Hnr.
  destruct (negb (Nat.eqb (List.length (pr_params p)) (List.length params))); [sms2|].
  apply sim_bind.
  - apply (sim_mapM_in _ (fun k each => match each with
                          | LValue v => ret [QLiteral v]
                          | LAccess a => ctx_query (r' k) (aq_query a)
                          | LFunction ps fname => ev_fn (r' k) fname ps
                          end)).
    intros e Hin. pose proof (forallb_in _ _ _ Hp Hin) as Hne. destruct e as [v|a|ps fname]; cbn in Hne.
    + apply sim_ret.
    + apply sim_ctx_query. apply nc_aq_query. exact Hne.
    + apply Hfn. exact Hne.
  - intros resolved. apply sim_with_frame; [exact I|]. apply Hrule. exact Hnr.
Qed.

Lemma sim_when_clause_body w : nc_wc w = true -> sim (when_clause_body re prog r w) (fun k => when_clause_body' re prog (r' k) w).
Proof.
  intros Hn. destruct w as [g|n|ps n]; cbn in Hn; unfold when_clause_body, when_clause_body'.
  - apply sim_access_clause_body; assumption.
  - apply sim_named_clause_body.
  - apply sim_param_call_body; assumption.
Qed.

Lemma sim_conds conds : nc_conds conds = true ->
  sim (cnf_body (when_clause_body re prog r) conds) (fun k => cnf_body (when_clause_body' re prog (r' k)) conds).
Proof.
  intros Hn. apply (sim_cnf_body_in (when_clause_body re prog r) (fun k => when_clause_body' re prog (r' k))).
  intros line x Hl Hx. apply sim_when_clause_body. eapply nc_conds_in; eassumption.
Qed.

Lemma sim_when_block_body conds b : nc_conds conds = true -> nc_block b = true ->
  sim (when_block_body re prog r conds b) (fun k => when_block_body' re prog (r' k) conds b).
Proof.
  intros Hcn Hb. unfold when_block_body, when_block_body'. apply sim_node. apply sim_bind.
  - apply sim_node. apply sim_conds; assumption.
  - intros cst. destruct cst; cbv beta iota; try apply sim_ret. apply sim_gblock_body; assumption.
Qed.

Lemma sim_clause_body g : nc_clause g = true -> sim (clause_body re prog r g) (fun k => clause_body' re prog (r' k) g).
Proof.
  intros Hn. destruct g as [c|n|ps n|aq b ne|conds b]; cbn in Hn; unfold clause_body, clause_body'.
  - apply sim_access_clause_body; assumption.
  - apply sim_named_clause_body.
  - apply sim_param_call_body; assumption.
  - ncsplit. apply sim_block_clause_body; assumption.
  - ncsplit. apply sim_when_block_body; assumption.
Qed.

Lemma sim_type_block_body tn conds b q : nc_oconds conds = true -> nc_block b = true -> nc_query q = true ->
  sim (type_block_body re prog r tn conds b q) (fun k => type_block_body' re prog (r' k) tn conds b q).
Proof.
  intros Hcn Hb Hnq. unfold type_block_body, type_block_body'. apply sim_node. apply sim_bind.
  - destruct conds as [c|]; cbv beta iota; [|apply sim_ret]. apply sim_bind; [|intros ?; apply sim_ret].
    apply sim_node. apply sim_conds; assumption.
  - intros go. destruct (negb go); cbv beta iota; [apply sim_ret|].
    apply sim_bind; [apply sim_ctx_query; assumption|intros values]. destruct values; cbv beta iota; [apply sim_ret|].
    apply sim_bind; [|intros ?; apply sim_ret]. apply sim_mapM. intros each.
    destruct each; cbv beta iota; try (apply sim_node; apply sim_with_frame; [exact I|apply sim_gblock_body; assumption]).
    apply sim_failM.
Qed.

Lemma sim_rule_clause_body c : nc_rule_clause c = true ->
  sim (rule_clause_body re prog r c) (fun k => rule_clause_body' re prog (r' k) c).
Proof.
  intros Hn. destruct c as [g|conds b|tn conds b q]; cbn in Hn; unfold rule_clause_body, rule_clause_body'.
  - apply Hc; assumption.
  - ncsplit. apply sim_when_block_body; assumption.
  - ncsplit. apply sim_type_block_body; assumption.
Qed.

Lemma sim_rule_body x : nc_rule x = true -> sim (rule_body re prog r x) (fun k => rule_body' re prog (r' k) x).
Proof.
  intros Hn. unfold nc_rule in Hn. ncsplit. unfold rule_body, rule_body'. apply sim_node. apply sim_bind.
  - destruct (rule_conditions x) as [c|]; cbv beta iota; [|apply sim_ret]. apply sim_bind; [|intros ?; apply sim_ret].
    apply sim_node. apply sim_conds; assumption.
  - intros go. destruct (negb go); cbv beta iota; [apply sim_ret|].
    apply sim_bind; [apply sim_ctx_root|intros root]. apply sim_with_frame; [split; [assumption|reflexivity]|].
    apply (sim_cnf_body_in (rule_clause_body re prog r) (fun k => rule_clause_body' re prog (r' k))).
    intros line c Hl Hx. apply sim_rule_clause_body. eapply forallb_in; [|exact Hx]. eapply forallb_in; [|exact Hl]. assumption.
Qed.

End Sim.

(* ------------------------------------------------------------------ *)
(* SEval is simulated by PEval, at every fuel *)

Ltac ncsplit := repeat match goal with H : _ && _ = true |- _ => apply andb_prop in H; destruct H end.

Lemma sim_shift prog r' {A} (m : M A) (m' : nat -> M A) : sim prog r' m (fun k => m' (S k)) -> sim prog r' m m'.
Proof.
  intros H s a recs s' Hv E. destruct (H s a recs s' Hv E) as (V & Es & C). split; [exact V|split; [exact Es|]].
  apply Ev_shift. exact C.
Qed.

Theorem evalN_sim re conv prog : nc_prog prog = true ->
  forall n, ev_sim prog (evalP re conv prog) (evalN re conv prog n).
Proof.
  intros Hprog n. induction n as [|n IH].
  - split; [|split; [|split; [|split]]].
    + intros qi q cur cv _. apply sim_oofM.
    + intros g _. apply sim_oofM.
    + intros x _. apply sim_oofM.
    + intros nm. apply sim_oofM.
    + intros f ps _. apply sim_oofM.
  - cbn [evalN]. split; [|split; [|split; [|split]]]; cbn [ev_query ev_clause ev_rule ev_resolve ev_fn].
    + intros qi q cur cv Hn. apply sim_shift. cbn [evalP ev_query]. apply sim_query_body; assumption.
    + intros g Hn. apply sim_shift. cbn [evalP ev_clause]. apply sim_clause_body; assumption.
    + intros x Hn. apply sim_shift. cbn [evalP ev_rule]. apply sim_rule_body; assumption.
    + intros nm. apply sim_shift. cbn [evalP ev_resolve]. apply sim_resolve_body; assumption.
    + intros f ps Hn. apply sim_shift. cbn [evalP ev_fn]. apply sim_fn_body; assumption.
Qed.

Lemma init_state_valid re conv prog doc : nc_prog prog = true -> Valid prog (evalP re conv prog) (init_state prog doc).
Proof.
  intros Hprog. unfold nc_prog in Hprog. ncsplit. split; [|split]; cbn.
  - exists [], doc, (rf_lets prog). reflexivity.
  - split; [|exact I]. split; [assumption|]. intros n v Hn. discriminate.
  - intros n st Hn. discriminate.
Qed.

Lemma init_state_erase prog doc : erase (init_state prog doc) = init_state prog doc.
Proof. reflexivity. Qed.

(* the verdict of a file is the verdict of the memo-free evaluation *)
Theorem eval_file_memo_free re conv prog n doc st recs s' :
  nc_prog prog = true ->
  eval_file re conv prog n doc = Done (st, recs, s') ->
  Ev (fun k => exists recs', eval_file' re conv prog k doc = Done (st, recs', init_state prog doc)).
Proof.
  intros Hprog H. unfold eval_file, file_body in H.
  pose proof (evalN_sim re conv prog Hprog n) as Hs. destruct Hs as (_ & _ & Hrule & _).
  assert (K : sim prog (evalP re conv prog)
                (node (sts <- mapM (ev_rule (evalN re conv prog n)) (rf_rules prog) ;; ret (fold_fail_pass_skip sts)) KFileCheck)
                (fun k => node (sts <- mapM (ev_rule (evalP re conv prog k)) (rf_rules prog) ;; ret (fold_fail_pass_skip sts)) KFileCheck)).
  { apply sim_node.
    apply (sim_bind prog _ (mapM (ev_rule (evalN re conv prog n)) (rf_rules prog))
             (fun k => mapM (ev_rule (evalP re conv prog k)) (rf_rules prog)) _ (fun k sts => ret (fold_fail_pass_skip sts))).
    - apply (sim_mapM_in prog _ (ev_rule (evalN re conv prog n)) (fun k => ev_rule (evalP re conv prog k))).
      intros x Hx. apply Hrule. unfold nc_prog in Hprog. ncsplit. eapply forallb_in; eassumption.
    - intros sts. apply sim_ret. }
  destruct (K _ _ _ _ (init_state_valid re conv prog doc Hprog) H) as (_ & _ & C).
  rewrite init_state_erase in C. exact C.
Qed.

(* ------------------------------------------------------------------ *)
(* determinacy modulo the caches *)

Lemma computes_functional {A} (m' : nat -> M A) E (a b : A) : computes m' E a -> computes m' E b -> a = b.
Proof.
  intros [ka Ha] [kb Hb]. destruct (Ha (Nat.max ka kb)) as [ra Ea]; [lia|]. destruct (Hb (Nat.max ka kb)) as [rb Eb]; [lia|].
  rewrite Ea in Eb. inversion Eb. reflexivity.
Qed.

(* two runs of the same simulated computation from states with valid caches and the same scope stack give the same value,
   whatever their memos and rule-status caches contain and whatever the fuel *)
Theorem sim_deterministic prog r' {A} (m1 m2 : M A) m' s1 s2 a1 a2 recs1 recs2 s1' s2' :
  sim prog r' m1 m' -> sim prog r' m2 m' ->
  Valid prog r' s1 -> Valid prog r' s2 -> erase s1 = erase s2 ->
  m1 s1 = Done (a1, recs1, s1') -> m2 s2 = Done (a2, recs2, s2') -> a1 = a2.
Proof.
  intros H1 H2 V1 V2 E R1 R2.
  destruct (H1 _ _ _ _ V1 R1) as (_ & _ & C1). destruct (H2 _ _ _ _ V2 R2) as (_ & _ & C2).
  rewrite E in C1. eapply computes_functional; eassumption.
Qed.

(* ------------------------------------------------------------------ *)
(* order and repetition of lines, for bodies with variables and rule references (C04) *)

Lemma mapM_sim_trace prog r' {A B} (g : A -> M B) g' l :
  (forall x, In x l -> sim prog r' (g x) (fun k => g' k x)) ->
  forall s bs recs s', Valid prog r' s -> mapM g l s = Done (bs, recs, s') ->
  Forall2 (fun x b => computes (fun k => g' k x) (erase s) b) l bs /\ Valid prog r' s' /\ erase s' = erase s.
Proof.
  induction l as [|x l IH]; intros Hg s bs recs s' Hv H; cbn [mapM] in H.
  - apply ret_inv in H as (-> & _ & ->). split; [constructor|split; [exact Hv|reflexivity]].
  - apply bind_inv in H as (b & r1 & s1 & r2 & H1 & H2 & _).
    apply bind_inv in H2 as (bs' & r3 & s2 & r4 & H2 & H3 & _). apply ret_inv in H3 as (-> & _ & ->).
    destruct (Hg x (or_introl eq_refl) _ _ _ _ Hv H1) as (V1 & E1 & C1).
    destruct (IH (fun y Hy => Hg y (or_intror Hy)) _ _ _ _ V1 H2) as (F & V2 & E2).
    split; [|split; [exact V2|congruence]]. constructor; [exact C1|]. rewrite <- E1. exact F.
Qed.

Section Functional.
Variables (A B : Type) (den : A -> B -> Prop).
Hypothesis den_fun : forall x a b, den x a -> den x b -> a = b.

Lemma Forall2_functional l b1 b2 : Forall2 den l b1 -> Forall2 den l b2 -> b1 = b2.
Proof.
  intros H. revert b2. induction H as [|x a l b1 Hxa H IH]; intros b2 H2; inversion H2; subst; [reflexivity|].
  f_equal; [eapply den_fun; eassumption|apply IH; assumption].
Qed.

Lemma Forall2_perm l l' b : Forall2 den l b -> Permutation l l' -> exists b', Forall2 den l' b' /\ Permutation b b'.
Proof.
  intros H Hp. revert b H. induction Hp as [|x l l' Hp IH|x y l|l l' l'' Hp1 IH1 Hp2 IH2]; intros b H.
  - inversion H; subst. exists []. split; constructor.
  - inversion H as [|? a ? b0 Hxa H0]; subst. destruct (IH _ H0) as (b' & F & P). exists (a :: b'). split; [constructor; assumption|constructor; exact P].
  - inversion H as [|? a ? b0 Hya H0]; subst. inversion H0 as [|? a2 ? b1 Hxa H1]; subst.
    exists (a2 :: a :: b1). split; [repeat constructor; assumption|apply perm_swap].
  - destruct (IH1 _ H) as (b' & F1 & P1). destruct (IH2 _ F1) as (b'' & F2 & P2). exists b''. split; [exact F2|eapply perm_trans; eassumption].
Qed.

Lemma Forall2_in l b x : Forall2 den l b -> In x l -> exists a, den x a /\ In a b.
Proof.
  intros H. induction H as [|y a l b Hya H IH]; intros Hin; [destruct Hin|].
  destruct Hin as [->|Hin]; [exists a; split; [exact Hya|left; reflexivity]|].
  destruct (IH Hin) as (a' & Ha & Hi). exists a'. split; [exact Ha|right; exact Hi].
Qed.
End Functional.

Section Order.
Variable re : re_oracle.
Variable conv : conv_oracle.
Variable prog : rules_file.
Hypothesis Hprog : nc_prog prog = true.
Variable n : nat.

Let f := ev_clause (evalN re conv prog n).
Let f' := fun k => ev_clause (evalP re conv prog k).
Let VALID := Valid prog (evalP re conv prog).

Lemma sim_line n_cnf line : In line n_cnf -> nc_cnf n_cnf = true ->
  sim prog (evalP re conv prog) (line_body f line) (fun k => line_body (f' k) line).
Proof.
  intros Hl Hn. apply (sim_line_body_in prog _ f f'). intros x Hx.
  apply (proj1 (proj2 (evalN_sim re conv prog Hprog n))). eapply nc_cnf_in; eassumption.
Qed.

Definition line_den (E : state) (line : list guard_clause) (st : status) : Prop :=
  computes (fun k => line_body (f' k) line) E st.

Lemma line_den_fun E line a b : line_den E line a -> line_den E line b -> a = b.
Proof. apply computes_functional. Qed.

Lemma body_trace cnf s st recs s' : nc_cnf cnf = true -> VALID s ->
  cnf_body f cnf s = Done (st, recs, s') ->
  exists sts, Forall2 (line_den (erase s)) cnf sts /\ st = fold_fail_pass_skip sts.
Proof.
  intros Hn Hv H. unfold cnf_body in H. apply bind_inv in H as (sts & r1 & s1 & r2 & H1 & H2 & _).
  apply ret_inv in H2 as (-> & _ & _). exists sts. split; [|reflexivity].
  destruct (mapM_sim_trace prog _ (line_body f) (fun k => line_body (f' k)) cnf
              (fun l Hl => sim_line cnf l Hl Hn) _ _ _ _ Hv H1) as (F & _ & _). exact F.
Qed.

(* permuting the lines of a body with variables, rule references and calls does not change its status:
   two evaluations from the same valid state agree *)
Theorem memo_perm_lines cnf cnf' s st st' recs recs' s1 s2 :
  nc_cnf cnf = true -> VALID s -> Permutation cnf cnf' ->
  cnf_body f cnf s = Done (st, recs, s1) -> cnf_body f cnf' s = Done (st', recs', s2) -> st = st'.
Proof.
  intros Hn Hv Hp H1 H2.
  assert (Hn' : nc_cnf cnf' = true).
  { unfold nc_cnf in *. rewrite forallb_forall in *. intros l Hl. apply Hn. eapply Permutation_in; [apply Permutation_sym; exact Hp|exact Hl]. }
  destruct (body_trace _ _ _ _ _ Hn Hv H1) as (sts & F1 & ->).
  destruct (body_trace _ _ _ _ _ Hn' Hv H2) as (sts' & F2 & ->).
  destruct (Forall2_perm _ _ _ _ _ _ F1 Hp) as (b' & F3 & P).
  pose proof (Forall2_functional _ _ _ (line_den_fun (erase s)) _ _ _ F3 F2) as ->.
  apply fold_fail_pass_skip_perm. exact P.
Qed.

(* ... and from any two valid states with the same scope stack: the caches do not matter *)
Theorem memo_perm_lines_any_cache cnf cnf' s s0 st st' recs recs' s1 s2 :
  nc_cnf cnf = true -> VALID s -> VALID s0 -> erase s = erase s0 -> Permutation cnf cnf' ->
  cnf_body f cnf s = Done (st, recs, s1) -> cnf_body f cnf' s0 = Done (st', recs', s2) -> st = st'.
Proof.
  intros Hn Hv Hv0 Ee Hp H1 H2.
  assert (Hn' : nc_cnf cnf' = true).
  { unfold nc_cnf in *. rewrite forallb_forall in *. intros l Hl. apply Hn. eapply Permutation_in; [apply Permutation_sym; exact Hp|exact Hl]. }
  destruct (body_trace _ _ _ _ _ Hn Hv H1) as (sts & F1 & ->).
  destruct (body_trace _ _ _ _ _ Hn' Hv0 H2) as (sts' & F2 & ->). rewrite <- Ee in F2.
  destruct (Forall2_perm _ _ _ _ _ _ F1 Hp) as (b' & F3 & P).
  pose proof (Forall2_functional _ _ _ (line_den_fun (erase s)) _ _ _ F3 F2) as ->.
  apply fold_fail_pass_skip_perm. exact P.
Qed.

(* repeating a line does not change the status *)
Theorem memo_dup_line line rest s st st' recs recs' s1 s2 :
  nc_cnf rest = true -> VALID s -> In line rest ->
  cnf_body f (line :: rest) s = Done (st, recs, s1) -> cnf_body f rest s = Done (st', recs', s2) -> st = st'.
Proof.
  intros Hn Hv Hin H1 H2.
  assert (Hn1 : nc_cnf (line :: rest) = true).
  { unfold nc_cnf in *. cbn [forallb]. rewrite Hn, Bool.andb_true_r. eapply forallb_in; eassumption. }
  destruct (body_trace _ _ _ _ _ Hn1 Hv H1) as (sts & F1 & ->).
  destruct (body_trace _ _ _ _ _ Hn Hv H2) as (sts' & F2 & ->).
  inversion F1 as [|? a ? sts0 Ha F0]; subst.
  pose proof (Forall2_functional _ _ _ (line_den_fun (erase s)) _ _ _ F0 F2) as ->.
  destruct (Forall2_in _ _ _ _ _ _ F2 Hin) as (a' & Ha' & Hi).
  pose proof (line_den_fun _ _ _ _ Ha Ha') as ->.
  apply fold_dup. exact Hi.
Qed.


(* ---- alternatives of an `or` line ---- *)

Definition cl_den (E : state) (x : guard_clause) (st : status) : Prop := computes (fun k => f' k x) E st.

Lemma cl_den_fun E x a b : cl_den E x a -> cl_den E x b -> a = b.
Proof. apply computes_functional. Qed.

Definition no_pass (sts : list status) : Prop := ~ In PASS sts.

(* what an evaluated `or` line has seen: a PASS after non-PASS alternatives, or every alternative and no PASS *)
Inductive disj_seen (E : state) (l : list guard_clause) (failed : bool) : status -> Prop :=
| seen_pass l1 x l2 sts : l = l1 ++ x :: l2 -> Forall2 (cl_den E) l1 sts -> no_pass sts -> cl_den E x PASS ->
    disj_seen E l failed PASS
| seen_all sts : Forall2 (cl_den E) l sts -> no_pass sts ->
    disj_seen E l failed (if failed || existsb (status_eqb FAIL) sts then FAIL else SKIP).

Lemma disj_body_seen l : (forall x, In x l -> nc_clause x = true) ->
  forall failed s st recs s', VALID s -> disj_body f l failed s = Done (st, recs, s') ->
  disj_seen (erase s) l failed st.
Proof.
  induction l as [|x l IH]; intros Hn failed s st recs s' Hv H; cbn [disj_body] in H.
  - apply ret_inv in H as (-> & _ & _). replace (if failed then FAIL else SKIP) with (if failed || existsb (status_eqb FAIL) [] then FAIL else SKIP)
      by (cbn; rewrite Bool.orb_false_r; reflexivity).
    apply seen_all; [constructor|intros []].
  - apply bind_inv in H as (sx & r1 & s1 & r2 & H1 & H2 & _).
    pose proof (proj1 (proj2 (evalN_sim re conv prog Hprog n)) x (Hn x (or_introl eq_refl))) as Hsim.
    destruct (Hsim _ _ _ _ Hv H1) as (V1 & E1 & C1).
    assert (Hnl : forall y, In y l -> nc_clause y = true) by (intros y Hy; apply Hn; right; exact Hy).
    destruct sx.
    + apply ret_inv in H2 as (-> & _ & _). apply (seen_pass _ _ _ [] x l []); [reflexivity|constructor|intros []|exact C1].
    + specialize (IH Hnl true _ _ _ _ V1 H2). rewrite E1 in IH. inversion IH as [l1 y l2 sts El F Np Cy|sts F Np]; subst.
      * apply (seen_pass _ _ _ (x :: l1) y l2 (FAIL :: sts)); [reflexivity|constructor; assumption| |exact Cy].
        intros [Hc|Hc]; [discriminate|exact (Np Hc)].
      * replace (if true || existsb (status_eqb FAIL) sts then FAIL else SKIP)
          with (if failed || existsb (status_eqb FAIL) (FAIL :: sts) then FAIL else SKIP)
          by (cbn; rewrite Bool.orb_true_r; reflexivity).
        apply seen_all; [constructor; assumption|]. intros [Hc|Hc]; [discriminate|exact (Np Hc)].
    + specialize (IH Hnl failed _ _ _ _ V1 H2). rewrite E1 in IH. inversion IH as [l1 y l2 sts El F Np Cy|sts F Np]; subst.
      * apply (seen_pass _ _ _ (x :: l1) y l2 (SKIP :: sts)); [reflexivity|constructor; assumption| |exact Cy].
        intros [Hc|Hc]; [discriminate|exact (Np Hc)].
      * replace (if failed || existsb (status_eqb FAIL) sts then FAIL else SKIP)
          with (if failed || existsb (status_eqb FAIL) (SKIP :: sts) then FAIL else SKIP) by reflexivity.
        apply seen_all; [constructor; assumption|]. intros [Hc|Hc]; [discriminate|exact (Np Hc)].
Qed.

Lemma disj_seen_perm E l l' a b : Permutation l l' -> disj_seen E l false a -> disj_seen E l' false b -> a = b.
Proof.
  intros Hp Ha Hb.
  inversion Ha as [l1 x l2 sts El F Np Cx|sts F Np]; inversion Hb as [l1' x' l2' sts' El' F' Np' Cx'|sts' F' Np']; subst; try reflexivity.
  - (* run 1 saw a PASS for x, run 2 saw every alternative and no PASS *)
    exfalso. assert (Hin : In x l') by (eapply Permutation_in; [exact Hp|apply in_or_app; right; left; reflexivity]).
    destruct (Forall2_in _ _ _ _ _ _ F' Hin) as (a & Ha' & Hi). pose proof (cl_den_fun _ _ _ _ Cx Ha') as <-. exact (Np' Hi).
  - exfalso. assert (Hin : In x' l) by (eapply Permutation_in; [apply Permutation_sym; exact Hp|apply in_or_app; right; left; reflexivity]).
    destruct (Forall2_in _ _ _ _ _ _ F Hin) as (a & Ha' & Hi). pose proof (cl_den_fun _ _ _ _ Cx' Ha') as <-. exact (Np Hi).
  - destruct (Forall2_perm _ _ _ _ _ _ F Hp) as (b' & F3 & P).
    pose proof (Forall2_functional _ _ _ (cl_den_fun E) _ _ _ F3 F') as ->.
    cbn [orb]. rewrite (existsb_perm _ _ _ P). reflexivity.
Qed.

Lemma line_body_seen line s st recs s' : (forall x, In x line -> nc_clause x = true) -> VALID s ->
  line_body f line s = Done (st, recs, s') -> disj_seen (erase s) line false st.
Proof.
  intros Hn Hv H. unfold line_body in H. destruct line as [|x [|y l]].
  - eapply disj_body_seen; eassumption.
  - eapply disj_body_seen; eassumption.
  - apply node_inv in H as (ch & H & _). eapply disj_body_seen; eassumption.
Qed.

(* permuting the alternatives of the first `or` line of a body does not change the status of the body *)
Theorem memo_perm_alternatives line line' rest s st st' recs recs' s1 s2 :
  nc_cnf (line :: rest) = true -> VALID s -> Permutation line line' ->
  cnf_body f (line :: rest) s = Done (st, recs, s1) -> cnf_body f (line' :: rest) s = Done (st', recs', s2) -> st = st'.
Proof.
  intros Hn Hv Hp H1 H2.
  assert (Hnl : forall x, In x line -> nc_clause x = true) by (intros x Hx; eapply nc_cnf_in; [exact Hn|left; reflexivity|exact Hx]).
  assert (Hnl' : forall x, In x line' -> nc_clause x = true)
    by (intros x Hx; apply Hnl; eapply Permutation_in; [apply Permutation_sym; exact Hp|exact Hx]).
  assert (Hnr : nc_cnf rest = true) by (unfold nc_cnf in *; cbn [forallb] in Hn; apply andb_prop in Hn; exact (proj2 Hn)).
  unfold cnf_body in H1, H2.
  apply bind_inv in H1 as (sts & r1 & t1 & r2 & H1 & R1 & _). apply ret_inv in R1 as (-> & _ & _).
  apply bind_inv in H2 as (sts' & r1' & t1' & r2' & H2 & R2 & _). apply ret_inv in R2 as (-> & _ & _).
  cbn [mapM] in H1, H2.
  apply bind_inv in H1 as (a & q1 & u1 & q2 & A1 & B1 & _). apply bind_inv in B1 as (as_ & q3 & u2 & q4 & B1 & C1 & _). apply ret_inv in C1 as (-> & _ & _).
  apply bind_inv in H2 as (b & p1 & w1 & p2 & A2 & B2 & _). apply bind_inv in B2 as (bs_ & p3 & w2 & p4 & B2 & C2 & _). apply ret_inv in C2 as (-> & _ & _).
  pose proof (line_body_seen _ _ _ _ _ Hnl Hv A1) as S1. pose proof (line_body_seen _ _ _ _ _ Hnl' Hv A2) as S2.
  pose proof (disj_seen_perm _ _ _ _ _ Hp S1 S2) as ->.
  (* the remaining lines: evaluated from valid states with the same scope stack in both runs *)
  assert (SimL : forall l, In l rest -> sim prog (evalP re conv prog) (line_body f l) (fun k => line_body (f' k) l))
    by (intros l Hl; eapply sim_line; eassumption).
  assert (SimA : sim prog (evalP re conv prog) (line_body f line) (fun k => line_body (f' k) line)).
  { apply (sim_line_body_in prog _ f f'). intros x Hx. apply (proj1 (proj2 (evalN_sim re conv prog Hprog n))). apply Hnl. exact Hx. }
  assert (SimA' : sim prog (evalP re conv prog) (line_body f line') (fun k => line_body (f' k) line')).
  { apply (sim_line_body_in prog _ f f'). intros x Hx. apply (proj1 (proj2 (evalN_sim re conv prog Hprog n))). apply Hnl'. exact Hx. }
  destruct (SimA _ _ _ _ Hv A1) as (V1 & E1 & _). destruct (SimA' _ _ _ _ Hv A2) as (V2 & E2 & _).
  destruct (mapM_sim_trace prog _ (line_body f) (fun k => line_body (f' k)) rest SimL _ _ _ _ V1 B1) as (F1 & _ & _).
  destruct (mapM_sim_trace prog _ (line_body f) (fun k => line_body (f' k)) rest SimL _ _ _ _ V2 B2) as (F2 & _ & _).
  rewrite E1 in F1. rewrite E2 in F2.
  pose proof (Forall2_functional _ _ _ (line_den_fun (erase s)) _ _ _ F1 F2) as ->. reflexivity.
Qed.

End Order.

(* every reference to a variable sees the same value, whatever was memoised before and whatever the fuel *)
Theorem variable_value_is_stable re conv prog : nc_prog prog = true ->
  forall name n1 n2 s1 s2 v1 v2 recs1 recs2 s1' s2',
  Valid prog (evalP re conv prog) s1 -> Valid prog (evalP re conv prog) s2 -> erase s1 = erase s2 ->
  ev_resolve (evalN re conv prog n1) name s1 = Done (v1, recs1, s1') ->
  ev_resolve (evalN re conv prog n2) name s2 = Done (v2, recs2, s2') -> v1 = v2.
Proof.
  intros Hprog name n1 n2 s1 s2 v1 v2 recs1 recs2 s1' s2' V1 V2 E R1 R2.
  exact (sim_deterministic prog (evalP re conv prog) _ _ (fun k => ev_resolve (evalP re conv prog k) name)
           s1 s2 v1 v2 recs1 recs2 s1' s2'
           (proj1 (proj2 (proj2 (proj2 (evalN_sim re conv prog Hprog n1)))) name)
           (proj1 (proj2 (proj2 (proj2 (evalN_sim re conv prog Hprog n2)))) name) V1 V2 E R1 R2).
Qed.

(* a clause: valid caches stay valid, the scope stack is handed back, and the status is the memo-free one *)
Theorem clause_memo_free re conv prog : nc_prog prog = true ->
  forall n g s st recs s', nc_clause g = true -> Valid prog (evalP re conv prog) s ->
  ev_clause (evalN re conv prog n) g s = Done (st, recs, s') ->
  Valid prog (evalP re conv prog) s' /\ erase s' = erase s /\
  Ev (fun k => exists recs', ev_clause (evalP re conv prog k) g (erase s) = Done (st, recs', erase s)).
Proof.
  intros Hprog n g s st recs s' Hn Hv H.
  exact (proj1 (proj2 (evalN_sim re conv prog Hprog n)) g Hn _ _ _ _ Hv H).
Qed.

(* non-vacuity: a capture-free program with a memoised query variable, a rule referenced twice (cached status),
   evaluated from the (valid) initial state *)
Example memo_example :
  let re : re_oracle := fun _ _ => ReUnknownPair in
  let conv : conv_oracle := fun _ k => Some k in
  let p := root_path in
  let var := QKey "%v" in
  let cl q op w := GClause (GuardAccessClause (AccessQuery q true) (op, false) w None false) in
  let r1 := mkRule "r" None [] [[RClause (cl [var] OEq (Some (LValue (PInt p 1))))]; [RClause (cl [var] OExists None)]] in
  let ref := GNamedRule (GuardNamedRuleClause "r" false None) in
  let r2 := mkRule "q" None [("w", LAccess (AccessQuery [var] true))] [[RClause ref]; [RClause ref; RClause (cl [QKey "%w"] OExists None)]] in
  let prog := mkRulesFile [("v", LAccess (AccessQuery [QKey "a"] true))] [r1; r2] [] in
  let doc := PMap p [PString p "a"] [("a", PInt p 1)] in
  nc_prog prog = true /\
  match eval_file re conv prog 30 doc with Done (st, _, s') => st = PASS /\ statuses s' <> [] | _ => False end.
Proof. vm_compute. split; [reflexivity|split; [reflexivity|discriminate]]. Qed.
