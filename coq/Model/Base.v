(* Base.v — outcome monad pieces, strings, small list utilities.
   Model files contain no proofs. *)
From Coq Require Export List Bool ZArith NArith String Ascii Lia.
Export ListNotations.
Open Scope string_scope.
Open Scope list_scope.
Open Scope Z_scope.
Infix "+++" := append (right associativity, at level 60).

(* byte-list spelling of a string (the glue writes non-ASCII strings this way) *)
Definition bs (l : list N) : string :=
  fold_right (fun n acc => String (ascii_of_N n) acc) EmptyString l.

(* Error kinds: the variants of rules::errors::Error that evaluation can raise. *)
Inductive err_kind :=
| ENotComparable | EIncompatible | EMissingValue | ERegex | EParse
| ERetrieval | EIncompatibleRetrieval | EMultipleValues | EMissingVariable
| EMissingProperty | EYaml | EJson | EInternal | EOther.

(* Panic sites of the modelled code (file:line at the pinned commit). *)
Inductive panic_site :=
| P_filter_prev_part_unreachable   (* eval_context.rs:752 *)
| P_filter_index_underflow         (* eval_context.rs:724/794 query[query_index-1] with index 0 *)
| P_match_value_unreachable        (* operators.rs:205 *)
| P_regex_unwrap                   (* path_value.rs:256/263 is_match(..).unwrap() *)
| P_index_neg_overflow             (* eval_context.rs:125 / 428 -index on i32::MIN, debug build *)
| P_fn_arg_index                   (* eval_context.rs:1348,1356,1380,1389,1417 args[k][0] *)
| P_substring_slice                (* strings.rs:100 slice inside a char *)
| P_lhs_query_empty                (* eval.rs:193 lhs_query[len-1] on empty query *)
| P_skip_in_values                 (* eval.rs:1185 / 238 unreachable *)
| P_unary_on_binary_op             (* eval.rs:390 unreachable *)
| P_report_unreachable             (* eval_context.rs report_* unreachable / unwrap *)
| P_map_key_missing                (* eval_context.rs:878 unwrap *)
| P_other.

Inductive outcome (A : Type) :=
| Done (a : A)
| Err (e : err_kind)
| Panic (s : panic_site)
| OutOfFuel
| Unknown.   (* oracle miss or a construct the model does not cover: never a result *)
Arguments Done {A} a.
Arguments Err {A} e.
Arguments Panic {A} s.
Arguments OutOfFuel {A}.
Arguments Unknown {A}.

Definition obind {A B} (m : outcome A) (f : A -> outcome B) : outcome B :=
  match m with
  | Done a => f a
  | Err e => Err e
  | Panic s => Panic s
  | OutOfFuel => OutOfFuel
  | Unknown => Unknown
  end.

Fixpoint omapM {A B} (f : A -> outcome B) (l : list A) : outcome (list B) :=
  match l with
  | [] => Done []
  | x :: xs => obind (f x) (fun y => obind (omapM f xs) (fun ys => Done (y :: ys)))
  end.

(* association lists keyed by strings; last definition wins is obtained by
   searching a reversed list where needed *)
Fixpoint assoc {A} (k : string) (l : list (string * A)) : option A :=
  match l with
  | [] => None
  | (k', v) :: r => if String.eqb k k' then Some v else assoc k r
  end.

Fixpoint assoc_set {A} (k : string) (v : A) (l : list (string * A)) : list (string * A) :=
  match l with
  | [] => [(k, v)]
  | (k', v') :: r => if String.eqb k k' then (k, v) :: r else (k', v') :: assoc_set k v r
  end.

(* IndexMap::insert : overwrite in place, else append *)
Definition imap_insert {A} := @assoc_set A.

Definition str_is_empty (s : string) : bool :=
  match s with EmptyString => true | _ => false end.

Fixpoint str_prefix (p s : string) : bool :=
  match p, s with
  | EmptyString, _ => true
  | String a p', String b s' => Ascii.eqb a b && str_prefix p' s'
  | _, EmptyString => false
  end.

(* Rust str::contains on bytes (valid UTF-8 needles match only at char
   boundaries, so byte-level containment is the same relation) *)
Fixpoint str_contains (s needle : string) : bool :=
  str_prefix needle s ||
  match s with
  | EmptyString => false
  | String _ s' => str_contains s' needle
  end.

Definition str_concat (l : list string) : string := fold_right append "" l.

Fixpoint str_join (sep : string) (l : list string) : string :=
  match l with
  | [] => ""
  | [x] => x
  | x :: r => x +++ sep +++ str_join sep r
  end.

(* decimal rendering of integers (Rust Display for i32/i64/usize) *)
Fixpoint pos_digits (fuel : nat) (n : N) (acc : string) : string :=
  match fuel with
  | O => acc
  | S f =>
    let d := N.modulo n 10 in
    let acc' := String (ascii_of_N (48 + d)) acc in
    let q := N.div n 10 in
    if N.eqb q 0 then acc' else pos_digits f q acc'
  end.
Definition N_to_string (n : N) : string := pos_digits (S (N.to_nat (N.log2 n))) n "".
Definition Z_to_string (z : Z) : string :=
  match z with
  | Z0 => "0"
  | Zpos p => N_to_string (Npos p)
  | Zneg p => "-" +++ N_to_string (Npos p)
  end.

(* Rust str::parse::<i32>() grammar: optional sign, one or more ASCII digits,
   value within range. Returns the value. *)
Definition is_digit (a : ascii) : bool :=
  let n := N_of_ascii a in N.leb 48 n && N.leb n 57.
Fixpoint digits_val (s : string) (acc : Z) : option Z :=
  match s with
  | EmptyString => Some acc
  | String a r => if is_digit a then digits_val r (acc * 10 + Z.of_N (N_of_ascii a - 48)) else None
  end.
Definition parse_int_str (s : string) : option Z :=
  match s with
  | EmptyString => None
  | String a r =>
    if Ascii.eqb a "-" then
      match r with EmptyString => None | _ => option_map Z.opp (digits_val r 0) end
    else if Ascii.eqb a "+" then
      match r with EmptyString => None | _ => digits_val r 0 end
    else digits_val s 0
  end.
Definition i32_min : Z := -2147483648.
Definition i32_max : Z := 2147483647.
Definition i64_min : Z := -9223372036854775808.
Definition i64_max : Z := 9223372036854775807.
Definition parse_i32 (s : string) : option Z :=
  match parse_int_str s with
  | Some z => if Z.leb i32_min z && Z.leb z i32_max then Some z else None
  | None => None
  end.
Definition parse_i64 (s : string) : option Z :=
  match parse_int_str s with
  | Some z => if Z.leb i64_min z && Z.leb z i64_max then Some z else None
  | None => None
  end.

Fixpoint list_eqb {A} (eqb : A -> A -> bool) (l1 l2 : list A) : bool :=
  match l1, l2 with
  | [], [] => true
  | x :: r1, y :: r2 => eqb x y && list_eqb eqb r1 r2
  | _, _ => false
  end.

Definition option_eqb {A} (eqb : A -> A -> bool) (a b : option A) : bool :=
  match a, b with
  | None, None => true
  | Some x, Some y => eqb x y
  | _, _ => false
  end.
