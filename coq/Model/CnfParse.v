(* CnfParse.v — lines of or-joined clauses as rules/parser.rs reads them: `or_term` / `or_join` (1937-1950), `disjunction_clauses`
   (separated_list1 of clauses joined by or / OR / |OR| with layout before and at least one blank, line break or comment after),
   `cnf_clauses` (1288-1330: disjunctions until one does not start; none at all is a Failure), `rule_clause` (1232-1283: a rule
   name with its lookahead and optional message), and `single_clauses` (1349: the conditions of a `when` - access clause, else
   parameterised call (outside the model: PUnk), else rule reference).  Generic in the element parser.  No proofs here. *)
From GV.Model Require Import Ast.
From GV.Model Require Import ValueParse QueryParse OpParse ClauseParse.
Local Open Scope string_scope.

(* or_join: layout, or / OR / |OR|, one or more blanks / line breaks / comments *)
Definition or_join (s : string) : option string :=
  match alt_tags kw_or_term (skip_ws_comments s) with
  | Some r => if starts_layout r then Some (skip_ws_comments r) else None
  | None => None
  end.

Section Cnf.
Context {A : Type}.
Variable elem : nat -> string -> pres A.     (* the clause parser, with its fuel *)

(* disjunction_clauses(non_empty = true): separated_list1(or_join, preceded(layout, elem)) *)
Definition disjunction (fuel : nat) (s : string) : pres (list A) :=
  match elem fuel (skip_ws_comments s) with
  | POk v s1 => sep_loop or_join (fun t => elem fuel (skip_ws_comments t)) fuel [v] s1
  | PErr => PErr
  | PFail => PFail
  | PUnk => PUnk
  | POof => POof
  end.

(* cnf_clauses: disjunctions until one does not start *)
Fixpoint cnf_loop (fuel : nat) (acc : list (list A)) (s : string) : pres (list (list A)) :=
  match fuel with
  | O => POof
  | S n =>
      match disjunction n s with
      | POk d r => cnf_loop n (acc ++ [d]) r
      | PErr => match acc with [] => PFail | _ => POk acc s end
      | PFail => PFail
      | PUnk => PUnk
      | POof => POof
      end
  end.
Definition cnf (fuel : nat) (s : string) : pres (list (list A)) := cnf_loop fuel [] s.
End Cnf.

(* ---------------------------------------------------------------- rule references *)
Record pnamed := mkPN { pn_name : string; pn_neg : bool; pn_msg : option string }.

Definition newline_start (s : string) : bool := str_prefix (String (ascii_of_N 10) EmptyString) s || str_prefix (String (ascii_of_N 13) (String (ascii_of_N 10) EmptyString)) s.

(* rule_clause: optional not, a name, then the end of input / blanks and a line break / blanks and a comment / blanks and `{` /
   an or-join: the reference ends there; otherwise a custom message must follow (cut) *)
(* the lookahead after a rule name: the end of the input, blanks and a line break, blanks and a comment, blanks and `{`, an or-join *)
Definition reference_ends (r : string) : bool :=
  let b := snd (span_while is_blank r) in
  match r with EmptyString => true | _ => false end
  || newline_start b
  || match b with String c _ => is_hash c || Ascii.eqb c "{" | EmptyString => false end
  || match or_join r with Some _ => true | None => false end.

Definition rule_clause (s : string) : pres pnamed :=
  let '(neg, s1) := match not_kw s with Some r => (true, r) | None => (false, s) end in
  match var_name s1 with
  | POk name r =>
      if reference_ends r then POk (mkPN name neg None) r
      else match custom_message (snd (span_while is_blank r)) with
           | POk m r2 => POk (mkPN name neg (Some m)) r2
           | PErr => PFail
           | PFail => PFail
           | PUnk => PUnk
           | POof => POof
           end
  | PErr => PErr
  | PFail => PFail
  | PUnk => PUnk
  | POof => POof
  end.

(* parameterized_rule_call_clause starts with an optional not, a name and `(`: outside the model *)
Definition call_like (s : string) : pres unit :=
  let s1 := match not_kw s with Some r => r | None => s end in
  function_like s1.

(* ---------------------------------------------------------------- the conditions of a when *)
Inductive pwhen := PWClause (c : pclause) | PWNamed (n : pnamed).

Section WithRegex.
Variable regex_valid : string -> bool.

Definition when_elem (fuel : nat) (s : string) : pres pwhen :=
  match clause regex_valid fuel s with
  | PErr =>
      match call_like s with
      | PErr => pmap PWNamed (rule_clause s)
      | other => pmap (fun _ => PWNamed (mkPN EmptyString false None)) other
      end
  | other => pmap PWClause other
  end.

Definition single_clauses (fuel : nat) (s : string) : pres (list (list pwhen)) := cnf when_elem fuel s.
Definition single_clauses_top (s : string) : pres (list (list pwhen)) := single_clauses (S (S (String.length s))) s.
End WithRegex.

(* ---------------------------------------------------------------- the tie *)
Inductive impl_when :=
| IWClause (neg : bool) (q : access_query) (o : cmp_op) (n : bool) (w : impl_rhs) (msg : option string)
| IWNamed (name : string) (neg : bool) (msg : option string)
| IWOther.
Inductive impl_conds := ICNOk (l : list (list impl_when)) (offset : N) | ICNError | ICNFailure | ICNOther.

Definition when_agree (m : pwhen) (i : impl_when) : bool :=
  match m, i with
  | PWClause c, IWClause neg q o n w msg =>
      Bool.eqb (pc_neg c) neg && aq_eqb (pc_query c) q && cmp_op_eqb (fst (pc_cmp c)) o && Bool.eqb (snd (pc_cmp c)) n
      && rhs_agree (pc_rhs c) w && ostr_eqb (pc_msg c) msg
  | PWNamed x, IWNamed name neg msg => String.eqb (pn_name x) name && Bool.eqb (pn_neg x) neg && ostr_eqb (pn_msg x) msg
  | _, _ => false
  end.
Fixpoint list_agree {X Y} (f : X -> Y -> bool) (a : list X) (b : list Y) : bool :=
  match a, b with
  | [], [] => true
  | x :: a', y :: b' => f x y && list_agree f a' b'
  | _, _ => false
  end.

Definition conds_obs (regex_valid : string -> bool) (text : string) (i : impl_conds) : pcl_verdict :=
  match single_clauses_top regex_valid text, i with
  | PUnk, _ => PLNotModelled
  | POk l r, ICNOk l' off =>
      if list_agree (list_agree when_agree) l l' && N.eqb (N.of_nat (String.length text - String.length r)) off then PLAgree else PLDisagree
  | PErr, ICNError => PLAgreeReject
  | PFail, ICNFailure => PLAgreeReject
  | _, _ => PLDisagree
  end.
