(* TagProps.v — short-form tags (C11), over the tables regenerated from the source on every run. *)
From GV.Model Require Import Tags.

(* short_form_to_long never reaches its unreachable!(): every tag of the two tables has a long form *)
Theorem every_tag_has_a_long_form :
  forallb (fun t => match long_of t with Some _ => true | None => false end)
          (single_value_tags ++ sequence_value_tags) = true.
Proof. vm_compute. reflexivity. Qed.

Lemma mem_in : forall t l, mem t l = true -> In t l.
Proof.
  intros t l H. unfold mem in H. apply existsb_exists in H as (x & Hx & E). apply String.eqb_eq in E. now subst.
Qed.

Lemma tag_long : forall t, In t (single_value_tags ++ sequence_value_tags) -> exists l, long_of t = Some l.
Proof.
  intros t Hin. pose proof every_tag_has_a_long_form as H. rewrite forallb_forall in H.
  specialize (H t Hin). destruct (long_of t); [eauto|discriminate].
Qed.

(* a scalar tagged with a single-value tag is loaded as {long: scalar} by both paths *)
Theorem single_value_short_is_long : forall P t (p : P),
  mem t single_value_tags = true ->
  exists l, long_of t = Some l /\ cli_scalar t p = AsMap l p /\ serde_tagged t p = AsMap l p.
Proof.
  intros P t p H. destruct (tag_long t) as (l & Hl).
  { apply in_or_app. left. now apply mem_in. }
  exists l. unfold cli_scalar, serde_tagged, with_long. rewrite H, Hl. cbn. auto.
Qed.

(* a sequence tagged with a sequence-value tag is loaded as {long: [...]} by both paths *)
Theorem sequence_value_short_is_long : forall P t (p : P),
  mem t sequence_value_tags = true ->
  exists l, long_of t = Some l /\ cli_sequence t p = AsMap l p /\ serde_tagged t p = AsMap l p.
Proof.
  intros P t p H. destruct (tag_long t) as (l & Hl).
  { apply in_or_app. right. now apply mem_in. }
  exists l. unfold cli_sequence, serde_tagged, with_long. rewrite H, Hl, Bool.orb_true_r. cbn. auto.
Qed.

(* the documented examples *)
Theorem documented_long_forms :
  long_of "Ref" = Some "Ref" /\ long_of "GetAtt" = Some "Fn::GetAtt" /\ long_of "Join" = Some "Fn::Join" /\
  long_of "Sub" = Some "Fn::Sub" /\ long_of "Select" = Some "Fn::Select" /\ long_of "If" = Some "Fn::If" /\
  mem "Ref" single_value_tags = true /\ mem "GetAtt" single_value_tags = true /\ mem "GetAtt" sequence_value_tags = true /\
  mem "Join" sequence_value_tags = true.
Proof. repeat split; vm_compute; reflexivity. Qed.

(* whatever the payload kind, the libyaml loader and the serde path load a tagged node alike *)
Theorem cli_agrees_with_serde : forall P t (p : P),
  cli_scalar t p = serde_tagged t p /\ cli_sequence t p = serde_tagged t p.
Proof.
  intros P t p. unfold cli_scalar, cli_sequence, serde_tagged. split; [reflexivity|].
  now rewrite Bool.orb_comm.
Qed.
