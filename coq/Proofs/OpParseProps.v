(* OpParseProps.v — the operator grammar (Model/OpParse.v = parser.rs value_cmp): every documented spelling of a keyword
   operator gives the same operator; `not ` / `NOT ` (any run of blanks) and `!` in front of it give the same negated
   operator; a text that starts with a negation never yields an un-negated operator; the parser consumes input. *)
From Coq Require Import Lia.
From GV.Model Require Import Ast.
From GV.Model Require Import ValueParse OpParse.
From GV.Proofs Require Import LexProps ValueParseProps ValueSpellProps.
Local Open Scope string_scope.
Local Open Scope nat_scope.

(* the operator each keyword table stands for *)
Definition op_tables : list (cmp_op * list string) :=
  [(OIn, kw_in_keyword); (OExists, kw_exists); (OEmpty, kw_empty); (OIsString, kw_is_string); (OIsList, kw_is_list);
   (OIsMap, kw_is_struct); (OIsBool, kw_is_bool); (OIsInt, kw_is_int); (OIsNull, kw_is_null); (OIsFloat, kw_is_float)].

Definition is_keyword_spelling (o : cmp_op) (t : string) : Prop := exists kw, In (o, kw) op_tables /\ In t kw.

Ltac each_tag H := repeat (destruct H as [<-|H]; [intros; reflexivity|]); destruct H.

Theorem keyword_spelled : forall o t, is_keyword_spelling o t -> forall rest, keyword_op (t +++ rest) = POk o rest.
Proof.
  intros o t (kw & Hk & Ht). unfold op_tables in Hk.
  repeat (destruct Hk as [Hk|Hk]; [inversion Hk; subst; clear Hk; revert Ht; let H := fresh in (intros H; each_tag H)|]). destruct Hk.
Qed.

Theorem plain_keyword_operator : forall o t, is_keyword_spelling o t -> forall rest, value_cmp (t +++ rest) = POk (o, false) rest.
Proof.
  intros o t (kw & Hk & Ht). unfold op_tables in Hk.
  repeat (destruct Hk as [Hk|Hk]; [inversion Hk; subst; clear Hk; revert Ht; let H := fresh in (intros H; each_tag H)|]). destruct Hk.
Qed.

Lemma keyword_first : forall o t, is_keyword_spelling o t -> exists c r, t = String c r /\ is_blank c = false /\ Ascii.eqb c "=" = false.
Proof.
  intros o t (kw & Hk & Ht). unfold op_tables in Hk.
  repeat (destruct Hk as [Hk|Hk]; [inversion Hk; subst; clear Hk; revert Ht;
    let H := fresh in (intros H; repeat (destruct H as [<-|H]; [eexists; eexists; split; [reflexivity|split; reflexivity]|]); destruct H)|]). destruct Hk.
Qed.

(* `!` directly in front *)
Lemma value_cmp_bang c s : c <> "="%char -> value_cmp (String "!" (String c s)) = pmap (fun o => (o, true)) (keyword_op (String c s)).
Proof.
  intros H. destruct c as [[] [] [] [] [] [] [] []]; try (exfalso; apply H; reflexivity); reflexivity.
Qed.

(* `not` / `NOT` and at least one blank in front *)
Lemma value_cmp_not_word w b s : In w kw_not_words -> blanks b -> b <> EmptyString ->
  (match s with String c _ => is_blank c = false | EmptyString => True end) ->
  value_cmp (w +++ (b +++ s)) = pmap (fun o => (o, true)) (keyword_op s).
Proof.
  intros Hw Hb Hne Hs. unfold kw_not_words in Hw.
  destruct Hw as [<-|[<-|[]]]; unfold value_cmp; cbn [append str_prefix Ascii.eqb Bool.eqb andb]; unfold symbol_op, tagged;
    cbn [alt_tags str_prefix Ascii.eqb Bool.eqb andb palt]; unfold other_operations, not_kw, kw_not_words; cbn [not_words]; unfold not_word;
    cbn [str_prefix Ascii.eqb Bool.eqb andb String.length drop]; rewrite (span_while_all is_blank b s Hb Hs);
    destruct b; try contradiction; reflexivity.
Qed.

Theorem negated_keyword_operator : forall o t, is_keyword_spelling o t -> forall w b rest,
  In w kw_not_words -> blanks b -> b <> EmptyString ->
  value_cmp (w +++ (b +++ (t +++ rest))) = POk (o, true) rest /\ value_cmp (String "!" (t +++ rest)) = POk (o, true) rest.
Proof.
  intros o t Ht w b rest Hw Hb Hne. destruct (keyword_first o t Ht) as (c & r & -> & Hc & He). split.
  2: { cbn [append]. rewrite value_cmp_bang; [|intros ->; discriminate]. change (String c (r +++ rest)) with (String c r +++ rest). now rewrite (keyword_spelled o _ Ht). }
  rewrite (value_cmp_not_word w b _ Hw Hb Hne); [|exact Hc]. now rewrite (keyword_spelled o _ Ht).
Qed.

Corollary the_three_negations_agree : forall o t, is_keyword_spelling o t -> forall b1 b2 rest,
  blanks b1 -> b1 <> EmptyString -> blanks b2 -> b2 <> EmptyString ->
  value_cmp ("not" +++ (b1 +++ (t +++ rest))) = value_cmp ("NOT" +++ (b2 +++ (t +++ rest))) /\
  value_cmp ("not" +++ (b1 +++ (t +++ rest))) = value_cmp (String "!" (t +++ rest)).
Proof.
  intros o t Ht b1 b2 rest H1 N1 H2 N2.
  destruct (negated_keyword_operator o t Ht "not" b1 rest (or_introl eq_refl) H1 N1) as [E1 E3].
  destruct (negated_keyword_operator o t Ht "NOT" b2 rest (or_intror (or_introl eq_refl)) H2 N2) as [E2 _].
  rewrite E1, E2, E3. split; reflexivity.
Qed.

(* ---------------------------------------------------------------- a negation is never dropped *)
Lemma tagged_ok {T} (x : T) tags s y r : tagged x tags s = POk y r -> y = x /\ alt_tags tags s = Some r.
Proof. unfold tagged. destruct (alt_tags tags s); [|discriminate]. intros H. inversion H; subst. auto. Qed.

Lemma symbol_not_negation s x r : symbol_op s = POk x r -> snd x = false -> not_kw s = None.
Proof.
  intros H Hx. destruct s as [|c s']; [discriminate|].
  destruct c as [[] [] [] [] [] [] [] []]; try reflexivity; cbn in H; try discriminate H.
  destruct s' as [|c2 s'']; [discriminate|].
  destruct c2 as [[] [] [] [] [] [] [] []]; cbn in H; try discriminate H.
  inversion H; subst. discriminate Hx.
Qed.

Theorem negation_is_never_dropped : forall s o neg r r', not_kw s = Some r' -> value_cmp s = POk (o, neg) r -> neg = true.
Proof.
  intros s o neg r r' Hn H. unfold value_cmp in H. destruct (str_prefix "<<" s); [discriminate|].
  apply palt_ok in H as [H|[_ H]].
  - destruct neg; [reflexivity|]. rewrite (symbol_not_negation s _ _ H eq_refl) in Hn. discriminate.
  - unfold other_operations in H. rewrite Hn in H. apply pmap_ok in H as (a & _ & E). now inversion E.
Qed.

(* ---------------------------------------------------------------- consumption *)
Lemma tagged_len {T} (x : T) tags s y r : Forall (fun t => t <> EmptyString) tags -> tagged x tags s = POk y r -> len r < len s.
Proof. intros F H. apply tagged_ok in H as [_ H]. eapply alt_tags_len; eauto. Qed.

Lemma keyword_op_len s o r : keyword_op s = POk o r -> len r < len s.
Proof.
  unfold keyword_op, is_type_ops. intros H.
  repeat (apply palt_ok in H as [H|[_ H]]; [eapply tagged_len; [|exact H]; repeat constructor; discriminate|]).
  eapply tagged_len; [|exact H]; repeat constructor; discriminate.
Qed.

Lemma not_kw_len s r : not_kw s = Some r -> len r < len s.
Proof.
  unfold not_kw, kw_not_words, kw_not_chars. cbn [not_words]. unfold not_word.
  assert (G : forall t, t <> EmptyString -> forall r0, (if str_prefix t s then match span_while is_blank (drop (len t) s) with (EmptyString, _) => None | (_, r1) => Some r1 end else None) = Some r0 -> len r0 < len s).
  { intros t Ht r0. destruct (str_prefix t s) eqn:E; [|discriminate]. apply drop_len_prefix in E.
    destruct (span_while is_blank (drop (len t) s)) as [a b] eqn:E2. apply span_while_len in E2. destruct a; [discriminate|]. intros H. inversion H; subst.
    destruct t; [contradiction|]. cbn in *. lia. }
  destruct (if str_prefix "not" s then _ else None) eqn:E1.
  - intros H. inversion H; subst. eapply (G "not"); [discriminate|exact E1].
  - destruct (if str_prefix "NOT" s then _ else None) eqn:E2.
    + intros H. inversion H; subst. eapply (G "NOT"); [discriminate|exact E2].
    + intros H. eapply alt_tags_len; [|exact H]. repeat constructor; discriminate.
Qed.

Theorem value_cmp_consumes : forall s x r, value_cmp s = POk x r -> len r < len s.
Proof.
  intros s x r. unfold value_cmp. destruct (str_prefix "<<" s); [discriminate|]. intros H. apply palt_ok in H as [H|[_ H]].
  - unfold symbol_op in H. repeat (apply palt_ok in H as [H|[_ H]]; [eapply tagged_len; [|exact H]; repeat constructor; discriminate|]).
    eapply tagged_len; [|exact H]; repeat constructor; discriminate.
  - unfold other_operations in H. destruct (not_kw s) as [r1|] eqn:E; apply pmap_ok in H as (a & H & _); apply keyword_op_len in H; [apply not_kw_len in E; lia|exact H].
Qed.

Theorem message_opener_is_not_an_operator : forall s, value_cmp ("<<" +++ s) = PErr.
Proof. intros s. reflexivity. Qed.
