(* C02 — every composite status follows from its parts (CNF, when, blocks, rule, file).
   Pinned statements only. *)
From GV.Model Require Import SEval Wf.
From GV.Proofs Require Import StatusProps EvalLaws FuelProps TableProps.
From GV.Generated Require Import EvalTables.

(* a line of `or`-joined clauses, any number of alternatives, any clause evaluator *)
Theorem C02_or_line : forall T (f : T -> M status) line s st recs s',
  line_body f line s = Done (st, recs, s') ->
  exists sts ch,
    disj_trace f line s sts ch s' /\ st = disjunction_status sts /\ stops_at_pass sts = true /\
    match line with
    | _ :: _ :: _ => exists c, recs = [Rec c ch] /\ container_status c = Some st
    | _ => recs = ch
    end.
Proof. exact @line_body_law. Qed.
Print Assumptions C02_or_line.

Theorem C02_or_line_status : forall l,
  (disjunction_status l = PASS <-> In PASS l) /\
  (disjunction_status l = FAIL <-> ~ In PASS l /\ In FAIL l) /\
  (disjunction_status l = SKIP <-> ~ In PASS l /\ ~ In FAIL l).
Proof. exact disjunction_status_spec. Qed.
Print Assumptions C02_or_line_status.

(* a block, rule body, when body or filter: every line evaluated, FAIL/PASS/SKIP rule *)
Theorem C02_body : forall T (f : T -> M status) cnf s st recs s',
  cnf_body f cnf s = Done (st, recs, s') ->
  exists sts, lines_trace f cnf s sts recs s' /\ List.length sts = List.length cnf /\
              st = fold_fail_pass_skip sts.
Proof. exact @cnf_body_law. Qed.
Print Assumptions C02_body.

Theorem C02_body_status : forall l,
  (fold_fail_pass_skip l = FAIL <-> In FAIL l) /\
  (fold_fail_pass_skip l = PASS <-> ~ In FAIL l /\ In PASS l) /\
  (fold_fail_pass_skip l = SKIP <-> ~ In FAIL l /\ ~ In PASS l).
Proof. exact fold_fail_pass_skip_spec. Qed.
Print Assumptions C02_body_status.

Theorem C02_cnf_any_shape : forall lines,
  (conj_status lines = FAIL <-> exists l, In l lines /\ ~ In PASS l /\ In FAIL l) /\
  (conj_status lines = PASS <->
     (forall l, In l lines -> In PASS l \/ ~ In FAIL l) /\ exists l, In l lines /\ In PASS l).
Proof. exact conj_status_spec. Qed.
Print Assumptions C02_cnf_any_shape.

(* when: not PASS => SKIP and the body is neither evaluated nor recorded *)
Theorem C02_when_block : forall re prog r conds b s st recs s',
  when_block_body re prog r conds b s = Done (st, recs, s') ->
  exists cst crecs s1,
    cnf_body (when_clause_body re prog r) conds s = Done (cst, crecs, s1) /\
    ((cst <> PASS /\ st = SKIP /\ s' = s1 /\
      exists c1 c2, recs = [Rec c1 [Rec c2 crecs]] /\ container_status c1 = Some SKIP /\
                    container_status c2 = Some cst)
     \/
     (cst = PASS /\ exists brecs,
        gblock_body r b s1 = Done (st, brecs, s') /\
        exists c1 c2, recs = [Rec c1 (Rec c2 crecs :: brecs)] /\ container_status c1 = Some st /\
                      container_status c2 = Some PASS)).
Proof. exact when_block_law. Qed.
Print Assumptions C02_when_block.

Theorem C02_rule_when : forall re prog r x conds s st recs s',
  rule_conditions x = Some conds ->
  rule_body re prog r x s = Done (st, recs, s') ->
  exists cst crecs s1,
    cnf_body (when_clause_body re prog r) conds s = Done (cst, crecs, s1) /\
    (cst <> PASS -> st = SKIP /\ s' = s1 /\
       exists c1 c2, recs = [Rec c1 [Rec c2 crecs]] /\ container_status c1 = Some SKIP /\
                     container_status c2 = Some cst).
Proof. exact rule_when_law. Qed.
Print Assumptions C02_rule_when.

(* a clause naming a rule *)
Theorem C02_named_clause : forall prog r dep negation custom s st recs s',
  named_clause_body prog r (GuardNamedRuleClause dep negation custom) s = Done (st, recs, s') ->
  exists rst ch, rule_status_body prog r dep s = Done (rst, ch, s') /\
                 st = (if Bool.eqb (status_eqb rst PASS) negation then FAIL else PASS) /\
                 exists c, recs = [Rec c ch] /\ container_status c = Some st.
Proof. exact named_clause_law. Qed.
Print Assumptions C02_named_clause.

(* the file, and the root of the record *)
Theorem C02_file : forall re conv prog fuel doc st recs s',
  eval_file re conv prog fuel doc = Done (st, recs, s') ->
  exists sts ch,
    mapM (ev_rule (evalN re conv prog fuel)) (rf_rules prog) (init_state prog doc) = Done (sts, ch, s') /\
    st = fold_fail_pass_skip sts /\ List.length sts = List.length (rf_rules prog) /\
    recs = [Rec (KFileCheck st) ch].
Proof. exact file_law. Qed.
Print Assumptions C02_file.

(* every record closed by `node` carries the status computed for it *)
Theorem C02_node_status : forall A (m : M A) mk s a recs s',
  node m mk s = Done (a, recs, s') ->
  exists r, recs = [r] /\ container_status (rec_container r) = container_status (mk a).
Proof. exact @node_status. Qed.
Print Assumptions C02_node_status.

(* the fuel of the model only decides whether an evaluation finishes: whatever is answered with some fuel (a status, an
   error, a panic site) is answered with any larger fuel - so the statuses above do not depend on it *)
Theorem C02_fuel_irrelevant : forall re conv prog (n m : nat) doc,
  (n <= m)%nat ->
  eval_file re conv prog n doc <> OutOfFuel ->
  eval_file re conv prog m doc = eval_file re conv prog n doc.
Proof. exact eval_file_fuel_irrelevant. Qed.
Print Assumptions C02_fuel_irrelevant.

Theorem C02_fuel_monotone : forall re conv prog (n m : nat),
  (n <= m)%nat -> ev_le (evalN re conv prog n) (evalN re conv prog m).
Proof. exact evalN_mono. Qed.
Print Assumptions C02_fuel_monotone.

(* Status::and of the model is the truth table obtained by interpreting the match arms of the Rust source
   (rules/mod.rs; Generated/EvalTables.v is rewritten from the source on every run) *)
Theorem C02_status_and_is_the_source_table : forall a b,
  lookup3 (status_name a) (status_name b) src_status_and = Some (status_name (status_and a b)).
Proof. exact status_and_is_the_source_table. Qed.
Print Assumptions C02_status_and_is_the_source_table.
