#!/usr/bin/env python3
"""Sensitivity of the tie: mutate the hand-written Coq MODEL (not the Rust code) and see whether the correspondence run notices.
A model mutant that no correspondence distinguishes from the original marks a part of the model the implementation is not
really compared on.  Not a check (nothing here is registered in MANIFEST.json): an experiment whose table goes to
seeded/MODEL_MUTANTS.md.

usage: tools/model_mutants.py <n> <seed> [checks, default C02,C01,C03]
Each mutant: scratch copy of /verif (rsync, /tmp/modmut), one textual mutation in coq/Model/{SEval,Operators,Status,Compare}.v,
`make` of the Model files only, then `./check Cnn quick` with VERIF_DIR pointing at the copy; the verdict is taken from the
correspondence lines of the output (the proof obligations break as well - that is recorded separately)."""
import os, re, sys, random, subprocess, json, shutil

LAB = '/tmp/modmut'
FILES = ['coq/Model/SEval.v', 'coq/Model/Operators.v', 'coq/Model/Status.v', 'coq/Model/Compare.v']
# (regex, replacement) applied to ONE occurrence
OPS = [
    (r'\bPASS\b', 'FAIL'), (r'\bFAIL\b', 'PASS'), (r'\bSKIP\b', 'FAIL'),
    (r'negb \(', '('), (r'\bNat\.ltb\b', 'Nat.leb'), (r'\bNat\.leb\b', 'Nat.ltb'),
    (r'&&', '||'), (r'\|\|', '&&'), (r'\btrue\b', 'false'), (r'\bfalse\b', 'true'),
    (r'if all then', 'if negb all then'), (r'if snd c then', 'if negb (snd c) then'), (r'if inverse then', 'if negb inverse then'),
    (r'\(S qi\)', 'qi'), (r'filter is_resolved result', 'result'), (r'QResolved', 'QLiteral'), (r'QLiteral', 'QResolved'),
    (r'fold_fail_pass_skip', 'fold_pass_fail_skip'), (r'fold_pass_fail_skip', 'fold_fail_pass_skip'),
    (r'is_unary \(fst c\)', 'negb (is_unary (fst c))'), (r'Some Lt', 'Some Gt'), (r'ord_le', 'ord_lt'), (r'ord_ge', 'ord_gt'),
]


def sites():
    out = []
    for f in FILES:
        text = open(os.path.join('/verif', f)).read()
        # do not mutate comments
        spans = [(m.start(), m.end()) for m in re.finditer(r'\(\*.*?\*\)', text, re.S)]
        for oi, (pat, rep) in enumerate(OPS):
            for m in re.finditer(pat, text):
                if any(a <= m.start() < b for a, b in spans):
                    continue
                line = text.count('\n', 0, m.start()) + 1
                out.append((f, oi, m.start(), m.end(), line))
    return out


def main():
    n, seed = int(sys.argv[1]), int(sys.argv[2])
    checks = (sys.argv[3] if len(sys.argv) > 3 else 'C02,C01,C03').split(',')
    rng = random.Random(seed)
    allsites = sites()
    chosen = rng.sample(allsites, min(n, len(allsites)))
    rows = []
    for k, (f, oi, a, b, line) in enumerate(chosen):
        subprocess.run(['rsync', '-a', '--delete', '--exclude', '.cache', '--exclude', 'work', '--exclude', '.git', '--exclude', 'evidence',
                        '/verif/', LAB + '/'], check=True)
        os.makedirs(LAB + '/.cache', exist_ok=True)
        for sub in ('target', 'target-cli'):
            dst = os.path.join(LAB, '.cache', sub)
            if not os.path.exists(dst):
                os.symlink(os.path.join('/verif/.cache', sub), dst)
        p = os.path.join(LAB, f)
        text = open(p).read()
        old = text[a:b]
        new = re.sub(OPS[oi][0], OPS[oi][1], old, count=1)
        open(p, 'w').write(text[:a] + new + text[b:])
        ctx = text[max(0, text.rfind('\n', 0, a) + 1): text.find('\n', b)].strip()[:120]
        mk = subprocess.run('cd %s/coq && timeout 900 make -f Makefile.coq -j16 Model/Check.vo Model/CheckSpec.vo Model/CheckP.vo Model/Strat.vo 2>&1 | tail -3' % LAB,
                            shell=True, stdout=subprocess.PIPE).stdout.decode()
        builds = 'Error' not in mk
        res = {}
        if builds:
            env = dict(os.environ, VERIF_DIR=LAB, VERIF_EVIDENCE_DIR=LAB + '/evidence-mm', VERIF_JOBS='8')
            for c in checks:
                out = subprocess.run('cd %s && timeout 1500 ./check %s quick 2>&1' % (LAB, c), shell=True, env=env, stdout=subprocess.PIPE).stdout.decode()
                corr = len(re.findall(r'disagree|differs from|not explained|does not equal|requires', out))
                proof = 'proof obligations' in out
                res[c] = {'correspondence_lines': corr, 'proofs_break': proof, 'violation': 'VIOLATION property' in out}
        killed = builds and any(v['correspondence_lines'] > 0 for v in res.values())
        rows.append({'k': k, 'file': f, 'line': line, 'op': '%s -> %s' % (OPS[oi][0], OPS[oi][1]), 'context': ctx, 'model_builds': builds,
                     'killed_by_correspondence': killed, 'proofs_break': any(v['proofs_break'] for v in res.values()) if builds else None, 'checks': res})
        print(json.dumps(rows[-1]), flush=True)
    json.dump(rows, open('/tmp/model_mutants_%d.json' % seed, 'w'), indent=1)
    b = [r for r in rows if r['model_builds']]
    print('SUMMARY mutants=%d model_builds=%d killed_by_correspondence=%d proofs_break=%d survived_both=%d' % (
        len(rows), len(b), sum(r['killed_by_correspondence'] for r in b), sum(bool(r['proofs_break']) for r in b),
        sum(1 for r in b if not r['killed_by_correspondence'] and not r['proofs_break'])))


if __name__ == '__main__':
    main()
